package c16lib

import (
	"fmt"
	"math/rand"
)

// Gen draws schemas from the grammar IsSchema of spec/Introspect.tla: up to
// MaxTypes user types besides Query over all six kinds, fields with arguments,
// interface hierarchies (implementors carry their OWN description /
// deprecation on inherited fields and arguments), unions, enums, inputs,
// scalars, directive definitions, typed default values of every kind, root
// operation types, descriptions and a deprecation on every element that can
// carry one. TLC checks WellFormed on every schema it is fed, so a drift
// between this generator and the specification is noticed (exit 2).
type Gen struct {
	R        *rand.Rand
	MaxTypes int
}

var genKinds = []string{"OBJECT", "OBJECT", "INTERFACE", "INTERFACE", "UNION", "ENUM", "INPUT_OBJECT", "INPUT_OBJECT", "SCALAR"}
var genLocs = []string{"QUERY", "MUTATION", "SUBSCRIPTION", "FIELD", "FRAGMENT_DEFINITION",
	"FRAGMENT_SPREAD", "INLINE_FRAGMENT", "VARIABLE_DEFINITION", "SCHEMA",
	"SCALAR", "OBJECT", "FIELD_DEFINITION", "ARGUMENT_DEFINITION", "INTERFACE",
	"UNION", "ENUM", "ENUM_VALUE", "INPUT_OBJECT", "INPUT_FIELD_DEFINITION"}
var genStrClasses = []string{"s_plain", "s_empty", "s_quote", "s_nl", "s_uni", "s_ctl",
	"sc_trail", "sc_tabend", "sc_lead", "sc_wsline", "sc_tick", "sc_tq", "sc_nonbmp", "sc_long", "sc_cr", "sc_endsp", "sc_bs"}

func (g *Gen) desc(n *int) string {
	if g.R.Intn(2) == 0 {
		return ""
	}
	*n++
	return fmt.Sprintf("d%d", *n)
}

func (g *Gen) dep(n *int) Dep {
	switch g.R.Intn(4) {
	case 0:
		return Dep{On: "t"}
	case 1:
		*n++
		return Dep{On: "t", Reason: fmt.Sprintf("why%d", *n)}
	}
	return NoDep
}

func (g *Gen) wrap() []string {
	w := []string{}
	n := g.R.Intn(4)
	if g.R.Intn(10) == 0 {
		n = 4 + g.R.Intn(2)
	}
	for len(w) < n {
		if g.R.Intn(2) == 0 && (len(w) == 0 || w[len(w)-1] != "N") {
			w = append(w, "N")
		} else {
			w = append(w, "L")
		}
	}
	return w
}

// Schema draws one schema.
func (g *Gen) Schema() *Schema {
	r := g.R
	s := &Schema{Query: "Query"}
	cnt := 0
	nUser := 1 + r.Intn(g.MaxTypes)
	names := []string{}
	kinds := map[string]string{}
	pool := []string{"T1", "T2", "T3", "T4", "T5", "T6"}
	for i := 0; i < nUser; i++ {
		n := pool[i]
		k := genKinds[r.Intn(len(genKinds))]
		if k == "OBJECT" && r.Intn(4) == 0 {
			// objects sometimes carry the conventional root names
			for _, cand := range []string{"Mutation", "Subscription"} {
				if _, used := kinds[cand]; !used && r.Intn(2) == 0 {
					n = cand
					break
				}
			}
		}
		names = append(names, n)
		kinds[n] = k
	}
	all := append([]string{"Query"}, names...)
	kinds["Query"] = "OBJECT"
	ofKind := func(ks ...string) []string {
		out := []string{}
		for _, n := range all {
			for _, k := range ks {
				if kinds[n] == k {
					out = append(out, n)
				}
			}
		}
		return out
	}
	outNames := append([]string{"Int", "Float", "String", "Boolean", "ID"}, ofKind("SCALAR", "ENUM", "OBJECT", "INTERFACE", "UNION")...)
	inNames := append([]string{"Int", "Float", "String", "Boolean", "ID"}, ofKind("SCALAR", "ENUM", "INPUT_OBJECT")...)

	// enums and scalars first (defaults refer to enum values)
	defs := map[string]*TypeDef{}
	for _, n := range all {
		t := &TypeDef{Name: n, Kind: kinds[n]}
		defs[n] = t
		switch t.Kind {
		case "ENUM":
			nv := 1 + r.Intn(3)
			for i := 0; i < nv; i++ {
				t.Values = append(t.Values, EnumVal{Name: fmt.Sprintf("V%d", i+1), Desc: g.desc(&cnt), Dep: g.dep(&cnt)})
			}
		case "SCALAR":
			if r.Intn(2) == 0 {
				cnt++
				t.URL = fmt.Sprintf("u%d", cnt)
			}
		}
		if r.Intn(2) == 0 {
			cnt++
			t.Desc = fmt.Sprintf("d%d", cnt)
		}
	}
	// input objects: field shapes first (types only), defaults afterwards
	for _, n := range ofKind("INPUT_OBJECT") {
		t := defs[n]
		nf := 1 + r.Intn(3)
		for i := 0; i < nf; i++ {
			ref := TRef{Wrap: g.wrap(), Name: inNames[r.Intn(len(inNames))]}
			if kinds[ref.Name] == "INPUT_OBJECT" && len(ref.Wrap) > 0 && ref.Wrap[0] == "N" {
				ref.Wrap = ref.Wrap[1:] // no required chains of input objects
			}
			t.Inputs = append(t.Inputs, InputVal{Name: fmt.Sprintf("%s_i%d", lower(n), i+1), Type: ref, Dflt: NoDflt, Dep: NoDep})
		}
	}
	tmp := &Schema{}
	for _, n := range all {
		tmp.Types = append(tmp.Types, *defs[n])
	}
	decorate := func(x *InputVal) {
		x.Desc = g.desc(&cnt)
		if r.Intn(2) == 0 {
			x.Dflt = g.fit(tmp, x.Type.Wrap, x.Type.Name, 0)
		}
		x.Dep = g.dep(&cnt)
		if x.Dep.On == "t" && len(x.Type.Wrap) > 0 && x.Type.Wrap[0] == "N" && x.Dflt.T == "none" {
			x.Dep = NoDep
		}
	}
	for _, n := range ofKind("INPUT_OBJECT") {
		t := defs[n]
		for i := range t.Inputs {
			decorate(&t.Inputs[i])
		}
	}
	newArgs := func(prefix string) []InputVal {
		na := 0
		switch r.Intn(5) {
		case 0, 1:
			na = 1
		case 2:
			na = 2
		}
		args := []InputVal{}
		for i := 0; i < na; i++ {
			a := InputVal{Name: fmt.Sprintf("%sa%d", prefix, i+1), Type: TRef{Wrap: g.wrap(), Name: inNames[r.Intn(len(inNames))]}, Dflt: NoDflt}
			decorate(&a)
			args = append(args, a)
		}
		return args
	}
	newField := func(owner string, i int) Field {
		return Field{Name: fmt.Sprintf("%s_f%d", lower(owner), i), Desc: g.desc(&cnt),
			Type: TRef{Wrap: g.wrap(), Name: outNames[r.Intn(len(outNames))]}, Args: newArgs(""), Dep: g.dep(&cnt)}
	}
	// an implementor's copy of an inherited field: same name / type / argument signature,
	// but its own description, deprecation and argument decoration
	inherit := func(f Field) Field {
		c := Field{Name: f.Name, Type: f.Type, Desc: g.desc(&cnt), Dep: g.dep(&cnt)}
		for _, a := range f.Args {
			b := InputVal{Name: a.Name, Type: a.Type, Dflt: NoDflt}
			decorate(&b)
			c.Args = append(c.Args, b)
		}
		return c
	}
	// interfaces in order; each may implement earlier ones (transitively closed)
	ifaces := ofKind("INTERFACE")
	closure := func(direct []string) []string {
		set := map[string]bool{}
		var add func(n string)
		add = func(n string) {
			if set[n] {
				return
			}
			set[n] = true
			for _, m := range defs[n].Ifaces {
				add(m)
			}
		}
		for _, n := range direct {
			add(n)
		}
		out := []string{}
		for _, n := range ifaces {
			if set[n] {
				out = append(out, n)
			}
		}
		return out
	}
	build := func(n string, candidates []string) {
		t := defs[n]
		direct := []string{}
		for _, c := range candidates {
			if r.Intn(2) == 0 {
				direct = append(direct, c)
			}
		}
		t.Ifaces = closure(direct)
		seen := map[string]bool{}
		for _, in := range t.Ifaces {
			for _, f := range defs[in].Fields {
				if !seen[f.Name] {
					seen[f.Name] = true
					t.Fields = append(t.Fields, inherit(f))
				}
			}
		}
		own := 1 + r.Intn(2)
		if len(t.Fields) > 0 {
			own = r.Intn(2)
		}
		for i := 1; i <= own; i++ {
			t.Fields = append(t.Fields, newField(n, i))
		}
		r.Shuffle(len(t.Fields), func(i, j int) { t.Fields[i], t.Fields[j] = t.Fields[j], t.Fields[i] })
	}
	for i, n := range ifaces {
		build(n, ifaces[:i])
	}
	for _, n := range ofKind("OBJECT") {
		build(n, ifaces)
	}
	objs := ofKind("OBJECT")
	for _, n := range ofKind("UNION") {
		t := defs[n]
		for _, o := range objs {
			if r.Intn(2) == 0 {
				t.Members = append(t.Members, o)
			}
		}
		if len(t.Members) == 0 {
			t.Members = []string{objs[r.Intn(len(objs))]}
		}
	}
	// directives
	nd := r.Intn(3)
	for i := 0; i < nd; i++ {
		d := DirDef{Name: fmt.Sprintf("dir%d", i+1), Desc: g.desc(&cnt), Rep: b2s(r.Intn(2) == 0)}
		nl := 1 + r.Intn(3)
		perm := r.Perm(len(genLocs))
		for _, p := range perm[:nl] {
			d.Locs = append(d.Locs, genLocs[p])
		}
		d.Args = newArgs("d")
		s.Dirs = append(s.Dirs, d)
	}
	// roots
	others := []string{}
	for _, o := range objs {
		if o != "Query" {
			others = append(others, o)
		}
	}
	r.Shuffle(len(others), func(i, j int) { others[i], others[j] = others[j], others[i] })
	if len(others) > 0 && r.Intn(2) == 0 {
		s.Mutation = others[0]
		others = others[1:]
	}
	if len(others) > 0 && r.Intn(2) == 0 {
		s.Subscription = others[0]
	}
	if r.Intn(2) == 0 {
		cnt++
		s.Desc = fmt.Sprintf("d%d", cnt)
	}
	// type order: Query somewhere among the others
	order := append([]string{}, all...)
	r.Shuffle(len(order), func(i, j int) { order[i], order[j] = order[j], order[i] })
	for _, n := range order {
		s.Types = append(s.Types, *defs[n])
	}
	s.Normalize()
	return s
}

func lower(s string) string {
	b := []byte(s)
	if len(b) > 0 && b[0] >= 'A' && b[0] <= 'Z' {
		b[0] += 'a' - 'A'
	}
	return string(b)
}

// fit draws a default value that Fits(S, d, wrap, name) of the specification accepts.
func (g *Gen) fit(s *Schema, w []string, n string, depth int) Dflt {
	r := g.R
	lit := func(t, v string) Dflt { return Dflt{T: t, V: v, E: []DfltEntry{}} }
	if len(w) > 0 && w[0] == "N" {
		d := g.fit(s, w[1:], n, depth)
		for d.T == "null" {
			d = g.fit(s, w[1:], n, depth)
		}
		return d
	}
	if r.Intn(8) == 0 {
		return lit("null", "")
	}
	if len(w) > 0 {
		d := Dflt{T: "list", E: []DfltEntry{}}
		k := r.Intn(3)
		if depth > 2 {
			k = 0
		}
		for i := 0; i < k; i++ {
			d.E = append(d.E, DfltEntry{K: "", X: g.fit(s, w[1:], n, depth+1)})
		}
		return d
	}
	ints := []string{"0", "1", "-5", "42", "2147483647"}
	floats := []string{"1.5", "-2.5e3", "0.0", "3.25"}
	str := func() Dflt { return lit("str", genStrClasses[r.Intn(len(genStrClasses))]) }
	switch n {
	case "Int":
		return lit("int", ints[r.Intn(len(ints))])
	case "Float":
		if r.Intn(3) == 0 {
			return lit("int", ints[r.Intn(len(ints))])
		}
		return lit("float", floats[r.Intn(len(floats))])
	case "String":
		return str()
	case "Boolean":
		return lit("bool", []string{"true", "false"}[r.Intn(2)])
	case "ID":
		if r.Intn(2) == 0 {
			return lit("int", ints[r.Intn(len(ints))])
		}
		return str()
	}
	t := s.TypeNamed(n)
	switch t.Kind {
	case "SCALAR":
		switch r.Intn(4) {
		case 0:
			return lit("int", ints[r.Intn(len(ints))])
		case 1:
			return lit("float", floats[r.Intn(len(floats))])
		case 2:
			return lit("bool", "true")
		}
		return str()
	case "ENUM":
		return lit("enum", t.Values[r.Intn(len(t.Values))].Name)
	case "INPUT_OBJECT":
		d := Dflt{T: "obj", E: []DfltEntry{}}
		for _, f := range t.Inputs {
			required := len(f.Type.Wrap) > 0 && f.Type.Wrap[0] == "N" && f.Dflt.T == "none"
			if required || (depth < 2 && r.Intn(2) == 0) {
				d.E = append(d.E, DfltEntry{K: f.Name, X: g.fit(s, f.Type.Wrap, f.Type.Name, depth+1)})
			}
		}
		return d
	}
	return lit("null", "")
}
