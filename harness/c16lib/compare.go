package c16lib

import (
	"fmt"
	"sort"
	"strconv"
	"strings"

	"github.com/vektah/gqlparser/v2/ast"
	"github.com/vektah/gqlparser/v2/parser"
)

// Mismatch is one difference between what the specification prescribes and what was observed.
type Mismatch struct {
	Key    string // finding class
	Where  string
	Detail string
}

// Cmp compares an observed view with View(S, Inc) of the specification.
type Cmp struct {
	S   *Schema
	C   *Conc
	Inc bool
	// the observation applied includeDeprecated to args / inputFields (the Go API has no such parameter)
	ArgFilter, InpFilter bool
	Out                  []Mismatch
	// AltText: expected text -> the text the same element has when the schema SOURCE is read with every
	// carriage return removed (what a Go raw string literal does to an inlined source); an observation equal
	// to it gets AltKey instead of the generic key. nil unless the served schema came through the generator.
	AltText map[string]string
	AltKey  string
	// deviations from the letter of section 4 that do not affect what the view says about the schema
	Tolerated map[string]int
}

func (c *Cmp) add(key, where, format string, a ...any) {
	c.Out = append(c.Out, Mismatch{Key: key, Where: where, Detail: fmt.Sprintf(format, a...)})
}

func (c *Cmp) tol(k string) {
	if c.Tolerated == nil {
		c.Tolerated = map[string]int{}
	}
	c.Tolerated[k]++
}

func showO(o OStr) string {
	if o.Null {
		return "null"
	}
	return strconv.Quote(o.V)
}

func (c *Cmp) text(key, where string, exp NStr, conc func(string) string, obs OStr) {
	if exp.Nul == "t" {
		if !obs.Null {
			c.add(key, where, "expected null, observed %s", showO(obs))
		}
		return
	}
	want := conc(exp.V)
	if obs.Null || obs.V != want {
		if alt, ok := c.AltText[want]; ok && !obs.Null && obs.V == alt && strings.HasSuffix(key, ".description") {
			c.add(c.AltKey, where, "%s: expected %q, observed %s: the text of the schema source with its carriage returns removed", key, want, showO(obs))
			return
		}
		c.add(key, where, "expected %q, observed %s", want, showO(obs))
	}
}

func layersEq(a, b []Layer) bool {
	if len(a) != len(b) {
		return false
	}
	for i := range a {
		if a[i] != b[i] {
			return false
		}
	}
	return true
}

func showLayers(l []Layer) string {
	p := []string{}
	for _, x := range l {
		if x.Name != "" {
			p = append(p, x.Kind+":"+x.Name)
		} else {
			p = append(p, x.Kind)
		}
	}
	return strings.Join(p, ">")
}

// reasonOK: does the observed reason say what dep (the element's own @deprecated) says?
func (c *Cmp) reasonOK(exp NStr, obs OStr) (ok, tolerated bool) {
	if exp.Nul == "t" {
		return obs.Null, false
	}
	if exp.V == DefaultReason {
		if obs.Null {
			return true, true // @deprecated without reason: null instead of the directive's default
		}
		return obs.V == DefaultReason, false
	}
	return !obs.Null && obs.V == c.C.Reason(exp.V), false
}

func vreason(d Dep) NStr {
	if d.On != "t" {
		return NStr{Nul: "t"}
	}
	if d.Reason == "" {
		return NStr{Nul: "f", V: DefaultReason}
	}
	return NStr{Nul: "f", V: d.Reason}
}

// dep compares isDeprecated / deprecationReason; borrowed is the enclosing
// element whose deprecation must NOT be what is shown (nil if none).
func (c *Cmp) dep(kind, where string, expIs string, expWhy NStr, obsIs string, obsWhy OStr, borrowed *Dep) {
	ok, tolerated := c.reasonOK(expWhy, obsWhy)
	if obsIs == expIs && ok {
		if tolerated {
			c.tol("deprecationReason-null-for-default-reason:" + kind)
		}
		return
	}
	if borrowed != nil {
		bok, _ := c.reasonOK(vreason(*borrowed), obsWhy)
		if obsIs == borrowed.On && bok {
			c.add("arg-deprecation-taken-from-field", where,
				"the argument's own @deprecated says isDeprecated=%s reason=%v, observed isDeprecated=%s reason=%s, which is the enclosing field's", expIs, expWhy, obsIs, showO(obsWhy))
			return
		}
	}
	if kind == "directive-arg" && expIs == "t" && obsIs == "f" && obsWhy.Null {
		c.add("directive-arg-deprecation-dropped", where, "the directive argument is @deprecated (reason %v), observed isDeprecated=f reason=null", expWhy)
		return
	}
	if obsIs != expIs {
		c.add(kind+".isDeprecated", where, "expected %s, observed %s", expIs, obsIs)
		return
	}
	want := "null"
	if expWhy.Nul != "t" {
		want = strconv.Quote(c.C.Reason(expWhy.V))
	}
	c.add(kind+".deprecationReason", where, "expected %s, observed %s", want, showO(obsWhy))
}

// ---- default values ----

func hasCtl(c *Conc, d Dflt) bool {
	if d.T == "str" {
		for _, r := range c.Str(d.V) {
			if (r < 0x20 && r != '\n' && r != '\r' && r != '\t') || r == 0x7f {
				return true
			}
		}
	}
	for _, e := range d.E {
		if hasCtl(c, e.X) {
			return true
		}
	}
	return false
}

// ParseConst parses a GraphQL const value.
func ParseConst(text string) (*ast.Value, error) {
	doc, err := parser.ParseQuery(&ast.Source{Name: "default", Input: "{f(a: " + text + "\n)}"})
	if err != nil {
		return nil, err
	}
	if len(doc.Operations) != 1 || len(doc.Operations[0].SelectionSet) != 1 {
		return nil, fmt.Errorf("not a single value")
	}
	f, ok := doc.Operations[0].SelectionSet[0].(*ast.Field)
	if !ok || len(f.Arguments) != 1 {
		return nil, fmt.Errorf("not a single value")
	}
	return f.Arguments[0].Value, nil
}

func isNum(t string) bool { return t == "int" || t == "float" }

func (c *Cmp) dfltEq(exp, obs Dflt) bool {
	switch {
	case isNum(exp.T) && isNum(obs.T):
		if exp.V == obs.V {
			return true
		}
		a, e1 := strconv.ParseFloat(exp.V, 64)
		b, e2 := strconv.ParseFloat(obs.V, 64)
		return e1 == nil && e2 == nil && a == b
	case exp.T != obs.T:
		return false
	case exp.T == "str":
		return obs.V == c.C.Str(exp.V)
	case exp.T == "bool" || exp.T == "enum":
		return exp.V == obs.V
	case exp.T == "null":
		return true
	case exp.T == "list":
		if len(exp.E) != len(obs.E) {
			return false
		}
		for i := range exp.E {
			if !c.dfltEq(exp.E[i].X, obs.E[i].X) {
				return false
			}
		}
		return true
	case exp.T == "obj":
		if len(exp.E) != len(obs.E) {
			return false
		}
		m := map[string]Dflt{}
		for _, e := range obs.E {
			m[e.K] = e.X
		}
		if len(m) != len(obs.E) {
			return false
		}
		for _, e := range exp.E {
			o, ok := m[e.K]
			if !ok || !c.dfltEq(e.X, o) {
				return false
			}
		}
		return true
	}
	return false
}

func (c *Cmp) dflt(where string, exp VDefault, obs OStr) {
	if exp.Nul == "t" {
		if !obs.Null {
			c.add("defaultValue-unexpected", where, "no default value declared, observed %s", showO(obs))
		}
		return
	}
	want := c.C.RenderDflt(exp.Val)
	if obs.Null {
		c.add("defaultValue-missing", where, "declared default %s, observed null", want)
		return
	}
	v, err := ParseConst(obs.V)
	if err != nil {
		key := "defaultValue-unparsable"
		if hasCtl(c.C, exp.Val) {
			key = "defaultValue-string-escape-not-graphql"
		}
		c.add(key, where, "declared default %s, observed defaultValue %q is not a GraphQL value: %v", want, obs.V, err)
		return
	}
	if !c.dfltEq(exp.Val, DfltOfValue(v)) {
		c.add("defaultValue-differs", where, "declared default %s, observed %q", want, obs.V)
	}
}

// ---- elements ----

func (c *Cmp) inputs(kind, listKey, where string, exp []VInput, obs []OInput, decl []InputVal, filtered bool, borrowed *Dep) {
	om := map[string]OInput{}
	for _, o := range obs {
		if _, dup := om[o.Name]; dup {
			c.add(listKey+"-duplicate", where, "%s listed twice", o.Name)
		}
		om[o.Name] = o
	}
	em := map[string]bool{}
	for _, e := range exp {
		em[e.Name] = true
		w := where + "(" + e.Name + ")"
		o, ok := om[e.Name]
		if !ok {
			c.add(listKey+"-missing", w, "not listed")
			continue
		}
		c.text(kind+".description", w, e.Description, c.C.Desc, o.Description)
		if !layersEq(e.Type, o.Type) {
			c.add(kind+".type", w, "expected %s, observed %s", showLayers(e.Type), showLayers(o.Type))
		}
		c.dflt(w, e.DefaultValue, o.Default)
		c.dep(kind, w, e.IsDeprecated, e.DeprecationReason, o.IsDep, o.Reason, borrowed)
	}
	for _, o := range obs {
		if em[o.Name] {
			continue
		}
		w := where + "(" + o.Name + ")"
		depInS := false
		for _, d := range decl {
			if d.Name == o.Name && d.Dep.On == "t" {
				depInS = true
			}
		}
		if !c.Inc && depInS {
			if !filtered {
				continue // the Go API offers no includeDeprecated for this list
			}
			c.add(listKey+"-includeDeprecated-false-ignored", w, "deprecated element listed although includeDeprecated is false")
			continue
		}
		c.add(listKey+"-extra", w, "listed but not in the schema")
	}
}

func refNames(l [][]Layer) []string {
	out := []string{}
	for _, x := range l {
		out = append(out, showLayers(x))
	}
	sort.Strings(out)
	return out
}

func (c *Cmp) nullList(key, where string, expNull, obsNull bool, obsLen int) (compare bool) {
	if expNull {
		if obsNull {
			return false
		}
		if obsLen == 0 {
			c.tol("empty-list-instead-of-null:" + key)
			return false
		}
		c.add(key+"-not-null", where, "must be null for this kind, observed %d elements", obsLen)
		return false
	}
	if obsNull {
		c.add(key+"-null", where, "must be a list for this kind, observed null")
		return false
	}
	return true
}

// Type compares one __Type object with what the specification prescribes.
func (c *Cmp) Type(e VType, o OType) {
	w := e.Name
	decl := c.S.TypeNamed(e.Name)
	if decl == nil {
		decl = &TypeDef{}
	}
	if o.Kind != e.Kind {
		c.add("type.kind", w, "expected %s, observed %s", e.Kind, o.Kind)
	}
	c.text("type.description", w, e.Description, c.C.Desc, o.Description)
	c.text("type.specifiedByURL", w, e.SpecifiedByURL, c.C.URL, o.URL)

	if c.nullList("fields", w, e.Fields.Nul == "t", o.FieldsNull, len(o.Fields)) {
		om := map[string]OField{}
		for _, f := range o.Fields {
			if _, dup := om[f.Name]; dup {
				c.add("fields-duplicate", w, "%s listed twice", f.Name)
			}
			om[f.Name] = f
		}
		em := map[string]bool{}
		for _, ef := range e.Fields.L {
			em[ef.Name] = true
			fw := w + "." + ef.Name
			of, ok := om[ef.Name]
			if !ok {
				c.add("fields-missing", fw, "not listed")
				continue
			}
			var fdecl Field
			for _, d := range decl.Fields {
				if d.Name == ef.Name {
					fdecl = d
				}
			}
			c.text("field.description", fw, ef.Description, c.C.Desc, of.Description)
			if !layersEq(ef.Type, of.Type) {
				c.add("field.type", fw, "expected %s, observed %s", showLayers(ef.Type), showLayers(of.Type))
			}
			c.dep("field", fw, ef.IsDeprecated, ef.DeprecationReason, of.IsDep, of.Reason, nil)
			fd := fdecl.Dep
			c.inputs("arg", "args", fw, ef.Args, of.Args, fdecl.Args, c.ArgFilter, &fd)
		}
		for _, of := range o.Fields {
			if em[of.Name] {
				continue
			}
			depInS := false
			for _, d := range decl.Fields {
				if d.Name == of.Name && d.Dep.On == "t" {
					depInS = true
				}
			}
			if !c.Inc && depInS {
				c.add("fields-includeDeprecated-false-ignored", w+"."+of.Name, "deprecated field listed although includeDeprecated is false")
			} else {
				c.add("fields-extra", w+"."+of.Name, "listed but not in the schema")
			}
		}
	}

	if c.nullList("interfaces", w, e.Interfaces.Nul == "t", o.IfacesNull, len(o.Interfaces)) {
		en, on := refNames(e.Interfaces.L), refNames(o.Interfaces)
		if strings.Join(en, ",") != strings.Join(on, ",") {
			if e.Kind == "INTERFACE" && len(on) == 0 {
				c.add("interface-kind-interfaces-empty", w, "interface %s implements %v, observed interfaces: []", e.Name, en)
			} else {
				c.add("interfaces-differ", w, "expected %v, observed %v", en, on)
			}
		}
	}

	if c.nullList("possibleTypes", w, e.PossibleTypes.Nul == "t", o.PossNull, len(o.PossibleTypes)) {
		en, on := refNames(e.PossibleTypes.L), refNames(o.PossibleTypes)
		if strings.Join(en, ",") != strings.Join(on, ",") {
			// the known pattern: additionally the INTERFACE types that implement this interface
			want := map[string]bool{}
			for _, n := range en {
				want[n] = true
			}
			for _, t := range c.S.Types {
				if t.Kind == "INTERFACE" {
					for _, i := range t.Ifaces {
						if i == e.Name {
							want["INTERFACE:"+t.Name] = true
						}
					}
				}
			}
			wl := []string{}
			for n := range want {
				wl = append(wl, n)
			}
			sort.Strings(wl)
			if e.Kind == "INTERFACE" && len(wl) > len(en) && strings.Join(wl, ",") == strings.Join(on, ",") {
				c.add("interface-possibleTypes-include-interfaces", w, "possible types must be the OBJECT types %v, observed %v", en, on)
			} else {
				c.add("possibleTypes-differ", w, "expected %v, observed %v", en, on)
			}
		}
	}

	if c.nullList("enumValues", w, e.EnumValues.Nul == "t", o.EnumsNull, len(o.EnumValues)) {
		om := map[string]OEnum{}
		for _, v := range o.EnumValues {
			if _, dup := om[v.Name]; dup {
				c.add("enumValues-duplicate", w, "%s listed twice", v.Name)
			}
			om[v.Name] = v
		}
		em := map[string]bool{}
		for _, ev := range e.EnumValues.L {
			em[ev.Name] = true
			vw := w + "." + ev.Name
			ov, ok := om[ev.Name]
			if !ok {
				c.add("enumValues-missing", vw, "not listed")
				continue
			}
			c.text("enumValue.description", vw, ev.Description, c.C.Desc, ov.Description)
			c.dep("enumValue", vw, ev.IsDeprecated, ev.DeprecationReason, ov.IsDep, ov.Reason, nil)
		}
		for _, ov := range o.EnumValues {
			if em[ov.Name] {
				continue
			}
			depInS := false
			for _, d := range decl.Values {
				if d.Name == ov.Name && d.Dep.On == "t" {
					depInS = true
				}
			}
			if !c.Inc && depInS {
				c.add("enumValues-includeDeprecated-false-ignored", w+"."+ov.Name, "deprecated value listed although includeDeprecated is false")
			} else {
				c.add("enumValues-extra", w+"."+ov.Name, "listed but not in the schema")
			}
		}
	}

	if c.nullList("inputFields", w, e.InputFields.Nul == "t", o.InputFieldsNull, len(o.InputFields)) {
		c.inputs("inputField", "inputFields", w, e.InputFields.L, o.InputFields, decl.Inputs, c.InpFilter, nil)
	}
}

var requiredMeta = []string{"__Schema", "__Type", "__TypeKind", "__Field", "__InputValue", "__EnumValue", "__Directive", "__DirectiveLocation", "String", "Boolean"}

// View compares a whole __schema observation.
func (c *Cmp) View(e *View, o *OView) {
	c.text("schema.description", "schema", e.Description, c.C.Desc, o.Description)
	if o.Query != e.QueryType {
		c.add("schema.queryType", "schema", "expected %s, observed %s", e.QueryType, o.Query)
	}
	id := func(s string) string { return s }
	c.text("schema.mutationType", "schema", e.MutationType, id, o.Mutation)
	c.text("schema.subscriptionType", "schema", e.SubscriptionType, id, o.Subscription)

	om := map[string]OType{}
	for _, t := range o.Types {
		if _, dup := om[t.Name]; dup {
			c.add("types-duplicate", t.Name, "listed twice")
		}
		om[t.Name] = t
	}
	em := map[string]bool{}
	need := map[string]bool{}
	for _, n := range requiredMeta {
		need[n] = true
	}
	for _, et := range e.Types {
		em[et.Name] = true
		ot, ok := om[et.Name]
		if !ok {
			c.add("types-missing", et.Name, "type not listed in __schema.types")
			continue
		}
		c.Type(et, ot)
	}
	// every built-in scalar the schema mentions must be listed
	for _, t := range c.S.Types {
		for _, f := range t.Fields {
			need[f.Type.Name] = true
			for _, a := range f.Args {
				need[a.Type.Name] = true
			}
		}
		for _, x := range t.Inputs {
			need[x.Type.Name] = true
		}
	}
	for _, d := range c.S.Dirs {
		for _, a := range d.Args {
			need[a.Type.Name] = true
		}
	}
	for n := range need {
		if em[n] {
			continue
		}
		if !BuiltinScalars[n] && !strings.HasPrefix(n, "__") {
			continue
		}
		if _, ok := om[n]; !ok {
			c.add("builtin-type-missing", n, "built-in type not listed in __schema.types")
		}
	}
	for _, ot := range o.Types {
		if em[ot.Name] {
			continue
		}
		if BuiltinScalars[ot.Name] {
			if ot.Kind != "SCALAR" {
				c.add("type.kind", ot.Name, "expected SCALAR, observed %s", ot.Kind)
			}
			continue
		}
		if strings.HasPrefix(ot.Name, "__") {
			continue
		}
		c.add("types-extra", ot.Name, "listed in __schema.types but not in the schema")
	}

	dm := map[string]ODir{}
	for _, d := range o.Directives {
		if _, dup := dm[d.Name]; dup {
			c.add("directives-duplicate", "@"+d.Name, "listed twice")
		}
		dm[d.Name] = d
	}
	ed := map[string]bool{}
	for _, e2 := range e.Directives {
		ed[e2.Name] = true
		w := "@" + e2.Name
		od, ok := dm[e2.Name]
		if !ok {
			c.add("directives-missing", w, "directive not listed")
			continue
		}
		var decl DirDef
		for _, d := range c.S.Dirs {
			if d.Name == e2.Name {
				decl = d
			}
		}
		c.text("directive.description", w, e2.Description, c.C.Desc, od.Description)
		if od.Repeatable != e2.IsRepeatable {
			c.add("directive.isRepeatable", w, "expected %s, observed %s", e2.IsRepeatable, od.Repeatable)
		}
		el, ol := append([]string{}, e2.Locations...), append([]string{}, od.Locations...)
		sort.Strings(el)
		sort.Strings(ol)
		if strings.Join(el, ",") != strings.Join(ol, ",") {
			c.add("directive.locations", w, "expected %v, observed %v", el, ol)
		}
		c.inputs("directive-arg", "directive-args", w, e2.Args, od.Args, decl.Args, c.ArgFilter, nil)
	}
	for _, n := range []string{"skip", "include", "deprecated"} {
		if _, ok := dm[n]; !ok {
			c.add("builtin-directive-missing", "@"+n, "not listed")
		}
	}
	for _, od := range o.Directives {
		if !ed[od.Name] && !BuiltinDirectives[od.Name] {
			c.add("directives-extra", "@"+od.Name, "listed but not in the schema")
		}
	}
}

// Diff lists the differences between two abstract schemas (renderer sanity check).
func Diff(a, b *Schema) string {
	ja, jb := string(a.JSON()), string(b.JSON())
	if ja == jb {
		return ""
	}
	n := 0
	for n < len(ja) && n < len(jb) && ja[n] == jb[n] {
		n++
	}
	lo := n - 80
	if lo < 0 {
		lo = 0
	}
	hi := func(s string) int {
		if n+80 < len(s) {
			return n + 80
		}
		return len(s)
	}
	return fmt.Sprintf("first difference at %d: ...%s... vs ...%s...", n, ja[lo:hi(ja)], jb[lo:hi(jb)])
}
