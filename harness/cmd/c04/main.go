// C04: user-code failures are contained (null + one error at the field, one
// recover-hook call per panic, process keeps serving).
package main

import (
	"math/rand"

	"verifharness/vlib"
)

func main() {
	c := vlib.NewCheck("C04", "model_checking")
	thorough := vlib.Tier() == "thorough"
	vs := vlib.ExecVariants(thorough)
	bins, err := vlib.BuildProbes("exec", vs)
	if err != nil {
		vlib.Infra("build probes: %v", err)
	}
	n := 120
	if thorough {
		n = 1200
	}
	vlib.ExecConformance(c, "C04", bins, vs, rand.New(rand.NewSource(vlib.Seed()+400)), n,
		vlib.ExecMode{Faults: true, Panics: true, DirFaults: true, IntFaults: true, Mutations: true, PlansPer: 6})
	c.Finish()
}
