// C04: user-code failures are contained (null + one error at the field, one
// recover-hook call per panic, process keeps serving).
package main

import (
	"math/rand"

	"verifharness/ur"
	"verifharness/vlib"
)

func main() {
	c := vlib.NewCheck("C04", "model_checking")
	thorough := vlib.Tier() == "thorough"
	vs := vlib.ExecVariants(thorough)
	bins, err := vlib.BuildProbes("exec", vs)
	if err != nil {
		vlib.Infra("build probes: %v", err)
	}
	n := 120
	if thorough {
		n = 1200
	}
	vlib.ExecConformance(c, "C04", bins, vs, rand.New(rand.NewSource(vlib.Seed()+400)), n,
		vlib.ExecMode{Faults: true, Rogue: true, Sentinel: true, Devs: []vlib.DevStep{{Config: "GqlExecTraceDev.cfg", Key: vlib.LeafElemKey}}, Panics: true, DirFaults: true, IntFaults: true, ArgFaults: true, Mutations: true, PlansPer: 6,
			// many concurrently failing siblings: exactly one error per failure is lost only in races
			Corpus:     append(vlib.StressCorpus("C04", 32), vlib.ArgFaultCorpus("C04")...),
			Transports: []string{"tp:post", "tp:sse", "tp:mixed"}, TransportEvery: 5})
	// second pass: through handler.Server + POST, with values whose marshaler panics while
	// the response is serialized ("fails only that response with a well-formed error body")
	mp := func(id, q string, plan map[string]ur.Outcome) *vlib.Scenario {
		s := vlib.CorpusScenario(id, q, nil)
		s.Plan = plan
		return s
	}
	boom := ur.Outcome{K: "val", V: "panic"}
	corpus := []*vlib.Scenario{
		mp("C04h-m1", `{ boomOut s }`, map[string]ur.Outcome{"boomOut": boom}),
		mp("C04h-m2", `{ a { id boom } as { boom s } }`, map[string]ur.Outcome{"as.1.boom": boom}),
		mp("C04h-m3", `{ an { kidn { boom sn } kids { boom } } sn }`, map[string]ur.Outcome{"an.kids.0.boom": boom, "an.kidn.sn": {K: "err"}}),
		mp("C04h-m4", `{ a { boom } boomOut }`, map[string]ur.Outcome{"a.boom": {K: "val", V: "fine"}, "boomOut": {K: "null"}}),
		mp("C04h-m5", `mutation { m1 { boom } m2 { id } }`, map[string]ur.Outcome{"m1.boom": boom}),
	}
	vlib.ExecConformance(c, "C04h", bins, vs, rand.New(rand.NewSource(vlib.Seed()+401)), n/2,
		vlib.ExecMode{Faults: true, Sentinel: true, Devs: []vlib.DevStep{{Config: "GqlExecTraceDev.cfg", Key: vlib.LeafElemKey}}, Panics: true, DirFaults: true, ArgFaults: true, HTTP: true, PlansPer: 4, Corpus: corpus})
	// third pass: subscription events (each event of the stream is completed like a query
	// result; a fault while resolving one event's sub-selection affects that response only)
	vlib.ExecConformance(c, "C04s", bins, vs, rand.New(rand.NewSource(vlib.Seed()+402)), n/3,
		vlib.ExecMode{Faults: true, Sentinel: true, Devs: []vlib.DevStep{{Config: "GqlSubTraceDev.cfg", Key: vlib.LeafElemKey}}, Panics: true, DirFaults: true, Subs: true, PlansPer: 4,
			Module: "GqlSubTrace", Config: "GqlSubTrace.cfg", Lines: vlib.SubTraceLines,
			// subscriptions over server-sent events: one `next` event per response
			Transports: []string{"tp:sse"}, TransportEvery: 3})
	c.Finish()
}
