// C19: regeneration never loses user-written resolver code.
//
//  1. TLC checks spec/Project.tla (MC_Project.cfg, Dev = {}: the intended
//     design) exhaustively: MethodsKept, ImportsKept, DeclsKept, FilesParse,
//     CompileKept (C19), Deterministic, Idempotent (C18), GenerateTotal (C17)
//     hold for every history up to the bound.
//  2. TLC exports every labelled edge of the state graph of the module with
//     the named deviations of the pinned tree switched on
//     (MC_Project_edges*.cfg); edge-covering histories (vlib.CoverPaths,
//     merged into a prefix tree) are replayed through the REAL generator in
//     scratch projects: user edits are concretised from seeded pools of
//     adversarial Go text, every Generate is a separate process running
//     config.LoadConfig + api.Generate of the tree under test, and after
//     EVERY action the go/parser projection of the real resolver files
//     (method -> body text / doc comment / result names, helper declarations,
//     imports, content of the trailing WARNING block) is compared with the
//     state TLC printed. Where the specification demands it, the package is
//     compiled (go build, offline).
//  3. A Generate step on which a named deviation fires and the real tree
//     agrees with the deviated successor is reported under that deviation's
//     finding key; if the real tree agrees with the intended successor the
//     defect has been repaired and the step is accepted.
package main

import (
	"crypto/sha256"
	"encoding/hex"
	"fmt"
	"os"
	"sort"
	"strings"
	"sync"
	"sync/atomic"
	"time"

	"verifharness/projgen"
	"verifharness/vlib"
)

var devKey = map[string]string{
	"warnNesting":   "C19:warn-block-nested-comment",
	"aliasSuffix":   "C19:import-alias-suffix-of-path-dropped",
	"aliasReserved": "C19:import-alias-of-template-reserved-path-dropped",
	"blank2":        "C19:second-blank-import-dropped",
	"docDirective":  "C19:doc-comment-directives-dropped",
	// "staleFile" breaks no C19 statement (it is the C18 finding); the C19 replay only follows it.
}

var devWhat = map[string]string{
	"warnNesting":   "leftover code containing a /* */ comment is wrapped in the /* */ WARNING block: the regenerated resolver file does not parse and is written unformatted",
	"aliasSuffix":   "an aliased import whose alias is a suffix of the import path loses its alias (and is then pruned): the kept method body no longer compiles",
	"aliasReserved": "an aliased import of a path that resolver.gotpl reserves itself (errors, fmt, io, time, ...) is dropped",
	"blank2":        "the second blank import of a resolver file is dropped",
	"docDirective":  "directive lines (//nolint:..., //go:...) of a resolver's doc comment are dropped",
}

type handler struct {
	c           *vlib.Check
	thorough    bool
	builds      int64
	buildBudget int64
	buildFails  int64
	repaired    sync.Map
	infra       []string
	mu          sync.Mutex
	genClasses  sync.Map
	devSeen     sync.Map
	sampled     int32
}

func (h *handler) addInfra(s string) {
	h.mu.Lock()
	h.infra = append(h.infra, s)
	h.mu.Unlock()
}

func (h *handler) Generate(c *projgen.Conc, e *projgen.REdge, path []*projgen.REdge) projgen.GenOutcome {
	return projgen.RunGen(c.Root, projgen.GenOpts{Explicit: true})
}

func diffKinds(diffs []string) string {
	set := map[string]bool{}
	for _, d := range diffs {
		f := strings.Fields(d)[0]
		parts := strings.Split(strings.TrimSuffix(f, ":"), ":")
		k := parts[0]
		if k == "meth" && len(parts) >= 4 {
			k = "meth-" + parts[3]
		}
		set[k] = true
	}
	var ks []string
	for k := range set {
		ks = append(ks, k)
	}
	sort.Strings(ks)
	return strings.Join(ks, "+")
}

func (h *handler) Step(r *projgen.StepResult) bool {
	e := r.Edge
	isGen := e.A.Name == "Generate" || e.A.Name == "InitialGenerate"
	if !isGen {
		if len(r.Diffs) > 0 {
			h.addInfra(fmt.Sprintf("after user edit %s the tree does not project onto the predicted state: %v %v", e.A, r.Diffs, r.Obs.Notes))
			return false
		}
		return true
	}
	h.c.AddEvals(1)
	if r.Gen != nil && !r.Gen.OK() {
		switch r.Gen.Class {
		case "timeout", "crash":
			h.addInfra(fmt.Sprintf("generator %s: %s\n%s", r.Gen.Class, projgen.PathString(r.Path), tail(r.Gen.Stderr, 1500)))
			return false
		}
		// the specification makes Generate total: an error or a panic is a violation
		h.c.Violate("C19:generate-"+r.Gen.Class+":"+e.SSt.Cfg.Rl, fmt.Sprintf("history: %s\ngenerator outcome %s:\n%s", projgen.PathString(r.Path), r.Gen.Class, tail(r.Gen.Stderr, 1500)), projgen.ReplayObject(r))
		return false
	}
	if e.A.Name == "Generate" {
		cls := sha256.Sum256([]byte(e.S + "|" + e.T))
		h.genClasses.Store(hex.EncodeToString(cls[:8]), true)
	}
	if len(r.Diffs) == 0 {
		for _, d := range e.A.Devs {
			key, ok := devKey[d]
			if !ok {
				continue
			}
			h.devSeen.Store(d, true)
			h.c.Violate(key, fmt.Sprintf("%s\nhistory: %s\nlayout: resolver=%s exec=%s\nnotes: %v", devWhat[d], projgen.PathString(r.Path), e.SSt.Cfg.Rl, e.SSt.Cfg.El, r.Obs.Notes), projgen.ReplayObject(r))
		}
		if !e.TSt.Ok {
			return false // the project is broken (as the specification of the pinned tree says); the history ends here
		}
		if e.TSt.Comp == "yes" && atomic.AddInt64(&h.builds, 1) <= h.buildBudget {
			if out, err := projgen.GoBuild(r.Conc.Root); err != nil {
				if strings.Contains(err.Error(), "timeout after") {
					h.addInfra("go build timeout")
					return false
				}
				atomic.AddInt64(&h.buildFails, 1)
				h.c.Violate("C19:compile-lost:"+e.SSt.Cfg.Rl, fmt.Sprintf("the resolver files held only resolver methods and the schema change only added fields, but the package no longer compiles\nhistory: %s\n%s", projgen.PathString(r.Path), tail(out, 1500)), projgen.ReplayObject(r))
				return false
			}
		}
		if atomic.AddInt32(&h.sampled, 1) <= 4 && len(r.Path) >= 3 {
			h.c.Sample(map[string]any{"history": projgen.PathString(r.Path), "layout": e.SSt.Cfg, "agrees": true})
		}
		return true
	}
	// the real tree differs from the state the specification of the pinned tree predicts
	if len(e.A.Devs) > 0 && e.A.Ideal != nil && len(e.A.Ideal.DiffObs(r.Obs)) == 0 {
		for _, d := range e.A.Devs {
			h.repaired.Store(d, true)
		}
		return false // repaired: agrees with the intended design; the rest of this history assumed the deviation
	}
	if e.A.Name == "InitialGenerate" {
		h.c.Violate("C19:fresh-project:"+e.SSt.Cfg.Rl, fmt.Sprintf("a freshly generated project does not have the template's default resolvers: %v\n%v", r.Diffs, r.Obs.Notes), projgen.ReplayObject(r))
		return false
	}
	h.c.Violate("C19:generate-diverges:"+diffKinds(r.Diffs)+":"+e.SSt.Cfg.Rl,
		fmt.Sprintf("history: %s\nafter the last Generate the real resolver files differ from what the specification prescribes:\n  %s\nnotes: %s\ndeviations modelled on this step: %v",
			projgen.PathString(r.Path), strings.Join(r.Diffs, "\n  "), strings.Join(r.Obs.Notes, "\n"), e.A.Devs), projgen.ReplayObject(r))
	return false
}

func max64(a, b int64) int64 {
	if a > b {
		return a
	}
	return b
}

func tail(s string, n int) string {
	if len(s) > n {
		return "..." + s[len(s)-n:]
	}
	return s
}

var projectActions = []string{"EditBody", "AddHelper", "AddImport", "AddField", "RemoveField", "RenameField", "MoveField", "RemoveType", "Generate"}

func main() {
	if rp := os.Getenv("VERIF_REPLAY"); rp != "" {
		runReplayFile(rp)
		return
	}
	c := vlib.NewCheck("C19", "model_checking")
	thorough := vlib.Tier() == "thorough"
	seed := vlib.Seed()
	scratch := vlib.Work("C19")
	_ = os.RemoveAll(scratch)
	t0 := time.Now()
	if _, err := projgen.BuildPgen(); err != nil {
		vlib.Infra("%v", err)
	}

	// ---- 1. model checking of the intended design -------------------------------
	mcCfg, edgeCfg := "MC_Project.cfg", "MC_Project_edges.cfg"
	if d := os.Getenv("C19_EDGES"); d != "" {
		edgeCfg = d
	}
	pairs := []string{"Query_f1", "T_g"}
	if thorough {
		mcCfg, edgeCfg = "MC_Project_thorough.cfg", "MC_Project_edges_thorough.cfg"
		pairs = []string{"Query_f1", "Query_f2", "T_g"}
	}
	mcDone := make(chan *vlib.TLCResult, 1)
	go func() {
		r, err := vlib.RunTLC(vlib.TLCOpts{Module: "MC_Project", Config: mcCfg, Workers: 3, Coverage: true, Scratch: scratch + "/mc", Timeout: 25 * time.Minute})
		if err != nil {
			r = &vlib.TLCResult{Output: err.Error()}
		}
		mcDone <- r
	}()

	// ---- 2. edges of the pinned-tree model, 3. replay --------------------------------
	type task struct {
		cfg    string
		pairs  []string
		sample int // 0 = cover every edge; n = seeded sample of n Generate edges (deep histories)
	}
	tasks := []task{{edgeCfg, pairs, 0}}
	if thorough {
		tasks = append(tasks, task{"MC_Project_edges_deep.cfg", []string{"Query_f1", "T_g"}, 300})
	}
	h := &handler{c: c, thorough: thorough, buildBudget: 40}
	if thorough {
		h.buildBudget = 400
	}
	var total projgen.ReplayStats
	var infraErrs []string
	npaths, exhaustive := 0, true
	models := []map[string]any{}
	for ti, tk := range tasks {
		er, err := vlib.RunTLC(vlib.TLCOpts{Module: "MC_Project", Config: tk.cfg, Workers: 1, Scratch: fmt.Sprintf("%s/edges%d", scratch, ti), Timeout: 15 * time.Minute, HeapGB: 8})
		if err != nil {
			vlib.Infra("TLC: %v", err)
		}
		if !er.OK {
			vlib.Infra("TLC reports an error on the model itself (%s):\n%s", tk.cfg, tail(er.Output, 4000))
		}
		g, err := projgen.LoadGraph(er.Printed)
		if err != nil {
			vlib.Infra("edge export: %v", err)
		}
		er.Printed, er.Output = nil, ""
		var tries map[string]*projgen.Trie
		var np int
		if tk.sample == 0 {
			tries, np = g.CoverTries(12)
		} else {
			tries, np = g.SampleTries(tk.sample, seed)
			exhaustive = false
		}
		var nEdges, nGen int
		for _, t := range tries {
			a, b := t.Count()
			nEdges += a
			nGen += b
		}
		fmt.Printf("C19: %s: %d states, %d edges, %d initial states; %d histories -> prefix tree with %d edges (%d Generate runs)  [%.0fs]\n",
			tk.cfg, len(g.States), len(g.Edges), len(g.Inits), np, nEdges, nGen, time.Since(t0).Seconds())
		rep := &projgen.Replayer{G: g, H: h, Name: fmt.Sprintf("c19_%d", ti), Seed: seed*7919 + int64(ti), Pairs: tk.pairs, Files: []string{"a", "b"}, Workers: 6}
		rep.Run(tries)
		fmt.Printf("C19: replayed %d edges (%d Generate runs + %d initial generations), %d edges below a stopped step, %d builds so far  [%.0fs]\n",
			rep.Stats.Edges, rep.Stats.Generates, rep.Stats.Inits, rep.Stats.Skipped, projgen.BuildCount, time.Since(t0).Seconds())
		total.Edges += rep.Stats.Edges
		total.Generates += rep.Stats.Generates
		total.Inits += rep.Stats.Inits
		total.Skipped += rep.Stats.Skipped
		infraErrs = append(infraErrs, rep.Errs...)
		npaths += np
		c.AddStates(er.Distinct, er.Generated)
		models = append(models, map[string]any{"config": tk.cfg, "graph_states": len(g.States), "graph_edges": len(g.Edges), "initial_states": len(g.Inits), "histories": np, "sampled": tk.sample > 0})
	}
	fmt.Printf("C19: generator processes: %d, mean %.2fs; go build: %d, mean %.2fs\n", projgen.GenCount, float64(projgen.GenNanos)/1e9/float64(max64(projgen.GenCount, 1)), projgen.BuildCount, float64(projgen.BuildNanos)/1e9/float64(max64(projgen.BuildCount, 1)))

	mc := <-mcDone
	if !mc.OK {
		vlib.Infra("TLC reports an error on the model itself (%s):\n%s", mcCfg, tail(mc.Output, 4000))
	}
	for _, a := range projectActions {
		if mc.ActionCount[a] == 0 {
			vlib.Infra("vacuous model check: action %s never taken (%s)", a, mcCfg)
		}
	}
	c.AddStates(mc.Distinct, mc.Generated)
	if len(infraErrs)+len(h.infra) > 0 {
		all := append(append([]string{}, infraErrs...), h.infra...)
		vlib.Infra("%d harness-side problems, first:\n%s", len(all), all[0])
	}
	if total.Generates == 0 {
		vlib.Infra("vacuous: no Generate step replayed")
	}
	c.AddTraces(int64(npaths))
	nclass := 0
	h.genClasses.Range(func(k, _ any) bool { c.Class(k.(string)); nclass++; return true })
	var repaired []string
	h.repaired.Range(func(k, _ any) bool { repaired = append(repaired, k.(string)); return true })
	sort.Strings(repaired)
	c.Set("rule", "TLC enumerates the state graph of Project.tla (pinned-tree deviations on) up to the history bound; vlib.CoverPaths gives histories covering EVERY edge; each is replayed through the real generator and the go/parser projection of the resolver files is compared with TLC's successor state after every action; a class = one distinct Generate edge (pre-state, post-state)")
	c.Set("exhaustive", exhaustive && total.Skipped == 0)
	c.Set("model", map[string]any{"mc_config": mcCfg, "mc_distinct": mc.Distinct, "mc_generated": mc.Generated, "edge_graphs": models})
	c.Set("replay", map[string]any{"histories": npaths, "edges_replayed": total.Edges, "generate_runs": total.Generates, "initial_generations": total.Inits, "edges_below_stopped_steps": total.Skipped, "go_builds": projgen.BuildCount, "deviations_repaired": repaired})
	c.Assume("resolver fields are String! fields of Query and of one object type with @goField(forceResolver); bodies, doc comments, helpers and imports come from seeded pools (harness/projgen/pool.go), gofmt-formatted like an editor would")
	c.Assume("'user imports are kept' is bound for imports that the surviving methods of the file still reference (imports.Prune removing an import nothing references is not a loss); doc comments of helper declarations and free-floating comments are not 'code of a declaration'")
	c.Assume("a method declared in two resolver files at once (only possible after the stale-file deviation, package does not compile) is followed as the code behaves but MethodsKept demands nothing for it")
	c.Assume("type-correctness (compiledBefore => compiledAfter) is decided by go build on a budgeted subset of the Generate steps where the specification demands it")
	c.Finish()
}

// runReplayFile re-runs one recorded history (./check C19 --replay file).
func runReplayFile(path string) {
	g, p, seed, pairs, files, err := projgen.LoadReplay(path)
	if err != nil {
		vlib.Infra("replay: %v", err)
	}
	if _, err := projgen.BuildPgen(); err != nil {
		vlib.Infra("%v", err)
	}
	c := vlib.NewCheck("C19", "model_checking")
	h := &handler{c: c, buildBudget: 10}
	rep := &projgen.Replayer{G: g, H: h, Name: "c19_replay", Seed: seed, Pairs: pairs, Files: files, Workers: 1}
	rep.Run(map[string]*projgen.Trie{g.Inits[0]: projgen.PathTrie([][]*projgen.REdge{p})})
	fmt.Printf("C19 replay: %s: %d edges replayed\n", projgen.PathString(p), rep.Stats.Edges)
	if len(rep.Errs)+len(h.infra) > 0 {
		vlib.Infra("%v %v", rep.Errs, h.infra)
	}
	c.AddTraces(1)
	c.AddStates(int64(len(g.States)), int64(len(g.Edges)))
	c.Finish()
}
