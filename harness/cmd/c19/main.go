// C19: regeneration never loses user-written resolver code.
//
//  1. TLC checks spec/Project.tla (MC_Project.cfg, Dev = {}: the intended
//     design) exhaustively: MethodsKept, ImportsKept, DeclsKept, FilesParse,
//     CompileKept (C19), Deterministic, Idempotent (C18), GenerateTotal (C17)
//     hold for every history up to the bound.
//  2. TLC exports every labelled edge of the state graph of the module with
//     the named deviations of the pinned tree switched on
//     (MC_Project_edges*.cfg); edge-covering histories (vlib.CoverPaths,
//     merged into a prefix tree) are replayed through the REAL generator in
//     scratch projects: user edits are concretised from seeded pools of
//     adversarial Go text, every Generate is a separate process running
//     config.LoadConfig + api.Generate of the tree under test, and after
//     EVERY action the go/parser projection of the real resolver files
//     (method -> body text / doc comment / result names, helper declarations,
//     the declaration of the root resolver struct with its field list,
//     imports, content of the trailing WARNING block) is compared with the
//     state TLC printed. Where the specification demands it, the package is
//     compiled (go build, offline).
//  3. A Generate step on which a named deviation fires and the real tree
//     agrees with the deviated successor is reported under that deviation's
//     finding key; if the real tree agrees with the intended successor the
//     defect has been repaired and the step is accepted.
package main

import (
	"crypto/sha256"
	"encoding/hex"
	"fmt"
	"os"
	"strings"
	"sync/atomic"
	"time"

	"verifharness/projgen"
	"verifharness/vlib"
)

type handler struct {
	c           *vlib.Check
	builds      int64
	buildBudget int64
	// builds of steps whose pre-state holds a b1 body (locals shadowing the template's reserved imports):
	// a budget of their own, so that "the kept code still compiles" is decided for them in every run
	buildsB1 int64
}

func hasBody(pre *projgen.PState, tok string) bool {
	for _, ms := range pre.Meth {
		for _, m := range ms {
			if m.Body == tok {
				return true
			}
		}
	}
	return false
}

func (h *handler) RunGenerate(c *projgen.Conc, pre *projgen.PState, path []*projgen.REdge) projgen.GenOutcome {
	return projgen.RunGen(c.Root, projgen.GenOpts{Explicit: true})
}

// WantBuild: "the resolver files held only resolver methods and the change only added fields":
// compile before and after (budgeted); the TLA+ postcondition CompileKept judges the pair.
func (h *handler) WantBuild(pre *projgen.PState) bool {
	if pre.Dirty == "other" || (pre.Root != "" && pre.Root != "gen") {
		return false
	}
	for _, l := range pre.Helpers {
		if len(l) > 0 {
			return false
		}
	}
	if hasBody(pre, "b1") {
		return atomic.AddInt64(&h.buildsB1, 1) <= h.buildBudget/2+5
	}
	return atomic.AddInt64(&h.builds, 1) <= h.buildBudget/2
}

func (h *handler) AfterGenerate(r *projgen.Replayer, c *projgen.Conc, rec *projgen.StepRec) {}

// rootFate says what a Generate step did to a root resolver struct the user had customised: kept in place,
// repeated in the warning block of resolver.go, or lost ("" = the root struct was the template's own).
func rootFate(rec *projgen.StepRec) string {
	if rec.Pre == nil || rec.Post == nil || rec.Pre.Root == "" || rec.Pre.Root == "gen" {
		return ""
	}
	if rec.Post.Root == rec.Pre.Root {
		return "kept_in_place"
	}
	for _, w := range rec.Post.Warn["resolver"] {
		if w.K == "r" && w.ID == rec.Pre.Root {
			return "repeated_in_warning_block"
		}
	}
	if !rec.Post.Ok {
		return "output_does_not_parse"
	}
	return "LOST"
}

// newCases counts the Generate steps that exercise the user-edit classes "customised root resolver struct"
// and "helper method on the root struct" (evidence).
var newCases = map[string]int{}

// judge turns the recorded steps + TLC's verdicts into the check's verdict.
func judge(c *vlib.Check, recs []*projgen.StepRec) (infra []string, drift, accepted, violating int) {
	sampled := 0
	rootSampled := false
	classes := map[string]bool{}
	for _, rec := range recs {
		switch rec.Kind {
		case "init":
			c.AddEvals(1)
			if d, _ := rec.Extra["initDiffs"].([]string); len(d) > 0 {
				if rec.Gen != nil && (rec.Gen.Class == "timeout" || rec.Gen.Class == "crash") {
					infra = append(infra, "initial generation: "+rec.Gen.Class)
					continue
				}
				c.Violate("C19:fresh-project:"+rec.Post.Cfg.Rl, fmt.Sprintf("a freshly generated project does not consist of the template's default resolvers: %v\n%v\n%s", d, rec.Obs.Notes, tail(rec.Gen.Stderr, 800)), projgen.ReplayObject(rec))
			}
		case "edit":
			if rec.V == nil || !rec.V.Same {
				infra = append(infra, fmt.Sprintf("after user edit %s (history %s) the real tree does not project onto the successor of the specification's edit action (harness problem): %v", rec.Act, projgen.PathString(rec.Path), rec.Obs.Notes))
			}
		case "gen":
			c.AddEvals(1)
			if rec.Drift {
				drift++
			}
			layout := rec.Pre.Cfg.Rl
			fate := rootFate(rec)
			if fate != "" {
				newCases["root_struct_"+rec.Pre.Root+"_"+layout+":"+fate]++
			}
			for f, hs := range rec.Pre.Helpers {
				for _, h := range hs {
					if h == "hr" {
						fateH := "LOST"
						for _, x := range rec.Post.Helpers[f] {
							if x == "hr" {
								fateH = "kept_in_place"
							}
						}
						for _, w := range rec.Post.Warn[f] {
							if w.K == "h" && w.ID == "hr" {
								fateH = "in_warning_block"
							}
						}
						newCases["method_on_root_struct_"+layout+":"+fateH]++
					}
				}
			}
			if rec.Gen != nil && !rec.Gen.OK() {
				// Generate is total in the specification: an error or a panic is a violation
				c.Violate("C19:generate-"+rec.Gen.Class+":"+layout, fmt.Sprintf("history: %s\ngenerator outcome %s:\n%s", projgen.PathString(rec.Path), rec.Gen.Class, tail(rec.Gen.Stderr, 1500)), projgen.ReplayObject(rec))
				violating++
				continue
			}
			if rec.V == nil {
				infra = append(infra, "no verdict from ProjectStep for "+rec.ID+" ("+projgen.PathString(rec.Path)+")")
				continue
			}
			h := sha256.Sum256([]byte(fmt.Sprintf("%v|%v|%s", rec.Pre, rec.Act, projgen.PathString(rec.Path))))
			classes[hex.EncodeToString(h[:8])] = true
			keys, violated := rec.V.Findings("C19", layout)
			if len(keys) == 0 {
				accepted++
				if fate != "" && !rootSampled && layout == "single" {
					rootSampled = true
					c.Sample(map[string]any{"history": projgen.PathString(rec.Path), "layout": rec.Pre.Cfg, "root_resolver_struct_before": rec.Pre.Root, "after": rec.Post.Root, "fate": fate, "postconditions_hold": true})
				}
				if sampled < 4 && len(rec.Path) >= 3 {
					sampled++
					c.Sample(map[string]any{"history": projgen.PathString(rec.Path), "layout": rec.Pre.Cfg, "postconditions_hold": true, "equals_intended_successor": rec.V.IdealEq})
				}
				continue
			}
			violating++
			for _, k := range keys {
				what := projgen.WhatOf(k)
				detail := fmt.Sprintf("%s\nhistory: %s\nlayout: resolver=%s exec=%s\nviolated postconditions of Generate (spec/Project.tla, intended design): %v\nobserved post-state explained by deviations: %v (explained=%v)\nnotes: %s",
					what, projgen.PathString(rec.Path), layout, rec.Pre.Cfg.El, violated, rec.V.D, rec.V.Explained, strings.Join(rec.Obs.Notes, "\n"))
				if b, ok := rec.Extra["buildAfter"].(string); ok {
					detail += "\ngo build after the run:\n" + b
				}
				if fate == "LOST" {
					detail += fmt.Sprintf("\nthe root resolver struct the user had customised (token %s: fields / embedded types added to `type Resolver struct{}` in resolver.go) is LOST: after the run resolver.go declares %q and the declaration is not in the warning block either", rec.Pre.Root, rec.Post.Root)
				}
				c.Violate(k, detail, projgen.ReplayObject(rec))
			}
		}
	}
	for k := range classes {
		c.Class(k)
	}
	return
}

func max64(a, b int64) int64 {
	if a > b {
		return a
	}
	return b
}

func tail(s string, n int) string {
	if len(s) > n {
		return "..." + s[len(s)-n:]
	}
	return s
}

var projectActions = []string{"EditBody", "AddHelper", "AddImport", "EditRoot", "AddField", "RemoveField", "RenameField", "MoveField", "RemoveType", "Generate"}

func main() {
	if rp := os.Getenv("VERIF_REPLAY"); rp != "" {
		runReplayFile(rp)
		return
	}
	c := vlib.NewCheck("C19", "model_checking")
	thorough := vlib.Tier() == "thorough"
	seed := vlib.Seed()
	scratch := vlib.Work("C19")
	_ = os.RemoveAll(scratch)
	t0 := time.Now()
	if _, err := projgen.BuildPgen(); err != nil {
		vlib.Infra("%v", err)
	}

	// ---- 1. model checking of the intended design -------------------------------
	mcCfg, edgeCfg := "MC_Project.cfg", "MC_Project_edges.cfg"
	if d := os.Getenv("C19_EDGES"); d != "" {
		edgeCfg = d
	}
	pairs := []string{"Query_f1", "T_g"}
	if thorough {
		mcCfg, edgeCfg = "MC_Project_thorough.cfg", "MC_Project_edges_thorough.cfg"
		pairs = []string{"Query_f1", "Query_f2", "T_g"}
	}
	mcDone := make(chan *vlib.TLCResult, 1)
	go func() {
		r, err := vlib.RunTLC(vlib.TLCOpts{Module: "MC_Project", Config: mcCfg, Workers: 3, Coverage: true, Scratch: scratch + "/mc", Timeout: 25 * time.Minute})
		if err != nil {
			r = &vlib.TLCResult{Output: err.Error()}
		}
		mcDone <- r
	}()

	// ---- 2. edges of the pinned-tree model, 3. replay --------------------------------
	type task struct {
		cfg    string
		pairs  []string
		sample int // 0 = cover every edge; n = seeded sample of n Generate edges (deep histories)
	}
	tasks := []task{{edgeCfg, pairs, 0}}
	if thorough {
		tasks = append(tasks, task{"MC_Project_edges_deep.cfg", []string{"Query_f1", "T_g"}, 150})
	}
	h := &handler{c: c, buildBudget: 40}
	if thorough {
		h.buildBudget = 300
	}
	override, curDevs, err := projgen.SpecOverride()
	if err != nil {
		vlib.Infra("%v", err)
	}
	fmt.Printf("C19: tours are generated from the model with the deviations listed open in known_findings.d: %v\n", curDevs)
	var allRecs []*projgen.StepRec
	var judgeStates, judgeGen int64
	var total projgen.ReplayStats
	var infraErrs []string
	npaths, exhaustive := 0, true
	models := []map[string]any{}
	for ti, tk := range tasks {
		er, err := vlib.RunTLC(vlib.TLCOpts{Module: "MC_Project", Config: tk.cfg, Workers: 1, Scratch: fmt.Sprintf("%s/edges%d", scratch, ti), Timeout: 15 * time.Minute, HeapGB: 8, Data: override})
		if err != nil {
			vlib.Infra("TLC: %v", err)
		}
		if !er.OK {
			vlib.Infra("TLC reports an error on the model itself (%s):\n%s", tk.cfg, tail(er.Output, 4000))
		}
		g, err := projgen.LoadGraph(er.Printed)
		if err != nil {
			vlib.Infra("edge export: %v", err)
		}
		er.Printed, er.Output = nil, ""
		var tries map[string]*projgen.Trie
		var np int
		if tk.sample == 0 {
			tries, np = g.CoverTries(12)
		} else {
			tries, np = g.SampleTries(tk.sample, seed)
			exhaustive = false
		}
		var nEdges, nGen int
		for _, t := range tries {
			a, b := t.Count()
			nEdges += a
			nGen += b
		}
		fmt.Printf("C19: %s: %d states, %d edges, %d initial states; %d histories -> prefix tree with %d edges (%d Generate runs)  [%.0fs]\n",
			tk.cfg, len(g.States), len(g.Edges), len(g.Inits), np, nEdges, nGen, time.Since(t0).Seconds())
		rep := &projgen.Replayer{G: g, H: h, Name: fmt.Sprintf("c19_%d", ti), Seed: seed*7919 + int64(ti), Pairs: tk.pairs, Files: []string{"a", "b"}, Workers: 6}
		rep.Run(tries)
		fmt.Printf("C19: replayed %d steps (%d Generate runs + %d initial generations), %d tour edges not executed (%d actions inapplicable after drift), %d steps differ from the tour model's prediction, %d builds so far  [%.0fs]\n",
			rep.Stats.Edges, rep.Stats.Generates, rep.Stats.Inits, rep.Stats.Skipped, rep.Stats.Inapplicable, rep.Stats.Drift, projgen.BuildCount, time.Since(t0).Seconds())
		js, jg, err := projgen.JudgeSteps(rep.Recs, len(tk.pairs), fmt.Sprintf("%s/judge%d", scratch, ti))
		if err != nil {
			vlib.Infra("ProjectStep (verdicts): %v", err)
		}
		judgeStates += js
		judgeGen += jg
		allRecs = append(allRecs, rep.Recs...)
		total.Drift += rep.Stats.Drift
		total.Inapplicable += rep.Stats.Inapplicable
		total.Edges += rep.Stats.Edges
		total.Generates += rep.Stats.Generates
		total.Inits += rep.Stats.Inits
		total.Skipped += rep.Stats.Skipped
		infraErrs = append(infraErrs, rep.Errs...)
		npaths += np
		c.AddStates(er.Distinct, er.Generated)
		models = append(models, map[string]any{"config": tk.cfg, "graph_states": len(g.States), "graph_edges": len(g.Edges), "initial_states": len(g.Inits), "histories": np, "sampled": tk.sample > 0})
	}
	fmt.Printf("C19: generator processes: %d, mean %.2fs; go build: %d, mean %.2fs\n", projgen.GenCount, float64(projgen.GenNanos)/1e9/float64(max64(projgen.GenCount, 1)), projgen.BuildCount, float64(projgen.BuildNanos)/1e9/float64(max64(projgen.BuildCount, 1)))

	jInfra, drift, accepted, violating := judge(c, allRecs)
	fmt.Printf("C19: verdicts by TLC (ProjectStep, %d steps): %d Generate steps satisfy the statements' postconditions, %d violate them; implementation-level drift from the tour model on %d steps (not a verdict)  [%.0fs]\n",
		judgeStates, accepted, violating, drift, time.Since(t0).Seconds())
	infraErrs = append(infraErrs, jInfra...)
	c.AddStates(judgeStates, judgeGen)
	mc := <-mcDone
	if !mc.OK {
		vlib.Infra("TLC reports an error on the model itself (%s):\n%s", mcCfg, tail(mc.Output, 4000))
	}
	for _, a := range projectActions {
		if mc.ActionCount[a] == 0 {
			vlib.Infra("vacuous model check: action %s never taken (%s)", a, mcCfg)
		}
	}
	c.AddStates(mc.Distinct, mc.Generated)
	if len(infraErrs) > 0 {
		all := infraErrs
		vlib.Infra("%d harness-side problems, first:\n%s", len(all), all[0])
	}
	if total.Generates == 0 {
		vlib.Infra("vacuous: no Generate step replayed")
	}
	c.AddTraces(int64(npaths))
	c.Set("rule", "TLC enumerates the state graph of Project.tla (with the deviations currently listed open) up to the history bound; vlib.CoverPaths gives histories covering EVERY edge; each is replayed as an action script through the real generator; every step is recorded as (observed pre-state, action, observed post-state) and TLC (ProjectStep.tla) evaluates the statements' postconditions of the INTENDED design on it; a class = one distinct observed Generate step")
	c.Set("exhaustive", exhaustive && total.Skipped == 0)
	c.Set("model", map[string]any{"mc_config": mcCfg, "mc_distinct": mc.Distinct, "mc_generated": mc.Generated, "edge_graphs": models})
	c.Set("root_struct_and_root_method_cases", newCases)
	c.Set("replay", map[string]any{"histories": npaths, "edges_replayed": total.Edges, "generate_runs": total.Generates, "initial_generations": total.Inits, "edges_below_stopped_steps": total.Skipped, "go_builds": projgen.BuildCount, "tour_model_deviations": curDevs, "impl_level_drift": total.Drift, "actions_inapplicable_after_drift": total.Inapplicable, "generate_steps_accepted": accepted, "generate_steps_violating": violating})
	c.Assume("resolver fields are String! fields of Query and of one object type with @goField(forceResolver); bodies, doc comments, helpers (incl. a method on the root resolver struct), customisations of the root resolver struct (fields, embedded types, doc comment) and imports come from seeded pools (harness/projgen/pool.go), gofmt-formatted like an editor would")
	c.Assume("a customised root resolver struct is compared as the whole declaration text (field list, tags, inner comments); its doc comment is not 'code of the declaration'; 'repeated in the warning block' satisfies the statement, 'replaced by an empty struct' does not")
	c.Assume("'user imports are kept' is bound for imports that the surviving methods of the file still reference (imports.Prune removing an import nothing references is not a loss); doc comments of helper declarations and free-floating comments are not 'code of a declaration'")
	c.Assume("a method declared in two resolver files at once (only possible after the stale-file deviation, package does not compile) is followed as the code behaves but MethodsKept demands nothing for it")
	c.Assume("type-correctness (compiledBefore => compiledAfter) is decided by go build on a budgeted subset of the Generate steps where the specification demands it")
	c.Finish()
}

// runReplayFile re-runs one recorded history (./check C19 --replay file).
func runReplayFile(path string) {
	g, p, seed, pairs, files, err := projgen.LoadReplay(path)
	if err != nil {
		vlib.Infra("replay: %v", err)
	}
	if _, err := projgen.BuildPgen(); err != nil {
		vlib.Infra("%v", err)
	}
	c := vlib.NewCheck("C19", "model_checking")
	h := &handler{c: c, buildBudget: 10}
	rep := &projgen.Replayer{G: g, H: h, Name: "c19_replay", Seed: seed, Pairs: pairs, Files: files, Workers: 1}
	rep.Run(map[string]*projgen.Trie{g.Inits[0]: projgen.PathTrie([][]*projgen.REdge{p})})
	fmt.Printf("C19 replay: %s: %d steps replayed\n", projgen.PathString(p), rep.Stats.Edges)
	js, jg, err := projgen.JudgeSteps(rep.Recs, len(pairs), vlib.Work("C19", "replay-judge"))
	if err != nil {
		vlib.Infra("ProjectStep (verdicts): %v", err)
	}
	jInfra, _, accepted, violating := judge(c, rep.Recs)
	fmt.Printf("C19 replay: %d Generate steps satisfy the postconditions, %d violate them\n", accepted, violating)
	if len(rep.Errs)+len(jInfra) > 0 {
		vlib.Infra("%v %v", rep.Errs, jInfra)
	}
	c.AddTraces(1)
	c.AddStates(js, jg)
	c.Finish()
}
