// C14: the complexity limit is a sound gate - over-limit operations execute nothing.
//
// spec/Complexity.tla enumerates (operation tree, custom cost assignment) and
// prints the complexity the documented definition prescribes together with the
// gate decision for limits around it. This driver concretises every printed
// case (GraphQL text, Go ints, cost functions) and replays it against the real
// code: complexity.Calculate + handler.Server with extension.ComplexityLimit,
// once over a hand-written ExecutableSchema (SDL rendered from the abstract
// schema TLC prints) and once over servers generated from /repo's templates
// (probe c14), where the cost functions sit in the generated ComplexityRoot.
package main

import (
	"context"
	"encoding/json"
	"fmt"
	"math"
	"math/big"
	"math/rand"
	"os"
	"sort"
	"strings"
	"sync"
	"time"

	"github.com/vektah/gqlparser/v2"
	"github.com/vektah/gqlparser/v2/ast"

	"github.com/99designs/gqlgen/graphql"

	"verifharness/ur"
	"verifharness/vlib"
)

// ---------------------------------------------------------------------------
// what TLC prints

type Num struct {
	H int64 `json:"h"`
	D int64 `json:"d"`
}

type SelJ struct {
	K    string `json:"k"`
	Name string `json:"name"`
	On   string `json:"on"`
	Ax   string `json:"ax"`
	Sels []SelJ `json:"sels"`
}

type FnJ struct {
	K string `json:"k"`
	C Num    `json:"c"`
	M int64  `json:"m"`
}

type CostJ struct {
	Slot string `json:"slot"`
	Fn   FnJ    `json:"fn"`
}

type GateJ struct {
	Lim  Num   `json:"lim"`
	Rej  bool  `json:"rej"`
	Runs []int `json:"runs"`
}

type HistJ struct {
	Other bool   `json:"other"`
	C     string `json:"c"`
	X     int64  `json:"x"`
	Lim   Num    `json:"lim"`
	Cx    Num    `json:"cx"`
	Rej   bool   `json:"rej"`
	// where the request's context became done (ComplexityGate, Mode "ctx"): live | cancelled | deadline | during (the K-th call of a custom complexity function)
	Cp string `json:"cp"`
	K  int    `json:"k"`
}

// RowJ is one row of the Complexity(type, field) table the specification prescribes.
type RowJ struct {
	Type  string `json:"type"`
	Field string `json:"field"`
	Child Num    `json:"child"`
	X     string `json:"x"` // none | set
	Ok    bool   `json:"ok"`
	V     Num    `json:"v"`
}

type CaseJ struct {
	Sels  []SelJ  `json:"sels"`
	Costs []CostJ `json:"costs"` // slot = the ComplexityRoot ENTRY (state bnd maps GraphQL fields to entries)
	Cx    Num     `json:"cx"`
	Gate  []GateJ `json:"gate"`
	Table []RowJ  `json:"table"` // only the "no operation" case of the bind corpus
	// only the iface corpus: the selections of INTERFACE fields in the order the walker prices them
	Occ []OccJ `json:"occ"`
	// histories (ComplexityGate)
	Cache    string  `json:"cache"`
	NDefault int64   `json:"ndefault"` // default of $n, -1 = none
	Hist     []HistJ `json:"hist"`
}

// OccJ is one priced occurrence of an interface field: its cost, the possible types whose field rule attains
// it (the argmax), and what the occurrence hands to the cost functions.
type OccJ struct {
	Key string   `json:"key"` // Interface.field
	V   Num      `json:"v"`
	Am  []string `json:"am"`
	Ch  Num      `json:"ch"`
	X   int64    `json:"x"`
}

type FieldA struct {
	Type string `json:"type"`
	Arg  bool   `json:"arg"`
	Bind string `json:"bind"` // "" = own ComplexityRoot entry, else the entry of the type shared by all fields naming it
	How  string `json:"how"`  // yml | gofield | collapse | natural | resolver | resolver-own
	Ord  int    `json:"ord"`  // position among the fields of its entry in declaration order
}

type TypeA struct {
	Kind     string          `json:"kind"`
	Impl     []string        `json:"impl"`
	Possible []string        `json:"possible"`
	RawF     json.RawMessage `json:"fields"`
	Fields   map[string]FieldA
}

type SchemaA struct {
	Schema map[string]*TypeA `json:"schema"`
	ArgVal int64             `json:"argval"`
	BigArg int64             `json:"bigarg"` // the value of an argument of class "big"
	Max    Num               `json:"max"`
	// Binding[T][f] = the entry serving the GraphQL field T.f (the initial value of the state variable bnd)
	Binding map[string]map[string]string `json:"binding"`
}

// conc maps the symbolic number h*H + d to a Go int, H = (math.MaxInt-1)/2.
func conc(n Num) int64 {
	half := new(big.Int).SetInt64((math.MaxInt64 - 1) / 2)
	v := new(big.Int).Mul(big.NewInt(n.H), half)
	v.Add(v, big.NewInt(n.D))
	if !v.IsInt64() {
		vlib.Infra("symbolic number %+v does not fit Go int", n)
	}
	return v.Int64()
}

func numClass(n Num) string {
	switch {
	case n.H == 0 && n.D == 0:
		return "0"
	case n.H == 0 && n.D > 0:
		return "small"
	case n.H == 0 && n.D < 0:
		return "neg"
	case n.H < 0:
		return "hugeneg"
	case n.H == 1:
		return "half"
	case n.H == 2 && n.D == 1:
		return "MAX"
	default:
		return "nearMAX"
	}
}

// ---------------------------------------------------------------------------
// TLC

type tlcOut struct {
	schema *SchemaA
	cases  []*CaseJ
	res    *vlib.TLCResult
}

func runTLC(cfg, scratch string, workers int, emit, coverage bool, timeout time.Duration) *tlcOut {
	module := "Complexity"
	if strings.HasPrefix(cfg, "MC_ComplexityGate") {
		module = "ComplexityGate"
	}
	res, err := vlib.RunTLC(vlib.TLCOpts{Module: module, Config: cfg, Workers: workers, Timeout: timeout,
		Scratch: vlib.Work("C14", scratch), Coverage: coverage})
	if err != nil {
		vlib.Infra("TLC %s: %v", cfg, err)
	}
	if res.TimedOut {
		vlib.Infra("TLC %s timed out", cfg)
	}
	if !res.OK {
		vlib.Infra("TLC reports an error in the model %s (a specification problem, not a finding):\n%s", cfg, res.Violation)
	}
	out := &tlcOut{res: res}
	for _, ln := range res.Printed {
		if !strings.HasPrefix(ln, "\"{") {
			continue
		}
		var inner string
		if err := json.Unmarshal([]byte(ln), &inner); err != nil {
			vlib.Infra("TLC %s: cannot decode printed line: %v: %.200s", cfg, err, ln)
		}
		if strings.HasPrefix(inner, "{\"schema\"") {
			var s SchemaA
			if err := json.Unmarshal([]byte(inner), &s); err != nil {
				vlib.Infra("schema line: %v", err)
			}
			for _, t := range s.Schema {
				t.Fields = map[string]FieldA{}
				if len(t.RawF) > 0 && t.RawF[0] == '{' {
					if err := json.Unmarshal(t.RawF, &t.Fields); err != nil {
						vlib.Infra("schema fields: %v", err)
					}
				}
			}
			out.schema = &s
			continue
		}
		var c CaseJ
		if err := json.Unmarshal([]byte(inner), &c); err != nil {
			vlib.Infra("TLC %s: case line: %v: %.200s", cfg, err, inner)
		}
		out.cases = append(out.cases, &c)
	}
	if emit && (out.schema == nil || len(out.cases) == 0) {
		vlib.Infra("TLC %s printed no cases (vacuous)", cfg)
	}
	// every printed case is one Compute step: exactly a third of the distinct states are "done" states
	if emit && module == "Complexity" && int64(len(out.cases))*2 > res.Distinct {
		vlib.Infra("TLC %s: %d printed cases do not fit %d states", cfg, len(out.cases), res.Distinct)
	}
	return out
}

// ---------------------------------------------------------------------------
// hand-written ExecutableSchema

func renderSDL(s *SchemaA) string {
	var sb strings.Builder
	names := make([]string, 0, len(s.Schema))
	for n := range s.Schema {
		names = append(names, n)
	}
	sort.Strings(names)
	for _, n := range names {
		t := s.Schema[n]
		if t.Kind == "UNION" {
			fmt.Fprintf(&sb, "union %s = %s\n", n, strings.Join(t.Possible, " | "))
			continue
		}
		kw := "type"
		if t.Kind == "INTERFACE" {
			kw = "interface"
		}
		fmt.Fprintf(&sb, "%s %s", kw, n)
		if len(t.Impl) > 0 {
			fmt.Fprintf(&sb, " implements %s", strings.Join(t.Impl, " & "))
		}
		sb.WriteString(" {\n")
		fns := make([]string, 0, len(t.Fields))
		for f := range t.Fields {
			fns = append(fns, f)
		}
		sort.Strings(fns)
		for _, f := range fns {
			fd := t.Fields[f]
			arg := ""
			if fd.Arg {
				arg = "(x: Int)"
			}
			fmt.Fprintf(&sb, "  %s%s: %s\n", f, arg, fd.Type)
		}
		sb.WriteString("}\n")
	}
	return sb.String()
}

type hwES struct {
	schema  *ast.Schema
	binding map[string]map[string]string // GraphQL field -> entry, as the specification's state bnd says
	costs   map[string]ur.C14Cost        // by entry
}

func (e *hwES) Schema() *ast.Schema { return e.schema }
func (e *hwES) Complexity(ctx context.Context, typeName, field string, child int, args map[string]any) (int, bool) {
	c, ok := e.costs[e.binding[typeName][field]]
	if !ok {
		return 0, false
	}
	ur.C14Priced(ctx) // a configured function (user code) runs: the context dimension may cancel the request here
	return ur.C14Apply(c, child, ur.C14ArgX(args)), true
}
func (e *hwES) Exec(ctx context.Context) graphql.ResponseHandler {
	ur.C14NoteExec(ctx) // "a resolver ran": execution of the operation started
	done := false
	return func(ctx context.Context) *graphql.Response {
		if done {
			return nil
		}
		done = true
		return &graphql.Response{Data: json.RawMessage(`{"executed":true}`)}
	}
}

// ---------------------------------------------------------------------------
// concretisation

type Conc struct {
	Case    ur.C14Case `json:"case"`
	Src     string     `json:"src"`
	Idx     int        `json:"idx"`
	Variant string     `json:"variant"` // argument delivery / document form
	Cx      int64      `json:"cx"`
	CxRun   []int64    `json:"cx_run"` // the complexity prescribed for run i (differs per run only in histories)
	Rej     []bool     `json:"rej"`
	LimRel  []string   `json:"limrel"`
	Shape   string     `json:"shape"`
	CostCls string     `json:"costclass"`
	Abs     *CaseJ     `json:"abstract,omitempty"`
	// table case: what Complexity(type, field, child, args) must answer for Case.Table[i]
	TableExp []CellExp `json:"table_exp,omitempty"`
	// the operation goes through a field that is NOT the first-declared one of a shared ComplexityRoot entry
	NonFirst bool `json:"non_first_shared,omitempty"`
	// iface corpus: the operation selects one interface field at least twice; two occurrences of one interface
	// field have DISJOINT sets of most expensive implementors; and which of those two the walker prices first
	IfaceRep   bool   `json:"iface_repeated,omitempty"`
	IfaceAMD   bool   `json:"iface_argmax_differs,omitempty"`
	IfaceOrder string `json:"iface_order,omitempty"` // cheap-first | expensive-first
	IfaceHow   string `json:"iface_how,omitempty"`   // siblings | fragment | nested
}

// CellExp is the prescribed answer of ExecutableSchema.Complexity for one probe.
type CellExp struct {
	Ok    bool   `json:"ok"`
	V     int64  `json:"v"`
	Class string `json:"class"`
}

type renderer struct {
	s       *SchemaA
	r       *rand.Rand
	argMode string // lit | var | vdef
	keep    bool   // keep the sibling order of the tree (iface corpus: the order is part of the input)
	frags   map[string]string
	fragDef []string
	nAlias  *int
	nVar    *int
	nFrag   *int
	decls   []string
	vars    map[string]any
	hasN    bool
}

func (rd *renderer) sels(tn string, sels []SelJ) string {
	order := rd.r.Perm(len(sels))
	if rd.keep {
		for i := range order {
			order[i] = i
		}
	}
	parts := make([]string, 0, len(sels))
	for _, i := range order {
		parts = append(parts, rd.sel(tn, sels[i]))
	}
	return "{ " + strings.Join(parts, " ") + " }"
}

func (rd *renderer) sel(tn string, s SelJ) string {
	switch s.K {
	case "field":
		if s.Name == "__typename" {
			return "__typename"
		}
		if s.Name == "__schema" {
			return "__schema { queryType { name } }"
		}
		fd, ok := rd.s.Schema[tn].Fields[s.Name]
		if !ok {
			vlib.Infra("spec tree selects %s.%s which the abstract schema lacks", tn, s.Name)
		}
		out := s.Name
		if fd.Arg || rd.r.Intn(4) == 0 {
			*rd.nAlias++
			out = fmt.Sprintf("f%d: %s", *rd.nAlias, s.Name)
		}
		if s.Ax == "var" {
			// the request variable of a history (declared once per operation)
			if !rd.hasN {
				rd.hasN = true
				rd.decls = append(rd.decls, "$n: Int")
			}
			out += "(x: $n)"
		}
		if s.Ax == "set" || s.Ax == "big" {
			val := rd.s.ArgVal
			if s.Ax == "big" {
				val = rd.s.BigArg
			}
			switch rd.argMode {
			case "var":
				*rd.nVar++
				v := fmt.Sprintf("v%d", *rd.nVar)
				rd.decls = append(rd.decls, fmt.Sprintf("$%s: Int", v))
				rd.vars[v] = val
				out += fmt.Sprintf("(x: $%s)", v)
			case "vdef":
				*rd.nVar++
				v := fmt.Sprintf("v%d", *rd.nVar)
				rd.decls = append(rd.decls, fmt.Sprintf("$%s: Int = %d", v, val))
				out += fmt.Sprintf("(x: $%s)", v)
			default:
				out += fmt.Sprintf("(x: %d)", val)
			}
		}
		if _, composite := rd.s.Schema[fd.Type]; composite {
			out += " " + rd.sels(fd.Type, s.Sels)
		}
		return out
	case "inline":
		if s.On == "" {
			return "... " + rd.sels(tn, s.Sels)
		}
		return "... on " + s.On + " " + rd.sels(s.On, s.Sels)
	case "spread":
		// equal definitions are ONE named fragment, spread several times
		kb, _ := json.Marshal(s.Sels)
		key := s.On + " " + string(kb)
		name, ok := rd.frags[key]
		if !ok {
			body := rd.sels(s.On, s.Sels)
			*rd.nFrag++
			name = fmt.Sprintf("F%d", *rd.nFrag)
			rd.frags[key] = name
			rd.fragDef = append(rd.fragDef, fmt.Sprintf("fragment %s on %s %s", name, s.On, body))
		}
		return "..." + name
	}
	vlib.Infra("unknown selection kind %q", s.K)
	return ""
}

func shapeOf(sels []SelJ) string {
	parts := make([]string, 0, len(sels))
	for _, s := range sels {
		p := s.Name
		switch s.K {
		case "inline":
			p = "..." + s.On
		case "spread":
			p = "~" + s.On
		}
		if s.Ax == "set" {
			p += "(x)"
		}
		if s.Ax == "big" {
			p += "(X)"
		}
		if len(s.Sels) > 0 {
			p += "{" + shapeOf(s.Sels) + "}"
		}
		parts = append(parts, p)
	}
	return strings.Join(parts, ",")
}

func costClass(cs []CostJ) string {
	parts := []string{}
	for _, c := range cs {
		p := c.Fn.K
		if c.Fn.K == "const" || c.Fn.K == "add" {
			p += ":" + numClass(c.Fn.C)
		}
		parts = append(parts, p)
	}
	sort.Strings(parts)
	if len(parts) > 2 {
		return "uniform:" + parts[0]
	}
	return strings.Join(parts, "+")
}

// costClassFull names every (entry, function) of an assignment (iface corpus: WHICH implementor carries which
// function is what matters).
func costClassFull(cs []CostJ) string {
	parts := []string{}
	for _, c := range cs {
		p := c.Slot + "=" + c.Fn.K
		if c.Fn.K == "const" || c.Fn.K == "add" {
			p += ":" + numClass(c.Fn.C)
		}
		if c.Fn.K == "mul" {
			p += fmt.Sprint(c.Fn.M)
		}
		parts = append(parts, p)
	}
	sort.Strings(parts)
	return strings.Join(parts, "+")
}

// occClass reads the occurrence list of an iface case (walker order): is one interface field priced at least
// twice, do two occurrences of one field have disjoint argmax sets, and is the one priced first the cheaper.
func occClass(occ []OccJ) (repeated, argmaxDiffers bool, order string) {
	for i := range occ {
		for j := i + 1; j < len(occ); j++ {
			if occ[i].Key != occ[j].Key {
				continue
			}
			repeated = true
			disjoint := len(occ[i].Am) > 0 && len(occ[j].Am) > 0
			for _, a := range occ[i].Am {
				for _, b := range occ[j].Am {
					if a == b {
						disjoint = false
					}
				}
			}
			if disjoint && !argmaxDiffers {
				argmaxDiffers = true
				switch vi, vj := conc(occ[i].V), conc(occ[j].V); {
				case vi < vj:
					order = "cheap-first"
				case vi > vj:
					order = "expensive-first"
				default:
					order = "equal"
				}
			}
		}
	}
	return
}

func limRel(l, cx int64) string {
	switch {
	case l == cx:
		return "=cx"
	case cx > math.MinInt64 && l == cx-1:
		return "cx-1"
	case cx < math.MaxInt64 && l == cx+1:
		return "cx+1"
	case l == 0:
		return "zero"
	case l == math.MaxInt64:
		return "MAX"
	}
	return "other"
}

// concretise renders one abstract case. decoys are other trees placed in the same document.
func concretise(s *SchemaA, src string, idx int, c *CaseJ, decoys []*CaseJ, r *rand.Rand, argMode string, fixed bool) *Conc {
	nA, nV, nF := 0, 0, 0
	var fragDefs []string
	renderOp := func(name string, t *CaseJ, vars map[string]any) string {
		// fragments are shared within one operation (their variables are that operation's)
		rd := &renderer{s: s, r: r, argMode: argMode, frags: map[string]string{}, nAlias: &nA, nVar: &nV, nFrag: &nF, vars: vars, keep: src == "iface"}
		body := rd.sels("Query", t.Sels)
		fragDefs = append(fragDefs, rd.fragDef...)
		head := ""
		if name != "" || len(rd.decls) > 0 {
			head = "query " + name
			if len(rd.decls) > 0 {
				head += "(" + strings.Join(rd.decls, ", ") + ")"
			}
			head += " "
		}
		return head + body
	}
	vars := map[string]any{}
	opName := ""
	var ops []string
	variant := argMode
	if len(decoys) == 0 {
		if r.Intn(2) == 0 {
			opName = "Target"
		}
		ops = append(ops, renderOp(opName, c, vars))
		if opName != "" && r.Intn(2) == 0 {
			opName = "" // a single named operation may be selected implicitly
			variant += "/implicit"
		}
	} else {
		opName = "Target"
		variant += fmt.Sprintf("/multi%d", len(decoys)+1)
		pos := r.Intn(len(decoys) + 1)
		for i, d := range decoys {
			if i == pos {
				ops = append(ops, renderOp("Target", c, vars))
			}
			ops = append(ops, renderOp(fmt.Sprintf("Decoy%d", i), d, map[string]any{}))
		}
		if pos == len(decoys) {
			ops = append(ops, renderOp("Target", c, vars))
		}
	}
	// fragment definitions before or after the operations
	var doc string
	if r.Intn(2) == 0 {
		doc = strings.Join(append(append([]string{}, fragDefs...), ops...), "\n")
	} else {
		doc = strings.Join(append(append([]string{}, ops...), fragDefs...), "\n")
	}
	cc := &Conc{Src: src, Idx: idx, Variant: variant, Cx: conc(c.Cx), Shape: shapeOf(c.Sels), CostCls: costClass(c.Costs), Abs: c,
		NonFirst: nonFirstShared(s, "Query", c.Sels)}
	cc.Case = ur.C14Case{Cmd: "c14", ID: fmt.Sprintf("%s-%d-%s", src, idx, argMode), Query: doc, OpName: opName, Vars: vars,
		Costs: map[string]ur.C14Cost{}, Fixed: fixed}
	if src == "iface" {
		cc.CostCls = costClassFull(c.Costs)
		cc.IfaceRep, cc.IfaceAMD, cc.IfaceOrder = occClass(c.Occ)
		switch {
		case strings.Contains(cc.Shape, "inner{"):
			cc.IfaceHow = "nested"
		case strings.Contains(cc.Shape, "~") || strings.Contains(cc.Shape, "..."):
			cc.IfaceHow = "fragment"
		default:
			cc.IfaceHow = "siblings"
		}
	}
	for _, k := range c.Costs {
		cc.Case.Costs[k.Slot] = ur.C14Cost{K: k.Fn.K, C: conc(k.Fn.C), M: k.Fn.M}
	}
	gate := append([]GateJ{}, c.Gate...)
	sort.Slice(gate, func(i, j int) bool { return conc(gate[i].Lim) < conc(gate[j].Lim) })
	for _, g := range gate {
		l := conc(g.Lim)
		cc.Case.Limits = append(cc.Case.Limits, l)
		cc.Rej = append(cc.Rej, g.Rej)
		cc.CxRun = append(cc.CxRun, cc.Cx)
		cc.LimRel = append(cc.LimRel, limRel(l, cc.Cx))
	}
	return cc
}

// nonFirstShared reports whether the tree selects a field that shares its ComplexityRoot entry with a
// field declared before it.
func nonFirstShared(s *SchemaA, tn string, sels []SelJ) bool {
	for _, sl := range sels {
		switch sl.K {
		case "field":
			t := s.Schema[tn]
			if t == nil {
				continue
			}
			fd, ok := t.Fields[sl.Name]
			if !ok {
				continue
			}
			if t.Kind == "OBJECT" && fd.Bind != "" && fd.Ord > 1 {
				return true
			}
			if nonFirstShared(s, fd.Type, sl.Sels) {
				return true
			}
		default:
			on := sl.On
			if on == "" {
				on = tn
			}
			if nonFirstShared(s, on, sl.Sels) {
				return true
			}
		}
	}
	return false
}

// concretiseTable turns the "no operation" case into direct calls of ExecutableSchema.Complexity.
func concretiseTable(s *SchemaA, idx int, c *CaseJ) *Conc {
	cc := &Conc{Src: "table", Idx: idx, Variant: "table", Shape: "Complexity()", CostCls: costClass(c.Costs), Abs: c}
	cc.Case = ur.C14Case{Cmd: "c14", ID: fmt.Sprintf("table-%d", idx), Vars: map[string]any{}, Costs: map[string]ur.C14Cost{}}
	for _, k := range c.Costs {
		cc.Case.Costs[k.Slot] = ur.C14Cost{K: k.Fn.K, C: conc(k.Fn.C), M: k.Fn.M}
	}
	rows := append([]RowJ{}, c.Table...)
	sort.Slice(rows, func(i, j int) bool {
		a, b := rows[i], rows[j]
		ka := fmt.Sprintf("%s.%s/%020d/%s", a.Type, a.Field, conc(a.Child), a.X)
		kb := fmt.Sprintf("%s.%s/%020d/%s", b.Type, b.Field, conc(b.Child), b.X)
		return ka < kb
	})
	for _, r := range rows {
		fd := s.Schema[r.Type].Fields[r.Field]
		cc.Case.Table = append(cc.Case.Table, ur.C14Probe{Type: r.Type, Field: r.Field, Child: conc(r.Child), HasX: r.X == "set", X: s.ArgVal})
		how := fd.How
		if fd.Bind != "" {
			how = fmt.Sprintf("%s#%d", fd.How, fd.Ord)
		}
		cc.TableExp = append(cc.TableExp, CellExp{Ok: r.Ok, V: conc(r.V),
			Class: fmt.Sprintf("table|%s.%s|%s|%s|x=%s|custom=%v", r.Type, r.Field, how, cc.CostCls, r.X, r.Ok)})
	}
	return cc
}

// withExtras adds, for a generated server, every (type, field) of the probe's schema that the abstract
// schema does not mention: such a field is served by its own entry (bind = ""), no table assignment
// names it, so Complexity() must answer "no custom cost".
func withExtras(cc *Conc, extras []ur.C14Probe) *Conc {
	c2 := *cc
	c2.Case.Table = append(append([]ur.C14Probe{}, cc.Case.Table...), extras...)
	c2.TableExp = append([]CellExp{}, cc.TableExp...)
	for _, e := range extras {
		c2.TableExp = append(c2.TableExp, CellExp{Ok: false, V: 0, Class: fmt.Sprintf("table|%s.%s|outside-the-abstract-schema", e.Type, e.Field)})
	}
	return &c2
}

// concretiseHist renders one history of ComplexityGate: one query text, a sequence of requests.
func concretiseHist(s *SchemaA, src string, idx int, c *CaseJ, r *rand.Rand) *Conc {
	nA, nV, nF := 0, 0, 0
	rd := &renderer{s: s, r: r, argMode: "lit", frags: map[string]string{}, nAlias: &nA, nVar: &nV, nFrag: &nF, vars: map[string]any{}}
	body := rd.sels("Query", c.Sels)
	opName := ""
	head := "query "
	if r.Intn(2) == 0 {
		opName = "Target"
		head += "Target"
	}
	if len(rd.decls) == 0 {
		vlib.Infra("history tree without a request variable")
	}
	if len(rd.decls) != 1 || rd.decls[0] != "$n: Int" {
		vlib.Infra("history tree declares %v", rd.decls)
	}
	if c.NDefault >= 0 {
		rd.decls[0] = fmt.Sprintf("$n: Int = %d", c.NDefault)
	}
	doc := head + "(" + strings.Join(rd.decls, ", ") + ") " + body
	if len(rd.fragDef) > 0 {
		doc += "\n" + strings.Join(rd.fragDef, "\n")
	}
	other := "query " + opName + " { s }"
	cc := &Conc{Src: src, Idx: idx, Variant: fmt.Sprintf("cache=%s/ndefault=%d", c.Cache, c.NDefault), Shape: shapeOf(c.Sels), CostCls: costClass(c.Costs), Abs: c,
		NonFirst: nonFirstShared(s, "Query", c.Sels)}
	cc.Case = ur.C14Case{Cmd: "c14", ID: fmt.Sprintf("%s-%d", src, idx), Query: doc, OpName: opName, Vars: map[string]any{},
		Costs: map[string]ur.C14Cost{}, Cache: c.Cache}
	for _, k := range c.Costs {
		cc.Case.Costs[k.Slot] = ur.C14Cost{K: k.Fn.K, C: conc(k.Fn.C), M: k.Fn.M}
	}
	seq := []string{}
	for _, h := range c.Hist {
		st := ur.C14Step{Vars: map[string]any{}, Limit: conc(h.Lim)}
		if h.Other {
			st.Query = other
			seq = append(seq, "other")
		} else {
			if h.C != "none" {
				st.Vars["n"] = h.X
			}
			el := h.C + map[bool]string{true: "!", false: ""}[h.Rej]
			if h.Cp != "" && h.Cp != "live" {
				st.Ctx, st.K = h.Cp, h.K
				el += "@" + h.Cp
				if h.Cp == "during" {
					el += fmt.Sprint(h.K)
				}
			}
			seq = append(seq, el)
		}
		cc.Case.Hist = append(cc.Case.Hist, st)
		cc.Case.Limits = append(cc.Case.Limits, st.Limit)
		cc.Rej = append(cc.Rej, h.Rej)
		cc.CxRun = append(cc.CxRun, conc(h.Cx))
		cc.LimRel = append(cc.LimRel, fmt.Sprintf("%s/def%d:%s", c.Cache, c.NDefault, strings.Join(seq, ">")))
	}
	return cc
}

// repeatedSpread reports whether some named fragment is spread at least twice in the document.
func repeatedSpread(q string) bool {
	for i := 1; i < 12; i++ {
		if strings.Count(q+" ", fmt.Sprintf("...F%d ", i)) >= 2 {
			return true
		}
	}
	return false
}

func hasArgSet(sels []SelJ) bool {
	for _, s := range sels {
		if s.Ax == "set" || s.Ax == "big" || hasArgSet(s.Sels) {
			return true
		}
	}
	return false
}

// ---------------------------------------------------------------------------
// judging

type counters struct {
	mu                                  sync.Mutex
	rejected, admitted, stats, statsRej int64
	multi, spreads, iface, argvar, sat  int64
	calcs                               int64
	respread, histReqs, histCached      int64
	// shared entries: cases through a non-first field of a shared entry, requests of such cases over / within
	// the limit, cells of the Complexity() table compared, of them cells of non-first fields with a custom cost
	nonFirst, nonFirstRej, nonFirstAdm, cells, cellsNonFirstCustom, cellsExtra int64
	// the context dimension: requests whose context was done before / became done during pricing, over / within
	// the limit; "during" requests and calculations where the k-th custom function really ran and cancelled;
	// Calculate calls under a non-live context
	ctxPre, ctxDuring, ctxOver, ctxWithin, ctxWithinExecuted, duringFired, calcCtx, calcCtxDuringFired int64
	// one interface field selected several times in one operation: cases; of them with disjoint argmax sets; of
	// those cheap occurrence priced first / expensive first, through fragments, nested; their requests over / within
	ifaceRep, ifaceAMD, ifaceCheapFirst, ifaceExpFirst, ifaceAMDFrag, ifaceAMDNested, ifaceAMDRej, ifaceAMDAdm int64
	keyCount                                                                                           map[string]int
	sampled                                                                                            map[string]bool
	tableSeen                                                                                          map[string]bool // table violation keys already reported (one report per key)
}

func (k *counters) add(f func()) { k.mu.Lock(); f(); k.mu.Unlock() }

// first reports whether fewer than n violations with this key were reported so far (a defect of the walker
// fails thousands of Calculate calls the same way; the gate replay must get its share of the report).
func (k *counters) first(key string, n int) bool {
	k.mu.Lock()
	defer k.mu.Unlock()
	if k.keyCount == nil {
		k.keyCount = map[string]int{}
	}
	k.keyCount[key]++
	return k.keyCount[key] <= n
}

func judge(c *vlib.Check, k *counters, binding string, probe bool, cc *Conc, res *ur.C14Result) {
	replay := map[string]any{"binding": binding, "conc": cc, "observed": res}
	if res == nil {
		// a dying probe process says nothing about C14 (crash containment is C04/C10)
		vlib.Infra("[%s] the probe process died on %s", binding, cc.Case.Query)
	}
	if res.Err != "" {
		// the concretiser produced something the real validator rejects, or the probe lacks a slot: our problem
		vlib.Infra("[%s] case %s not executable: %s\n%s", binding, cc.Case.ID, res.Err, cc.Case.Query)
	}
	if len(cc.Case.Table) > 0 {
		judgeTable(c, k, binding, cc, res, replay)
		return
	}
	desc := func() string {
		cj, _ := json.Marshal(cc.Case.Costs)
		return fmt.Sprintf("[%s] %s\ncosts=%s vars=%v opname=%q", binding, cc.Case.Query, cj, cc.Case.Vars, cc.Case.OpName)
	}
	c.AddEvals(1)
	k.add(func() { k.calcs++ })
	if res.CalcErr != "" {
		c.Violate("calculate-panics", fmt.Sprintf("complexity.Calculate: %s\n%s", res.CalcErr, desc()), replay)
	} else if len(cc.Case.Hist) > 0 {
		for i, got := range res.Calcs {
			st := cc.Case.Hist[i]
			if st.Ctx != "" {
				k.add(func() {
					k.calcCtx++
					if i < len(res.CalcsFired) && res.CalcsFired[i] {
						k.calcCtxDuringFired++
					}
				})
			}
			if got != cc.CxRun[i] {
				if st.Ctx != "" && !k.first("calc-depends-on-context:"+st.Ctx, 2) {
					// already reported twice
				} else if st.Ctx != "" {
					c.Violate("calc-depends-on-context:"+st.Ctx, fmt.Sprintf("complexity.Calculate = %d under a context that %s, with variables %v; the complexity of the operation is %d whatever the context does\n%s", got, ctxDesc(st.Ctx, st.K), st.Vars, cc.CxRun[i], desc()), replay)
				} else {
					c.Violate("calc-differs:"+cc.CostCls, fmt.Sprintf("complexity.Calculate = %d with variables %v, the definition gives %d\n%s", got, st.Vars, cc.CxRun[i], desc()), replay)
				}
			}
		}
	} else {
		if res.Calc != cc.Cx {
			c.Violate("calc-differs:"+cc.CostCls, fmt.Sprintf("complexity.Calculate = %d, the definition gives %d\n%s", res.Calc, cc.Cx, desc()), replay)
		}
		if cc.Case.CalcCtx != "" {
			c.AddEvals(1)
			c.Class("calc-under-context|" + cc.Case.CalcCtx + "|" + cc.CostCls)
			k.add(func() {
				k.calcCtx++
				if res.CalcCtxFired {
					k.calcCtxDuringFired++
				}
			})
			if res.CalcCtxV != cc.Cx && res.Calc == cc.Cx && k.first("calc-depends-on-context:"+cc.Case.CalcCtx, 2) {
				c.Violate("calc-depends-on-context:"+cc.Case.CalcCtx, fmt.Sprintf("complexity.Calculate = %d under a context that %s (and %d under a live context); the complexity of the operation is %d whatever the context does\n%s", res.CalcCtxV, ctxDesc(cc.Case.CalcCtx, cc.Case.CalcK), res.Calc, cc.Cx, desc()), replay)
			}
		}
	}
	if len(res.Runs) != len(cc.Case.Limits) {
		vlib.Infra("[%s] %d runs for %d limits", binding, len(res.Runs), len(cc.Case.Limits))
	}
	for i, r := range res.Runs {
		c.AddEvals(1)
		c.Class(cc.Shape + "|" + cc.CostCls + "|" + cc.LimRel[i])
		lim := cc.Case.Limits[i]
		cxi := cc.CxRun[i]
		where := fmt.Sprintf("limit %d (%s, Cx=%d, %s)", lim, cc.LimRel[i], cxi, map[bool]string{true: "FixedComplexityLimit", false: "ComplexityLimit{Func}"}[cc.Case.Fixed])
		if len(cc.Case.Hist) > 0 {
			where = fmt.Sprintf("request %d of the history (query cache %s) with variables %v, limit %d, Cx=%d", i+1, cc.Case.Cache, cc.Case.Hist[i].Vars, lim, cxi)
			if st := cc.Case.Hist[i]; st.Ctx != "" {
				where += ", request context " + ctxDesc(st.Ctx, st.K)
				k.add(func() {
					if st.Ctx == "during" {
						k.ctxDuring++
						if r.Fired {
							k.duringFired++
						}
					} else {
						k.ctxPre++
					}
					if cc.Rej[i] {
						k.ctxOver++
					} else {
						k.ctxWithin++
					}
				})
			}
			k.add(func() {
				k.histReqs++
				if i > 0 && cc.Case.Cache != "none" {
					k.histCached++
				}
			})
		}
		if r.Bad != "" {
			c.Violate("bad-response", fmt.Sprintf("%s: %s\n%s", where, r.Bad, desc()), replay)
			continue
		}
		isRejected := len(r.Errors) > 0 && !r.HasData
		if cc.IfaceAMD {
			k.add(func() {
				if cc.Rej[i] {
					k.ifaceAMDRej++
				} else {
					k.ifaceAMDAdm++
				}
			})
		}
		if cc.NonFirst {
			k.add(func() {
				if cc.Rej[i] {
					k.nonFirstRej++
				} else {
					k.nonFirstAdm++
				}
			})
		}
		if cc.Rej[i] {
			k.add(func() { k.rejected++ })
			if r.Resolved > 0 {
				c.Violate("over-limit-executed", fmt.Sprintf("%s: the operation is over the limit but %d resolver(s) ran (errors=%v)\n%s", where, r.Resolved, r.Errors, desc()), replay)
			} else if !isRejected {
				c.Violate("over-limit-not-rejected", fmt.Sprintf("%s: the operation is over the limit but the response is not an error (errors=%v data=%v)\n%s", where, r.Errors, r.HasData, desc()), replay)
			}
		} else {
			k.add(func() { k.admitted++ })
			ctxDone := len(cc.Case.Hist) > 0 && cc.Case.Hist[i].Ctx != ""
			forComplexity := false
			for _, code := range r.Codes {
				if code == "COMPLEXITY_LIMIT_EXCEEDED" {
					forComplexity = true
				}
			}
			switch {
			case ctxDone:
				// the request's context is done: whether and how far the operation still executes is not C14's
				// business (resolvers see a done context); it must not be rejected FOR COMPLEXITY
				if forComplexity {
					c.Violate("within-limit-rejected", fmt.Sprintf("%s: the operation is within the limit but was rejected for complexity: %v\n%s", where, r.Errors, desc()), replay)
				}
				if len(r.Errors) == 0 && r.HasData {
					k.add(func() { k.ctxWithinExecuted++ })
				}
			case isRejected && r.Resolved == 0:
				c.Violate("within-limit-rejected", fmt.Sprintf("%s: the operation is within the limit but was rejected: %v\n%s", where, r.Errors, desc()), replay)
			case len(r.Errors) > 0:
				c.Violate("within-limit-errors", fmt.Sprintf("%s: unexpected errors %v\n%s", where, r.Errors, desc()), replay)
			case !r.HasData || (!probe && r.Resolved == 0):
				c.Violate("within-limit-not-executed", fmt.Sprintf("%s: the operation is within the limit but did not execute (data=%v resolved=%d)\n%s", where, r.HasData, r.Resolved, desc()), replay)
			}
		}
		if r.StatsSeen {
			k.add(func() {
				k.stats++
				if cc.Rej[i] {
					k.statsRej++
				}
			})
			if r.StatsCx != cxi {
				c.Violate("stats-complexity-differs", fmt.Sprintf("%s: ComplexityStats.Complexity = %d, the definition gives %d\n%s", where, r.StatsCx, cxi, desc()), replay)
			}
			if r.StatsLimit != lim {
				c.Violate("stats-limit-differs", fmt.Sprintf("%s: ComplexityStats.ComplexityLimit = %d\n%s", where, r.StatsLimit, desc()), replay)
			}
		}
	}
	k.add(func() {
		if strings.Contains(cc.Variant, "multi") {
			k.multi++
		}
		if strings.Contains(cc.Case.Query, "fragment ") {
			k.spreads++
		}
		if repeatedSpread(cc.Case.Query) {
			k.respread++
		}
		if strings.Contains(cc.Shape, "node{") {
			k.iface++
		}
		if len(cc.Case.Vars) > 0 {
			k.argvar++
		}
		if cc.Cx == math.MaxInt64 {
			k.sat++
		}
		if cc.NonFirst {
			k.nonFirst++
		}
		if cc.IfaceRep {
			k.ifaceRep++
		}
		if cc.IfaceAMD {
			k.ifaceAMD++
			switch cc.IfaceOrder {
			case "cheap-first":
				k.ifaceCheapFirst++
			case "expensive-first":
				k.ifaceExpFirst++
			}
			switch cc.IfaceHow {
			case "fragment":
				k.ifaceAMDFrag++
			case "nested":
				k.ifaceAMDNested++
			}
		}
	})
	if cc.IfaceAMD {
		c.Class("iface-argmax-differs|" + cc.IfaceOrder + "|" + cc.IfaceHow + "|" + cc.Shape + "|" + cc.CostCls)
	}
}

// judgeTable compares what ExecutableSchema.Complexity answered with the table the specification prescribes.
// ctxDesc says in words what the context of a request / calculation does.
func ctxDesc(state string, k int) string {
	switch state {
	case "cancelled":
		return "is cancelled before the operation is priced"
	case "deadline":
		return "has a deadline that passed before the operation is priced"
	case "during":
		return fmt.Sprintf("is cancelled while the operation is priced (from inside call %d of a custom complexity function)", k)
	}
	return "is live"
}

func judgeTable(c *vlib.Check, k *counters, binding string, cc *Conc, res *ur.C14Result, replay map[string]any) {
	if len(res.Cells) != len(cc.Case.Table) || len(cc.TableExp) != len(cc.Case.Table) {
		vlib.Infra("[%s] %d cells for %d probes", binding, len(res.Cells), len(cc.Case.Table))
	}
	cj, _ := json.Marshal(cc.Case.Costs)
	for i, cell := range res.Cells {
		pr, exp := cc.Case.Table[i], cc.TableExp[i]
		c.AddEvals(1)
		c.Class(exp.Class)
		k.add(func() {
			k.cells++
			if exp.Ok && strings.Contains(exp.Class, "#") && !strings.Contains(exp.Class, "#1|") {
				k.cellsNonFirstCustom++
			}
			if strings.HasSuffix(exp.Class, "outside-the-abstract-schema") {
				k.cellsExtra++
			}
		})
		args := "{}"
		if pr.HasX {
			args = fmt.Sprintf("{x: %d}", pr.X)
		}
		call := fmt.Sprintf("[%s] Complexity(%q, %q, childComplexity=%d, args=%s) with the ComplexityRoot functions %s", binding, pr.Type, pr.Field, pr.Child, args, cj)
		// one report per key: the same field fails in every row of the table, and the gate replay must get its share of the report
		violate := func(key, detail string) {
			first := false
			k.add(func() {
				if k.tableSeen == nil {
					k.tableSeen = map[string]bool{}
				}
				first = !k.tableSeen[key]
				k.tableSeen[key] = true
			})
			if first {
				c.Violate(key, detail, replay)
			}
		}
		switch {
		case cell.Panic != "":
			violate("complexity-switch-panics", fmt.Sprintf("%s panicked: %s", call, cell.Panic))
		case exp.Ok && !cell.Ok:
			violate("custom-cost-ignored:"+pr.Type+"."+pr.Field, fmt.Sprintf("%s answers \"no custom cost\" (%d, false); a function is configured on the entry that serves this field, its value is %d", call, cell.V, exp.V))
		case !exp.Ok && cell.Ok:
			violate("custom-cost-misattributed:"+pr.Type+"."+pr.Field, fmt.Sprintf("%s answers (%d, true); no function is configured on the entry that serves this field", call, cell.V))
		case exp.Ok && cell.V != exp.V:
			violate("custom-cost-differs:"+pr.Type+"."+pr.Field, fmt.Sprintf("%s answers %d, the configured function gives %d", call, cell.V, exp.V))
		}
	}
}

// ---------------------------------------------------------------------------

func runHandWritten(c *vlib.Check, k *counters, schema *ast.Schema, binding map[string]map[string]string, concs []*Conc) {
	ch := make(chan *Conc, 256)
	var wg sync.WaitGroup
	for w := 0; w < 6; w++ {
		wg.Add(1)
		go func() {
			defer wg.Done()
			for cc := range ch {
				es := &hwES{schema: schema, binding: binding, costs: cc.Case.Costs}
				res := ur.C14Exec(es, &cc.Case)
				judge(c, k, "hand-written schema", false, cc, res)
			}
		}()
	}
	for _, cc := range concs {
		ch <- cc
	}
	close(ch)
	wg.Wait()
}

func runProbe(c *vlib.Check, k *counters, bin, variant string, concs []*Conc, procs int, extras []ur.C14Probe) {
	ch := make(chan *Conc, 256)
	var wg sync.WaitGroup
	var emu sync.Mutex
	var firstErr error
	for w := 0; w < procs; w++ {
		wg.Add(1)
		go func() {
			defer wg.Done()
			p, err := vlib.StartProc(bin, nil)
			if err != nil {
				emu.Lock()
				firstErr = err
				emu.Unlock()
				for range ch {
				}
				return
			}
			defer p.Close()
			for cc := range ch {
				if len(cc.Case.Table) > 0 && len(extras) > 0 && len(cc.Case.Table) == len(cc.Abs.Table) {
					cc = withExtras(cc, extras)
				}
				if err := p.Send(&cc.Case); err != nil {
					judge(c, k, "generated "+variant, true, cc, nil)
					_ = p.Restart()
					continue
				}
				var res ur.C14Result
				if err := p.Recv(&res, 60*time.Second); err != nil {
					if strings.Contains(err.Error(), "timeout") {
						emu.Lock()
						firstErr = fmt.Errorf("probe %s timed out on %s", variant, cc.Case.Query)
						emu.Unlock()
					} else {
						fmt.Fprintf(os.Stderr, "probe died: %v\n%s\n", err, p.Stderr)
						judge(c, k, "generated "+variant, true, cc, nil)
					}
					_ = p.Restart()
					continue
				}
				judge(c, k, "generated "+variant, true, cc, &res)
			}
		}()
	}
	for _, cc := range concs {
		ch <- cc
	}
	close(ch)
	wg.Wait()
	if firstErr != nil {
		vlib.Infra("probe %s: %v", variant, firstErr)
	}
}

// checkProbeSchema makes sure the generated probe's schema contains the abstract schema.
func checkProbeSchema(bin string, s *SchemaA) {
	ps, _, err := vlib.FetchSchema(bin)
	if err != nil {
		vlib.Infra("probe schema: %v", err)
	}
	for tn, t := range s.Schema {
		pt, ok := ps.Types[tn]
		if !ok || pt.Kind != t.Kind {
			vlib.Infra("probe schema lacks %s %s", t.Kind, tn)
		}
		for fn, f := range t.Fields {
			pf, ok := pt.Fields[fn]
			if !ok || pf.Name != f.Type {
				vlib.Infra("probe schema: %s.%s is not of type %s", tn, fn, f.Type)
			}
		}
		if t.Kind == "UNION" {
			got := append([]string{}, pt.Possible...)
			want := append([]string{}, t.Possible...)
			sort.Strings(got)
			sort.Strings(want)
			if strings.Join(got, ",") != strings.Join(want, ",") {
				vlib.Infra("probe schema: union %s = %v, the abstract schema says %v", tn, got, want)
			}
		}
	}
}

func norm(s string) string { return strings.ToLower(strings.ReplaceAll(s, "_", "")) }

// checkProbeBinding makes sure the generated probe realises the binding the specification assumes
// (state bnd): it reads the generated ComplexityRoot by reflection - not through the Complexity() switch
// under test - and compares entries, argument signatures, declaration order inside every group and which
// fields are resolver-backed. It returns the (type, field) pairs of the probe's schema that the abstract
// schema does not mention.
func checkProbeBinding(bin string, s *SchemaA) []ur.C14Probe {
	p, err := vlib.StartProc(bin, nil)
	if err != nil {
		vlib.Infra("probe layout: %v", err)
	}
	defer p.Close()
	if err := p.Send(&ur.C14Case{Cmd: "c14", ID: "layout", Layout: true}); err != nil {
		vlib.Infra("probe layout: %v", err)
	}
	var res ur.C14Result
	if err := p.Recv(&res, 30*time.Second); err != nil || res.Layout == nil {
		vlib.Infra("probe layout: %v %s", err, res.Err)
	}
	l := res.Layout
	for tn, t := range s.Schema {
		if t.Kind != "OBJECT" {
			continue
		}
		order := l.Order[tn]
		pos := map[string]int{}
		for i, f := range order {
			pos[f] = i
		}
		entries := l.Entries[tn]
		want := map[string][]string{} // normalised entry -> its fields
		for fn, fd := range t.Fields {
			if _, ok := pos[fn]; !ok {
				vlib.Infra("probe schema lacks %s.%s", tn, fn)
			}
			e := s.Binding[tn][fn]
			if !strings.HasPrefix(e, tn+".") {
				vlib.Infra("the model binds %s.%s to %q", tn, fn, e)
			}
			key := norm(strings.TrimPrefix(e, tn+"."))
			want[key] = append(want[key], fn)
			found := false
			for en, argc := range entries {
				if norm(en) == key {
					found = true
					if (fd.Arg && argc < 1) || (!fd.Arg && argc != 0) {
						vlib.Infra("ComplexityRoot.%s.%s takes %d arguments, the model says arg=%v for %s", tn, en, argc, fd.Arg, fn)
					}
				}
			}
			if !found {
				vlib.Infra("the generated ComplexityRoot.%s has no entry for %q (field %s): the probe does not realise the model's binding (entries %v)", tn, e, fn, entries)
			}
			if fd.How != "" {
				isRes := fd.How == "resolver" || fd.How == "resolver-own"
				if l.Res[tn+"."+fn] != isRes {
					vlib.Infra("%s.%s: the model says how=%s, the probe says resolver-backed=%v", tn, fn, fd.How, l.Res[tn+"."+fn])
				}
			}
		}
		// a type the model describes completely must have exactly the model's entries (one per group)
		if len(order) == len(t.Fields) && len(entries) != len(want) {
			vlib.Infra("ComplexityRoot.%s has %d entries %v, the model's binding has %d groups %v", tn, len(entries), entries, len(want), want)
		}
		// ord = declaration order inside the group
		for key, fs := range want {
			sort.Slice(fs, func(i, j int) bool { return pos[fs[i]] < pos[fs[j]] })
			for i, fn := range fs {
				if t.Fields[fn].Ord != i+1 {
					vlib.Infra("%s.%s is declared %d. of the fields of entry %s in the probe, the model says %d.", tn, fn, i+1, key, t.Fields[fn].Ord)
				}
			}
		}
	}
	var extras []ur.C14Probe
	tns := make([]string, 0, len(l.Order))
	for tn := range l.Order {
		tns = append(tns, tn)
	}
	sort.Strings(tns)
	for _, tn := range tns {
		for _, fn := range l.Order[tn] {
			if t, ok := s.Schema[tn]; ok {
				if _, ok := t.Fields[fn]; ok {
					continue
				}
			}
			extras = append(extras, ur.C14Probe{Type: tn, Field: fn, Child: 4})
		}
	}
	return extras
}

func replayOne(c *vlib.Check, path string, schemaOf func() (*SchemaA, *ast.Schema)) {
	b, err := os.ReadFile(path)
	if err != nil {
		vlib.Infra("replay: %v", err)
	}
	var f struct {
		Scenario struct {
			Binding string `json:"binding"`
			Conc    *Conc  `json:"conc"`
		} `json:"scenario"`
	}
	if err := json.Unmarshal(b, &f); err != nil || f.Scenario.Conc == nil {
		vlib.Infra("replay: cannot read scenario from %s: %v", path, err)
	}
	cc := f.Scenario.Conc
	k := &counters{}
	if strings.HasPrefix(f.Scenario.Binding, "generated ") {
		vname := strings.TrimPrefix(f.Scenario.Binding, "generated ")
		for _, v := range probeVariants() {
			if v.ID() == vname {
				bin, err := vlib.BuildProbe("c14", v)
				if err != nil {
					vlib.Infra("build probe: %v", err)
				}
				runProbe(c, k, bin, vname, []*Conc{cc}, 1, nil)
			}
		}
	} else {
		sa, schema := schemaOf()
		runHandWritten(c, k, schema, sa.Binding, []*Conc{cc})
	}
	c.Set("rule", "replay of one recorded scenario")
	c.Sample(map[string]any{"replayed": path})
	c.Finish()
}

func probeVariants() []vlib.Variant {
	// v0: single-file layout (codegen/generated!.gotpl); v1: follow-schema layout (codegen/root_.gotpl)
	return []vlib.Variant{
		{Name: "v0"},
		{Name: "v1", FollowSchema: true, FuncSyntax: true, WorkerLimit: 2},
	}
}

func main() {
	c := vlib.NewCheck("C14", "exploration")
	thorough := vlib.Tier() == "thorough"
	seed := vlib.Seed()

	// probes build while TLC runs
	type built struct {
		bins map[string]string
		err  error
	}
	bch := make(chan built, 1)
	go func() {
		bins, err := vlib.BuildProbes("c14", probeVariants())
		bch <- built{bins, err}
	}()

	if rp := os.Getenv("VERIF_REPLAY"); rp != "" {
		<-bch
		replayOne(c, rp, func() (*SchemaA, *ast.Schema) {
			g := runTLC("MC_Complexity_grid.cfg", "tlc-grid", 1, true, false, 5*time.Minute)
			sch, err := gqlparser.LoadSchema(&ast.Source{Name: "c14.graphqls", Input: renderSDL(g.schema)})
			if err != nil {
				vlib.Infra("abstract schema does not load: %v", err)
			}
			return g.schema, sch
		})
		return
	}

	// 1. the model: theorems on small integers, the boundary grid, the operation corpus
	thmCfg, genCfg := "MC_Complexity.cfg", "MC_Complexity_emit.cfg"
	if thorough {
		thmCfg, genCfg = "MC_Complexity_thorough.cfg", "MC_Complexity_thorough_emit.cfg"
	}
	gateCfg := "MC_ComplexityGate.cfg"
	if thorough {
		gateCfg = "MC_ComplexityGate_thorough.cfg"
	}
	ifaceCfg := "MC_Complexity_iface.cfg"
	if thorough {
		ifaceCfg = "MC_Complexity_iface_thorough.cfg"
	}
	var small, thm, grid, gen, frag, gate, bind, gctx, iface *tlcOut
	var wg sync.WaitGroup
	wg.Add(6)
	go func() {
		defer wg.Done()
		frag = runTLC("MC_Complexity_frag.cfg", "tlc-frag", 1, true, false, 15*time.Minute)
	}()
	go func() { defer wg.Done(); gate = runTLC(gateCfg, "tlc-gate", 1, true, false, 20*time.Minute) }()
	go func() {
		defer wg.Done()
		small = runTLC("MC_Complexity_small.cfg", "tlc-small", 1, false, thorough, 20*time.Minute)
	}()
	go func() { defer wg.Done(); thm = runTLC(thmCfg, "tlc-thm", 2, false, false, 40*time.Minute) }()
	go func() {
		defer wg.Done()
		// short runs one after the other (at most six TLC processes at a time)
		grid = runTLC("MC_Complexity_grid.cfg", "tlc-grid", 1, true, false, 10*time.Minute)
		bind = runTLC("MC_Complexity_bind.cfg", "tlc-bind", 1, true, false, 15*time.Minute)
		// one interface field selected several times in one operation (three short runs in this slot)
		iface = runTLC(ifaceCfg, "tlc-iface", 1, true, false, 25*time.Minute)
	}()
	go func() {
		defer wg.Done()
		gen = runTLC(genCfg, "tlc-gen", 1, true, false, 40*time.Minute)
		// the request context as state (at most six TLC processes at a time: after the emission run)
		gctx = runTLC("MC_ComplexityGate_ctx.cfg", "tlc-gctx", 1, true, false, 20*time.Minute)
	}()
	wg.Wait()
	if thm.res.Distinct != gen.res.Distinct {
		vlib.Infra("the theorem run (%d states) and the emission run (%d states) explored different state spaces", thm.res.Distinct, gen.res.Distinct)
	}
	for _, t := range []*tlcOut{small, thm, grid, gen, frag, gate, bind, gctx, iface} {
		c.AddStates(t.res.Distinct, t.res.Generated)
	}
	if thorough {
		for _, a := range []string{"ChooseCosts", "Compute", "Init"} {
			if small.res.ActionCount[a] == 0 {
				vlib.Infra("TLC coverage: action %s never taken (vacuous model run)", a)
			}
		}
	}
	fmt.Fprintf(os.Stderr, "TLC: frag %d cases %.0fs, %s %d histories (%d states) %.0fs\n", len(frag.cases), frag.res.WallS, gateCfg, len(gate.cases), gate.res.Distinct, gate.res.WallS)
	fmt.Fprintf(os.Stderr, "TLC: gate/ctx %d histories (%d states) %.0fs\n", len(gctx.cases), gctx.res.Distinct, gctx.res.WallS)
	fmt.Fprintf(os.Stderr, "TLC: iface %d cases (%d states) %.0fs\n", len(iface.cases), iface.res.Distinct, iface.res.WallS)
	fmt.Fprintf(os.Stderr, "TLC: bind %d cases (%d states) %.0fs\n", len(bind.cases), bind.res.Distinct, bind.res.WallS)
	fmt.Fprintf(os.Stderr, "TLC: small %d states %.0fs, theorems %s %d states %.0fs, grid %d cases %.0fs, %s %d cases %.0fs\n",
		small.res.Distinct, small.res.WallS, thmCfg, thm.res.Distinct, thm.res.WallS, len(grid.cases), grid.res.WallS, genCfg, len(gen.cases), gen.res.WallS)
	if fmt.Sprint(grid.schema.Max) != fmt.Sprint(gen.schema.Max) || conc(gen.schema.Max) != math.MaxInt64 {
		vlib.Infra("the symbolic MAX %+v does not concretise to math.MaxInt", gen.schema.Max)
	}

	// 2. the abstract schema as SDL
	schemaA := gen.schema
	schema, err := gqlparser.LoadSchema(&ast.Source{Name: "c14.graphqls", Input: renderSDL(schemaA)})
	if err != nil {
		vlib.Infra("abstract schema does not load: %v\n%s", err, renderSDL(schemaA))
	}

	// 3. concretise
	r := rand.New(rand.NewSource(seed))
	rc := rand.New(rand.NewSource(seed*7919 + 14))
	var concs []*Conc
	modes := []string{"lit", "var", "vdef"}
	add := func(src string, cases []*CaseJ) {
		for i, cs := range cases {
			var ms []string
			switch {
			case !hasArgSet(cs.Sels):
				ms = []string{"lit"}
			case thorough:
				ms = modes
			default:
				ms = []string{modes[(i+int(seed))%3]}
			}
			for _, m := range ms {
				var decoys []*CaseJ
				if (i+int(seed))%5 == 0 {
					n := 1 + r.Intn(2)
					for j := 0; j < n; j++ {
						decoys = append(decoys, cases[r.Intn(len(cases))])
					}
				}
				fixed := r.Intn(2) == 0
				cc := concretise(schemaA, src, i, cs, decoys, r, m, fixed)
				// complexity.Calculate once more under a context that is done or becomes done while pricing
				// (its own random stream: the documents of a seed stay what they were)
				switch rc.Intn(4) {
				case 0:
					cc.Case.CalcCtx = "cancelled"
				case 1:
					cc.Case.CalcCtx = "deadline"
				default:
					cc.Case.CalcCtx, cc.Case.CalcK = "during", 1+rc.Intn(2)
				}
				concs = append(concs, cc)
			}
		}
	}
	add("grid", grid.cases)
	add("frag", frag.cases)
	add("gen", gen.cases)
	// shared ComplexityRoot entries: operations through every field of every group, and the Complexity() table
	var bindOps []*CaseJ
	nTable := 0
	for i, cs := range bind.cases {
		if len(cs.Sels) == 0 {
			if len(cs.Table) == 0 {
				vlib.Infra("MC_Complexity_bind.cfg printed a case without operation and without table")
			}
			concs = append(concs, concretiseTable(schemaA, i, cs))
			nTable++
			continue
		}
		bindOps = append(bindOps, cs)
	}
	if fmt.Sprint(bind.schema.Binding) != fmt.Sprint(schemaA.Binding) || len(schemaA.Binding) == 0 {
		vlib.Infra("the corpora were generated under different bindings")
	}
	add("bind", bindOps)
	// one interface field selected several times: the specification must have delivered occurrence lists, and
	// operations in which the most expensive implementor differs between two occurrences, in both orders
	if fmt.Sprint(iface.schema.Binding) != fmt.Sprint(schemaA.Binding) || schemaA.BigArg <= schemaA.ArgVal {
		vlib.Infra("the iface corpus was generated under another schema (bigarg %d, argval %d)", schemaA.BigArg, schemaA.ArgVal)
	}
	nIfaceAMD := map[string]int{}
	for _, cs := range iface.cases {
		if _, amd, order := occClass(cs.Occ); amd {
			nIfaceAMD[order]++
		}
	}
	if nIfaceAMD["cheap-first"] == 0 || nIfaceAMD["expensive-first"] == 0 {
		vlib.Infra("%s printed no operation in which two occurrences of one interface field have different most expensive implementors in both orders (vacuous): %v", ifaceCfg, nIfaceAMD)
	}
	add("iface", iface.cases)
	nHist := 0
	for i, h := range gate.cases {
		if len(h.Hist) == 0 {
			vlib.Infra("%s printed a line without a history", gateCfg)
		}
		concs = append(concs, concretiseHist(schemaA, "hist", i, h, r))
		nHist++
	}
	nCtxHist := 0
	for i, h := range gctx.cases {
		if len(h.Hist) == 0 {
			vlib.Infra("MC_ComplexityGate_ctx.cfg printed a line without a history")
		}
		concs = append(concs, concretiseHist(schemaA, "ctx", i, h, r))
		nCtxHist++
	}

	// 4. replay against the real code
	k := &counters{}
	t0 := time.Now()
	runHandWritten(c, k, schema, schemaA.Binding, concs)
	fmt.Fprintf(os.Stderr, "hand-written schema: %d concrete cases in %.1fs\n", len(concs), time.Since(t0).Seconds())

	b := <-bch
	if b.err != nil {
		vlib.Infra("build c14 probes: %v", b.err)
	}
	var pw sync.WaitGroup
	for _, v := range probeVariants() {
		checkProbeSchema(b.bins[v.ID()], schemaA)
		extras := checkProbeBinding(b.bins[v.ID()], schemaA)
		if len(extras) == 0 {
			vlib.Infra("the probe's schema has no field outside the abstract schema (vacuous)")
		}
		pw.Add(1)
		go func(v vlib.Variant) {
			defer pw.Done()
			t1 := time.Now()
			runProbe(c, k, b.bins[v.ID()], v.ID(), concs, 3, extras)
			fmt.Fprintf(os.Stderr, "generated %s: %d concrete cases in %.1fs\n", v.ID(), len(concs), time.Since(t1).Seconds())
		}(v)
	}
	pw.Wait()

	// 5. non-vacuity and evidence
	if k.rejected == 0 || k.admitted == 0 || k.stats == 0 || k.multi == 0 || k.spreads == 0 || k.iface == 0 || k.argvar == 0 || k.sat == 0 || k.respread == 0 || k.histReqs == 0 || k.histCached == 0 ||
		k.nonFirst == 0 || k.nonFirstRej == 0 || k.nonFirstAdm == 0 || k.cells == 0 || k.cellsNonFirstCustom == 0 || k.cellsExtra == 0 || nTable == 0 ||
		k.ifaceRep == 0 || k.ifaceAMD == 0 || k.ifaceCheapFirst == 0 || k.ifaceExpFirst == 0 || k.ifaceAMDFrag == 0 || k.ifaceAMDNested == 0 || k.ifaceAMDRej == 0 || k.ifaceAMDAdm == 0 ||
		k.ctxPre == 0 || k.ctxDuring == 0 || k.ctxOver == 0 || k.ctxWithin == 0 || k.duringFired == 0 || k.calcCtx == 0 || k.calcCtxDuringFired == 0 || nCtxHist == 0 {
		vlib.Infra("vacuous run: %+v", k)
	}
	c.Set("rule", "TLC enumerates every selection tree over the abstract schema (objects, interface Node with implementors A/B/Named, union U; fields, arguments, inline fragments, fragment spreads, __typename, __schema) with at most MaxSize nodes (quick 3, thorough 4; siblings in canonical order, the concretiser permutes them) x every assignment of the cost-function family {const 0/2/-1/H/H+1/MAX-1/MAX, child+0/2/MAX-1, child*2, child-1, child+arg} to at most two Type.field slots plus the uniform assignments, plus the safeAdd grid corpus (7 two-cost operation shapes x all pairs of the 12-point int boundary grid), plus the fragment corpus (one named fragment spread 2-3 times: sibling fields, different parent types, nested, twice in one selection set, inside another fragment; 30 shapes x cost pairs incl. child*k); the spec prescribes Cx and the gate decision for limits {Cx-1, Cx, Cx+1, 0, MAX}. Each case runs against complexity.Calculate and an HTTP POST per limit on handler.Server+ComplexityLimit, over a hand-written ExecutableSchema and over generated servers (both layouts). ComplexityGate.tla adds histories: one server (query cache none/MapCache/lru/lru of size 1) receives every sequence of 2 (thorough 3, optionally another query text in between) requests with the same query text whose cost depends on the request variable $n in {absent, 3, 100} at limit Cx-1 or Cx; each request is judged against its own prescribed decision. Custom cost functions are configured per ComplexityRoot ENTRY; the binding (state bnd: which entry serves which GraphQL field) is part of the model, and the object Sh has entries shared by 2-3 GraphQL fields in every way gqlgen supports (gqlgen.yml fieldName, @goField(name:), new_foo/newFoo collapsing to one Go name, a resolver-backed field sharing the Go name, struct field and method with an argument; declared first/second/last). The bind corpus sends operations through EVERY field of every group (alone, two of a group side by side, below one named fragment spread twice, two groups side by side; arguments as literal/variable/variable default) x cost assignments on the shared entry, its parent and its child, with the gate limits as above; and the Complexity() table calls the generated ExecutableSchema.Complexity(type, field, child, args) directly for EVERY (type, field) of the probe's schema x child in {0,4} x argument absent/set under {each entry alone with const 2 / child+2 / child+arg, all entries const 7, none} and compares with the specification's GenComplexity (fields outside the abstract schema are served by their own, never configured, entry). The request CONTEXT is state of the gate machine too (ComplexityGate Mode ctx: Arrive / PriceCall / DecideReq; a context is live, done before pricing (cancelled or deadline passed) or becomes done in the k-th call of a custom complexity function - user code, which the harness lets cancel the request context from inside) and no decision reads it: 4 query texts calling 2-4 custom functions x every sequence of 2 requests x limit Cx-1/Cx x every such context point are sent to one server (request context pre-cancelled / deadline in the past / cancelled from inside the k-th ComplexityRoot function while ComplexityLimit prices the operation) and complexity.Calculate is called under the same contexts; in addition every case of every corpus calls complexity.Calculate once more under a cancelled / deadline-exceeded / cancelled-in-call-1-or-2 context. Over the limit => rejected and no resolver ran, whatever the context; the number is the same whatever the context. The iface corpus: interface Box {id, items(x): A, inner: Box} with the object implementors Shelf and Archive; ONE operation selects Box.items / Box.inner several times with different arguments (3 / 100 / absent) and sub-selections (children's cost 1 / 2 / 4) - as aliased siblings, below two selections of the parent, inside a named fragment (before / after / spread twice), inside an inline fragment, nested below Box.inner, three times - every context in both orders (the concretiser keeps the sibling order of these trees) x {none, one entry, two entries} from {const 50, child*3, child+x, x*(1+child)} on Shelf.items / Archive.items and {const 50, child*2, child+50} on Shelf.inner / Archive.inner plus 5 assignments on 3-4 entries, so that the most expensive implementor differs between two occurrences of one field (the specification prints per occurrence its cost and argmax set; theorems TOccMax, TOccIndep, TPerm). A class is distinct by (tree shape, cost-assignment class, limit relation or cache kind + request sequence incl. context points) resp. (type.field, way of binding and declaration position, cost class, argument, custom or not).")
	c.Set("exhaustive", true)
	c.Set("tlc", map[string]any{
		"small_theorems": map[string]any{"distinct": small.res.Distinct, "wall_s": small.res.WallS},
		"theorems":       map[string]any{"config": thmCfg, "distinct": thm.res.Distinct, "wall_s": thm.res.WallS},
		"grid":           map[string]any{"distinct": grid.res.Distinct, "cases": len(grid.cases), "wall_s": grid.res.WallS},
		"fragments":      map[string]any{"distinct": frag.res.Distinct, "cases": len(frag.cases), "wall_s": frag.res.WallS},
		"gate_histories": map[string]any{"config": gateCfg, "distinct": gate.res.Distinct, "histories": len(gate.cases), "wall_s": gate.res.WallS},
		"corpus":         map[string]any{"config": genCfg, "distinct": gen.res.Distinct, "cases": len(gen.cases), "wall_s": gen.res.WallS},
		"gate_contexts":  map[string]any{"config": "MC_ComplexityGate_ctx.cfg", "distinct": gctx.res.Distinct, "histories": len(gctx.cases), "wall_s": gctx.res.WallS},
		"interface_field_repeated": map[string]any{"config": ifaceCfg, "distinct": iface.res.Distinct, "cases": len(iface.cases), "cases_argmax_differs_by_order": nIfaceAMD, "wall_s": iface.res.WallS},
		"shared_entries": map[string]any{"distinct": bind.res.Distinct, "cases": len(bind.cases), "operations": len(bindOps), "table_assignments": nTable, "wall_s": bind.res.WallS},
	})
	c.Set("concrete_cases", len(concs))
	c.Set("observed", map[string]any{"calculate_calls": k.calcs, "requests_over_limit": k.rejected, "requests_within_limit": k.admitted,
		"stats_observed": k.stats, "stats_observed_on_rejected": k.statsRej, "multi_operation_documents": k.multi,
		"documents_with_named_fragments": k.spreads, "interface_field_cases": k.iface, "cases_with_variables": k.argvar, "saturated_at_MaxInt": k.sat,
		"documents_spreading_one_fragment_repeatedly": k.respread, "history_requests": k.histReqs, "history_requests_after_first_on_caching_server": k.histCached,
		"cases_through_a_non_first_field_of_a_shared_entry": k.nonFirst, "their_requests_over_limit": k.nonFirstRej, "their_requests_within_limit": k.nonFirstAdm,
		"complexity_table_cells": k.cells, "table_cells_custom_cost_via_non_first_field": k.cellsNonFirstCustom, "table_cells_of_fields_outside_the_abstract_schema": k.cellsExtra,
		"requests_context_done_before_pricing": k.ctxPre, "requests_context_cancelled_during_pricing": k.ctxDuring, "of_them_cancel_hook_fired": k.duringFired,
		"context_requests_over_limit": k.ctxOver, "context_requests_within_limit": k.ctxWithin, "of_them_executed_without_errors": k.ctxWithinExecuted,
		"cases_selecting_one_interface_field_repeatedly": k.ifaceRep, "of_them_most_expensive_implementor_differs_between_occurrences": k.ifaceAMD,
		"of_them_cheap_occurrence_priced_first": k.ifaceCheapFirst, "of_them_expensive_occurrence_priced_first": k.ifaceExpFirst,
		"of_them_through_fragments": k.ifaceAMDFrag, "of_them_nested": k.ifaceAMDNested,
		"their_requests_over_limit_rejected_nothing_ran": k.ifaceAMDRej, "their_requests_within_limit_executed": k.ifaceAMDAdm,
		"calculate_calls_under_a_non_live_context": k.calcCtx, "of_them_cancelled_from_inside_a_custom_function": k.calcCtxDuringFired})
	c.Set("binding", schemaA.Binding)
	// on a tree without violations every "during" request must really have been cancelled from inside pricing
	if c.Violations() == 0 && k.duringFired != k.ctxDuring {
		vlib.Infra("context dimension: %d of %d requests whose context should be cancelled during pricing were (the model's NCalls does not match the walker)", k.duringFired, k.ctxDuring)
	}
	c.Set("histories", nHist)
	c.Set("context_histories", nCtxHist)
	c.Assume("the cost functions of the family are the harness's own user code (saturating at both ends); user functions that overflow by themselves are outside the statement")
	c.Assume("symbolic integers h*H+d (H=(MaxInt-1)/2) are compared lexicographically: exact while |d| < H/2; the model keeps |d| < 100 (invariant TDSmall) and the lemma PairAlgebra is checked by TLC")
	c.Assume("the probe realises the model's binding: checked before the replay by reading the generated ComplexityRoot struct by reflection (entries, signatures, declaration order inside each group, resolver-backed fields), not through the Complexity() switch under test")
	c.Assume("a context that becomes done DURING pricing is produced deterministically: the k-th call of a configured custom complexity function (user code in the middle of complexity.Calculate) cancels the request context; cancellations between two instructions of the walker itself are not scheduled")
	c.Assume("hand-written schema: 'a resolver ran' is observed as ExecutableSchema.Exec being invoked; generated servers: resolver Start events of the universal resolver")
	// samples: one per source / interesting feature
	pick := func(pred func(*Conc) bool) {
		for _, cc := range concs {
			if pred(cc) {
				c.Sample(map[string]any{"query": cc.Case.Query, "opname": cc.Case.OpName, "vars": cc.Case.Vars, "costs": cc.Case.Costs,
					"cx": cc.Cx, "limits": cc.Case.Limits, "rejected": cc.Rej})
				return
			}
		}
	}
	pick(func(cc *Conc) bool { return cc.Src == "grid" && cc.Cx == math.MaxInt64 && len(cc.Case.Costs) == 3 })
	pick(func(cc *Conc) bool {
		return cc.Src == "frag" && strings.Contains(cc.CostCls, "mul") && len(cc.Case.Costs) == 2
	})
	for _, cc := range concs {
		if cc.Src == "iface" && cc.IfaceAMD && cc.IfaceOrder == "cheap-first" && cc.IfaceHow == "siblings" && len(cc.Case.Costs) == 2 && strings.Contains(cc.CostCls, "argmul") {
			c.Sample(map[string]any{"query": cc.Case.Query, "opname": cc.Case.OpName, "vars": cc.Case.Vars, "costs": cc.Case.Costs,
				"interface_field_occurrences_in_pricing_order": cc.Abs.Occ, "cx": cc.Cx, "limits": cc.Case.Limits, "rejected": cc.Rej})
			break
		}
	}
	for _, cc := range concs {
		if cc.Src == "hist" && cc.Case.Cache == "lru" && cc.Rej[0] != cc.Rej[len(cc.Rej)-1] {
			c.Sample(map[string]any{"query": cc.Case.Query, "cache": cc.Case.Cache, "costs": cc.Case.Costs, "history": cc.Case.Hist, "cx": cc.CxRun, "rejected": cc.Rej})
			break
		}
	}
	// (vlib keeps the first six samples: the shared-entry cases come before the remaining picks of the gen corpus)
	pick(func(cc *Conc) bool {
		return cc.Src == "bind" && cc.NonFirst && strings.Contains(cc.Shape, "stock(x)") && strings.Contains(cc.CostCls, "argmul") && len(cc.Case.Costs) == 1
	})
	for _, cc := range concs {
		if cc.Src == "ctx" && len(cc.Case.Hist) == 2 && cc.Case.Hist[0].Ctx == "during" && cc.Case.Hist[0].K == 2 && cc.Case.Hist[1].Ctx == "deadline" && cc.Rej[0] && !cc.Rej[1] {
			c.Sample(map[string]any{"query": cc.Case.Query, "cache": cc.Case.Cache, "costs": cc.Case.Costs, "history_with_request_contexts": cc.Case.Hist, "cx": cc.CxRun, "rejected": cc.Rej})
			break
		}
	}
	for _, cc := range concs {
		if cc.Src == "table" && len(cc.Case.Costs) == 1 {
			if _, ok := cc.Case.Costs["Sh.NewBar"]; ok && cc.CostCls == "arg" {
				var probes []ur.C14Probe
				var exp []CellExp
				for i, pr := range cc.Case.Table {
					if pr.Type == "Sh" && pr.Child == 4 && (pr.HasX || !cc.TableExp[i].Ok) {
						probes = append(probes, pr)
						exp = append(exp, cc.TableExp[i])
					}
				}
				c.Sample(map[string]any{"complexity_table": "direct calls of the generated Complexity()", "costs": cc.Case.Costs, "probes": probes, "expected": exp})
				break
			}
		}
	}
	pick(func(cc *Conc) bool {
		return cc.Src == "gen" && strings.Contains(cc.Variant, "multi") && len(cc.Case.Vars) > 0
	})
	pick(func(cc *Conc) bool {
		return cc.Src == "gen" && strings.Contains(cc.Shape, "node{") && len(cc.Case.Costs) == 2
	})
	pick(func(cc *Conc) bool {
		return cc.Src == "gen" && strings.Contains(cc.Shape, "~") && strings.Contains(cc.CostCls, "neg")
	})
	c.Finish()
}
