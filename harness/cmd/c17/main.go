// C17: code generation succeeds and compiles for every supported schema and
// configuration.
//
// spec/ProjectCover.tla specifies `Generate` as TOTAL over the input space
// (schema feature set x configuration): for every supported row the outcome is
// [ok |-> TRUE, compiles |-> TRUE], also on top of the output of an earlier
// Generate (action Evolve).  TLC checks that the constructively defined cover is
// pairwise (ASSUME CoverOK; thorough tier: + full factorial over CubeFactors +
// more seeded rows), enumerates every Generate step with the prescribed outcome
// (EmitGen), and this driver replays each of them through the REAL generator
// (config.LoadConfig + api.Generate of the tree under test, separate process),
// then `go build ./...` and `go vet ./...` of the generated packages.  The
// projection (generator error? panic? build ok? vet ok?) is compared with the
// prescribed outcome.  Type-correctness is decided by the Go compiler, not by
// TLC: evidence level "exploration".
//
// A failing point is reduced automatically (factors switched back to their
// defaults) to a minimal failing factor set, which names the violation key.
package main

import (
	"encoding/json"
	"fmt"
	"os"
	"sort"
	"strconv"
	"strings"
	"sync"
	"time"

	"verifharness/projgen"
	"verifharness/vlib"
)

const prop = "C17"

type genStep struct {
	Start    int            `json:"start"`
	Step     int            `json:"step"`
	Row      projgen.C17Row `json:"row"`
	Ok       bool           `json:"ok"`
	Compiles bool           `json:"compiles"`
}

type chain struct {
	Start  int        `json:"start"`
	Seed   int64      `json:"seed"`
	NFiles int        `json:"nfiles"`
	Steps  []*genStep `json:"steps"`
}

type failure struct {
	ch      *chain
	step    *genStep
	out     projgen.C17Outcome
	project *projgen.C17Project
	quirk   string // set for the probe of a known-defect trigger
}

// stepSeed is constant along a chain: the names of an evolving schema stay put.
func stepSeed(ch *chain, st *genStep) int64 {
	return ch.Seed*1000003 + int64(ch.Start)*101
}

func runTLC(c *vlib.Check) []*chain {
	cfg := "MC_ProjectCover.cfg"
	if vlib.Tier() == "thorough" {
		cfg = "MC_ProjectCover_thorough.cfg"
	}
	seed := vlib.Seed()
	res, err := vlib.RunTLC(vlib.TLCOpts{Module: "ProjectCover", Config: cfg, Workers: 1, Timeout: 10 * time.Minute,
		Scratch: vlib.Work(prop, "mc"), HeapGB: 2,
		CfgEdit: func(s string) string {
			var out []string
			for _, ln := range strings.Split(s, "\n") {
				if strings.HasPrefix(strings.TrimSpace(ln), "Seed =") {
					ln = fmt.Sprintf("  Seed = %d", seed%1000000)
				}
				out = append(out, ln)
			}
			return strings.Join(out, "\n")
		}})
	if err != nil {
		vlib.Infra("tlc: %v", err)
	}
	if !res.OK {
		vlib.Infra("TLC %s did not complete (the cover is not pairwise, or an invariant of the specification failed on the model alone): %s\n%s",
			cfg, res.Violation, tail(res.Output, 2000))
	}
	c.AddStates(res.Distinct, res.Generated)
	byStart := map[int]*chain{}
	rows := 0
	for _, ln := range res.Printed {
		if !strings.HasPrefix(ln, "\"{") {
			if strings.HasPrefix(ln, "<<\"COVER\"") {
				c.Set("tlc_cover", ln)
			}
			continue
		}
		s, err := strconv.Unquote(strings.TrimSpace(ln))
		if err != nil {
			vlib.Infra("cannot unquote TLC output line: %v: %.200s", err, ln)
		}
		var st genStep
		if err := json.Unmarshal([]byte(s), &st); err != nil {
			vlib.Infra("decode TLC row: %v: %.300s", err, s)
		}
		if err := st.Row.Normalize(); err != nil {
			vlib.Infra("TLC row (start %d step %d) does not match the harness's factor list: %v", st.Start, st.Step, err)
		}
		ch := byStart[st.Start]
		if ch == nil {
			ch = &chain{Start: st.Start, Seed: seed, NFiles: 2 + int((seed+int64(st.Start))%2)}
			byStart[st.Start] = ch
		}
		ch.Steps = append(ch.Steps, &st)
		if st.Step == 1 {
			rows++
		}
	}
	if rows == 0 {
		vlib.Infra("vacuous: TLC %s exported no row", cfg)
	}
	var chains []*chain
	for _, ch := range byStart {
		sort.Slice(ch.Steps, func(i, j int) bool { return ch.Steps[i].Step < ch.Steps[j].Step })
		for i, st := range ch.Steps {
			if st.Step != i+1 {
				vlib.Infra("chain %d: steps are not consecutive", ch.Start)
			}
		}
		chains = append(chains, ch)
	}
	sort.Slice(chains, func(i, j int) bool { return chains[i].Start < chains[j].Start })
	c.Set("rows", rows)
	fmt.Fprintf(os.Stderr, "c17: TLC %s: %d rows, %d chains with evolutions, %d states, %.1fs\n", cfg, rows, countEvolving(chains), res.Distinct, res.WallS)
	return chains
}

func countEvolving(chs []*chain) int {
	n := 0
	for _, ch := range chs {
		if len(ch.Steps) > 1 {
			n++
		}
	}
	return n
}

func tail(s string, n int) string {
	if len(s) > n {
		return s[len(s)-n:]
	}
	return s
}

func removeGen(name string) string {
	root := projgen.GenRoot(name)
	if !strings.Contains(root, "/gen/") {
		vlib.Infra("unexpected project root %s", root)
	}
	if err := os.RemoveAll(root); err != nil {
		vlib.Infra("cannot remove %s: %v", root, err)
	}
	return root
}

type runner struct {
	c          *vlib.Check
	mu         sync.Mutex
	fails      []*failure
	infra      []string
	points     int
	features   map[string]bool
	buildEvery int
}

// runChain replays one behaviour of the specification: Generate on the row of
// the chain's start, then Evolve / Generate in the same directory.
func (r *runner) runChain(ch *chain) {
	name := fmt.Sprintf("c17_%03d", ch.Start)
	root := removeGen(name)
	// nothing is left behind inside the harness module (a project that does not compile would
	// break `go build ./...` there); the replay object carries every file of a failing point
	defer func() {
		if os.Getenv("C17_KEEP") == "" {
			_ = os.RemoveAll(root)
		}
	}()
	base := projgen.ImportBase(name)
	for _, st := range ch.Steps {
		p := projgen.C17Render(root, base, st.Row, stepSeed(ch, st), ch.NFiles)
		occ, err := projgen.C17CheckOccurs(p)
		if err != nil {
			vlib.Infra("renderer self-check failed (harness bug, not a violation) start=%d step=%d: %v", ch.Start, st.Step, err)
		}
		if err := p.Write(); err != nil {
			vlib.Infra("write project: %v", err)
		}
		out := p.Generate(r.buildEvery > 0 && (ch.Start+st.Step)%r.buildEvery == 0)
		r.mu.Lock()
		r.points++
		for _, o := range occ {
			r.features[o] = true
		}
		r.mu.Unlock()
		r.c.AddEvals(1)
		r.c.Class(st.Row.ClassKey())
		if ch.Start <= 3 && st.Step == 1 {
			r.c.Sample(map[string]any{"start": ch.Start, "non_default_factors": st.Row.NonDefault(), "prescribed": map[string]bool{"ok": st.Ok, "compiles": st.Compiles},
				"observed": map[string]any{"gen": out.Gen, "typechecks": out.Build, "vet": out.Vet, "go_build_run": out.BuildRun}, "wall_s": out.WallS})
		}
		if out.Infra() {
			r.mu.Lock()
			r.infra = append(r.infra, fmt.Sprintf("start=%d step=%d: %s %s", ch.Start, st.Step, out.Kind, out.Detail))
			r.mu.Unlock()
			return
		}
		if out.Ok() == st.Ok && out.Compiles() == st.Compiles {
			continue
		}
		r.mu.Lock()
		r.fails = append(r.fails, &failure{ch: ch, step: st, out: out, project: p, quirk: st.Row.Probe()})
		r.mu.Unlock()
		return // later steps on a broken directory say nothing
	}
}

// fresh runs one row in a scratch directory of its own - `times` Generate steps with unchanged input - and
// reports the outcome of the first step that does not end as prescribed (else of the last).
func fresh(tag string, row projgen.C17Row, seed int64, nfiles int, build bool, times int) projgen.C17Outcome {
	name := "c17_dd_" + tag
	root := removeGen(name)
	p := projgen.C17Render(root, projgen.ImportBase(name), row, seed, nfiles)
	if _, err := projgen.C17CheckOccurs(p); err != nil {
		return projgen.C17Outcome{Kind: "infra", Detail: err.Error()}
	}
	var out projgen.C17Outcome
	for i := 0; i < times; i++ {
		if err := p.Write(); err != nil {
			return projgen.C17Outcome{Kind: "infra", Detail: err.Error()}
		}
		out = p.Generate(build)
		if !out.OK() {
			break
		}
	}
	if os.Getenv("C17_KEEP") == "" {
		_ = os.RemoveAll(root)
	}
	return out
}

// minimise finds a minimal set of non-default factors under which the row still
// fails with the same kind of failure (delta debugging: factors are switched
// back to their defaults).  budget bounds the number of generator runs.
func minimise(id string, row projgen.C17Row, seed int64, nfiles int, kind string, buildRun bool, budget, times int) ([]string, projgen.C17Row, bool) {
	runs := 0
	var mu sync.Mutex
	fails := func(tag string, r projgen.C17Row) bool {
		mu.Lock()
		runs++
		mu.Unlock()
		o := fresh(id+"_"+tag, r, seed, nfiles, buildRun, times)
		return !o.Infra() && o.Kind == kind
	}
	with := func(r projgen.C17Row, off []string) projgen.C17Row {
		c := r.Clone()
		for _, f := range off {
			c[f] = projgen.C17Default(f)
		}
		return c
	}
	nd := row.NonDefault()
	// 1. in parallel: which single factors are necessary (the row passes without them)?
	necessary := make([]bool, len(nd))
	projgen.Parallel(len(nd), 6, func(i int) {
		necessary[i] = !fails(fmt.Sprintf("s%d", i), with(row, []string{nd[i]}))
	})
	var must, rest []string
	for i, f := range nd {
		if necessary[i] {
			must = append(must, f)
		} else {
			rest = append(rest, f)
		}
	}
	cur := with(row, rest)
	if fails("m", cur) {
		return cur.NonDefault(), cur, true
	}
	// 2. the necessary factors alone do not fail (several alternatives keep it failing):
	// ddmin over the others.
	cur = row.Clone()
	cands := rest
	n := 2
	for len(cands) > 0 && runs < budget {
		if n > len(cands) {
			n = len(cands)
		}
		size := (len(cands) + n - 1) / n
		removed := false
		for i := 0; i < len(cands); i += size {
			j := i + size
			if j > len(cands) {
				j = len(cands)
			}
			chunk := cands[i:j]
			try := with(cur, chunk)
			if fails(fmt.Sprintf("d%d", runs), try) {
				cur = try
				cands = append(append([]string{}, cands[:i]...), cands[j:]...)
				if n > 2 {
					n--
				}
				removed = true
				break
			}
			if runs >= budget {
				break
			}
		}
		if !removed {
			if n >= len(cands) {
				break
			}
			n *= 2
		}
	}
	return cur.NonDefault(), cur, runs < budget
}

func (r *runner) report(fs []*failure) {
	// group by (kind, class): one representative per group is minimised, all
	// members share its key
	groups := map[string][]*failure{}
	var order []string
	for _, f := range fs {
		k := f.quirk + "|" + f.out.Kind + "|" + f.out.Class
		if _, ok := groups[k]; !ok {
			order = append(order, k)
		}
		groups[k] = append(groups[k], f)
	}
	// unknown failures first (they are minimised, at most maxGroups of them)
	sort.Slice(order, func(i, j int) bool {
		qi, qj := !strings.HasPrefix(order[i], "|"), !strings.HasPrefix(order[j], "|")
		if qi != qj {
			return !qi
		}
		return order[i] < order[j]
	})
	type res struct {
		key, detail string
		scen        any
	}
	results := make([][]res, len(order))
	maxGroups := 6
	projgen.Parallel(len(order), 3, func(gi int) {
		g := groups[order[gi]]
		sort.Slice(g, func(i, j int) bool {
			if (g[i].step.Step == 1) != (g[j].step.Step == 1) {
				return g[i].step.Step == 1
			}
			return len(g[i].step.Row.NonDefault()) < len(g[j].step.Row.NonDefault())
		})
		// One message class can have several independent causes (the same "undefined: X" under two
		// different identifier features): after the representative has been minimised to the factor set
		// M, the members whose row does NOT contain M cannot be explained by it; they are reported as a
		// group of their own (at most 3 rounds), so that every dimension that fails shows in the keys.
		members := g
		for round := 0; round < 3 && len(members) > 0; round++ {
			f := members[0]
			seed := stepSeed(f.ch, f.step)
			scen := map[string]any{"chain": f.ch, "failed_step": f.step.Step, "outcome": f.out, "files": f.project.Files, "yaml2": f.project.YAML2}
			label := "unminimised"
			evolutionOnly := false
			var minSet []string
			var minRow projgen.C17Row
			id := fmt.Sprintf("%d_%d", gi, round)
			if f.step.Step > 1 && f.quirk == "" {
				// does the row fail on a clean directory as well?
				o := fresh(id+"_f", f.step.Row, seed, f.ch.NFiles, f.out.BuildRun, 1)
				if o.OK() {
					evolutionOnly = true
				}
			}
			// a step whose input equals the previous step's (action Again of the specification): the row
			// generates in a clean directory and fails when generated again on top of its own output
			regenerate := evolutionOnly && len(changed(f.ch.Steps[f.step.Step-2].Row, f.step.Row)) == 0
			switch {
			case f.quirk != "":
				label = "quirk:" + f.quirk
				scen["note"] = "probe row of a construct that is pinned to FALSE in the cover because it triggers a known defect; everything else in the row is at its default"
			case regenerate:
				label = "regenerate"
				scen["note"] = fmt.Sprintf("the row generates and compiles in a clean directory; Generate step %d in the same directory, with NOTHING changed, does not", f.step.Step)
				if gi < maxGroups {
					min, mrow, complete := minimise(id, f.step.Row, seed, f.ch.NFiles, f.out.Kind, f.out.BuildRun, 40, f.step.Step)
					label = "regenerate(" + mrow.Label(min) + ")"
					if !complete {
						label += "(not minimal)"
					} else {
						minSet, minRow = min, mrow
					}
					scen["minimal_factors"] = min
					scen["minimal_row"] = mrow
				}
			case evolutionOnly:
				label = "evolution(" + f.step.Row.Label(changed(f.ch.Steps[f.step.Step-2].Row, f.step.Row)) + ")"
				scen["note"] = "the row generates and compiles in a clean directory; it fails only on top of the previous step's output"
			case gi < maxGroups:
				min, mrow, complete := minimise(id, f.step.Row, seed, f.ch.NFiles, f.out.Kind, f.out.BuildRun, 60, 1)
				label = mrow.Label(min)
				if label == "" {
					label = "defaults"
				}
				if !complete {
					label += "(not minimal)"
				} else if len(min) > 0 {
					minSet, minRow = min, mrow
				}
				mp := projgen.C17Render("", "verifharness/gen/c17_min", mrow, seed, f.ch.NFiles)
				scen["minimal_factors"] = min
				scen["minimal_row"] = mrow
				scen["minimal_files"] = mp.Files
				scen["minimal_yaml2"] = mp.YAML2
			}
			// members the minimal factor set explains / does not explain
			var same, rest []*failure
			for _, m := range members {
				explained := !(regenerate && m.step.Step == 1)
				for _, fac := range minSet {
					if fmt.Sprint(m.step.Row[fac]) != fmt.Sprint(minRow[fac]) {
						explained = false
					}
				}
				if explained || m == f {
					same = append(same, m)
				} else {
					rest = append(rest, m)
				}
			}
			scen["other_failing_points"] = len(same) - 1
			key := fmt.Sprintf("%s/%s/%s", f.out.Kind, label, f.out.Class)
			if f.quirk != "" {
				// the probe row passes without the trigger (it is one of the enumerated rows), so the
				// failure is attributed to the trigger; the message text is left out of the key
				// (it differs between the generator's validation pass, go vet and go build)
				key = fmt.Sprintf("quirk:%s/%s", f.quirk, f.out.Kind)
			}
			detail := fmt.Sprintf("prescribed outcome ok=true compiles=true; observed gen=%s (pass %d) typechecks=%v vet=%v [%s]\nrow (start %d, step %d) non-default factors: %s\nminimal failing factor set: %s\n%d further point(s) fail the same way and contain that factor set\n%s",
				f.out.Gen, f.out.Pass, f.out.Build, f.out.Vet, f.out.Kind, f.ch.Start, f.step.Step, strings.Join(f.step.Row.NonDefault(), " "), label, len(same)-1, f.out.Detail)
			results[gi] = append(results[gi], res{key, detail, scen})
			members = rest
		}
	})
	for _, rs := range results {
		for _, x := range rs {
			r.c.Violate(x.key, x.detail, x.scen)
		}
	}
}

func changed(a, b projgen.C17Row) []string {
	var out []string
	for _, f := range projgen.C17Factors() {
		if fmt.Sprint(a[f]) != fmt.Sprint(b[f]) {
			out = append(out, f)
		}
	}
	return out
}

func replay(c *vlib.Check, path string) {
	b, err := os.ReadFile(path)
	if err != nil {
		vlib.Infra("replay: %v", err)
	}
	var rec struct {
		Key      string `json:"key"`
		Scenario struct {
			Chain      *chain `json:"chain"`
			FailedStep int    `json:"failed_step"`
		} `json:"scenario"`
	}
	if err := json.Unmarshal(b, &rec); err != nil || rec.Scenario.Chain == nil {
		vlib.Infra("replay: cannot decode %s: %v", path, err)
	}
	ch := rec.Scenario.Chain
	for _, st := range ch.Steps {
		if err := st.Row.Normalize(); err != nil {
			vlib.Infra("replay: %v", err)
		}
	}
	r := &runner{c: c, features: map[string]bool{}, buildEvery: 1}
	r.runChain(ch)
	if len(r.infra) > 0 {
		vlib.Infra("replay: %s", strings.Join(r.infra, "; "))
	}
	fmt.Fprintf(os.Stderr, "c17: replayed chain start=%d (%d steps): %d failing point(s)\n", ch.Start, len(ch.Steps), len(r.fails))
	r.report(r.fails)
	c.Set("rule", "replay of one recorded chain")
	c.Finish()
}

func main() {
	c := vlib.NewCheck(prop, "exploration")
	if _, err := projgen.BuildPgen(); err != nil {
		vlib.Infra("%v", err)
	}
	c.Assume("type-correctness of the generated packages is decided by the Go compiler (go build ./... and go vet ./... of executor, models, resolver stubs and stub file against the runtime packages of the tree under test), not by TLC")
	c.Assume("identifier normalisation (ToGo family) is exercised through the identifier stress classes but not specified; field / argument names that normalise to the same Go identifier inside one type are not generated (gqlgen neither documents nor handles them)")
	c.Assume("skip_mod_tidy is pinned to true (offline sandbox, the projects live inside the harness module); federation, custom templates, preserve_resolver, go_build_tags, local_prefix are outside the enumerated space")
	c.Assume("autobindModel: `autobind:` lists the model output package (graph/model; for models=bound the first pass's output package hand), which holds a hand-written doc file and - with handInModel - a hand-written model that a schema type binds to (through autobind, or through an explicit models: entry when autobindModel is off)")
	c.Assume("models=bound uses modelgen's own output, written into a user package by a first pass, as the autobound package; models=mixed autobinds hand-written models for an object, an enum and an input")
	if js := os.Getenv("C17_ROW"); js != "" {
		// debugging aid: run one row given by its non-default factors, keep the directory
		row := projgen.C17Row{}
		for _, f := range projgen.C17Factors() {
			row[f] = projgen.C17Default(f)
		}
		var over map[string]any
		if err := json.Unmarshal([]byte(js), &over); err != nil {
			vlib.Infra("C17_ROW: %v", err)
		}
		for k, v := range over {
			row[k] = v
		}
		if err := row.Normalize(); err != nil {
			vlib.Infra("C17_ROW: %v", err)
		}
		os.Setenv("C17_KEEP", "1")
		times := 1
		if t, err := strconv.Atoi(os.Getenv("C17_TIMES")); err == nil && t > 1 {
			times = t // C17_TIMES=n: n Generate steps with unchanged input in the same directory
		}
		o := fresh("row", row, vlib.Seed(), 2, true, times)
		b, _ := json.MarshalIndent(o, "", " ")
		fmt.Printf("%s\n%s\n", b, o.Detail)
		os.Exit(0)
	}
	if rp := os.Getenv("VERIF_REPLAY"); rp != "" {
		replay(c, rp)
		return
	}
	chains := runTLC(c)
	r := &runner{c: c, features: map[string]bool{}, buildEvery: 3}
	t0 := time.Now()
	projgen.Parallel(len(chains), 8, func(i int) { r.runChain(chains[i]) })
	var probed []string
	for _, ch := range chains {
		if p := ch.Steps[0].Row.Probe(); p != "" {
			probed = append(probed, fmt.Sprintf("%s@row%d", p, ch.Start))
		}
	}
	c.Set("known_defect_probe_rows", probed)
	// the new cases: rows whose autobind list contains the model output package, and Generate steps with
	// UNCHANGED input on top of the previous output (action Again of the specification)
	abRows, abHand, again, evolved := 0, 0, 0, 0
	for _, ch := range chains {
		r0 := ch.Steps[0].Row
		if r0.B("autobindModel") {
			abRows++
			if r0.B("handInModel") {
				abHand++
			}
		}
		for i := 1; i < len(ch.Steps); i++ {
			if len(changed(ch.Steps[i-1].Row, ch.Steps[i].Row)) == 0 {
				again++
			} else {
				evolved++
			}
		}
	}
	if again == 0 {
		vlib.Infra("vacuous: no Generate step with unchanged input on top of previous output (action Again) was enumerated")
	}
	c.Set("regeneration", map[string]any{"rows_autobinding_the_model_output_package": abRows, "of_which_with_a_hand_written_model_in_it": abHand,
		"generate_steps_with_unchanged_input_on_previous_output": again, "generate_steps_after_an_evolution": evolved})
	for _, ch := range chains {
		if len(ch.Steps) > 1 && ch.Steps[0].Row.B("autobindModel") && len(changed(ch.Steps[0].Row, ch.Steps[1].Row)) == 0 {
			c.Sample(map[string]any{"start": ch.Start, "what": "Generate x" + strconv.Itoa(len(ch.Steps)) + " in one directory, nothing changed in between; autobind lists the model output package", "non_default_factors": ch.Steps[0].Row.NonDefault()})
			break
		}
	}
	fmt.Fprintf(os.Stderr, "c17: %d generate steps in %.1fs, %d failing, %d infra\n", r.points, time.Since(t0).Seconds(), len(r.fails), len(r.infra))
	if len(r.infra) > 0 && len(r.infra)*5 > r.points {
		vlib.Infra("too many points could not be decided (timeouts / crashes of the tools): %s", strings.Join(r.infra, "; "))
	}
	if r.points == 0 {
		vlib.Infra("vacuous: no point executed")
	}
	c.AddTraces(int64(len(chains)))
	var feats []string
	for f := range r.features {
		feats = append(feats, f)
	}
	sort.Strings(feats)
	c.Set("features_observed_in_rendered_schemas", feats)
	c.Set("undecided_points", len(r.infra))
	c.Set("exhaustive", false)
	c.Set("rule", "rows of spec/ProjectCover.tla: pairwise cover of 45 boolean + 4 multi-valued factors (+ 8 known-defect constructs pinned to FALSE in the cover, one probe row each) (schema features x documented configuration), checked pairwise by TLC (ASSUME CoverOK), + seeded rows (+ full factorial over CubeFactors in the thorough tier); every Generate step TLC enumerates (incl. evolutions in one directory and re-runs with unchanged input on top of the previous output where autobind lists the model output package) is replayed through the real generator + go build + go vet; a class is distinct by its multi-valued part, layouts and the numbers of features / options switched on")
	r.report(r.fails)
	c.Finish()
}
