package main

// The server side of C10.  It runs in a CHILD process (re-exec of this
// binary with C10_CHILD=1) so that a crash of the code under test is an
// observation of the parent, never the end of the check.  The child serves
//
//	/graphql           handler.New(es) + every transport, MultipartForm with default limits
//	/up/<m>/<u>        the same server with MultipartForm{MaxMemory: m, MaxUploadSize: u}
//	/_verif/result     the record of one request (X-Verif-Id), see rec
//
// over a hand-written graphql.ExecutableSchema whose resolvers never panic.
// TMPDIR of the child is a private directory; it is listed by the resolver
// (while the request is being handled) and by the wrapper after the handler
// returned (polled briefly).  One child handles one request at a time (the
// parent drives each child sequentially), so a file found there belongs to
// the request just handled.

import (
	"context"
	"crypto/sha256"
	"encoding/hex"
	"encoding/json"
	"fmt"
	"io"
	"log"
	"net"
	"net/http"
	"os"
	"sort"
	"strconv"
	"strings"
	"sync"
	"time"

	"github.com/gorilla/websocket"
	"github.com/vektah/gqlparser/v2"
	"github.com/vektah/gqlparser/v2/ast"

	"github.com/99designs/gqlgen/graphql"
	"github.com/99designs/gqlgen/graphql/handler"
	"github.com/99designs/gqlgen/graphql/handler/transport"
)

const schemaSDL = `
scalar Upload
scalar Any
input Req { id: Int, file: Upload, files: [Upload] }
type Query { ok: String! echo(v: Any): String! }
type Mutation {
  up(a: Upload, b: Upload, k: Any, z: Any, req: Req, files: [Upload!]): String!
  ok: String!
}
type Subscription { tick: String! }
`

// UploadSeen is what the resolver observed about one graphql.Upload value.
type UploadSeen struct {
	At        string `json:"at"`   // position in the variables, e.g. k.0.k
	Type      string `json:"type"` // Go type of Upload.File
	Filename  string `json:"filename"`
	CT        string `json:"content_type"`
	Size      int64  `json:"size"`
	N1        int64  `json:"n_first_read"` // bytes yielded by reading the reader to EOF
	Sha1      string `json:"sha_first_read"`
	N2        int64  `json:"n_after_seek"` // bytes yielded after Seek(0, SeekStart), read again
	Sha2      string `json:"sha_after_seek"`
	TailOK    bool   `json:"tail_ok"`   // Seek(-k, SeekEnd) yields the last k bytes
	Disturbed bool   `json:"disturbed"` // the reader's position moved although only OTHER readers were used
	Err       string `json:"err,omitempty"`
	TailSha   string `json:"tail_sha,omitempty"`
	TailN     int64  `json:"tail_n"`
}

type rec struct {
	mu        sync.Mutex
	ID        string       `json:"id"`
	Recovers  int          `json:"recovers"`
	RecMsgs   []string     `json:"recover_msgs"`
	Returned  bool         `json:"returned"`
	Escaped   string       `json:"escaped_panic,omitempty"`
	TmpAfter  []string     `json:"tmp_after"`
	TmpDuring []string     `json:"tmp_during"`
	Resolved  []string     `json:"resolved"`
	Uploads   []UploadSeen `json:"uploads"`
	Tree      any          `json:"tree,omitempty"` // variables as received, uploads replaced by {"$upload": index}
	done      chan struct{}
}

type recKey struct{}

func recOf(ctx context.Context) *rec {
	r, _ := ctx.Value(recKey{}).(*rec)
	return r
}

var (
	recs       sync.Map // id -> *rec
	orphanMu   sync.Mutex
	orphanRecs int // recover hook invocations that could not be attributed to a request
)

func listTmp() []string {
	ents, err := os.ReadDir(os.TempDir())
	out := []string{}
	if err != nil {
		return append(out, "!"+err.Error())
	}
	for _, e := range ents {
		out = append(out, e.Name())
	}
	sort.Strings(out)
	return out
}

// dumpTree renders a variables value; every graphql.Upload is passed through
// graphql.UnmarshalUpload (what generated code does) and collected.
func dumpTree(v any, at string, ups *[]graphql.Upload, ats *[]string) any {
	switch x := v.(type) {
	case nil:
		return nil
	case graphql.Upload:
		u, err := graphql.UnmarshalUpload(x)
		if err != nil {
			return map[string]any{"$bad_upload": err.Error()}
		}
		*ups = append(*ups, u)
		*ats = append(*ats, at)
		return map[string]any{"$upload": len(*ups) - 1}
	case map[string]any:
		keys := make([]string, 0, len(x))
		for k := range x {
			keys = append(keys, k)
		}
		sort.Strings(keys)
		m := map[string]any{}
		for _, k := range keys {
			m[k] = dumpTree(x[k], at+"."+k, ups, ats)
		}
		return m
	case []any:
		l := make([]any, len(x))
		for i := range x {
			l[i] = dumpTree(x[i], at+"."+strconv.Itoa(i), ups, ats)
		}
		return l
	case json.Number:
		return x.String()
	case string, bool, int64, float64, int:
		return x
	default:
		return fmt.Sprintf("%T", v)
	}
}

func readAll(r io.Reader) (int64, string, error) {
	h := sha256.New()
	n, err := io.Copy(h, r)
	return n, hex.EncodeToString(h.Sum(nil)), err
}

// examineUploads reads every reader to EOF, then seeks the FIRST back and
// re-reads it; every other reader must still be at EOF (its own position);
// then every reader is rewound and re-read, and its tail is read through
// Seek(-k, SeekEnd).
func examineUploads(ups []graphql.Upload, ats []string) []UploadSeen {
	out := make([]UploadSeen, len(ups))
	for i, u := range ups {
		s := &out[i]
		s.At = strings.TrimPrefix(ats[i], ".")
		s.Type = fmt.Sprintf("%T", u.File)
		s.Filename, s.CT, s.Size = u.Filename, u.ContentType, u.Size
		if u.File == nil {
			s.Err = "nil File"
			continue
		}
		n, sh, err := readAll(u.File)
		s.N1, s.Sha1 = n, sh
		if err != nil {
			s.Err = "first read: " + err.Error()
		}
	}
	for i, u := range ups {
		if u.File == nil {
			continue
		}
		s := &out[i]
		// the others were read / rewound meanwhile: this one must still be at its own EOF
		var one [1]byte
		if n, _ := u.File.Read(one[:]); n != 0 {
			s.Disturbed = true
		}
		if _, err := u.File.Seek(0, io.SeekStart); err != nil {
			s.Err += " seek: " + err.Error()
			continue
		}
		n, sh, err := readAll(u.File)
		s.N2, s.Sha2 = n, sh
		if err != nil {
			s.Err += " second read: " + err.Error()
		}
		k := int64(7)
		if s.N1 < k {
			k = s.N1
		}
		if _, err := u.File.Seek(-k, io.SeekEnd); err != nil {
			s.Err += " seek end: " + err.Error()
			continue
		}
		tn, tsh, _ := readAll(u.File)
		s.TailN, s.TailSha = tn, tsh
		s.TailOK = tn == k
		// leave this reader in the middle: it must not move the ones examined next
		_, _ = u.File.Seek(s.N1/2, io.SeekStart)
	}
	return out
}

func executableSchema() graphql.ExecutableSchema {
	schema := gqlparser.MustLoadSchema(&ast.Source{Input: schemaSDL})
	return &graphql.ExecutableSchemaMock{
		SchemaFunc: func() *ast.Schema { return schema },
		ComplexityFunc: func(ctx context.Context, typeName, fieldName string, childComplexity int, args map[string]any) (int, bool) {
			return 1, true
		},
		ExecFunc: func(ctx context.Context) graphql.ResponseHandler {
			opCtx := graphql.GetOperationContext(ctx)
			op := opCtx.Operation
			r := recOf(ctx)
			resolve := func() []byte {
				data := map[string]string{}
				for _, s := range op.SelectionSet {
					f, ok := s.(*ast.Field)
					if !ok {
						continue
					}
					if r != nil {
						r.mu.Lock()
						r.Resolved = append(r.Resolved, string(op.Operation)+":"+f.Name)
						r.mu.Unlock()
					}
					switch f.Name {
					case "up", "echo":
						var ups []graphql.Upload
						var ats []string
						vars := map[string]any{}
						for k, v := range opCtx.Variables {
							vars[k] = v
						}
						tree := dumpTree(vars, "", &ups, &ats)
						during := listTmp()
						seen := examineUploads(ups, ats)
						if r != nil {
							r.mu.Lock()
							r.Tree = tree
							r.Uploads = append(r.Uploads, seen...)
							r.TmpDuring = during
							r.mu.Unlock()
						}
						data[f.Alias] = strconv.Itoa(len(ups))
					default:
						data[f.Alias] = "ok"
					}
				}
				b, _ := json.Marshal(data)
				return b
			}
			ran := false
			switch op.Operation {
			case ast.Subscription:
				first := resolve()
				return func(ctx context.Context) *graphql.Response {
					if ran {
						return nil
					}
					ran = true
					return &graphql.Response{Data: first}
				}
			default:
				return func(ctx context.Context) *graphql.Response {
					if ran {
						return nil
					}
					ran = true
					return &graphql.Response{Data: resolve()}
				}
			}
		},
	}
}

func newServer(es graphql.ExecutableSchema, maxMem, maxUpload int64) *handler.Server {
	srv := handler.New(es)
	srv.AddTransport(transport.Websocket{
		Upgrader: websocket.Upgrader{CheckOrigin: func(*http.Request) bool { return true }},
	})
	srv.AddTransport(transport.Options{})
	srv.AddTransport(transport.SSE{})
	srv.AddTransport(transport.MultipartMixed{})
	srv.AddTransport(transport.GET{})
	srv.AddTransport(transport.POST{})
	srv.AddTransport(transport.GRAPHQL{})
	srv.AddTransport(transport.UrlEncodedForm{})
	srv.AddTransport(transport.MultipartForm{MaxMemory: maxMem, MaxUploadSize: maxUpload})
	srv.SetRecoverFunc(func(ctx context.Context, err any) error {
		msg := fmt.Sprint(err)
		if r := recOf(ctx); r != nil {
			r.mu.Lock()
			r.Recovers++
			r.RecMsgs = append(r.RecMsgs, msg)
			r.mu.Unlock()
		} else {
			orphanMu.Lock()
			orphanRecs++
			orphanMu.Unlock()
		}
		return fmt.Errorf("internal system error")
	})
	return srv
}

func childMain() {
	log.SetOutput(os.Stderr)
	es := executableSchema()
	var mu sync.Mutex
	servers := map[string]*handler.Server{}
	serverFor := func(m, u int64) *handler.Server {
		k := fmt.Sprintf("%d/%d", m, u)
		mu.Lock()
		defer mu.Unlock()
		if s, ok := servers[k]; ok {
			return s
		}
		s := newServer(es, m, u)
		servers[k] = s
		return s
	}
	wrap := func(w http.ResponseWriter, r *http.Request, srv *handler.Server) {
		id := r.Header.Get("X-Verif-Id")
		rc := &rec{ID: id, done: make(chan struct{}), RecMsgs: []string{}, TmpAfter: []string{}, TmpDuring: []string{}, Resolved: []string{}, Uploads: []UploadSeen{}}
		if id != "" {
			recs.Store(id, rc)
		}
		defer func() {
			p := recover()
			// temp files must be gone now that the handler returned; poll briefly
			var left []string
			for k := 0; k < 30; k++ {
				left = listTmp()
				if len(left) == 0 {
					break
				}
				time.Sleep(10 * time.Millisecond)
			}
			rc.mu.Lock()
			rc.Returned = true
			rc.TmpAfter = left
			if p != nil {
				rc.Escaped = fmt.Sprint(p)
			}
			rc.mu.Unlock()
			for _, n := range left { // do not blame the next request
				if !strings.HasPrefix(n, "!") {
					_ = os.Remove(os.TempDir() + "/" + n)
				}
			}
			close(rc.done)
			if p != nil {
				panic(p) // what net/http would have seen
			}
		}()
		srv.ServeHTTP(w, r.WithContext(context.WithValue(r.Context(), recKey{}, rc)))
	}
	mux := http.NewServeMux()
	mux.HandleFunc("/graphql", func(w http.ResponseWriter, r *http.Request) { wrap(w, r, serverFor(0, 0)) })
	mux.HandleFunc("/up/", func(w http.ResponseWriter, r *http.Request) {
		ps := strings.Split(strings.TrimPrefix(r.URL.Path, "/up/"), "/")
		if len(ps) != 2 {
			http.Error(w, "bad limits", 500)
			return
		}
		m, e1 := strconv.ParseInt(ps[0], 10, 64)
		u, e2 := strconv.ParseInt(ps[1], 10, 64)
		if e1 != nil || e2 != nil {
			http.Error(w, "bad limits", 500)
			return
		}
		wrap(w, r, serverFor(m, u))
	})
	mux.HandleFunc("/_verif/result", func(w http.ResponseWriter, r *http.Request) {
		id := r.URL.Query().Get("id")
		v, ok := recs.Load(id)
		if !ok {
			http.Error(w, `{"missing":true}`, 404)
			return
		}
		rc := v.(*rec)
		if r.URL.Query().Get("nowait") == "" {
			select {
			case <-rc.done:
			case <-time.After(20 * time.Second):
			}
			recs.Delete(id)
		}
		rc.mu.Lock()
		b, _ := json.Marshal(rc)
		rc.mu.Unlock()
		w.Header().Set("Content-Type", "application/json")
		_, _ = w.Write(b)
	})
	mux.HandleFunc("/_verif/orphans", func(w http.ResponseWriter, r *http.Request) {
		orphanMu.Lock()
		n := orphanRecs
		orphanMu.Unlock()
		fmt.Fprintf(w, "%d", n)
	})
	ln, err := net.Listen("tcp", "127.0.0.1:0")
	if err != nil {
		fmt.Fprintln(os.Stderr, "listen:", err)
		os.Exit(3)
	}
	hs := &http.Server{Handler: mux, ErrorLog: log.New(os.Stderr, "http: ", 0)}
	fmt.Printf("LISTEN %s\n", ln.Addr().String())
	os.Stdout.Sync()
	// the child ends when the parent closes its stdin
	go func() {
		_, _ = io.Copy(io.Discard, os.Stdin)
		os.Exit(0)
	}()
	_ = hs.Serve(ln)
}
