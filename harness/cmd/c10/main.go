// C10: malformed client input gets a client error, never gqlgen's own panic path.
//
// TLC checks spec/Decode.tla (decode classes per transport) and
// spec/Upload.tla (multipart upload forms: part orders, map paths walked over
// abstract variables trees, content classes, size classes) on their full
// finite input spaces and prints one line per input with the outcome the
// specification prescribes.  This driver concretises every line (seeded
// random bytes / names inside the class), sends it to a REAL handler.Server
// with every transport - running in a child process with a private TMPDIR
// and a counting recover hook - and compares: outcome class, status family,
// well-formedness of the reply, recover-hook count == 0, temp files gone,
// delivered file contents / names / content types / independent readers.
package main

import (
	"encoding/json"
	"fmt"
	"hash/fnv"
	"io"
	"log"
	"math/rand"
	"os"
	"sort"
	"strconv"
	"strings"
	"sync"
	"sync/atomic"
	"time"

	"verifharness/vlib"
)

type caseItem struct {
	Kind    string `json:"kind"` // decode | upload
	Raw     string `json:"line"` // the JSON line TLC printed
	Variant int    `json:"variant"`
	Seed    int64  `json:"seed"`
}

type scenario struct {
	Case     caseItem `json:"case"`
	Request  any      `json:"request"`
	Observed Obs      `json:"observed"`
}

type verdict struct{ key, detail string }

func seedFor(parts ...any) int64 {
	h := fnv.New64a()
	fmt.Fprint(h, parts...)
	return int64(h.Sum64() & 0x7fffffffffffffff)
}

func has(xs []string, x string) bool {
	for _, y := range xs {
		if y == x {
			return true
		}
	}
	return false
}

// ---------------------------------------------------------------- counters

var (
	drift       atomic.Int64 // answers inside the property but different from the action-level model (status / storage)
	devSeen     atomic.Int64 // lines with a deviation key on which the deviation was observed
	devNotSeen  atomic.Int64 // ... on which the code now behaves as the repaired model says
	tempCases   atomic.Int64 // requests during which a spill file existed (non-vacuity of the temp-file check)
	memCases    atomic.Int64
	delivered   atomic.Int64 // uploads whose bytes / name / type / size / reader independence were compared
	lenientBoth sync.Map     // class -> observed outcome, for classes the specification leaves open
	driftBy     sync.Map
)

var (
	notSeenMu      sync.Mutex
	notSeenSamples []string
)

func noteNotSeen(dev, what string) {
	notSeenMu.Lock()
	if len(notSeenSamples) < 8 {
		notSeenSamples = append(notSeenSamples, dev+": "+what)
	}
	notSeenMu.Unlock()
}

func noteDrift(what string) {
	drift.Add(1)
	v, _ := driftBy.LoadOrStore(what, new(atomic.Int64))
	v.(*atomic.Int64).Add(1)
}

// ---------------------------------------------------------------- judging

func commonChecks(o *Obs, where string, add func(k, f string, a ...any)) {
	if o.Rec != nil {
		if len(o.Rec.TmpAfter) > 0 {
			add("temp-file-left"+where, "TMPDIR still holds %v after the handler returned (polled 300 ms)", o.Rec.TmpAfter)
		}
	}
}

func judgeDecode(l *DecLine, o *Obs) (vs []verdict) {
	add := func(k, f string, a ...any) { vs = append(vs, verdict{k, fmt.Sprintf(f, a...)}) }
	where := fmt.Sprintf("{tr=%s,slot=%s,cls=%s}", l.Tr, l.Slot, l.Cls)
	commonChecks(o, where, add)
	if has(l.Want, o.Class) {
		if l.Dev != "" {
			devNotSeen.Add(1)
			noteNotSeen(l.Dev, describe(o))
		}
		if len(l.Want) > 1 {
			lenientBoth.Store(l.Tr+"/"+l.Slot+"/"+l.Cls, o.Class)
		}
		// implementation-level drift (no alarm)
		if st, err := strconv.Atoi(strings.TrimSuffix(l.Impl, "-stream")); err == nil && o.Class == l.Out && o.Status != 0 && st != o.Status {
			noteDrift(fmt.Sprintf("decode %s/%s/%s: model status %d, code %d", l.Tr, l.Slot, l.Cls, st, o.Status))
		}
		return vs
	}
	switch {
	case l.Dev != "" && ((o.Class == "recovered" && strings.HasSuffix(l.Dev, "nil-deref") && panicMatches(l.Dev, o)) || (strings.HasSuffix(l.Dev, "no-close") && ((o.Class == "silent" && o.ReturnedEarly) || o.Class == "dropped"))):
		devSeen.Add(1)
		add(l.Dev, "outcome %s, the specification admits %v", describe(o), l.Want)
	default:
		add(o.Class+where, "outcome %s, the specification admits %v", describe(o), l.Want)
	}
	return vs
}

// panicMatches: a deviation key stands for one failing statement; the panic the
// recover hook saw must be that statement's, otherwise it is a different violation.
func panicMatches(dev string, o *Obs) bool {
	if o.Rec == nil || len(o.Rec.RecMsgs) == 0 {
		return false
	}
	msg := strings.Join(o.Rec.RecMsgs, " | ")
	switch {
	case strings.HasSuffix(dev, "nil-deref"):
		return strings.Contains(msg, "nil pointer dereference")
	case dev == "addupload:index-out-of-range":
		return strings.Contains(msg, "index out of range [") && !strings.Contains(msg, "index out of range [-")
	case dev == "addupload:negative-index":
		return strings.Contains(msg, "index out of range [-")
	case dev == "addupload:index-into-non-list":
		return strings.Contains(msg, "interface conversion") && strings.Contains(msg, "not []interface {}")
	case dev == "addupload:name-into-non-object":
		return strings.Contains(msg, "interface conversion") && strings.Contains(msg, "not map[string]interface {}")
	case dev == "addupload:nil-variables-map":
		return strings.Contains(msg, "assignment to entry in nil map")
	}
	return false
}

func describe(o *Obs) string {
	s := o.Class
	if o.Status != 0 {
		s += fmt.Sprintf(" (status %d, body kind %s %s)", o.Status, o.Kind, o.Why)
	}
	if o.Rec != nil && o.Rec.Recovers > 0 {
		s += fmt.Sprintf(" - recover hook invoked %d time(s): %v", o.Rec.Recovers, o.Rec.RecMsgs)
	}
	if len(o.Frames) > 0 {
		s += fmt.Sprintf(" frames %v", o.Frames)
	}
	if o.Silent {
		s += fmt.Sprintf(" - no frame and no close (handler returned before the client closed: %v)", o.ReturnedEarly)
	}
	if o.Crash != "" {
		s += " - server process died: " + o.Crash
	}
	if o.NetErr != "" {
		s += " net: " + o.NetErr
	}
	return s
}

func treeAt(tree any, segs []string) (any, bool) {
	cur := tree
	for _, s := range segs {
		switch x := cur.(type) {
		case map[string]any:
			v, ok := x[s]
			if !ok {
				return nil, false
			}
			cur = v
		case []any:
			i, err := strconv.Atoi(s)
			if err != nil || i < 0 || i >= len(x) {
				return nil, false
			}
			cur = x[i]
		default:
			return nil, false
		}
	}
	return cur, true
}

func checkUpload(seen *UploadSeen, f *FileSent, where string, add func(k, f string, a ...any)) {
	delivered.Add(1)
	if seen.Err != "" {
		add("upload-reader-error"+where, "reader at %s: %s", seen.At, seen.Err)
	}
	if seen.Sha1 != f.Sha || seen.N1 != int64(f.Size) {
		add("upload-bytes-differ"+where, "path %s: first read yielded %d bytes sha %.12s, file %q has %d bytes sha %.12s", seen.At, seen.N1, seen.Sha1, f.Key, f.Size, f.Sha)
	} else if seen.Sha2 != f.Sha || seen.N2 != int64(f.Size) {
		add("upload-not-seekable"+where, "path %s: after Seek(0, SeekStart) the reader yielded %d bytes sha %.12s, want %d / %.12s", seen.At, seen.N2, seen.Sha2, f.Size, f.Sha)
	} else if !seen.TailOK {
		add("upload-not-seekable"+where, "path %s: Seek(-k, SeekEnd) yielded %d bytes", seen.At, seen.TailN)
	}
	if seen.Disturbed {
		add("upload-readers-not-independent"+where, "path %s: the reader's position moved while only the readers of other paths were used", seen.At)
	}
	if seen.Filename != f.Filename {
		add("upload-filename-differs"+where, "path %s: filename %q, sent %q", seen.At, seen.Filename, f.Filename)
	}
	if seen.CT != f.CT {
		add("upload-content-type-differs"+where, "path %s: content type %q, sent %q", seen.At, seen.CT, f.CT)
	}
	if seen.Size != int64(f.Size) {
		add("upload-size-differs"+where, "path %s: Size %d, sent %d bytes", seen.At, seen.Size, f.Size)
	}
}

func judgeUpload(l *UpLine, uc *UploadCase, o *Obs) (vs []verdict) {
	add := func(k, f string, a ...any) { vs = append(vs, verdict{k, fmt.Sprintf(f, a...)}) }
	where := "{mode=" + l.Mode
	switch l.Mode {
	case "order":
		where += ",parts=" + strings.Join(l.Parts, "+") + ",map=" + l.Mapv
	case "path":
		var ss []string
		for _, s := range l.Walk {
			ss = append(ss, s.C+":"+s.S)
		}
		where += ",prefix=" + l.Prefix + ",walk=" + strings.Join(ss, ">")
	case "content":
		where += ",ops=" + l.Ops + ",map=" + l.Mapc
	case "cut":
		where += ",at=" + l.Ops
	case "size":
		where += fmt.Sprintf(",m=%d,u=%d,len=%d,chunked=%v", l.M, l.U, l.Len, l.Chunked)
	}
	where += ",store=" + l.Store + "}"
	commonChecks(o, where, add)
	if o.Rec != nil {
		if len(o.Rec.TmpDuring) > 0 {
			tempCases.Add(1)
		} else if len(o.Rec.Uploads) > 0 {
			memCases.Add(1)
		}
	}
	if !has(l.Want, o.Class) {
		if l.Dev != "" && o.Class == "recovered" && panicMatches(l.Dev, o) {
			devSeen.Add(1)
			add(l.Dev, "map path %q over operations %s: outcome %s, the specification admits %v", uc.PathStr, uc.Operations, describe(o), l.Want)
		} else {
			add("upload-"+o.Class+where, "outcome %s, the specification admits %v", describe(o), l.Want)
		}
		return vs
	}
	if l.Dev != "" {
		devNotSeen.Add(1)
	}
	if len(l.Want) > 1 {
		lenientBoth.Store("upload/"+l.Mode+"/"+where, o.Class)
	}
	if o.Class == l.Out {
		if st, err := strconv.Atoi(l.Impl); err == nil && o.Status != st {
			noteDrift(fmt.Sprintf("upload %s: model status %d, code %d", l.Mode, st, o.Status))
		}
	}
	if o.Class != "proceed" || o.Rec == nil {
		if o.Rec != nil && len(o.Rec.Uploads) > 0 {
			add("upload-delivered-but-refused"+where, "the resolver saw %d upload(s) although the request was refused", len(o.Rec.Uploads))
		}
		return vs
	}
	// what was delivered
	files := map[string]*FileSent{}
	for i := range uc.Files {
		if _, dup := files[uc.Files[i].Key]; !dup { // a repeated file part: the first one is the mapped one
			files[uc.Files[i].Key] = &uc.Files[i]
		}
	}
	strict := len(l.Want) == 1
	seenAt := map[string]*UploadSeen{}
	for i := range o.Rec.Uploads {
		seenAt[o.Rec.Uploads[i].At] = &o.Rec.Uploads[i]
	}
	if l.Mode == "path" {
		f := files["0"]
		if strict && uc.Locate != nil {
			v, ok := treeAt(o.Rec.Tree, uc.Locate)
			m, isM := v.(map[string]any)
			idx, isU := m["$upload"].(float64)
			if !ok || !isM || !isU || int(idx) >= len(o.Rec.Uploads) {
				add("upload-not-delivered"+where, "map path %q: no Upload at %v in the variables the resolver received: %v", uc.PathStr, uc.Locate, o.Rec.Tree)
			} else if f != nil {
				checkUpload(&o.Rec.Uploads[int(idx)], f, where, add)
			}
			if len(o.Rec.Uploads) != 1 {
				add("upload-count"+where, "one path mapped, the resolver saw %d uploads", len(o.Rec.Uploads))
			}
		} else if f != nil {
			for i := range o.Rec.Uploads {
				checkUpload(&o.Rec.Uploads[i], f, where, add)
			}
		}
	} else {
		mapped := map[string]string{} // variable -> file key
		for _, d := range l.Deliver {
			mapped[d.Var] = d.File
		}
		if strict {
			for _, d := range l.Deliver {
				s, ok := seenAt[d.Var]
				if !ok {
					add("upload-not-delivered"+where, "variable %s is mapped to file %q but the resolver received no Upload there: %v", d.Var, d.File, o.Rec.Tree)
					continue
				}
				if f := files[d.File]; f != nil {
					checkUpload(s, f, where, add)
				}
			}
			if len(o.Rec.Uploads) != len(l.Deliver) {
				add("upload-count"+where, "%d paths mapped, the resolver saw %d uploads", len(l.Deliver), len(o.Rec.Uploads))
			}
		} else {
			for at, s := range seenAt {
				fk, ok := mapped[at]
				if !ok || files[fk] == nil {
					add("upload-misdelivered"+where, "the resolver received an Upload at %s, which the map does not name", at)
					continue
				}
				checkUpload(s, files[fk], where, add)
			}
		}
	}
	// storage (implementation level: drift only)
	for _, s := range o.Rec.Uploads {
		isTemp := s.Type == "*os.File"
		if isTemp != (l.Store == "temp") {
			noteDrift(fmt.Sprintf("upload storage: model %s, code %s (len=%d m=%d chunked=%v)", l.Store, s.Type, l.Len, l.M, l.Chunked))
		}
	}
	return vs
}

// ---------------------------------------------------------------- running one case

func runCase(c *child, it caseItem) (sc scenario, vs []verdict, cls string, infra string) {
	r := rand.New(rand.NewSource(it.Seed))
	sc.Case = it
	switch it.Kind {
	case "decode":
		var l DecLine
		if err := json.Unmarshal([]byte(it.Raw), &l); err != nil {
			return sc, nil, "", "decode line: " + err.Error()
		}
		cls = "decode/" + l.Tr + "/" + l.Slot + "/" + l.Cls
		if l.Tr == "WS1" || l.Tr == "WS2" {
			q := concDecodeWS(&l, r)
			sc.Request = q
			o := doWS(c, &q, 3*time.Second)
			if o.Class == "silent" && !o.ReturnedEarly && !has(l.Want, "silent") {
				// absence of an answer while the handler is still running: retry with a 10x wait
				o = doWS(c, &q, 30*time.Second)
			}
			if o.Class == "harness-error" {
				o = doWS(c, &q, 10*time.Second)
				if o.Class == "harness-error" {
					return sc, nil, cls, "websocket: " + o.NetErr
				}
			}
			sc.Observed = o
			vs = judgeDecode(&l, &o)
		} else {
			q := concDecodeHTTP(&l, r)
			sc.Request = q
			o := doHTTP(c, &q)
			if o.Class == "no-response" || o.Class == "harness-error" {
				time.Sleep(300 * time.Millisecond)
				o = doHTTP(c, &q)
				if o.Class == "no-response" || o.Class == "harness-error" {
					return sc, nil, cls, "http: " + o.NetErr
				}
			}
			sc.Observed = o
			vs = judgeDecode(&l, &o)
		}
	case "upload":
		var l UpLine
		if err := json.Unmarshal([]byte(it.Raw), &l); err != nil {
			return sc, nil, "", "upload line: " + err.Error()
		}
		switch l.Mode {
		case "order":
			cls = "upload/order/" + strings.Join(l.Parts, "+") + "/" + l.Mapv + "/" + l.Store
		case "path":
			var ss []string
			for _, s := range l.Walk {
				ss = append(ss, fmt.Sprintf("%s:%s:%v:%s", s.C, s.S, s.Last, s.Kid))
			}
			cls = "upload/path/" + l.Prefix + "/" + strings.Join(ss, ">") + "/" + l.Store
		case "content":
			cls = "upload/content/" + l.Ops + "/" + l.Mapc + "/" + l.Store
		case "size":
			cls = fmt.Sprintf("upload/size/m=%d/u=%d/len=%d/chunked=%v", l.M, l.U, l.Len, l.Chunked)
		case "cut":
			cls = "upload/cut/" + l.Ops + "/" + l.Store
		}
		uc := concUpload(&l, r)
		sc.Request = uc
		if uc.BuildErr != "" {
			return sc, nil, cls, uc.BuildErr
		}
		o := doHTTP(c, &uc.Req)
		if o.Class == "no-response" || o.Class == "harness-error" {
			time.Sleep(300 * time.Millisecond)
			o = doHTTP(c, &uc.Req)
			if o.Class == "no-response" || o.Class == "harness-error" {
				return sc, nil, cls, "http upload: " + o.NetErr
			}
		}
		sc.Observed = o
		vs = judgeUpload(&l, &uc, &o)
	}
	return sc, vs, cls, ""
}

// ---------------------------------------------------------------- TLC

type tlcJob struct {
	module, cfg string
	export      bool
	wantOff     []string // actions that must NOT be taken in this configuration
	wantOn      []string // deviation actions that MUST be taken
}

func runTLC(c *vlib.Check, j tlcJob) []string {
	res, err := vlib.RunTLC(vlib.TLCOpts{
		Module: j.module, Config: j.cfg, Workers: 1, Timeout: 15 * time.Minute, Coverage: true,
		Scratch: vlib.Work("C10", "tlc-"+strings.TrimSuffix(j.cfg, ".cfg")), HeapGB: 3,
	})
	if err != nil {
		vlib.Infra("TLC %s: %v", j.cfg, err)
	}
	if !res.OK {
		vlib.Infra("TLC on the model alone failed for %s (specification error, not a verdict about the code):\n%s\n%s", j.cfg, res.Violation, tail(res.Output, 1500))
	}
	c.AddStates(res.Distinct, res.Generated)
	// non-vacuity: every action is taken, except the deviation actions the constants disable
	for a, n := range res.ActionCount {
		if n == 0 && !has(j.wantOff, a) && a != "Init" && a != "Done" {
			vlib.Infra("TLC %s: action %s was never taken (vacuous model run)", j.cfg, a)
		}
		if n > 0 && has(j.wantOff, a) {
			vlib.Infra("TLC %s: deviation action %s is enabled in the repaired model", j.cfg, a)
		}
	}
	for _, a := range j.wantOn {
		if res.ActionCount[a] == 0 {
			vlib.Infra("TLC %s: deviation action %s never taken in the pinned model", j.cfg, a)
		}
	}
	var lines []string
	if j.export {
		for _, ln := range res.Printed {
			s, err := strconv.Unquote(ln)
			if err != nil || !strings.HasPrefix(s, `{"`) {
				continue
			}
			lines = append(lines, s)
		}
		if len(lines) == 0 {
			vlib.Infra("TLC %s enumerated no input (vacuous)", j.cfg)
		}
	}
	fmt.Fprintf(os.Stderr, "c10: TLC %s: %d distinct states, %d lines, %.1fs\n", j.cfg, res.Distinct, len(lines), res.WallS)
	return lines
}

func tail(s string, n int) string {
	if len(s) > n {
		return s[len(s)-n:]
	}
	return s
}

// ---------------------------------------------------------------- main

func main() {
	if os.Getenv("C10_CHILD") == "1" {
		childMain()
		return
	}
	log.SetOutput(io.Discard)
	c := vlib.NewCheck("C10", "exploration")
	if rp := os.Getenv("VERIF_REPLAY"); rp != "" {
		replayOne(c, rp)
		return
	}
	thorough := vlib.Tier() == "thorough"
	t0 := time.Now()

	upCfg := "MC_Upload.cfg"
	decVariants, orderVariants, pathVariants, otherVariants := 3, 1, 1, 2
	if thorough {
		upCfg = "MC_Upload_thorough.cfg"
		decVariants, orderVariants, pathVariants, otherVariants = 20, 2, 6, 8
	}
	// the pinned models (counterexample generators) are checked beside the replay
	var pinWG sync.WaitGroup
	pinWG.Add(1)
	go func() {
		defer pinWG.Done()
		runTLC(c, tlcJob{module: "Decode", cfg: "MC_Decode_pinned.cfg", wantOn: []string{"NilDeref"}, wantOff: []string{"NilGuard"}})
		runTLC(c, tlcJob{module: "Upload", cfg: "MC_Upload_pinned.cfg", wantOn: []string{"WalkPanic"}})
	}()
	decLines := runTLC(c, tlcJob{module: "Decode", cfg: "MC_Decode.cfg", export: true, wantOff: []string{"NilDeref"}})
	upLines := runTLC(c, tlcJob{module: "Upload", cfg: upCfg, export: true, wantOff: []string{"WalkPanic"}})
	tlcWall := time.Since(t0).Seconds()

	var items []caseItem
	for _, ln := range decLines {
		for v := 0; v < decVariants; v++ {
			items = append(items, caseItem{Kind: "decode", Raw: ln, Variant: v, Seed: seedFor(vlib.Seed(), ln, v)})
		}
	}
	modeCount := map[string]int{}
	for _, ln := range upLines {
		var probe struct {
			Mode string `json:"mode"`
		}
		_ = json.Unmarshal([]byte(ln), &probe)
		modeCount[probe.Mode]++
		n := otherVariants
		switch probe.Mode {
		case "order":
			n = orderVariants
		case "path":
			n = pathVariants
		}
		for v := 0; v < n; v++ {
			items = append(items, caseItem{Kind: "upload", Raw: ln, Variant: v, Seed: seedFor(vlib.Seed(), ln, v)})
		}
	}
	for _, m := range []string{"order", "path", "content", "cut", "size"} {
		if modeCount[m] == 0 {
			vlib.Infra("TLC enumerated no upload input of mode %s (vacuous)", m)
		}
	}
	if f := os.Getenv("C10_FILTER"); f != "" { // debugging aid: only lines containing f
		var keep []caseItem
		for _, it := range items {
			if strings.Contains(it.Raw, f) {
				keep = append(keep, it)
			}
		}
		items = keep
	}
	// deterministic order, shuffled by the seed so that the children see a mix
	rng := rand.New(rand.NewSource(vlib.Seed()))
	rng.Shuffle(len(items), func(i, j int) { items[i], items[j] = items[j], items[i] })

	const nChildren = 3
	work := make(chan caseItem, 64)
	var wg sync.WaitGroup
	var crashes atomic.Int64
	var sampleMu sync.Mutex
	sampled := map[string]bool{}
	wantSample := map[string]bool{"decode/POST/body/null": true, "decode/WS1/startp/array": true, "decode/GET/vars/trunc": true}
	outcomes := map[string]int64{}
	for n := 0; n < nChildren; n++ {
		wg.Add(1)
		go func(n int) {
			defer wg.Done()
			ch, err := startChild(n)
			if err != nil {
				vlib.Infra("start child server: %v", err)
			}
			defer func() {
				if ch.alive() {
					if n := ch.orphans(); n > 0 {
						c.Violate("recover-hook-outside-request", fmt.Sprintf("the recover hook was invoked %d time(s) with a context that belongs to no request", n), nil)
					}
				}
				ch.stop()
			}()
			for it := range work {
				if !ch.alive() {
					ch.stop()
					if ch, err = startChild(n); err != nil {
						vlib.Infra("restart child server: %v", err)
					}
				}
				sc, vs, cls, infra := runCase(ch, it)
				if infra != "" {
					if !ch.alive() {
						infra += " | child stderr: " + ch.stderrTail()
					}
					vlib.Infra("case %s variant %d: %s", cls, it.Variant, infra)
				}
				if sc.Observed.Class == "crash" {
					crashes.Add(1)
				}
				c.AddEvals(1)
				if !strings.HasSuffix(cls, "/valid") {
					c.Class(cls)
				}
				for _, v := range vs {
					c.Violate(v.key, v.detail+"\nrequest: "+reqText(sc.Request), sc)
				}
				sampleMu.Lock()
				outcomes[it.Kind+":"+sc.Observed.Class]++
				take := false
				if it.Variant == 0 && !sampled[cls] {
					if wantSample[cls] || (strings.HasPrefix(cls, "upload/path/ok/obj:name:false:l2>l2:i1:true") && len(sampled) < 5) ||
						(strings.HasPrefix(cls, "upload/order/ops+map+f0+f1/M1/temp")) || strings.HasPrefix(cls, "upload/size/m=2048/u=8192/len=8193/chunked=true") {
						take = true
						sampled[cls] = true
					}
				}
				sampleMu.Unlock()
				if take {
					var pres any
					_ = json.Unmarshal([]byte(it.Raw), &pres)
					ob := sc.Observed
					c.Sample(map[string]any{"class": cls, "prescription": pres, "request": sc.Request, "observed": map[string]any{
						"outcome": ob.Class, "status": ob.Status, "body": ob.Body, "frames": ob.Frames, "server_record": ob.Rec}})
				}
			}
		}(n)
	}
	for _, it := range items {
		work <- it
	}
	close(work)
	wg.Wait()
	pinWG.Wait()

	debugFilter := os.Getenv("C10_FILTER") != ""
	if debugFilter {
		fmt.Fprintf(os.Stderr, "c10: deviations not observed: %v\n", notSeenSamples)
	}
	if tempCases.Load() == 0 && !debugFilter {
		vlib.Infra("no request was observed with a spill file in TMPDIR: the temp-file path was not exercised (vacuous)")
	}
	if delivered.Load() == 0 && !debugFilter {
		vlib.Infra("no delivered upload was compared (vacuous)")
	}
	db := map[string]int64{}
	driftBy.Range(func(k, v any) bool { db[k.(string)] = v.(*atomic.Int64).Load(); return true })
	lb := map[string]string{}
	lbUp := map[string]int{}
	lenientBoth.Range(func(k, v any) bool {
		ks := k.(string)
		if strings.HasPrefix(ks, "upload/") {
			lbUp[strings.SplitN(ks, "/", 3)[1]+":"+v.(string)]++
		} else {
			lb[ks] = v.(string)
		}
		return true
	})
	c.Set("rule", "TLC enumerates the complete finite input spaces of spec/Decode.tla (every transport x slot x class) and spec/Upload.tla (all part sequences up to the bound over {operations, map, file 0, file 1, junk} x map variant x storage; all (variables shape, map path) walks up to depth 3 x storage; operations x map content classes; total lengths around MaxMemory/MaxUploadSize x known/chunked length x limit configuration) with the prescribed outcome; each line is concretised with seeded bytes/names ("+
		"several variants per line) and sent to the real handler.Server. A case is distinct by its abstract input (the TLC line); the plain `valid` decode classes are counted as trivial and excluded from distinct_nontrivial.")
	c.Set("exhaustive", true)
	c.Set("tier_bounds", map[string]any{"upload_cfg": upCfg, "decode_variants": decVariants, "order_variants": orderVariants, "path_variants": pathVariants, "content_size_variants": otherVariants})
	c.Set("tlc_lines", map[string]any{"decode": len(decLines), "upload": len(upLines), "upload_by_mode": modeCount})
	c.Set("tlc_wall_s", tlcWall)
	c.Set("outcomes_observed", outcomes)
	c.Set("impl_level_drift", drift.Load())
	c.Set("impl_level_drift_by", db)
	c.Set("deviation_lines_observed", devSeen.Load())
	c.Set("deviation_lines_not_observed", devNotSeen.Load())
	if len(notSeenSamples) > 0 {
		c.Set("deviation_not_observed_samples", notSeenSamples)
	}
	c.Set("requests_with_spill_file", tempCases.Load())
	c.Set("requests_with_in_memory_upload", memCases.Load())
	c.Set("uploads_compared", delivered.Load())
	c.Set("server_process_crashes", crashes.Load())
	c.Set("open_classes_observed", lb)
	c.Set("open_upload_classes_observed", lbUp)
	c.Assume("Only the structured input classes of Decode.tla / Upload.tla are enumerated; arbitrary byte strings outside them (raw fuzzing) are not decided here. Bytes, names and sizes inside a class are seeded random.")
	c.Assume("The JSON nesting limit (10000) and the leniency towards trailing bytes are encoding/json's; the specification leaves those classes open (client error or proceed), only the panic path / crash is excluded.")
	c.Assume("net/http, mime/multipart and gorilla/websocket are trusted to deliver the bytes the harness sent; the hand-written ExecutableSchema stands for generated code (it passes every Upload through graphql.UnmarshalUpload).")
	c.Assume("Storage (memory vs temp file) and exact 4xx codes are implementation-level: differences are counted as impl_level_drift, not as violations.")
	fmt.Fprintf(os.Stderr, "c10: %d cases, outcomes %v, drift %d, deviations seen/not %d/%d, spill %d, compared %d, %.1fs\n",
		len(items), outcomes, drift.Load(), devSeen.Load(), devNotSeen.Load(), tempCases.Load(), delivered.Load(), time.Since(t0).Seconds())
	c.Finish()
}

func reqText(rq any) string {
	switch q := rq.(type) {
	case HTTPReq:
		return fmt.Sprintf("%s %s headers=%v chunked=%v body=%q", q.Method, q.Path, q.Headers, q.Chunked, q.BodyStr)
	case WSReq:
		return fmt.Sprintf("websocket subprotocol=%s init=%q frame(binary=%v)=%q", q.Subprotocol, q.Init, q.Binary, q.FrameStr)
	case UploadCase:
		return fmt.Sprintf("POST %s chunked=%v operations=%s map=%s files=%d body=%q", q.Req.Path, q.Req.Chunked, q.Operations, q.MapJSON, len(q.Files), q.Req.BodyStr)
	}
	return fmt.Sprint(rq)
}

func replayOne(c *vlib.Check, path string) {
	b, err := os.ReadFile(path)
	if err != nil {
		vlib.Infra("replay file: %v", err)
	}
	var f struct {
		Key      string `json:"key"`
		Scenario struct {
			Case caseItem `json:"case"`
		} `json:"scenario"`
	}
	if err := json.Unmarshal(b, &f); err != nil {
		vlib.Infra("replay file: %v", err)
	}
	ch, err := startChild(0)
	if err != nil {
		vlib.Infra("start child server: %v", err)
	}
	defer ch.stop()
	sc, vs, cls, infra := runCase(ch, f.Scenario.Case)
	if infra != "" {
		vlib.Infra("replay: %s", infra)
	}
	c.AddEvals(1)
	c.Class(cls)
	ob, _ := json.MarshalIndent(sc.Observed, "", " ")
	fmt.Printf("replay %s: %s\nrequest: %s\nobserved: %s\n", cls, sc.Observed.Class, reqText(sc.Request), ob)
	c.Sample(map[string]any{"class": cls, "observed": sc.Observed.Class})
	c.Set("rule", "replay of one recorded scenario")
	keys := []string{}
	for _, v := range vs {
		keys = append(keys, v.key)
		c.Violate(v.key, v.detail+"\nrequest: "+reqText(sc.Request), sc)
	}
	sort.Strings(keys)
	fmt.Printf("verdicts: %v\n", keys)
	ch.stop()
	c.Finish()
}
