package main

// Concretisers: abstract class (a line TLC printed) -> concrete request.
// Every random choice derives from the *rand.Rand handed in, which the
// driver seeds from VERIF_SEED, the line and the variant number.

import (
	"bytes"
	"crypto/sha256"
	"encoding/hex"
	"encoding/json"
	"fmt"
	"math/rand"
	"mime/multipart"
	"net/textproto"
	"net/url"
	"strconv"
	"strings"
)

// ---------------------------------------------------------------- lines

// DecLine is one line of spec/Decode.tla's Export.
type DecLine struct {
	K     string   `json:"k"`
	Tr    string   `json:"tr"`
	Slot  string   `json:"slot"`
	Cls   string   `json:"cls"`
	Want  []string `json:"want"`
	Out   string   `json:"out"`
	Impl  string   `json:"impl"`
	Dev   string   `json:"dev"`
	Steps []string `json:"steps"`
}

type WalkStep struct {
	C    string `json:"c"`
	S    string `json:"s"`
	Last bool   `json:"last"`
	Kid  string `json:"kid"`
}

type MapEntry struct {
	Key   string   `json:"key"`
	Paths []string `json:"paths"`
}

type Deliver struct {
	Var  string `json:"var"`
	File string `json:"file"`
}

// UpLine is one line of spec/Upload.tla's Export.
type UpLine struct {
	K       string     `json:"k"`
	Mode    string     `json:"mode"`
	Parts   []string   `json:"parts"`
	Map     []MapEntry `json:"map"`
	Mapv    string     `json:"mapv"`
	M       int64      `json:"m"`
	U       int64      `json:"u"`
	Len     int64      `json:"len"`
	Chunked bool       `json:"chunked"`
	Prefix  string     `json:"prefix"`
	Walk    []WalkStep `json:"walk"`
	Ops     string     `json:"ops"`
	Mapc    string     `json:"mapc"`
	Want    []string   `json:"want"`
	Out     string     `json:"out"`
	Impl    string     `json:"impl"`
	Store   string     `json:"store"`
	Deliver []Deliver  `json:"deliver"`
	Dev     string     `json:"dev"`
	NSteps  int        `json:"nsteps"`
}

// ---------------------------------------------------------------- requests

// HTTPReq is a concrete HTTP request.
type HTTPReq struct {
	Method  string      `json:"method"`
	Path    string      `json:"path"` // path + raw query
	Headers [][2]string `json:"headers"`
	Body    []byte      `json:"-"`
	BodyStr string      `json:"body"` // printable rendering (truncated) for reports
	Chunked bool        `json:"chunked"`
}

// WSReq is a concrete websocket script.
type WSReq struct {
	Subprotocol string   `json:"subprotocol"`
	Init        string   `json:"init_frame"` // "" = the test frame is the first frame
	Frame       []byte   `json:"-"`
	FrameStr    string   `json:"frame"`
	Binary      bool     `json:"binary"`
	OpID        string   `json:"op_id"`
	Phase       string   `json:"phase"` // init | run
	Expect      []string `json:"-"`
}

// FileSent is one file of an upload form, as sent.
type FileSent struct {
	Key      string `json:"key"`
	Filename string `json:"filename"`
	CT       string `json:"content_type"`
	Size     int    `json:"size"`
	Sha      string `json:"sha256"`
	data     []byte
}

func printable(b []byte) string {
	const max = 600
	s := string(b)
	if len(s) > max {
		s = s[:max/2] + fmt.Sprintf(" …[%d bytes]… ", len(b)-max) + s[len(s)-max/2:]
	}
	return strings.ToValidUTF8(s, "�")
}

func pick[T any](r *rand.Rand, xs ...T) T { return xs[r.Intn(len(xs))] }

// ---------------------------------------------------------------- JSON classes

type qdoc struct {
	text   string
	opName string // a name the document defines ("" if anonymous)
	vars   string // JSON object text of suitable variables
}

func validDoc(r *rand.Rand) qdoc {
	return pick(r,
		qdoc{"{ ok }", "", `{}`},
		qdoc{"query { ok }", "", `{}`},
		qdoc{"query Q { ok }", "Q", `{}`},
		qdoc{"query Q($v: Any) { ok echo(v: $v) }", "Q", `{"v":{"x":[1,"two",null,true]}}`},
		qdoc{"mutation M { ok }", "M", `{}`},
		qdoc{"{ ok again: ok }", "", `{"unused":1}`},
	)
}

func jstr(s string) string {
	b, _ := json.Marshal(s)
	return string(b)
}

func nest(n int) string { return strings.Repeat("[", n) + strings.Repeat("]", n) }

// envelope renders a RawParams-shaped JSON document of the class.  ok=false
// when the class does not apply.
func envelope(cls string, r *rand.Rand, getOnly bool) string {
	d := validDoc(r)
	if getOnly { // executed through a GET-like path: queries only
		for d.text == "mutation M { ok }" {
			d = validDoc(r)
		}
	}
	q := jstr(d.text)
	ws := pick(r, "", " ", "\n", "\t ")
	obj := func(members ...string) string {
		r.Shuffle(len(members), func(i, j int) { members[i], members[j] = members[j], members[i] })
		return ws + "{" + strings.Join(members, ","+pick(r, "", " ")) + "}" + ws
	}
	switch cls {
	case "null":
		return ws + "null" + ws
	case "num":
		return ws + pick(r, "5", "0", "-1.5e3", "12345678901234567890") + ws
	case "str":
		return ws + pick(r, `"abc"`, `""`, jstr(d.text), `"null"`) + ws
	case "bool":
		return ws + pick(r, "true", "false") + ws
	case "array":
		return ws + pick(r, "[]", "[1,2]", `[{"query":`+q+`}]`, "[null]") + ws
	case "q_num":
		return obj(`"query":` + pick(r, "5", "0", "1.5"))
	case "q_obj":
		return obj(`"query":` + pick(r, `{"a":1}`, `[`+q+`]`, "true"))
	case "v_str":
		return obj(`"query":`+q, `"variables":`+pick(r, `"{}"`, `""`, `"null"`))
	case "v_arr":
		return obj(`"query":`+q, `"variables":`+pick(r, `[]`, `[1]`, `[{"v":1}]`))
	case "v_num":
		return obj(`"query":`+q, `"variables":`+pick(r, `3`, `true`, `0.5`))
	case "e_arr":
		return obj(`"query":`+q, `"extensions":`+pick(r, `[]`, `[{}]`))
	case "e_str":
		return obj(`"query":`+q, `"extensions":`+pick(r, `"x"`, `7`, `false`))
	case "o_obj":
		return obj(`"query":`+q, `"operationName":`+pick(r, `{}`, `{"a":1}`, `["Q"]`))
	case "o_num":
		return obj(`"query":`+q, `"operationName":`+pick(r, `1`, `true`))
	case "h_str":
		return obj(`"query":`+q, `"headers":`+pick(r, `"x"`, `5`, `{"A":"b"}`, `{"A":[1]}`))
	case "v_null":
		return obj(`"query":`+q, `"variables":null`)
	case "e_null":
		return obj(`"query":`+q, `"extensions":null`)
	case "o_null":
		return obj(`"query":`+q, `"operationName":null`)
	case "q_null":
		return obj(`"query":null`)
	case "q_absent":
		return pick(r, ws+"{}"+ws, obj(`"variables":{}`), obj(`"operationName":"Q"`, `"extensions":{}`))
	case "unknown":
		return obj(`"query":`+q, `"foo":1`, `"id":"x"`)
	case "valid":
		return obj(`"query":` + q)
	case "valid_full":
		m := []string{`"query":` + q, `"variables":` + d.vars, `"extensions":{"trace":{"id":"` + strconv.Itoa(r.Intn(1000)) + `"}}`}
		if d.opName != "" {
			m = append(m, `"operationName":`+jstr(d.opName))
		}
		return obj(m...)
	case "trail":
		v := "{" + `"query":` + q + "}"
		return v + pick(r, " xyz", "}", " "+v, ",", "]", "\x00")
	case "deep_over":
		return pick(r,
			`{"query":`+q+`,"variables":{"a":`+nest(10050+r.Intn(500))+`}}`,
			nest(10001+r.Intn(100)),
			`{"query":`+q+`,"extensions":{"a":`+nest(12000)+`}}`)
	case "deep_under":
		return `{"query":` + q + `,"variables":{"a":` + nest(1000+r.Intn(4000)) + `}}`
	case "trunc":
		v := `{"query":` + q + `,"variables":{"a":[1,{"b":"c"}]}}`
		// cut after the `"query":` marker so the urlencoded transport still takes its JSON branch
		lo := strings.Index(v, `"query":`) + len(`"query":`)
		return v[:lo+r.Intn(len(v)-lo-1)]
	case "empty":
		return pick(r, "", " ", "\n\t ")
	}
	return "?" + cls
}

// mapJSON renders a value of the class for a map-typed slot (GET variables /
// extensions, connection_init payload).
func mapJSON(cls string, r *rand.Rand) (string, bool) {
	switch cls {
	case "absent":
		return "", false
	case "null":
		return "null", true
	case "num":
		return pick(r, "5", "0", "-2.5"), true
	case "str":
		return pick(r, `"abc"`, `""`, `"{}"`), true
	case "bool":
		return pick(r, "true", "false"), true
	case "array":
		return pick(r, "[]", "[1]", `[{"a":1}]`), true
	case "trunc":
		return pick(r, `{"a":1`, `{"a":`, `{`, `{"a":[1,2}`), true
	case "trail":
		return pick(r, `{} x`, `{"a":1}}`, `{"a":1} {"b":2}`), true
	case "empty":
		return "", true
	case "deep_over":
		return `{"a":` + nest(10050) + `}`, true
	case "deep_under":
		return `{"a":` + nest(500+r.Intn(1500)) + `}`, true
	case "valid":
		return pick(r, `{}`, `{"a":1}`, `{"v":{"x":[1,null]},"unused":"u"}`), true
	}
	return "?" + cls, true
}

// ---------------------------------------------------------------- decode cases

func hdr(kv ...string) [][2]string {
	var h [][2]string
	for i := 0; i+1 < len(kv); i += 2 {
		h = append(h, [2]string{kv[i], kv[i+1]})
	}
	return h
}

func ctSpelling(r *rand.Rand, base string) string {
	return pick(r, base, base+"; charset=utf-8", strings.ToUpper(base[:1])+base[1:], base+";charset=UTF-8")
}

// concDecodeHTTP builds the HTTP request of a Decode line (transports other than websocket).
func concDecodeHTTP(l *DecLine, r *rand.Rand) HTTPReq {
	req := HTTPReq{Method: "POST", Path: "/graphql"}
	switch l.Tr {
	case "POST", "SSE", "MIXED":
		req.Headers = hdr("Content-Type", ctSpelling(r, "application/json"))
		switch l.Tr {
		case "SSE":
			req.Headers = append(req.Headers, [2]string{"Accept", "text/event-stream"})
		case "MIXED":
			req.Headers = append(req.Headers, [2]string{"Accept", pick(r, "multipart/mixed", `multipart/mixed;deferSpec=20220824, application/json`)})
		default:
			if r.Intn(2) == 0 {
				req.Headers = append(req.Headers, [2]string{"Accept", "application/json"})
			}
		}
		req.Body = []byte(envelope(l.Cls, r, false))
	case "FORM":
		req.Headers = hdr("Content-Type", ctSpelling(r, "application/x-www-form-urlencoded"))
		switch l.Slot {
		case "json":
			b := envelope(l.Cls, r, false)
			if !strings.Contains(b, `"query":`) {
				// the JSON sub-format is chosen by the marker `"query":` anywhere in the body;
				// the class is about the FIRST JSON value
				b += pick(r, ` {"query":"{ ok }"}`, `{"query":1}`, ` "query":`)
			}
			req.Body = []byte(b)
		case "enc":
			switch l.Cls {
			case "valid":
				req.Body = []byte("query=%7B" + pick(r, "+ok+%7D", "%20ok%20%7D", "ok%7D", "ok%2Cagain%3Aok%7D"))
			case "syntax":
				req.Body = []byte("query=%7B" + pick(r, "%7B", "+ok", "%7D", "ok%28%7D"))
			case "badesc":
				req.Body = []byte("query=%7B" + pick(r, "%zz", "ok%7", "%", "ok%7D%G1"))
			}
		case "plain":
			switch l.Cls {
			case "valid":
				req.Body = []byte(pick(r, "{ ok }", "query Q { ok }", "{ok}"))
			case "valid_prefixed":
				req.Body = []byte("query=" + pick(r, "{ ok }", "query Q { ok }", "{ok}"))
			case "syntax":
				req.Body = []byte(pick(r, "query={ ok", "{ ok", "query=}", "null", "query=%zz", "ok"))
			case "empty":
				req.Body = []byte(pick(r, "", "query="))
			}
		}
	case "GRAPHQL":
		req.Headers = hdr("Content-Type", ctSpelling(r, "application/graphql"))
		switch l.Slot {
		case "raw":
			switch l.Cls {
			case "valid":
				req.Body = []byte(pick(r, "{ ok }", "query Q { ok }", "{ok}", "mutation { ok }"))
			case "valid_prefixed":
				req.Body = []byte("query=" + pick(r, "{ ok }", "query Q { ok }"))
			case "syntax":
				req.Body = []byte(pick(r, "{ ok", "}", "query", "{ nosuchfield }", "query=%zz", "\x00\x01"))
			case "empty":
				req.Body = []byte(pick(r, "", "query=", " "))
			case "json_as_text":
				req.Body = []byte(pick(r, `{"query":"{ ok }"}`, `null`, `[]`, `"{ ok }"`))
			}
		case "genc":
			switch l.Cls {
			case "valid":
				req.Body = []byte("%7B" + pick(r, "+ok+%7D", "%20ok%20%7D", "ok%7D"))
			case "valid_prefixed":
				req.Body = []byte("query=%7B" + pick(r, "+ok+%7D", "ok%7D"))
			case "syntax":
				req.Body = []byte(pick(r, "", "query=") + "%7B" + pick(r, "%7B", "+ok", "%7D"))
			case "badesc":
				req.Body = []byte(pick(r, "", "query=") + "%7B" + pick(r, "%zz", "ok%7", "%", "ok%7D%G1"))
			}
		}
	case "GET":
		req.Method = "GET"
		if r.Intn(2) == 0 {
			req.Headers = hdr("Accept", "application/json")
		}
		d := validDoc(r)
		for strings.HasPrefix(d.text, "mutation") {
			d = validDoc(r)
		}
		q := url.Values{}
		q.Set("query", d.text)
		if d.opName != "" && r.Intn(2) == 0 {
			q.Set("operationName", d.opName)
		}
		switch l.Slot {
		case "url":
			switch l.Cls {
			case "valid":
				req.Path += "?" + q.Encode()
			case "badesc":
				req.Path += "?" + pick(r, "query=%zz", q.Encode()+"&variables=%", "query=%7Bok%7D&x=%G", "%=1&"+q.Encode())
			case "semicolon":
				req.Path += "?" + pick(r, "query=%7Bok%7D;operationName=A", q.Encode()+";x=1")
			}
		case "query":
			switch l.Cls {
			case "valid":
				req.Path += "?" + q.Encode()
			case "syntax":
				req.Path += "?query=" + url.QueryEscape(pick(r, "{ ok", "}", "{ nosuchfield }", "null", `{"query":"{ ok }"}`))
			case "empty":
				req.Path += pick(r, "", "?", "?operationName=Q", "?query=", "?variables=%7B%7D")
			}
		case "vars", "ext":
			name := "variables"
			if l.Slot == "ext" {
				name = "extensions"
			}
			v, _ := mapJSON(l.Cls, r)
			q.Set(name, v)
			req.Path += "?" + q.Encode()
		}
	}
	req.BodyStr = printable(req.Body)
	return req
}

// concDecodeWS builds the websocket script of a Decode line.
func concDecodeWS(l *DecLine, r *rand.Rand) WSReq {
	w := WSReq{Subprotocol: "graphql-ws", OpID: pick(r, "1", "op-7", "x")}
	start := "start"
	s2c := []string{"data", "connection_ack", "ka", "complete", "error", "connection_error"}
	if l.Tr == "WS2" {
		w.Subprotocol = "graphql-transport-ws"
		start = "subscribe"
		s2c = []string{"next", "connection_ack", "error"}
	}
	initFrame := `{"type":"connection_init"}`
	d := validDoc(r)
	if r.Intn(3) == 0 {
		d = qdoc{"subscription { tick }", "", `{}`}
	}
	payload := `{"query":` + jstr(d.text) + `}`
	startFrame := func(p string, hasPayload bool) string {
		if !hasPayload {
			return `{"type":"` + start + `","id":` + jstr(w.OpID) + `}`
		}
		return pick(r,
			`{"type":"`+start+`","id":`+jstr(w.OpID)+`,"payload":`+p+`}`,
			`{"id":`+jstr(w.OpID)+`,"payload":`+p+`,"type":"`+start+`"}`)
	}
	first := l.Slot == "frame0" || l.Slot == "initp"
	if first {
		w.Phase = "init"
	} else {
		w.Phase = "run"
		w.Init = initFrame
	}
	valid := startFrame(payload, true)
	if first {
		valid = initFrame
	}
	var f string
	switch l.Slot {
	case "frame0", "frame":
		switch l.Cls {
		case "null":
			f = pick(r, "null", " null ")
		case "num":
			f = pick(r, "5", "-1", "0.5")
		case "str":
			f = pick(r, `"x"`, `"connection_init"`, `""`)
		case "array":
			f = pick(r, "[]", "["+valid+"]")
		case "t_num":
			f = pick(r, `{"type":5}`, `{"type":{}}`, `{"type":["start"]}`, `{"type":true,"id":"1"}`)
		case "t_unknown":
			f = pick(r, `{"type":"bogus"}`, `{"type":"START"}`, `{"type":""}`, `{"type":" start"}`, `{"id":"1"}`, `{}`)
		case "t_s2c":
			f = `{"type":"` + pick(r, s2c...) + `","id":` + jstr(w.OpID) + `,"payload":{}}`
		case "id_num":
			f = pick(r, `{"type":"`+start+`","id":5,"payload":`+payload+`}`, `{"type":"connection_init","id":{}}`, `{"type":"`+start+`","id":["1"]}`)
		case "trunc":
			f = valid[:1+r.Intn(len(valid)-2)]
		case "trail":
			f = valid + pick(r, " xyz", "}", " "+valid)
		case "empty":
			f = ""
		case "deep_over":
			f = `{"type":"` + start + `","id":"1","payload":{"query":"{ ok }","variables":{"a":` + nest(10050) + `}}}`
			if first {
				f = `{"type":"connection_init","payload":{"a":` + nest(10050) + `}}`
			}
		case "binary_valid":
			f = valid
			w.Binary = true
		case "binary_junk":
			b := make([]byte, 1+r.Intn(40))
			r.Read(b)
			b[0] = 0xff
			f = string(b)
			w.Binary = true
		case "valid":
			f = valid
		}
	case "initp":
		p, has := mapJSON(l.Cls, r)
		if has {
			f = `{"type":"connection_init","payload":` + p + `}`
		} else {
			f = initFrame
		}
	case "startp":
		if l.Cls == "absent" {
			f = startFrame("", false)
		} else {
			f = startFrame(strings.TrimSpace(envelope(l.Cls, r, false)), true)
		}
	}
	w.Frame = []byte(f)
	w.FrameStr = printable(w.Frame)
	return w
}

// ---------------------------------------------------------------- uploads

var fileCTs = []string{"text/plain", "application/octet-stream", "image/png", "text/plain; charset=utf-8", ""}

func randFile(key string, size int, r *rand.Rand) FileSent {
	// name and content type first, so that the same generator state yields the
	// same headers whatever the size (mode "size" measures the overhead with size 0)
	names := []string{"a.txt", "photo 1.png", "données.bin", "x", "UPPER.TXT", ".hidden", "very-long-" + strings.Repeat("n", 40) + ".dat", "a.b.c.d"}
	f := FileSent{Key: key, Filename: pick(r, names...), CT: pick(r, fileCTs...), Size: size}
	dr := rand.New(rand.NewSource(r.Int63()))
	if size < 0 {
		size = 0
	}
	b := make([]byte, size)
	dr.Read(b)
	f.data, f.Size = b, size
	h := sha256.Sum256(b)
	f.Sha = hex.EncodeToString(h[:])
	return f
}

type formPart struct {
	name     string
	filename string // "" = plain field
	ct       string
	data     []byte
}

func buildForm(parts []formPart, boundary string) []byte {
	var buf bytes.Buffer
	mw := multipart.NewWriter(&buf)
	_ = mw.SetBoundary(boundary)
	for _, p := range parts {
		h := textproto.MIMEHeader{}
		cd := `form-data; name="` + p.name + `"`
		if p.filename != "" {
			cd += `; filename="` + p.filename + `"`
		}
		h.Set("Content-Disposition", cd)
		if p.ct != "" {
			h.Set("Content-Type", p.ct)
		}
		w, _ := mw.CreatePart(h)
		_, _ = w.Write(p.data)
	}
	_ = mw.Close()
	return buf.Bytes()
}

// UploadCase is a concrete upload request plus what was put into it.
type UploadCase struct {
	Req        HTTPReq    `json:"request"`
	Files      []FileSent `json:"files"`
	Operations string     `json:"operations"`
	MapJSON    string     `json:"map"`
	PathStr    string     `json:"path,omitempty"` // mode path: the map path under test
	BuildErr   string     `json:"build_error,omitempty"`
	Locate     []string   `json:"locate,omitempty"` // mode path: where the upload must be found in the received variables ("" = not delivered to a declared variable)
}

const (
	opsTwo = `mutation($a: Upload, $b: Upload) { up(a: $a, b: $b) }`
	opsAny = `mutation($k: Any, $z: Any) { up(k: $k, z: $z) }`
)

func segString(s string, r *rand.Rand, top bool) string {
	switch s {
	case "name":
		return "k"
	case "miss":
		if top {
			return "z"
		}
		return pick(r, "z", "nope", "K")
	case "empty":
		return ""
	case "nonnum":
		return pick(r, "1x", "0x1", "1e3", "١", "0 ")
	case "i0":
		return "0"
	case "i1":
		return "1"
	case "big":
		return pick(r, "7", "2", "99999", "4294967296")
	case "neg":
		return pick(r, "-1", "-7", "-2147483648")
	case "plus":
		return "+0"
	}
	return "?"
}

func scalarJSON(r *rand.Rand) any { return pick[any](r, "s", 5, true, 1.5) }

// buildTree renders the container the walk is standing on at step n.
func buildTree(walk []WalkStep, n int, segs []string, r *rand.Rand) any {
	st := walk[n]
	// the value found by this step (what the next step stands on / what is overwritten)
	var child any
	switch {
	case !st.Last && n+1 < len(walk):
		child = kidValue(walk, n+1, segs, r)
	case st.Last:
		switch st.Kid {
		case "scalar":
			child = scalarJSON(r)
		case "obj":
			child = map[string]any{"q": 1}
		default:
			child = nil
		}
	default:
		child = nil
	}
	switch st.C {
	case "obj":
		m := map[string]any{}
		if r.Intn(2) == 0 {
			m["decoy"] = []any{1, map[string]any{"k": nil}}
		}
		if st.S == "name" {
			m[segs[n]] = child
		}
		return m
	case "l0":
		return []any{}
	case "l1", "l2":
		ln := 1
		if st.C == "l2" {
			ln = 2
		}
		l := make([]any, ln)
		for i := range l {
			l[i] = pick[any](r, nil, "filler", map[string]any{"k": nil})
		}
		if idx, err := strconv.Atoi(segs[n]); err == nil && idx >= 0 && idx < ln {
			l[idx] = child
		}
		return l
	case "scalar":
		return scalarJSON(r)
	}
	return nil // nil, nilmap
}

func kidValue(walk []WalkStep, n int, segs []string, r *rand.Rand) any {
	return buildTree(walk, n, segs, r)
}

// concUpload builds the multipart request of an Upload line.
func concUpload(l *UpLine, r *rand.Rand) UploadCase {
	var uc UploadCase
	boundary := "verif" + strconv.FormatInt(r.Int63(), 36)
	m := l.M
	ops := ""
	mapObj := map[string][]string{}
	for _, e := range l.Map {
		ps := []string{}
		for _, p := range e.Paths {
			ps = append(ps, "variables."+p)
		}
		mapObj[e.Key] = ps
	}
	switch l.Mode {
	case "path":
		// path string and variables tree from the walk
		segs := make([]string, len(l.Walk))
		for i, st := range l.Walk {
			segs[i] = segString(st.S, r, i == 0)
		}
		pathSegs := append([]string{}, segs...)
		if n := len(l.Walk); n > 0 && !l.Walk[n-1].Last {
			pathSegs = append(pathSegs, pick(r, "t", "0", "k")) // a segment the walk never reaches
		}
		var p string
		switch l.Prefix {
		case "ok":
			p = "variables." + strings.Join(pathSegs, ".")
		case "noprefix":
			p = strings.Join(pathSegs, ".")
		case "bare":
			p = "variables"
		case "emptypath":
			p = ""
		case "similar":
			p = pick(r, "variablesX.", "Variables.", "variable.", " variables.") + strings.Join(pathSegs, ".")
		}
		uc.PathStr = p
		mapObj = map[string][]string{"0": {p}}
		env := map[string]any{"query": opsAny}
		if l.Walk[0].C == "obj" {
			env["variables"] = buildTree(l.Walk, 0, segs, r)
		} else if r.Intn(2) == 0 {
			env["variables"] = nil
		}
		b, _ := json.Marshal(env)
		ops = string(b)
		if l.Prefix == "ok" && (segs[0] == "k" || segs[0] == "z") {
			uc.Locate = segs
		}
	case "content":
		switch l.Ops {
		case "valid":
			ops = `{"query":` + jstr(opsTwo) + `,"variables":{"a":null,"b":null}}`
		case "null":
			ops = "null"
		case "array":
			ops = pick(r, "[]", `[{"query":"{ ok }"}]`)
		case "num":
			ops = pick(r, "5", `"str"`, "true")
		case "trunc":
			ops = `{"query":` + jstr(opsTwo) + `,"variables":{"a":null`
		case "empty":
			ops = ""
		case "trail":
			ops = `{"query":` + jstr(opsTwo) + `,"variables":{"a":null,"b":null}} xyz`
		case "novars":
			ops = pick(r, `{"query":`+jstr(opsTwo)+`}`, `{"query":`+jstr(opsTwo)+`,"variables":null}`)
		case "noboundary":
			ops = `{"query":` + jstr(opsTwo) + `,"variables":{"a":null,"b":null}}`
		}
	default:
		ops = `{"query":` + jstr(opsTwo) + `,"variables":{"a":null,"b":null}}`
	}
	mj, _ := json.Marshal(mapObj)
	mapJSON := string(mj)
	if l.Mode == "content" {
		switch l.Mapc {
		case "valid":
		case "null":
			mapJSON = "null"
		case "array":
			mapJSON = pick(r, "[]", `[["variables.a"]]`)
		case "str":
			mapJSON = pick(r, `"variables.a"`, "5", "true")
		case "valstr":
			mapJSON = `{"0":"variables.a"}`
		case "valnull":
			mapJSON = `{"0":null}`
		case "valnum":
			mapJSON = pick(r, `{"0":[1]}`, `{"0":[null,{}]}`, `{"0":{"a":1}}`, `{"0":[["variables.a"]]}`)
		case "emptyobj":
			mapJSON = "{}"
		case "trunc":
			mapJSON = `{"0":["variables.a"`
		case "extra":
			mapJSON = `{"0":["variables.a"],"ghost":["variables.b"]}`
		case "trail":
			mapJSON = `{"0":["variables.a"]} xyz`
		}
	}
	uc.Operations, uc.MapJSON = ops, mapJSON

	mkParts := func(fileSize int, seed int64) ([]formPart, []FileSent) {
		var parts []formPart
		var files []FileSent
		rr := rand.New(rand.NewSource(seed))
		for _, p := range l.Parts {
			switch p {
			case "ops":
				parts = append(parts, formPart{name: "operations", data: []byte(ops)})
			case "map":
				parts = append(parts, formPart{name: "map", data: []byte(mapJSON)})
			case "f0", "f1":
				size := pick(rr, 0, 1, 17, 256, 1500, 5000)
				if fileSize >= 0 {
					size = fileSize
				}
				f := randFile(p[1:], size, rr)
				files = append(files, f)
				parts = append(parts, formPart{name: f.Key, filename: f.Filename, ct: f.CT, data: f.data})
			case "junk":
				if rr.Intn(2) == 0 {
					parts = append(parts, formPart{name: "junk", filename: "junk.bin", ct: "application/octet-stream", data: []byte("junk")})
				} else {
					parts = append(parts, formPart{name: pick(rr, "foo", "", "variables.a"), data: []byte("bar")})
				}
			}
		}
		return parts, files
	}
	seed := r.Int63()
	var body []byte
	if l.Mode == "size" {
		// total body length exactly l.Len: measure the overhead with an empty file
		p0, _ := mkParts(0, seed)
		over := len(buildForm(p0, boundary))
		p1, files := mkParts(int(l.Len)-over, seed)
		body = buildForm(p1, boundary)
		uc.Files = files
		if int64(len(body)) != l.Len {
			uc.BuildErr = fmt.Sprintf("size mode: built a body of %d bytes, want %d", len(body), l.Len)
		}
	} else if l.Mode == "cut" {
		p1, files := mkParts(pick(r, 17, 256, 1500), seed)
		body = buildForm(p1, boundary)
		uc.Files = files
		at := -1
		switch l.Ops {
		case "cut_ops":
			at = bytes.Index(body, []byte(ops)) + 1 + r.Intn(len(ops)-1)
		case "cut_map":
			at = bytes.Index(body, []byte(mapJSON)) + 1 + r.Intn(len(mapJSON)-1)
		case "cut_file":
			at = bytes.Index(body, files[0].data) + r.Intn(len(files[0].data))
		case "cut_close":
			// the file is complete; the closing delimiter is missing or incomplete
			at = bytes.Index(body, files[0].data) + len(files[0].data) + r.Intn(len(boundary)+4)
		}
		if at <= 0 || at >= len(body) {
			uc.BuildErr = fmt.Sprintf("cut mode: cut position %d of %d", at, len(body))
		} else {
			body = body[:at]
		}
	} else {
		p1, files := mkParts(-1, seed)
		body = buildForm(p1, boundary)
		uc.Files = files
	}
	ct := "multipart/form-data; boundary=" + boundary
	if l.Mode == "content" && l.Ops == "noboundary" {
		ct = pick(r, "multipart/form-data", "multipart/form-data; charset=x", "Multipart/Form-Data")
	}
	uc.Req = HTTPReq{Method: "POST", Path: fmt.Sprintf("/up/%d/%d", m, l.U), Headers: hdr("Content-Type", ct), Body: body, Chunked: l.Chunked}
	uc.Req.BodyStr = printable(body)
	return uc
}
