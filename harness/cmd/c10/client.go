package main

// Parent side: child process supervision, sending concrete requests over
// real connections, and abstracting the replies.

import (
	"bufio"
	"bytes"
	"encoding/json"
	"errors"
	"fmt"
	"io"
	"mime"
	"mime/multipart"
	"net"
	"net/http"
	"os"
	"os/exec"
	"path/filepath"
	"strings"
	"sync"
	"sync/atomic"
	"time"

	"github.com/gorilla/websocket"

	"verifharness/vlib"
)

// ---------------------------------------------------------------- child

type child struct {
	n      int
	cmd    *exec.Cmd
	stdin  io.WriteCloser
	addr   string
	tmp    string
	errLog string
	dead   chan struct{}
	client *http.Client
	gen    int
}

var childGen atomic.Int64

func startChild(n int) (*child, error) {
	exe, err := os.Executable()
	if err != nil {
		return nil, err
	}
	g := int(childGen.Add(1))
	dir := vlib.Work("C10", fmt.Sprintf("child%d", n))
	tmp := filepath.Join(dir, fmt.Sprintf("tmp%d", g))
	_ = os.RemoveAll(tmp)
	if err := os.MkdirAll(tmp, 0o755); err != nil {
		return nil, err
	}
	errLog := filepath.Join(dir, fmt.Sprintf("stderr%d.log", g))
	ef, err := os.Create(errLog)
	if err != nil {
		return nil, err
	}
	cmd := exec.Command(exe)
	cmd.Env = append(os.Environ(), "C10_CHILD=1", "TMPDIR="+tmp)
	cmd.Stderr = ef
	stdin, err := cmd.StdinPipe()
	if err != nil {
		return nil, err
	}
	stdout, err := cmd.StdoutPipe()
	if err != nil {
		return nil, err
	}
	if err := cmd.Start(); err != nil {
		return nil, err
	}
	c := &child{n: n, cmd: cmd, stdin: stdin, tmp: tmp, errLog: errLog, dead: make(chan struct{}), gen: g}
	lineCh := make(chan string, 1)
	go func() {
		sc := bufio.NewScanner(stdout)
		for sc.Scan() {
			if strings.HasPrefix(sc.Text(), "LISTEN ") {
				lineCh <- strings.TrimPrefix(sc.Text(), "LISTEN ")
			}
		}
	}()
	go func() {
		_ = cmd.Wait()
		ef.Close()
		close(c.dead)
	}()
	select {
	case a := <-lineCh:
		c.addr = a
	case <-c.dead:
		return nil, fmt.Errorf("child exited at start, see %s", errLog)
	case <-time.After(30 * time.Second):
		_ = cmd.Process.Kill()
		return nil, fmt.Errorf("child did not start listening")
	}
	c.client = &http.Client{
		Transport: &http.Transport{MaxIdleConns: 8, MaxIdleConnsPerHost: 8, DisableCompression: true},
		Timeout:   40 * time.Second,
	}
	return c, nil
}

func (c *child) alive() bool {
	select {
	case <-c.dead:
		return false
	default:
		return true
	}
}

func (c *child) stop() {
	_ = c.stdin.Close()
	select {
	case <-c.dead:
	case <-time.After(3 * time.Second):
		_ = c.cmd.Process.Kill()
		<-c.dead
	}
	c.client.CloseIdleConnections()
}

// orphans: recover-hook invocations the child could not attribute to a request.
func (c *child) orphans() int {
	resp, err := c.client.Get("http://" + c.addr + "/_verif/orphans")
	if err != nil {
		return 0
	}
	defer resp.Body.Close()
	b, _ := io.ReadAll(resp.Body)
	n := 0
	fmt.Sscanf(string(b), "%d", &n)
	return n
}

func (c *child) stderrTail() string {
	b, _ := os.ReadFile(c.errLog)
	if len(b) > 3000 {
		b = b[len(b)-3000:]
	}
	return string(b)
}

// ---------------------------------------------------------------- records

// Rec mirrors the child's rec.
type Rec struct {
	ID        string       `json:"id"`
	Recovers  int          `json:"recovers"`
	RecMsgs   []string     `json:"recover_msgs"`
	Returned  bool         `json:"returned"`
	Escaped   string       `json:"escaped_panic,omitempty"`
	TmpAfter  []string     `json:"tmp_after"`
	TmpDuring []string     `json:"tmp_during"`
	Resolved  []string     `json:"resolved"`
	Uploads   []UploadSeen `json:"uploads"`
	Tree      any          `json:"tree,omitempty"`
	Missing   bool         `json:"missing,omitempty"`
}

func (c *child) result(id string, nowait bool) (*Rec, error) {
	u := "http://" + c.addr + "/_verif/result?id=" + id
	if nowait {
		u += "&nowait=1"
	}
	resp, err := c.client.Get(u)
	if err != nil {
		return nil, err
	}
	defer resp.Body.Close()
	b, err := io.ReadAll(resp.Body)
	if err != nil {
		return nil, err
	}
	var r Rec
	if err := json.Unmarshal(b, &r); err != nil {
		return nil, fmt.Errorf("result %s: %v: %.200s", id, err, b)
	}
	return &r, nil
}

// ---------------------------------------------------------------- HTTP

// Obs is what one case looked like from outside and inside.
type Obs struct {
	Crash         string   `json:"crash,omitempty"` // the child process died: stderr tail
	Status        int      `json:"status,omitempty"`
	CT            string   `json:"content_type,omitempty"`
	Body          string   `json:"body,omitempty"`
	Kind          string   `json:"body_kind,omitempty"` // errors | data | malformed
	Why           string   `json:"malformed_why,omitempty"`
	Frames        []string `json:"frames,omitempty"` // websocket: frames received after the test frame
	Close         int      `json:"close_code,omitempty"`
	Silent        bool     `json:"silent,omitempty"` // websocket: nothing came although the handler returned / wait elapsed
	Rec           *Rec     `json:"server_record,omitempty"`
	Class         string   `json:"outcome_class"`
	NetErr        string   `json:"net_error,omitempty"`
	Elapsed       float64  `json:"elapsed_s,omitempty"`
	AckSeen       bool     `json:"ack_seen,omitempty"`
	ReturnedEarly bool     `json:"handler_returned_before_client_close,omitempty"`
	DataSeen      bool     `json:"data_seen,omitempty"`
}

type hideLen struct{ io.Reader }

// gqlBody classifies one JSON document that should be a GraphQL response.
func gqlBody(b []byte) (kind, why string) {
	dec := json.NewDecoder(bytes.NewReader(b))
	var m map[string]json.RawMessage
	if err := dec.Decode(&m); err != nil || m == nil {
		return "malformed", fmt.Sprintf("not a JSON object: %v", err)
	}
	if dec.More() {
		return "malformed", "more than one JSON value in the body"
	}
	if rest, _ := io.ReadAll(dec.Buffered()); len(bytes.TrimSpace(rest)) > 0 {
		return "malformed", "bytes after the JSON value"
	}
	hasErrors := false
	if e, ok := m["errors"]; ok {
		var errs []map[string]json.RawMessage
		if err := json.Unmarshal(e, &errs); err != nil {
			return "malformed", "errors is not a list of objects"
		}
		for _, x := range errs {
			var msg string
			if err := json.Unmarshal(x["message"], &msg); err != nil {
				return "malformed", "an error without a message string"
			}
		}
		hasErrors = len(errs) > 0
	}
	d, hasData := m["data"]
	if hasData && string(bytes.TrimSpace(d)) != "null" {
		return "data", ""
	}
	if hasErrors {
		return "errors", ""
	}
	return "malformed", "neither data nor errors"
}

// sseBody parses a text/event-stream body: events `next` (data: JSON) and `complete`.
func sseBody(b []byte) (kind, why string) {
	kind = ""
	complete := false
	for _, ev := range strings.Split(string(b), "\n\n") {
		if strings.TrimSpace(ev) == "" || strings.HasPrefix(ev, ":") {
			continue
		}
		var name, data string
		for _, ln := range strings.Split(ev, "\n") {
			switch {
			case strings.HasPrefix(ln, "event: "):
				name = strings.TrimPrefix(ln, "event: ")
			case strings.HasPrefix(ln, "data: "):
				data += strings.TrimPrefix(ln, "data: ")
			case strings.HasPrefix(ln, ":"):
			default:
				return "malformed", fmt.Sprintf("event-stream line %q", ln)
			}
		}
		switch name {
		case "next":
			if complete {
				return "malformed", "next after complete"
			}
			k, w := gqlBody([]byte(data))
			if k == "malformed" {
				return k, "event next: " + w
			}
			if kind == "" || k == "data" {
				kind = k
			}
		case "complete":
			complete = true
		default:
			return "malformed", fmt.Sprintf("event %q", name)
		}
	}
	if !complete {
		return "malformed", "event-stream without complete"
	}
	if kind == "" {
		return "malformed", "event-stream without a next event"
	}
	return kind, ""
}

// mixedBody parses a multipart/mixed body of JSON parts.
func mixedBody(b []byte, boundary string) (kind, why string) {
	mr := multipart.NewReader(bytes.NewReader(b), boundary)
	n := 0
	for {
		p, err := mr.NextPart()
		if err == io.EOF {
			break
		}
		if err != nil {
			return "malformed", "multipart/mixed: " + err.Error()
		}
		pb, _ := io.ReadAll(p)
		k, w := gqlBody(bytes.TrimSpace(pb))
		if k == "malformed" {
			// incremental payloads have their own shape; only the first part decides
			if n == 0 {
				return k, "multipart/mixed part: " + w
			}
		} else if n == 0 {
			kind = k
		}
		n++
	}
	if n == 0 {
		return "malformed", "multipart/mixed without parts"
	}
	return kind, ""
}

var reqSeq atomic.Int64

func newID() string { return fmt.Sprintf("r%d", reqSeq.Add(1)) }

// doHTTP sends one request to the child and collects the server-side record.
func doHTTP(c *child, q *HTTPReq) Obs {
	id := newID()
	t0 := time.Now()
	var body io.Reader
	if q.Body != nil || q.Method == "POST" {
		if q.Chunked {
			body = hideLen{bytes.NewReader(q.Body)}
		} else {
			body = bytes.NewReader(q.Body)
		}
	}
	req, err := http.NewRequest(q.Method, "http://"+c.addr+q.Path, body)
	if err != nil {
		return Obs{Class: "harness-error", NetErr: "new request: " + err.Error()}
	}
	for _, kv := range q.Headers {
		req.Header[kv[0]] = append(req.Header[kv[0]], kv[1])
	}
	req.Header.Set("X-Verif-Id", id)
	var o Obs
	resp, err := c.client.Do(req)
	if err != nil {
		o.NetErr = err.Error()
	} else {
		b, rerr := io.ReadAll(resp.Body)
		resp.Body.Close()
		if rerr != nil {
			o.NetErr = "read body: " + rerr.Error()
		}
		o.Status = resp.StatusCode
		o.CT = resp.Header.Get("Content-Type")
		o.Body = printable(b)
		mt, params, _ := mime.ParseMediaType(o.CT)
		switch mt {
		case "text/event-stream":
			o.Kind, o.Why = sseBody(b)
		case "multipart/mixed":
			o.Kind, o.Why = mixedBody(b, params["boundary"])
		default:
			o.Kind, o.Why = gqlBody(b)
		}
	}
	if !c.alive() {
		o.Crash = c.stderrTail()
		o.Class = "crash"
		return o
	}
	rec, rerr := c.result(id, false)
	if rerr != nil {
		if !c.alive() {
			o.Crash = c.stderrTail()
			o.Class = "crash"
			return o
		}
		o.NetErr += " | result: " + rerr.Error()
	}
	o.Rec = rec
	o.Elapsed = time.Since(t0).Seconds()
	o.Class = classifyHTTP(&o)
	return o
}

func classifyHTTP(o *Obs) string {
	switch {
	case o.Rec != nil && o.Rec.Recovers > 0:
		return "recovered"
	case o.Rec != nil && o.Rec.Escaped != "":
		return "escaped-panic"
	case o.Rec == nil || o.Rec.Missing:
		return "harness-error"
	case o.NetErr != "" && o.Status == 0:
		return "no-response"
	case o.Status >= 500:
		return "server-error"
	case o.Kind == "malformed":
		return "malformed-response"
	case o.Kind == "data" && len(o.Rec.Resolved) > 0 && o.Status >= 200 && o.Status < 300:
		return "proceed"
	case o.Kind == "errors" && len(o.Rec.Resolved) == 0 && (o.Status == 200 || (o.Status >= 400 && o.Status < 500)):
		return "cerr"
	case o.Kind == "errors" && len(o.Rec.Resolved) > 0:
		return "executed-then-error"
	case o.Kind == "data" && len(o.Rec.Resolved) == 0:
		return "data-without-execution"
	}
	return "unclassified"
}

// ---------------------------------------------------------------- websocket

type wsFrame struct {
	Type    string          `json:"type"`
	ID      string          `json:"id,omitempty"`
	Payload json.RawMessage `json:"payload,omitempty"`
}

// doWS runs one websocket script.  wait bounds the time spent waiting for an
// answer to the test frame; silence is judged by the caller.
func doWS(c *child, q *WSReq, wait time.Duration) Obs {
	id := newID()
	t0 := time.Now()
	var o Obs
	d := websocket.Dialer{Subprotocols: []string{q.Subprotocol}, HandshakeTimeout: 10 * time.Second}
	h := http.Header{}
	h.Set("X-Verif-Id", id)
	conn, resp, err := d.Dial("ws://"+c.addr+"/graphql", h)
	if err != nil {
		o.NetErr = "dial: " + err.Error()
		if resp != nil {
			o.Status = resp.StatusCode
		}
		if !c.alive() {
			o.Crash, o.Class = c.stderrTail(), "crash"
			return o
		}
		o.Class = "harness-error"
		return o
	}
	defer conn.Close()
	type got struct {
		mt  int
		b   []byte
		err error
	}
	ch := make(chan got, 64)
	go func() {
		for {
			mt, b, err := conn.ReadMessage()
			ch <- got{mt, b, err}
			if err != nil {
				return
			}
		}
	}()
	closed := false
	readUntil := func(dl time.Duration, stop func(f wsFrame) bool) {
		t := time.NewTimer(dl)
		defer t.Stop()
		for {
			select {
			case g := <-ch:
				if g.err != nil {
					closed = true
					var ce *websocket.CloseError
					if errors.As(g.err, &ce) && ce.Code != websocket.CloseAbnormalClosure {
						o.Close = ce.Code
						o.Frames = append(o.Frames, fmt.Sprintf("<close %d %q>", ce.Code, ce.Text))
					} else {
						o.Close = -1
						o.Frames = append(o.Frames, "<connection ended: "+g.err.Error()+">")
					}
					return
				}
				var f wsFrame
				if err := json.Unmarshal(g.b, &f); err != nil {
					o.Frames = append(o.Frames, "<not JSON: "+printable(g.b)+">")
					o.Why = "server frame is not JSON"
					continue
				}
				o.Frames = append(o.Frames, printable(g.b))
				if stop(f) {
					return
				}
			case <-t.C:
				return
			}
		}
	}
	if q.Init != "" {
		if err := conn.WriteMessage(websocket.TextMessage, []byte(q.Init)); err != nil {
			o.NetErr = "write init: " + err.Error()
		}
		ack := false
		readUntil(10*time.Second, func(f wsFrame) bool {
			if f.Type == "connection_ack" {
				ack = true
			}
			// graphql-ws sends ka right after the ack
			return ack && (q.Subprotocol != "graphql-ws" || f.Type == "ka")
		})
		if !ack || closed {
			o.Class = "harness-error"
			o.NetErr += " no connection_ack to a valid connection_init"
			return o
		}
		o.Frames = nil
	}
	mt := websocket.TextMessage
	if q.Binary {
		mt = websocket.BinaryMessage
	}
	if err := conn.WriteMessage(mt, q.Frame); err != nil {
		o.NetErr += " write frame: " + err.Error()
	}
	terminal := func(f wsFrame) bool {
		switch f.Type {
		case "connection_ack":
			o.AckSeen = true
			return q.Phase == "init" && q.Subprotocol != "graphql-ws"
		case "ka":
			return q.Phase == "init" && o.AckSeen
		case "data", "next":
			o.DataSeen = true
			return false // wait for complete
		case "complete", "error":
			return true
		case "connection_error":
			return false // a close follows
		}
		return false
	}
	// poll the server record while waiting: a recover-hook invocation or a
	// returned handler ends the wait early
	deadline := time.Now().Add(wait)
	var rec *Rec
	for time.Now().Before(deadline) && !closed {
		before := len(o.Frames)
		done := false
		readUntil(150*time.Millisecond, func(f wsFrame) bool {
			if terminal(f) {
				done = true
			}
			return done
		})
		if done || closed {
			break
		}
		if !c.alive() {
			o.Crash, o.Class = c.stderrTail(), "crash"
			return o
		}
		if r, err := c.result(id, true); err == nil {
			rec = r
			if r.Recovers > 0 || (r.Returned && len(o.Frames) == before) {
				// give frames in flight a moment
				readUntil(300*time.Millisecond, func(f wsFrame) bool { return terminal(f) })
				break
			}
		}
	}
	// let a close frame that follows an error frame arrive
	if !closed && len(o.Frames) > 0 {
		readUntil(100*time.Millisecond, func(f wsFrame) bool { return false })
	}
	if r, err := c.result(id, true); err == nil {
		rec = r
	}
	o.Rec = rec
	if rec != nil {
		o.ReturnedEarly = rec.Returned // the handler returned although the client had not closed
	}
	_ = conn.WriteControl(websocket.CloseMessage, websocket.FormatCloseMessage(websocket.CloseNormalClosure, ""), time.Now().Add(time.Second))
	conn.Close()
	// the handler must return now; the final record counts every recover-hook
	// invocation of this connection (the hook may run after the close frame
	// was already on the wire)
	if r, err := c.result(id, false); err == nil && !r.Missing {
		o.Rec = r
	}
	if !c.alive() {
		o.Crash, o.Class = c.stderrTail(), "crash"
		return o
	}
	o.Elapsed = time.Since(t0).Seconds()
	o.Class = classifyWS(&o, q)
	return o
}

func classifyWS(o *Obs, q *WSReq) string {
	hasErrFrame, hasConnErr := false, false
	for _, fs := range o.Frames {
		var f wsFrame
		if json.Unmarshal([]byte(fs), &f) != nil {
			continue
		}
		switch f.Type {
		case "error":
			hasErrFrame = true
			// the payload must be a well-formed error (list)
			var errs []map[string]json.RawMessage
			var one map[string]json.RawMessage
			if json.Unmarshal(f.Payload, &errs) != nil && json.Unmarshal(f.Payload, &one) != nil {
				o.Why = "error frame payload is neither an error list nor an error object"
			}
		case "connection_error":
			hasConnErr = true
		}
	}
	switch {
	case o.Rec != nil && o.Rec.Recovers > 0:
		return "recovered"
	case o.Why != "":
		return "malformed-response"
	case o.DataSeen && !hasErrFrame:
		return "proceed"
	case o.AckSeen && q.Phase == "init":
		return "proceed"
	case hasErrFrame || hasConnErr || (o.Close > 0):
		return "cerr"
	case o.Close == -1:
		return "dropped" // TCP connection ended without a close frame
	}
	o.Silent = true
	return "silent"
}

var _ = net.ErrClosed
var _ sync.Mutex
