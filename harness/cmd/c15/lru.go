package main

// Phase L: the cache itself. spec/Lru.tla (capacity N, Add = insert /
// update+promote / evict the least recently used, Get = hit promotes / miss)
// is model-checked by TLC, its complete labelled state graph is exported, and
// the REAL lru.New[string](N) of the tree under test is driven
//
//	L1  through tours covering every edge of that graph,
//	L2  for every edge: the shortest way to its source state, the edge, then a
//	    characterising suffix (j = 0..N fresh Adds followed by a Get of every
//	    key) that identifies the contents AND the recency order of the state
//	    the real cache is in - by replay, through Get / Add only,
//	L3  through long random histories (more keys than capacity),
//
// observed only through the public graphql.Cache API (logCache). Every Get
// result is judged by TLC (spec/LruTrace.tla): property level = a hit never
// returns a value that was not Added under that very key (VIOLATION: it makes
// an APQ hash resolve to another hash's text); implementation level = hit /
// miss / value / recency exactly like the hashicorp LRU (drift only).

import (
	"bytes"
	"context"
	"encoding/hex"
	"encoding/json"
	"fmt"
	"math/rand"
	"os"
	"path/filepath"
	"regexp"
	"sort"
	"strings"
	"time"

	"github.com/99designs/gqlgen/graphql/handler/lru"

	"verifharness/vlib"
)

var reActAny = regexp.MustCompile(`(?m)^<(\w+) line \d+, col \d+ to line \d+, col \d+ of module (\w+)>: (\d+):(\d+)`)

// LState is Lru's projected state (MC_Lru!LProj).
type LState struct {
	Cap   int         `json:"cap"`
	Order []string    `json:"order"`
	Ents  [][2]string `json:"ents"`
}

func (s *LState) norm() {
	if s.Ents == nil {
		s.Ents = [][2]string{}
	}
	if s.Order == nil {
		s.Order = []string{}
	}
	sort.Slice(s.Ents, func(i, j int) bool { return s.Ents[i][0] < s.Ents[j][0] })
}

func (s LState) key() string {
	s.norm()
	b, _ := json.Marshal(s)
	return string(b)
}

func (s LState) val(k string) (string, bool) {
	for _, e := range s.Ents {
		if e[0] == k {
			return e[1], true
		}
	}
	return "", false
}

// LLbl is Lru's edge label.
type LLbl struct {
	Op  string `json:"op"`
	K   string `json:"k"`
	V   string `json:"v"`
	Res string `json:"res"`
	Ev  string `json:"ev"`
}

type LEdge struct {
	S        LState `json:"s"`
	A        LLbl   `json:"a"`
	T        LState `json:"t"`
	from, to string
	covered  bool
}

func (e *LEdge) gFrom() string  { return e.from }
func (e *LEdge) gTo() string    { return e.to }
func (e *LEdge) gCovered() bool { return e.covered }
func (e *LEdge) gCover()        { e.covered = true }

// action names the action of Lru.tla the edge is an instance of.
func (e *LEdge) action() string {
	_, in := e.S.val(e.A.K)
	switch {
	case e.A.Op == "get" && in:
		return "GetHit"
	case e.A.Op == "get":
		return "GetMiss"
	case in:
		return "AddUpdate"
	case e.A.Ev != none:
		return "AddEvict"
	}
	return "AddInsert"
}

type lgraph struct {
	out   map[string][]*LEdge
	edges []*LEdge
	inits []string
	keys  []string
	vals  []string
}

func parseLGraph(printed []string) (*lgraph, error) {
	g := &lgraph{out: map[string][]*LEdge{}}
	seen := map[string]bool{}
	ks, vs, nodes := map[string]bool{}, map[string]bool{}, map[string]*LState{}
	for _, ln := range printed {
		var s string
		if err := json.Unmarshal([]byte(ln), &s); err != nil || !strings.HasPrefix(s, `{"s":`) {
			continue
		}
		e := &LEdge{}
		if err := json.Unmarshal([]byte(s), e); err != nil {
			return nil, fmt.Errorf("edge line %q: %v", s, err)
		}
		e.S.norm()
		e.T.norm()
		e.from, e.to = e.S.key(), e.T.key()
		id := e.from + "|" + mustJSON(e.A)
		if seen[id] {
			continue
		}
		seen[id] = true
		nodes[e.from], nodes[e.to] = &e.S, &e.T
		g.out[e.from] = append(g.out[e.from], e)
		g.edges = append(g.edges, e)
		ks[e.A.K] = true
		if e.A.V != none {
			vs[e.A.V] = true
		}
	}
	for k, n := range nodes {
		if len(n.Ents) == 0 {
			g.inits = append(g.inits, k)
		}
	}
	sort.Strings(g.inits)
	for k := range ks {
		g.keys = append(g.keys, k)
	}
	for v := range vs {
		g.vals = append(g.vals, v)
	}
	sort.Strings(g.keys)
	sort.Strings(g.vals)
	if len(g.edges) == 0 || len(g.inits) == 0 {
		return nil, fmt.Errorf("no edges / initial states of Lru in TLC output (%d printed lines)", len(printed))
	}
	return g, nil
}

// lconc fixes, for one history, a concrete key per abstract key and a concrete
// value string per (key, value) pair - every value string is minted for exactly
// one key, so a value returned under another key is recognisable.
type lconc struct {
	Key map[string]string            `json:"keys"`
	Val map[string]map[string]string `json:"values"`
	rev map[string][2]string
	rnd *rand.Rand
}

func newLConc(rnd *rand.Rand) *lconc {
	return &lconc{Key: map[string]string{}, Val: map[string]map[string]string{}, rev: map[string][2]string{}, rnd: rnd}
}

func (c *lconc) key(k string) string {
	if s, ok := c.Key[k]; ok {
		return s
	}
	b := make([]byte, 32)
	c.rnd.Read(b)
	s := hex.EncodeToString(b) // looks like the SHA-256 keys of the APQ cache
	c.Key[k] = s
	return s
}

func (c *lconc) value(k, v string) string {
	if c.Val[k] == nil {
		c.Val[k] = map[string]string{}
	}
	if s, ok := c.Val[k][v]; ok {
		return s
	}
	s := fmt.Sprintf("query %s_%s_%04x { %c }", k, v, c.rnd.Intn(1<<16), 'a'+rune(c.rnd.Intn(6)))
	c.Val[k][v] = s
	c.rev[s] = [2]string{k, v}
	return s
}

func (c *lconc) rebuild() {
	c.rev = map[string][2]string{}
	for k, m := range c.Val {
		for v, s := range m {
			c.rev[s] = [2]string{k, v}
		}
	}
}

// lOp is one operation on the real cache with what it answered.
type lOp struct {
	Op  string `json:"op"`
	K   string `json:"k"`
	V   string `json:"v"`   // value Added ("-" for a Get)
	Hit string `json:"hit"` // y | n ("-" for an Add)
	RK  string `json:"rk"`  // key under which the value a hit returned was minted
	RV  string `json:"rv"`  // that value
	Raw string `json:"returned,omitempty"`
}

type lHist struct {
	ID    string
	Mech  string
	Cap   int
	Ops   []lOp
	cc    *lconc
	Panic string
}

// lruRun drives one fresh real cache.
type lruRun struct {
	c  *logCache
	cc *lconc
	h  *lHist
}

func newLruRun(id, mech string, capacity int, cc *lconc) *lruRun {
	return &lruRun{c: newLogCache(lru.New[string](capacity)), cc: cc, h: &lHist{ID: id, Mech: mech, Cap: capacity, cc: cc}}
}

func (r *lruRun) guard() {
	if p := recover(); p != nil && r.h.Panic == "" {
		r.h.Panic = fmt.Sprint(p)
	}
}

func (r *lruRun) add(k, v string) {
	defer r.guard()
	r.h.Ops = append(r.h.Ops, lOp{Op: "add", K: k, V: v, Hit: none, RK: none, RV: none})
	r.c.Add(context.Background(), r.cc.key(k), r.cc.value(k, v))
}

func (r *lruRun) get(k string) (op lOp) {
	op = lOp{Op: "get", K: k, V: none, Hit: "n", RK: none, RV: none}
	defer func() { r.h.Ops = append(r.h.Ops, op) }()
	defer r.guard()
	s, ok := r.c.Get(context.Background(), r.cc.key(k))
	if ok {
		op.Hit, op.Raw = "y", s
		if kv, known := r.cc.rev[s]; known {
			op.RK, op.RV = kv[0], kv[1]
		} else {
			op.RK, op.RV = "?unknown", "?"+s
		}
	}
	return op
}

func (r *lruRun) do(a LLbl) lOp {
	if a.Op == "add" {
		r.add(a.K, a.V)
		return lOp{}
	}
	return r.get(a.K)
}

func (h *lHist) lines() [][]byte {
	var out [][]byte
	b, _ := json.Marshal(map[string]any{"e": "Reset", "cap": h.Cap, "id": h.ID})
	out = append(out, b)
	for _, o := range h.Ops {
		b, _ := json.Marshal(map[string]any{"e": "Op", "op": o.Op, "k": o.K, "v": o.V, "hit": o.Hit, "rk": o.RK, "rv": o.RV})
		out = append(out, b)
	}
	return out
}

type lReplayDoc struct {
	Mechanism string          `json:"mechanism"`
	Cap       int             `json:"lru_capacity"`
	Conc      *lconc          `json:"concrete"`
	Ops       []lOp           `json:"ops"`
	FailAt    int             `json:"leaves_property_at_op"`
	Rules     map[string]bool `json:"rules_at_that_op,omitempty"`
}

type lVerdict struct {
	Bad   int             `json:"bad"`
	Drift int             `json:"drift"`
	Rules map[string]bool `json:"rules"`
	Lat   bool            `json:"latest"`
	Model bool            `json:"model"`
	Want  string          `json:"want"`
	Order []string        `json:"order"`
}

// lruValidate lets TLC judge the recorded histories (LruTrace). Returns the
// number of histories with a property-level bad line; reports violations and
// drift through rep.
func (rep *reporter) lruValidate(hs []*lHist, scratch string) (badH, lines int, err error) {
	keys, vals := map[string]bool{}, map[string]bool{}
	for _, h := range hs {
		for _, o := range h.Ops {
			keys[o.K] = true
			if o.V != none {
				vals[o.V] = true
			}
		}
	}
	var kl, vl []string
	for k := range keys {
		kl = append(kl, k)
	}
	for v := range vals {
		vl = append(vl, v)
	}
	sort.Strings(kl)
	sort.Strings(vl)
	if vl == nil {
		vl = []string{}
	}
	consts, _ := json.Marshal(map[string]any{"keys": kl, "vals": vl})
	for start, round := 0, 0; start < len(hs); round++ {
		var ls [][]byte
		var owner, local []int
		end := start
		for end < len(hs) {
			hl := hs[end].lines()
			if len(ls) > 0 && len(ls)+len(hl) > 60000 {
				break
			}
			for i, ln := range hl {
				ls = append(ls, ln)
				owner = append(owner, end)
				local = append(local, i)
			}
			end++
		}
		res, err := vlib.RunTLC(vlib.TLCOpts{Module: "LruTrace", Config: "LruTrace.cfg", Workers: 1, DFS: true,
			Data:    map[string][]byte{"trace.ndjson": append(bytes.Join(ls, []byte("\n")), '\n'), "consts.json": consts},
			Scratch: filepath.Join(scratch, fmt.Sprintf("lru%d", round)), Timeout: 15 * time.Minute})
		if err != nil {
			return badH, lines, err
		}
		if !res.OK {
			return badH, lines, fmt.Errorf("TLC could not follow the recorded cache operations (LruTrace must never block):\n%s", tailStr(res.Output, 3000))
		}
		rep.c.AddStates(res.Distinct, res.Generated)
		lines += len(ls)
		firstBad, firstDrift := map[int]lVerdict{}, map[int]lVerdict{}
		for _, ln := range res.Printed {
			var s string
			if json.Unmarshal([]byte(ln), &s) != nil {
				continue
			}
			var v lVerdict
			switch {
			case strings.HasPrefix(s, `{"bad":`):
				if json.Unmarshal([]byte(s), &v) != nil || v.Bad < 1 || v.Bad > len(ls) {
					return badH, lines, fmt.Errorf("bad-line report %q", s)
				}
				hi := owner[v.Bad-1]
				if f, ok := firstBad[hi]; !ok || v.Bad < f.Bad {
					firstBad[hi] = v
				}
			case strings.HasPrefix(s, `{"drift":`):
				if json.Unmarshal([]byte(s), &v) != nil || v.Drift < 1 || v.Drift > len(ls) {
					return badH, lines, fmt.Errorf("drift report %q", s)
				}
				hi := owner[v.Drift-1]
				if f, ok := firstDrift[hi]; !ok || v.Drift < f.Drift {
					firstDrift[hi] = v
				}
			}
		}
		for hi := start; hi < end; hi++ {
			h := hs[hi]
			if v, ok := firstDrift[hi]; ok {
				oi := local[v.Drift-1] - 1
				o := h.Ops[oi]
				what := "hit-miss"
				if o.Hit == "y" && v.Want != none {
					what = "stale-value" // a value Added under this key, but not the most recent one
				}
				rep.drift("L:get:"+what, fmt.Sprintf("%s, capacity %d, operation %d of history %s: Get(%s) answered hit=%s value=(%s,%s); the LRU machine of Lru.tla prescribes %q (its recency order before the Get, most recent first: %v)\nlast operations: %s",
					h.Mech, h.Cap, oi+1, h.ID, o.K, o.Hit, o.RK, o.RV, v.Want, v.Order, lastOps(h.Ops, oi, 12)))
			}
			v, isBad := firstBad[hi]
			if !isBad {
				rep.c.AddTraces(1)
				continue
			}
			badH++
			oi := local[v.Bad-1] - 1
			o := h.Ops[oi]
			doc := lReplayDoc{Mechanism: "L: " + h.Mech, Cap: h.Cap, Conc: h.cc, Ops: h.Ops[:oi+1], FailAt: oi + 1, Rules: v.Rules}
			detail := fmt.Sprintf("%s\nreal lru.New[string](%d), operation %d of history %s: Get(%s) [key %q] returned %q, a value that was %s - never Added under %s. A persisted-query hash resolves to the text registered under another hash.\n  the LRU machine of Lru.tla prescribes: %q\n  last operations: %s",
				h.Mech, h.Cap, oi+1, h.ID, o.K, h.cc.Key[o.K], o.Raw, mintedFor(o), o.K, v.Want, lastOps(h.Ops, oi, 14))
			rep.violate("L:get-returns-foreign-value", detail, doc)
		}
		start = end
	}
	return badH, lines, nil
}

func mintedFor(o lOp) string {
	if strings.HasPrefix(o.RK, "?") {
		return "never Added at all"
	}
	return fmt.Sprintf("Added under %s (as %s)", o.RK, o.RV)
}

func lastOps(ops []lOp, upto, n int) string {
	from := upto + 1 - n
	if from < 0 {
		from = 0
	}
	var s []string
	for _, o := range ops[from : upto+1] {
		if o.Op == "add" {
			s = append(s, fmt.Sprintf("Add(%s,%s)", o.K, o.V))
		} else if o.Hit == "y" {
			s = append(s, fmt.Sprintf("Get(%s)=(%s,%s)", o.K, o.RK, o.RV))
		} else {
			s = append(s, fmt.Sprintf("Get(%s)=miss", o.K))
		}
	}
	return strings.Join(s, " ")
}

type lruStats struct {
	States, Edges         int
	HistStates, HistTrans int64
	Tours, TourOps        int
	IdentRuns, IdentOps   int
	IdentDiffs            int
	Random, RandomOps     int
	Hits, Misses, Evicts  int
	Lines, BadHistories   int
	ByAction              map[string]int
	TLCs, Replay          float64
}

// runLru is phase L.
func (rep *reporter) runLru(scratch string, thorough bool, seed int64) *lruStats {
	c := rep.c
	st := &lruStats{ByAction: map[string]int{}}
	t0 := time.Now()
	histCfg := "MC_LruHist.cfg"
	if thorough {
		histCfg = "MC_LruHist_thorough.cfg"
	}
	histDone := make(chan *vlib.TLCResult, 1)
	go func() {
		r, err := vlib.RunTLC(vlib.TLCOpts{Module: "MC_Lru", Config: histCfg, Workers: 1, Scratch: scratch + "/mc-lru-hist", Timeout: 10 * time.Minute})
		if err != nil {
			r = &vlib.TLCResult{Output: err.Error()}
		}
		histDone <- r
	}()
	mc, err := vlib.RunTLC(vlib.TLCOpts{Module: "MC_Lru", Config: "MC_Lru.cfg", Workers: 1, Coverage: true, Scratch: scratch + "/mc-lru", Timeout: 10 * time.Minute})
	if err != nil {
		vlib.Infra("TLC: %v", err)
	}
	if !mc.OK {
		vlib.Infra("TLC reports an error on the model itself (MC_Lru.cfg):\n%s", tailStr(mc.Output, 4000))
	}
	for _, a := range []string{"AddUpdate", "AddInsert", "AddEvict", "GetHit", "GetMiss"} {
		if !actionTaken(mc.Output, a, "Lru") {
			vlib.Infra("vacuous model: action %s of Lru was never taken (MC_Lru.cfg)", a)
		}
	}
	c.AddStates(mc.Distinct, mc.Generated)
	g, err := parseLGraph(mc.Printed)
	if err != nil {
		vlib.Infra("state graph of Lru: %v", err)
	}
	if int64(len(g.edges)) != mc.Generated-int64(len(g.inits)) {
		vlib.Infra("state graph of Lru incomplete: %d edges printed, TLC generated %d states (%d initial)", len(g.edges), mc.Generated, len(g.inits))
	}
	st.States, st.Edges = int(mc.Distinct), len(g.edges)
	hr := <-histDone
	if !hr.OK {
		vlib.Infra("TLC reports an error on the model itself (%s):\n%s", histCfg, tailStr(hr.Output, 4000))
	}
	c.AddStates(hr.Distinct, hr.Generated)
	st.HistStates, st.HistTrans = hr.Distinct, hr.Generated
	st.TLCs = time.Since(t0).Seconds()
	fmt.Fprintf(os.Stderr, "[c15] TLC MC_Lru.cfg: %d distinct states, %d edges; %s: %d distinct states, %d generated, %.1fs\n",
		mc.Distinct, len(g.edges), histCfg, hr.Distinct, hr.Generated, st.TLCs)

	tR := time.Now()
	rnd := rand.New(rand.NewSource(seed*104729 + 15))
	var hs []*lHist // judged by TLC

	// ---- L1: tours over every edge -------------------------------------------
	paths, err := coverTours(g.inits, g.out, len(g.edges), rnd, 60)
	if err != nil {
		vlib.Infra("edge cover of Lru: %v", err)
	}
	for i, p := range paths {
		r := newLruRun(fmt.Sprintf("L1-%03d", i), "L1: tour over the state graph of Lru.tla replayed into the real lru.New", p[0].S.Cap, newLConc(rnd))
		drifted := false
		for j, e := range p {
			got := r.do(e.A)
			c.AddEvals(1)
			act := e.action()
			st.ByAction[act]++
			c.Class(fmt.Sprintf("L/cap=%d/%s", e.S.Cap, act))
			if e.A.Op == "get" && !drifted {
				want := lOp{Hit: "n", RK: none, RV: none}
				if e.A.Res != none {
					want = lOp{Hit: "y", RK: e.A.K, RV: e.A.Res}
				}
				if got.Hit != want.Hit || got.RK != want.RK || got.RV != want.RV {
					drifted = true
					rep.drift("L1:"+act, fmt.Sprintf("capacity %d, operation %d of tour %s: Get(%s) answered hit=%s (%s,%s), the edge of Lru.tla says hit=%s (%s,%s); state before: %s\nlast operations: %s",
						e.S.Cap, j+1, r.h.ID, e.A.K, got.Hit, got.RK, got.RV, want.Hit, want.RK, want.RV, e.from, lastOps(r.h.Ops, j, 12)))
				}
			}
		}
		st.TourOps += len(p)
		rep.notePanic(r.h)
		hs = append(hs, r.h)
		if i == 0 {
			c.Sample(map[string]any{"mechanism": "L1", "lru_capacity": r.h.Cap, "ops": len(p), "first_operations": lastOps(r.h.Ops, min(11, len(r.h.Ops)-1), 12)})
		}
	}
	st.Tours = len(paths)

	// ---- L2: state identification after every edge -----------------------------
	acc := accessPaths(g.inits, g.out)
	suspicious := 0
	for ei, e := range g.edges {
		pre, ok := acc[e.from]
		if !ok {
			vlib.Infra("state of Lru without access path: %s", e.from)
		}
		for j := 0; j <= e.S.Cap; j++ {
			r := newLruRun(fmt.Sprintf("L2-%04d-%d", ei, j), "L2: shortest way to a state of Lru.tla, one edge, then the characterising suffix (fresh Adds, Get of every key)", e.S.Cap, newLConc(rnd))
			for _, pe := range pre {
				r.do(pe.A)
			}
			r.do(e.A)
			for f := 1; f <= j; f++ {
				r.add(fmt.Sprintf("f%d", f), "v1")
			}
			// what the machine holds after the edge and j fresh Adds: the j least
			// recently used keys beyond the capacity have left
			m := len(e.T.Order)
			gone := m + j - e.S.Cap
			if gone < 0 {
				gone = 0
			}
			if gone > m {
				gone = m
			}
			present := map[string]bool{}
			for _, k := range e.T.Order[:m-gone] {
				present[k] = true
			}
			diffAt := ""
			for _, k := range g.keys {
				got := r.get(k)
				wv, _ := e.T.val(k)
				switch {
				case (got.Hit == "y") != present[k]:
					diffAt = fmt.Sprintf("Get(%s) hit=%s, expected hit=%v", k, got.Hit, present[k])
				case got.Hit == "y" && (got.RK != k || got.RV != wv):
					diffAt = fmt.Sprintf("Get(%s) returned (%s,%s), expected (%s,%s)", k, got.RK, got.RV, k, wv)
				}
				if diffAt != "" {
					break
				}
			}
			st.IdentRuns++
			st.IdentOps += len(r.h.Ops)
			c.AddEvals(int64(len(r.h.Ops)))
			rep.notePanic(r.h)
			if diffAt != "" {
				st.IdentDiffs++
				what := "recency-order"
				if j == 0 {
					what = "contents"
				}
				rep.drift("L2:"+e.action()+":"+what, fmt.Sprintf("capacity %d, state %s --%s--> %s, then %d fresh Adds: %s\noperations: %s",
					e.S.Cap, e.from, mustJSON(e.A), e.to, j, diffAt, lastOps(r.h.Ops, len(r.h.Ops)-1, 30)))
				if suspicious < 40 { // let TLC judge it at the property level
					suspicious++
					hs = append(hs, r.h)
				}
			}
		}
	}

	// ---- L3: long random histories ----------------------------------------------
	nh, hlen := 24, 400
	if thorough {
		nh, hlen = 80, 1000
	}
	for i := 0; i < nh; i++ {
		capacity := []int{1, 2, 3, 2, 3, 4, 1, 8}[i%8]
		nkeys := capacity + 1 + rnd.Intn(3)
		if thorough && i%20 == 19 {
			capacity, nkeys = 100, 130 // the size NewDefaultServer configures
		}
		r := newLruRun(fmt.Sprintf("L3-%03d", i), "L3: random history on the real lru.New (more keys than capacity)", capacity, newLConc(rnd))
		live := map[string]bool{}
		for n := 0; n < hlen; n++ {
			k := fmt.Sprintf("r%d", 1+skew(rnd, nkeys))
			if rnd.Intn(100) < 45 {
				r.add(k, []string{"v1", "v2"}[rnd.Intn(2)])
				live[k] = true
			} else {
				got := r.get(k)
				switch {
				case got.Hit == "y":
					st.Hits++
				case live[k]:
					st.Evicts++ // Added before, gone now: an eviction became visible
					delete(live, k)
					st.Misses++
				default:
					st.Misses++
				}
			}
		}
		c.AddEvals(int64(hlen))
		c.Class(fmt.Sprintf("L3/cap=%d/keys=%d", capacity, nkeys))
		rep.notePanic(r.h)
		hs = append(hs, r.h)
		st.RandomOps += hlen
	}
	st.Random = nh
	if st.Hits == 0 || st.Misses == 0 || st.Evicts == 0 {
		if len(rep.drifts) == 0 && c.Violations() == 0 {
			vlib.Infra("vacuous random LRU histories: %d hits, %d misses, %d visible evictions", st.Hits, st.Misses, st.Evicts)
		}
	}
	st.Replay = time.Since(tR).Seconds()

	// ---- the verdict: TLC judges every recorded Get -------------------------------
	tV := time.Now()
	badH, lines, err := rep.lruValidate(hs, scratch+"/lru-trace")
	if err != nil {
		vlib.Infra("LRU trace validation: %v", err)
	}
	st.Lines, st.BadHistories = lines, badH
	fmt.Fprintf(os.Stderr, "[c15] L: %d tours (%d ops) over %d edges; %d identification runs (%d ops, %d differ from the machine); %d random histories x %d ops (%d hits, %d misses, %d visible evictions); %d lines judged by TLC (LruTrace), %d histories leave the property level; replay %.1fs, TLC %.1fs\n",
		st.Tours, st.TourOps, st.Edges, st.IdentRuns, st.IdentOps, st.IdentDiffs, st.Random, hlen, st.Hits, st.Misses, st.Evicts, lines, badH, st.Replay, time.Since(tV).Seconds())
	return st
}

// actionTaken reads the generated-transition count of an action from the
// -coverage output ("<Name line .. of module M>: distinct:generated").
func actionTaken(out, action, module string) bool {
	for _, m := range reActAny.FindAllStringSubmatch(out, -1) {
		if m[1] == action && m[2] == module && m[4] != "0" {
			return true
		}
	}
	return false
}

func (rep *reporter) notePanic(h *lHist) {
	if h.Panic != "" {
		rep.drift("L:panic", fmt.Sprintf("capacity %d, history %s: the cache panicked: %s\noperations: %s", h.Cap, h.ID, h.Panic, lastOps(h.Ops, len(h.Ops)-1, 20)))
	}
}

// runLReplay re-runs a recorded LRU scenario (./check C15 --replay file).
func runLReplay(b []byte) {
	var env struct {
		Scenario lReplayDoc `json:"scenario"`
	}
	if err := json.Unmarshal(b, &env); err != nil || env.Scenario.Conc == nil {
		vlib.Infra("replay file: %v", err)
	}
	doc := env.Scenario
	doc.Conc.rnd = rand.New(rand.NewSource(1))
	doc.Conc.rebuild()
	r := newLruRun("replay", "replay", doc.Cap, doc.Conc)
	for i, o := range doc.Ops {
		if o.Op == "add" {
			r.add(o.K, o.V)
			fmt.Printf("op %d Add(%s,%s)\n", i+1, o.K, o.V)
		} else {
			got := r.get(o.K)
			fmt.Printf("op %d Get(%s) -> hit=%s minted for (%s,%s) %q\n", i+1, o.K, got.Hit, got.RK, got.RV, got.Raw)
		}
	}
	c := vlib.NewCheck("C15", "model_checking")
	rep := &reporter{c: c, seenKeys: map[string]int{}, soft: map[string]int{}, drifts: map[string]int{}}
	bad, _, err := rep.lruValidate([]*lHist{r.h}, vlib.Work("C15-replay"))
	if err != nil {
		vlib.Infra("replay: %v", err)
	}
	if bad > 0 {
		os.Exit(1)
	}
	fmt.Println("OK replayed LRU scenario stays inside the property level of C15")
	os.Exit(0)
}
