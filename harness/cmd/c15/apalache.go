package main

func runApalache(scratch string) string { return "skipped" }
