package main

import (
	"fmt"
	"os"
	"os/exec"
	"path/filepath"
	"strings"
	"time"

	"verifharness/vlib"
)

// runApalache asks Apalache to discharge Apq's inductive invariant
// (spec/ApqInd.tla): Init => IndInv and IndInv /\ Next => IndInv'. Optional
// strengthening: any failure to run is only recorded, never a verdict.
func runApalache(scratch string) string {
	bin, err := exec.LookPath("apalache-mc")
	if err != nil {
		return "skipped: apalache-mc not installed"
	}
	if err := os.MkdirAll(scratch, 0o755); err != nil {
		return "skipped: " + err.Error()
	}
	for _, f := range []string{"LruOps.tla", "Apq.tla", "ApqInd.tla"} {
		b, err := os.ReadFile(filepath.Join(vlib.SpecDir(), f))
		if err != nil {
			return "skipped: " + err.Error()
		}
		if err := os.WriteFile(filepath.Join(scratch, f), b, 0o644); err != nil {
			return "skipped: " + err.Error()
		}
	}
	t0 := time.Now()
	for _, step := range [][]string{
		{"--init=Init", "--length=0"},
		{"--init=IndInit", "--length=1"},
	} {
		args := append([]string{"check", "--out-dir=" + filepath.Join(scratch, "out"), "--cinit=ConstInit", "--inv=IndInv"}, step...)
		args = append(args, "ApqInd.tla")
		out, err := vlib.RunCmd(scratch, nil, 5*time.Minute, bin, args...)
		switch {
		case strings.Contains(out, "EXITCODE: OK"):
		case strings.Contains(out, "The outcome is: Error"):
			// a design-level counterexample: the specification's own invariant is not inductive
			vlib.Infra("Apalache: IndInv of Apq is not inductive (%v):\n%s", step, tailStr(out, 3000))
		default:
			fmt.Fprintf(os.Stderr, "[c15] apalache %v did not finish: %v\n", step, err)
			return fmt.Sprintf("inconclusive (%v): %v", step, err)
		}
	}
	fmt.Fprintf(os.Stderr, "[c15] Apalache: Init => IndInv and IndInv /\\ Next => IndInv' discharged, %.1fs\n", time.Since(t0).Seconds())
	return fmt.Sprintf("discharged: Init => IndInv (length 0), IndInv /\\ Next => IndInv' (length 1) in %.1fs", time.Since(t0).Seconds())
}
