package main

// Mechanism B: long random request histories (sequential and concurrent)
// against the real LRU / map cache behind the real server, recorded as
// ndjson and validated by TLC against spec/ApqTrace.tla.

import (
	"bytes"
	"encoding/json"
	"fmt"
	"math/rand"
	"os"
	"path/filepath"
	"sort"
	"strings"
	"sync"
	"time"

	"verifharness/vlib"
)

// the (larger) alphabet of the random histories
var (
	bTexts   = []string{"q1", "q2", "q3", "q4", "q5", "b1", "b2"}
	bValid   = []string{"q1", "q2", "q3", "q4", "q5"}
	bWrong   = []string{"x:r1", "x:r2", "x:empty"}
	malAll   = []string{"pq_string", "pq_list", "pq_number", "pq_bool", "ver_string", "ver_float", "hash_object"}
	malWithH = []string{"ver_string", "ver_float", "hash_object"}
	bBadVers = []string{"2", "0", "absent", "neg", "big"}
)

func constsJSON() []byte {
	h := map[string]string{}
	for _, t := range bTexts {
		h[t] = "h:" + t
	}
	b, _ := json.Marshal(map[string]any{"texts": bTexts, "valid": bValid, "hashOf": h, "wrong": bWrong,
		"malKinds": malAll, "malWithHash": malWithH, "badVers": bBadVers})
	return b
}

func skew(rnd *rand.Rand, n int) int {
	a, b := rnd.Intn(n), rnd.Intn(n)
	if b < a {
		a = b
	}
	return a
}

// genReq draws one abstract request; registrations, lookups and mismatches
// dominate, texts are skewed so that small LRUs see hits and evictions.
func genReq(rnd *rand.Rand) AReq {
	text := func() string { return bTexts[skew(rnd, len(bTexts))] }
	anyHash := func() string {
		if rnd.Intn(100) < 75 {
			return "h:" + text()
		}
		return bWrong[rnd.Intn(len(bWrong))]
	}
	maybeText := func() string {
		if rnd.Intn(2) == 0 {
			return ""
		}
		return text()
	}
	p := rnd.Intn(100)
	switch {
	case p < 32:
		h := anyHash()
		if rnd.Intn(100) < 15 {
			h = bWrong[rnd.Intn(len(bWrong))]
		}
		return AReq{Text: "", Ext: "pq", Ver: "1", Hash: h, Mal: none}
	case p < 60:
		t := text()
		return AReq{Text: t, Ext: "pq", Ver: "1", Hash: "h:" + t, Mal: none}
	case p < 73:
		t := text()
		h := anyHash()
		for h == "h:"+t {
			h = anyHash()
		}
		return AReq{Text: t, Ext: "pq", Ver: "1", Hash: h, Mal: none}
	case p < 81:
		e := "none"
		if rnd.Intn(2) == 0 {
			e = "null"
		}
		t := text()
		if rnd.Intn(5) == 0 {
			t = ""
		}
		return AReq{Text: t, Ext: e, Ver: none, Hash: none, Mal: none}
	case p < 89:
		return AReq{Text: maybeText(), Ext: "pq", Ver: bBadVers[rnd.Intn(len(bBadVers))], Hash: anyHash(), Mal: none}
	case p < 97:
		m := malAll[rnd.Intn(len(malAll))]
		h := none
		for _, w := range malWithH {
			if w == m {
				h = anyHash()
			}
		}
		return AReq{Text: maybeText(), Ext: "malformed", Ver: none, Hash: h, Mal: m}
	default:
		return AReq{Text: maybeText(), Ext: "undecodable", Ver: none, Hash: none, Mal: none}
	}
}

// history is one recorded history.
type history struct {
	ID      string
	Rig     rigOpts
	Method  string
	Workers int
	cc      *conc
	Steps   []replayStep // in linearisation order, Got = observation
}

type event struct {
	step  replayStep
	seq   int64
	nonOp int
	ord   int64
}

// record runs one random history of n requests (workers > 1: concurrently)
// and returns it in linearisation order: a request that touched the cache
// is placed at its (single) cache operation, one that did not at the cache
// state current when it completed.
func record(id string, ro rigOpts, method string, n, workers int, seed int64) (*history, error) {
	rnd := rand.New(rand.NewSource(seed))
	cc := newConc(rnd, bTexts, bValid, bWrong, method)
	rg, err := newRig(ro)
	if err != nil {
		return nil, err
	}
	defer rg.Close()
	h := &history{ID: id, Rig: ro, Method: method, Workers: workers, cc: cc}
	var mu sync.Mutex
	var evs []event
	var firstErr error
	var counter int64
	one := func(c *conc, r *rand.Rand) {
		req := genReq(r)
		w := c.wire(req)
		rp, o, err := rg.Do(w)
		if err != nil {
			mu.Lock()
			firstErr = err
			mu.Unlock()
			return
		}
		seq, snap, err := rg.cache.Now()
		if err != nil {
			mu.Lock()
			firstErr = err
			mu.Unlock()
			return
		}
		ev := event{nonOp: 1, seq: seq}
		o.mu.Lock()
		nops := len(o.Ops)
		if nops == 1 {
			ev.seq, ev.nonOp, snap = o.Seq, 0, o.Snap
		}
		o.mu.Unlock()
		got := c.abstract(ro.Kind, ro.Cap, rp, o, snap)
		if nops > 1 {
			// more than one cache operation per request: not linearisable at one
			// point; no specification outcome has two operations either
			got.Out.Class = "inconsistent:request performed several cache operations"
		}
		ev.step = replayStep{Req: req, Wire: w, Got: &got}
		mu.Lock()
		counter++
		ev.ord = counter
		evs = append(evs, ev)
		mu.Unlock()
	}
	if workers <= 1 {
		for i := 0; i < n; i++ {
			one(cc, rnd)
			if firstErr != nil {
				return nil, firstErr
			}
		}
	} else {
		var wg sync.WaitGroup
		for w := 0; w < workers; w++ {
			wr := rand.New(rand.NewSource(seed*31 + int64(w) + 1))
			wc := *cc
			wc.rnd = wr
			wg.Add(1)
			go func(c *conc, r *rand.Rand) {
				defer wg.Done()
				for i := 0; i < n/workers; i++ {
					one(c, r)
				}
			}(&wc, wr)
		}
		wg.Wait()
		if firstErr != nil {
			return nil, firstErr
		}
		sort.SliceStable(evs, func(i, j int) bool {
			a, b := evs[i], evs[j]
			if a.seq != b.seq {
				return a.seq < b.seq
			}
			if a.nonOp != b.nonOp {
				return a.nonOp < b.nonOp
			}
			return a.ord < b.ord
		})
	}
	for _, e := range evs {
		h.Steps = append(h.Steps, e.step)
	}
	return h, nil
}

func (h *history) lines() [][]byte {
	var out [][]byte
	b, _ := json.Marshal(map[string]any{"e": "Reset", "kind": h.Rig.Kind, "cap": h.Rig.Cap, "id": h.ID})
	out = append(out, b)
	for _, s := range h.Steps {
		g := s.Got
		b, _ := json.Marshal(map[string]any{"e": "Req", "req": s.Req,
			"out":  map[string]any{"submit": g.Out.Submit, "class": g.Out.Class, "ops": normOps(g.Out.Ops)},
			"ents": g.State.Ents, "order": g.State.Order})
		out = append(out, b)
	}
	return out
}

// validate checks all histories with TLC (ApqTrace). A rejected history is
// reported and validation continues with the histories after it.
func (rep *reporter) validate(hs []*history, scratch string) (events int, err error) {
	consts := constsJSON()
	remaining := hs
	diags := 0
	for round := 0; len(remaining) > 0; round++ {
		if diags >= 3 {
			// enough evidence: every further rejection costs two TLC runs
			fmt.Fprintf(os.Stderr, "  [tlc] %d histories rejected; %d histories left unvalidated\n", diags, len(remaining))
			return events, nil
		}
		// batch at most ~60000 lines per TLC run
		var buf bytes.Buffer
		var owner []int
		nb := 0
		for i, h := range remaining {
			ls := h.lines()
			if len(owner) > 0 && len(owner)+len(ls) > 60000 {
				break
			}
			for _, ln := range ls {
				buf.Write(ln)
				buf.WriteByte('\n')
				owner = append(owner, i)
			}
			nb = i + 1
		}
		res, err := vlib.RunTLC(vlib.TLCOpts{Module: "ApqTrace", Config: "ApqTrace.cfg", Workers: 1, DFS: true,
			Data:    map[string][]byte{"trace.ndjson": buf.Bytes(), "consts.json": consts},
			Scratch: filepath.Join(scratch, fmt.Sprintf("tv%d", round)), Timeout: 15 * time.Minute})
		if err != nil {
			return events, err
		}
		rep.c.AddStates(res.Distinct, res.Generated)
		if res.OK {
			rep.c.AddTraces(int64(nb))
			events += len(owner)
			remaining = remaining[nb:]
			continue
		}
		if res.RejectedAt == 0 || res.RejectedAt > len(owner) {
			return events, fmt.Errorf("TLC failed on the recorded traces without a trace rejection:\n%s", tailStr(res.Output, 3000))
		}
		idx := owner[res.RejectedAt-1]
		first := res.RejectedAt - 1
		for first > 0 && owner[first-1] == idx {
			first--
		}
		local := res.RejectedAt - first // 1-based line within the history (line 1 = Reset)
		bad := remaining[idx]
		events += first
		rep.c.AddTraces(int64(idx))
		fmt.Fprintf(os.Stderr, "  [tlc] ApqTrace rejects history %s at its line %d\n", bad.ID, local)
		rep.reportRejection(bad, local, consts, filepath.Join(scratch, fmt.Sprintf("diag%d", diags)))
		diags++
		remaining = remaining[idx+1:]
	}
	return events, nil
}

// reportRejection asks the specification (ApqTraceDiag.cfg) what it
// prescribes for the rejected line and reports the divergence.
func (rep *reporter) reportRejection(h *history, local int, consts []byte, scratch string) {
	stepIdx := local - 2 // index into h.Steps
	if stepIdx < 0 || stepIdx >= len(h.Steps) {
		rep.violate("B:rejected-reset", fmt.Sprintf("history %s rejected at line %d", h.ID, local), nil)
		return
	}
	st := h.Steps[stepIdx]
	doc := replayDoc{Mechanism: fmt.Sprintf("B: recorded random history %s (%d client goroutines), in linearisation order", h.ID, h.Workers),
		Rig: h.Rig, Texts: h.cc.Text, Hashes: h.cc.Hash, FailAt: stepIdx + 1}
	for i := 0; i <= stepIdx; i++ {
		s := h.Steps[i]
		s.Want, s.WantT = s.Got.Out, s.Got.State // accepted prefix: specification = observation
		doc.Steps = append(doc.Steps, s)
	}
	var want *struct {
		L int    `json:"l"`
		O AOut   `json:"o"`
		T AState `json:"t"`
	}
	var buf bytes.Buffer
	for _, ln := range h.lines()[:local] {
		buf.Write(ln)
		buf.WriteByte('\n')
	}
	res, err := vlib.RunTLC(vlib.TLCOpts{Module: "ApqTrace", Config: "ApqTraceDiag.cfg", Workers: 1, DFS: true,
		Data:    map[string][]byte{"trace.ndjson": buf.Bytes(), "consts.json": consts},
		Scratch: scratch, Timeout: 5 * time.Minute})
	if err == nil {
		for _, ln := range res.Printed {
			var s string
			if json.Unmarshal([]byte(ln), &s) != nil || !strings.HasPrefix(s, `{"l":`) {
				continue
			}
			var w struct {
				L int    `json:"l"`
				O AOut   `json:"o"`
				T AState `json:"t"`
			}
			if json.Unmarshal([]byte(s), &w) == nil && w.L == local {
				want = &w
			}
		}
	}
	key := "B:" + st.Req.form() + ":rejected"
	detail := fmt.Sprintf("cache=%s cap=%d, %d client goroutine(s), request %d of history %s: %s\n  sent: %s %s%s\n  real server: %s",
		h.Rig.Kind, h.Rig.Cap, h.Workers, stepIdx+1, h.ID, mustJSON(st.Req), st.Wire.Method, st.Wire.Query, st.Wire.Body, mustJSON(st.Got))
	if want != nil {
		want.T.norm()
		d := diff(want.O, want.T, *st.Got)
		key = "B:" + st.Req.form() + ":" + strings.Join(d, "+")
		detail += fmt.Sprintf("\n  specification: %s", mustJSON(map[string]any{"outcome": want.O, "coarse_class": coarse(want.O.Class), "state_after": want.T}))
		doc.Steps[stepIdx].Want, doc.Steps[stepIdx].WantT = want.O, want.T
	} else {
		detail += "\n  (the specification has no step at all for this request in this state)"
	}
	rep.violate(key, detail, doc)
}

func tailStr(s string, n int) string {
	if len(s) > n {
		return s[len(s)-n:]
	}
	return s
}

var errNoCandidate = fmt.Errorf("self-test: no history offers a line to corrupt")

// selfTest demonstrates that the trace validation binds: a recorded history
// with one corrupted cache entry, and one with a registering request
// dropped, must both be rejected by TLC at the corrupted line.
func (rep *reporter) selfTest(h *history, scratch string) error {
	lines := h.lines()
	if len(lines) > 120 {
		lines = lines[:120]
	}
	corrupt, drop := -1, -1
	type recLine struct {
		Out  AOut        `json:"out"`
		Ents [][2]string `json:"ents"`
	}
	recs := make([]recLine, len(lines))
	for i := 1; i < len(lines); i++ {
		if err := json.Unmarshal(lines[i], &recs[i]); err != nil {
			return err
		}
	}
	has := func(r recLine, k string) bool {
		for _, e := range r.Ents {
			if e[0] == k {
				return true
			}
		}
		return false
	}
	for i := 1; i < len(lines); i++ {
		if corrupt < 0 && len(recs[i].Ents) > 0 {
			corrupt = i
		}
		// a request that newly registered k, followed by one that still sees k
		// without registering it itself
		if ops := recs[i].Out.Ops; drop < 0 && i+1 < len(lines) && len(ops) == 1 && ops[0].Op == "add" &&
			!has(recs[i-1], ops[0].H) && has(recs[i+1], ops[0].H) {
			if n := recs[i+1].Out.Ops; len(n) == 0 || n[0].Op != "add" || n[0].H != ops[0].H {
				drop = i
			}
		}
	}
	if corrupt < 0 || drop < 0 {
		return errNoCandidate
	}
	run := func(name string, ls [][]byte, wantAt int) error {
		res, err := vlib.RunTLC(vlib.TLCOpts{Module: "ApqTrace", Config: "ApqTrace.cfg", Workers: 1, DFS: true,
			Data:    map[string][]byte{"trace.ndjson": append(bytes.Join(ls, []byte("\n")), '\n'), "consts.json": constsJSON()},
			Scratch: filepath.Join(scratch, name), Timeout: 5 * time.Minute})
		if err != nil {
			return err
		}
		if res.OK || res.RejectedAt != wantAt {
			return fmt.Errorf("self-test %s: TLC should reject the corrupted trace at line %d (OK=%v, rejected at %d)\n%s", name, wantAt, res.OK, res.RejectedAt, tailStr(res.Output, 1500))
		}
		return nil
	}
	// (a) one cache entry bound to another text
	var m map[string]any
	if err := json.Unmarshal(lines[corrupt], &m); err != nil {
		return err
	}
	e0 := m["ents"].([]any)[0].([]any)
	if e0[1] == "q5" {
		e0[1] = "q4"
	} else {
		e0[1] = "q5"
	}
	bad, _ := json.Marshal(m)
	a := append([][]byte{}, lines...)
	a[corrupt] = bad
	if err := run("self-corrupt", a, corrupt+1); err != nil {
		return err
	}
	// (b) the request that changed the cache is missing from the record
	b := append(append([][]byte{}, lines[:drop]...), lines[drop+1:]...)
	return run("self-drop", b, drop+1)
}
