package main

// Mechanism B: long random request histories (sequential and concurrent)
// against the real LRU / map cache behind the real server, recorded as
// ndjson. All recorded histories (these and the replays of mechanism A) are
// validated by TLC against the PROPERTY level (spec/ApqPropTrace.tla: the
// verdict); the random histories are also compared with the implementation
// level (spec/ApqTrace.tla: drift only).

import (
	"bytes"
	"encoding/json"
	"fmt"
	"math/rand"
	"path/filepath"
	"sort"
	"strings"
	"sync"
	"time"

	"verifharness/vlib"
)

// the (larger) alphabet of the random histories
var (
	bTexts   = []string{"q1", "q1x", "q2", "q3", "q4", "q5", "b1", "b2"} // q1x: a near-twin of q1
	bValid   = []string{"q1", "q1x", "q2", "q3", "q4", "q5"}
	bWrong   = []string{"x:r1", "x:r2", "x:empty"}
	bAlt     = []string{"u:q1", "u:q2"} // upper-case hex spellings of a text's digest
	malAll   = []string{"pq_string", "pq_list", "pq_number", "pq_bool", "ver_string", "ver_float", "hash_object"}
	malWithH = []string{"ver_string", "ver_float", "hash_object"}
	bBadVers = []string{"2", "0", "absent", "neg", "big"}
)

// constsJSON: the union of the alphabets of mechanisms A and B.
func constsJSON() []byte {
	texts := append(append([]string{}, bTexts...), "bad")
	wrong := append(append([]string{}, bWrong...), "x:rand")
	h := map[string]string{}
	for _, t := range texts {
		h[t] = "h:" + t
	}
	canon := map[string]string{}
	for _, a := range bAlt {
		canon[a] = "h:" + a[2:]
	}
	b, _ := json.Marshal(map[string]any{"texts": texts, "valid": bValid, "hashOf": h, "wrong": wrong, "alt": bAlt, "canon": canon,
		"malKinds": malAll, "malWithHash": malWithH, "badVers": bBadVers})
	return b
}

func skew(rnd *rand.Rand, n int) int {
	a, b := rnd.Intn(n), rnd.Intn(n)
	if b < a {
		a = b
	}
	return a
}

// genReq draws one abstract request; registrations, lookups and mismatches
// dominate, texts are skewed so that small LRUs see hits and evictions.
func genReq(rnd *rand.Rand) AReq {
	text := func() string { return bTexts[skew(rnd, len(bTexts))] }
	anyHash := func() string {
		switch p := rnd.Intn(100); {
		case p < 70:
			return "h:" + text()
		case p < 78:
			return bAlt[rnd.Intn(len(bAlt))]
		}
		return bWrong[rnd.Intn(len(bWrong))]
	}
	maybeText := func() string {
		if rnd.Intn(2) == 0 {
			return ""
		}
		return text()
	}
	p := rnd.Intn(100)
	switch {
	case p < 32:
		h := anyHash()
		if rnd.Intn(100) < 15 {
			h = bWrong[rnd.Intn(len(bWrong))]
		}
		return AReq{Text: "", Ext: "pq", Ver: "1", Hash: h, Mal: none}
	case p < 60:
		t := text()
		return AReq{Text: t, Ext: "pq", Ver: "1", Hash: "h:" + t, Mal: none}
	case p < 73:
		t := text()
		h := anyHash()
		for h == "h:"+t {
			h = anyHash()
		}
		return AReq{Text: t, Ext: "pq", Ver: "1", Hash: h, Mal: none}
	case p < 81:
		e := "none"
		if rnd.Intn(2) == 0 {
			e = "null"
		}
		t := text()
		if rnd.Intn(5) == 0 {
			t = ""
		}
		return AReq{Text: t, Ext: e, Ver: none, Hash: none, Mal: none}
	case p < 89:
		return AReq{Text: maybeText(), Ext: "pq", Ver: bBadVers[rnd.Intn(len(bBadVers))], Hash: anyHash(), Mal: none}
	case p < 97:
		m := malAll[rnd.Intn(len(malAll))]
		h := none
		for _, w := range malWithH {
			if w == m {
				h = anyHash()
			}
		}
		return AReq{Text: maybeText(), Ext: "malformed", Ver: none, Hash: h, Mal: m}
	default:
		return AReq{Text: maybeText(), Ext: "undecodable", Ver: none, Hash: none, Mal: none}
	}
}

// history is one recorded history.
type history struct {
	ID      string
	Mech    string
	Rig     rigOpts
	Method  string
	Workers int
	Drifted bool // mechanism A: left the implementation-level machine somewhere
	Bad     bool // leaves the property level somewhere (set by validateProp)
	EvSeen  int  // hash-only requests answered with a miss for a hash the cache had been shown to bind (evicted)
	ReAdded int  // registrations of a hash that had been seen evicted
	cc      *conc
	Steps   []replayStep // in linearisation order, Got = observation
}

type event struct {
	step  replayStep
	seq   int64
	nonOp int
	ord   int64
}

// record runs one random history of n requests (workers > 1: concurrently)
// and returns it in linearisation order: a request that touched the cache
// is placed at its last cache operation (state before = content before its
// first operation, state after = content after its last), one that did not
// at the cache state current when it completed.
func record(id string, ro rigOpts, method string, n, workers int, seed int64) (*history, error) {
	rnd := rand.New(rand.NewSource(seed))
	cc := newConc(rnd, bTexts, bValid, append(append([]string{}, bWrong...), bAlt...), method)
	rg, err := newRig(ro)
	if err != nil {
		return nil, err
	}
	defer rg.Close()
	h := &history{ID: id, Mech: fmt.Sprintf("B: recorded random history (%d client goroutines), in linearisation order", workers),
		Rig: ro, Method: method, Workers: workers, cc: cc}
	var mu sync.Mutex
	var evs []event
	var firstErr error
	var counter int64
	one := func(c *conc, r *rand.Rand, fixed *AReq) {
		req := genReq(r)
		if fixed != nil {
			req = *fixed
		}
		w := c.wire(req)
		rp, o, err := rg.Do(w)
		if err != nil {
			mu.Lock()
			firstErr = err
			mu.Unlock()
			return
		}
		seq, snap, err := rg.cache.Now()
		if err != nil {
			mu.Lock()
			firstErr = err
			mu.Unlock()
			return
		}
		ev := event{nonOp: 1, seq: seq}
		pre := snap
		o.mu.Lock()
		if len(o.Ops) > 0 {
			ev.seq, ev.nonOp, snap, pre = o.Seq, 0, o.Snap, o.PreSnap
		}
		o.mu.Unlock()
		got := c.abstract(ro.Kind, ro.Cap, rp, o, pre, snap)
		ev.step = replayStep{Req: req, Wire: w, Got: &got}
		mu.Lock()
		counter++
		ev.ord = counter
		evs = append(evs, ev)
		mu.Unlock()
	}
	if workers <= 1 {
		for i := 0; i < n; i++ {
			one(cc, rnd, nil)
			if firstErr != nil {
				return nil, firstErr
			}
		}
	} else {
		var wg sync.WaitGroup
		for w := 0; w < workers; w++ {
			wr := rand.New(rand.NewSource(seed*31 + int64(w) + 1))
			wc := *cc
			wc.rnd = wr
			wg.Add(1)
			go func(c *conc, r *rand.Rand) {
				defer wg.Done()
				for i := 0; i < n/workers; i++ {
					one(c, r, nil)
				}
			}(&wc, wr)
		}
		wg.Wait()
		if firstErr != nil {
			return nil, firstErr
		}
		sort.SliceStable(evs, func(i, j int) bool {
			a, b := evs[i], evs[j]
			if a.seq != b.seq {
				return a.seq < b.seq
			}
			if a.nonOp != b.nonOp {
				return a.nonOp < b.nonOp
			}
			return a.ord < b.ord
		})
	}
	// the sweep: one hash-only request per text, the only way to see through the
	// public API what the cache holds at the end (sequential, after the clients)
	nBefore := len(evs)
	for _, t := range bTexts {
		r := hashOnly("h:" + t)
		one(cc, rnd, &r)
		if firstErr != nil {
			return nil, firstErr
		}
	}
	if workers > 1 {
		// (the sweep ran after all clients: it stays at the end, in order)
		sort.SliceStable(evs[nBefore:], func(i, j int) bool { return evs[nBefore+i].ord < evs[nBefore+j].ord })
	}
	for _, e := range evs {
		h.Steps = append(h.Steps, e.step)
	}
	h.EvSeen, h.ReAdded = int(rg.cache.evictionsSeen), int(rg.cache.reAdded)
	return h, nil
}

func yn(b bool) string {
	if b {
		return "y"
	}
	return "n"
}

// lines renders the history for both trace specifications.
func (h *history) lines() [][]byte {
	var out [][]byte
	b, _ := json.Marshal(map[string]any{"e": "Reset", "kind": h.Rig.Kind, "cap": h.Rig.Cap, "id": h.ID})
	out = append(out, b)
	for _, s := range h.Steps {
		g := s.Got
		b, _ := json.Marshal(map[string]any{"e": "Req", "req": s.Req,
			"out": map[string]any{"submit": g.Out.Submit, "exec": g.Out.Exec, "class": g.Out.Class, "ops": normOps(g.Out.Ops)},
			"pre": g.Pre.Ents, "ents": g.State.Ents, "order": g.State.Order, "chg": yn(g.Chg), "boundok": yn(g.BoundOK)})
		out = append(out, b)
	}
	return out
}

func (h *history) doc(upto int) replayDoc {
	d := replayDoc{Mechanism: h.Mech, Rig: h.Rig, Texts: h.cc.Text, Hashes: h.cc.Hash, Sigs: h.cc.Sig, Twin: h.cc.Twin, FailAt: upto}
	d.Steps = append(d.Steps, h.Steps[:upto]...)
	return d
}

type badLine struct {
	Bad     int             `json:"bad"`
	Rules   map[string]bool `json:"rules"`
	BoundOK string          `json:"boundok"`
}

// propRun validates a batch of trace lines against the property level and
// returns the lines TLC printed as leaving it.
func propRun(lines [][]byte, scratch string) ([]badLine, *vlib.TLCResult, error) {
	res, err := vlib.RunTLC(vlib.TLCOpts{Module: "ApqPropTrace", Config: "ApqPropTrace.cfg", Workers: 1, DFS: true,
		Data:    map[string][]byte{"trace.ndjson": append(bytes.Join(lines, []byte("\n")), '\n'), "consts.json": constsJSON()},
		Scratch: scratch, Timeout: 15 * time.Minute})
	if err != nil {
		return nil, nil, err
	}
	if !res.OK {
		return nil, res, fmt.Errorf("TLC could not follow the recorded behaviour (ApqPropTrace must never block):\n%s", tailStr(res.Output, 3000))
	}
	var bad []badLine
	for _, ln := range res.Printed {
		var s string
		if json.Unmarshal([]byte(ln), &s) != nil || !strings.HasPrefix(s, `{"bad":`) {
			continue
		}
		var b badLine
		if err := json.Unmarshal([]byte(s), &b); err != nil {
			return nil, res, fmt.Errorf("bad-line report %q: %v", s, err)
		}
		bad = append(bad, b)
	}
	return bad, res, nil
}

// validateProp is the VERDICT: every recorded history is checked by TLC
// against Apq!PropRel. For each history that leaves the property level the
// first offending request is reported as a violation.
func (rep *reporter) validateProp(hs []*history, scratch string) (badHistories, events int, err error) {
	for start, round := 0, 0; start < len(hs); round++ {
		var lines [][]byte
		var owner, local []int
		end := start
		for end < len(hs) {
			ls := hs[end].lines()
			if len(lines) > 0 && len(lines)+len(ls) > 60000 {
				break
			}
			for i, ln := range ls {
				lines = append(lines, ln)
				owner = append(owner, end)
				local = append(local, i)
			}
			end++
		}
		bad, res, err := propRun(lines, filepath.Join(scratch, fmt.Sprintf("prop%d", round)))
		if err != nil {
			return badHistories, events, err
		}
		rep.c.AddStates(res.Distinct, res.Generated)
		events += len(lines)
		first := map[int]badLine{}
		for _, b := range bad {
			if b.Bad < 1 || b.Bad > len(lines) {
				return badHistories, events, fmt.Errorf("bad-line report out of range: %d", b.Bad)
			}
			hi := owner[b.Bad-1]
			if f, ok := first[hi]; !ok || b.Bad < f.Bad {
				first[hi] = b
			}
		}
		for hi := start; hi < end; hi++ {
			b, isBad := first[hi]
			if !isBad {
				rep.c.AddTraces(1)
				continue
			}
			badHistories++
			h := hs[hi]
			h.Bad = true
			stepIdx := local[b.Bad-1] - 1 // line 0 of a history is its Reset
			st := h.Steps[stepIdx]
			var failed []string
			for k, v := range b.Rules {
				if !v {
					failed = append(failed, k)
				}
			}
			if b.BoundOK != "y" && b.Rules["bound"] {
				failed = append(failed, "bound")
			}
			sort.Strings(failed)
			doc := h.doc(stepIdx + 1)
			doc.Rules = b.Rules
			detail := fmt.Sprintf("%s\ncache=%s cap=%d, request %d of history %s: %s\n  sent: %s %s%s\n  observed binding before (what the cache's Get / Add last showed it to bind): %s\n  real server: %s\n  C15 rules violated: %v (bound: the cache was shown to bind a hash to a text that does not hash to it; hashonly/submit: executes a text never sent with that hash, or answers neither that text nor PersistedQueryNotFound; mismatch: text does not match hash yet not rejected / executed / cache changed; register: binding whose pair was never sent together; exec: executed text differs from the text handed on)",
				h.Mech, h.Rig.Kind, h.Rig.Cap, stepIdx+1, h.ID, mustJSON(st.Req), st.Wire.Method, st.Wire.Query, st.Wire.Body,
				mustJSON(st.Got.Pre.Ents), mustJSON(st.Got), failed)
			if st.Got.BoundEx != "" {
				detail += "\n  " + st.Got.BoundEx
			}
			rep.violate("P:"+strings.Join(failed, "+")+":"+st.Req.form(), detail, doc)
		}
		start = end
	}
	return badHistories, events, nil
}

// compareImpl compares the random histories with the IMPLEMENTATION-level
// machine (ApqTrace). A rejection is implementation-level drift: counted and
// described, never a verdict. Stops after 3 drifting histories.
func (rep *reporter) compareImpl(hs []*history, scratch string) (accepted, unchecked int, err error) {
	consts := constsJSON()
	remaining := hs
	diags := 0
	for round := 0; len(remaining) > 0; round++ {
		if diags >= 3 {
			return accepted, len(remaining), nil
		}
		var buf bytes.Buffer
		var owner []int
		nb := 0
		for i, h := range remaining {
			ls := h.lines()
			if len(owner) > 0 && len(owner)+len(ls) > 60000 {
				break
			}
			for _, ln := range ls {
				buf.Write(ln)
				buf.WriteByte('\n')
				owner = append(owner, i)
			}
			nb = i + 1
		}
		res, err := vlib.RunTLC(vlib.TLCOpts{Module: "ApqTrace", Config: "ApqTrace.cfg", Workers: 1, DFS: true,
			Data:    map[string][]byte{"trace.ndjson": buf.Bytes(), "consts.json": consts},
			Scratch: filepath.Join(scratch, fmt.Sprintf("impl%d", round)), Timeout: 15 * time.Minute})
		if err != nil {
			return accepted, len(remaining), err
		}
		rep.c.AddStates(res.Distinct, res.Generated)
		if res.OK {
			accepted += nb
			remaining = remaining[nb:]
			continue
		}
		if res.RejectedAt == 0 || res.RejectedAt > len(owner) {
			return accepted, len(remaining), fmt.Errorf("TLC failed on the recorded traces without a trace rejection:\n%s", tailStr(res.Output, 3000))
		}
		idx := owner[res.RejectedAt-1]
		first := res.RejectedAt - 1
		for first > 0 && owner[first-1] == idx {
			first--
		}
		local := res.RejectedAt - first // 1-based line within the history (line 1 = Reset)
		accepted += idx
		rep.describeDrift(remaining[idx], local, consts, filepath.Join(scratch, fmt.Sprintf("diag%d", diags)))
		diags++
		remaining = remaining[idx+1:]
	}
	return accepted, 0, nil
}

// describeDrift asks the implementation-level machine (ApqTraceDiag.cfg)
// what it prescribes for the line it does not accept.
func (rep *reporter) describeDrift(h *history, local int, consts []byte, scratch string) {
	stepIdx := local - 2
	if stepIdx < 0 || stepIdx >= len(h.Steps) {
		rep.drift("B:reset", fmt.Sprintf("history %s, line %d", h.ID, local))
		return
	}
	st := h.Steps[stepIdx]
	var buf bytes.Buffer
	for _, ln := range h.lines()[:local] {
		buf.Write(ln)
		buf.WriteByte('\n')
	}
	key := "B:" + st.Req.form() + ":differs"
	detail := fmt.Sprintf("cache=%s cap=%d, %d client goroutine(s), request %d of history %s: %s\nsent: %s %s%s\nreal server: %s",
		h.Rig.Kind, h.Rig.Cap, h.Workers, stepIdx+1, h.ID, mustJSON(st.Req), st.Wire.Method, st.Wire.Query, st.Wire.Body, mustJSON(st.Got))
	res, err := vlib.RunTLC(vlib.TLCOpts{Module: "ApqTrace", Config: "ApqTraceDiag.cfg", Workers: 1, DFS: true,
		Data:    map[string][]byte{"trace.ndjson": buf.Bytes(), "consts.json": consts},
		Scratch: scratch, Timeout: 5 * time.Minute})
	if err == nil {
		for _, ln := range res.Printed {
			var s string
			if json.Unmarshal([]byte(ln), &s) != nil || !strings.HasPrefix(s, `{"l":`) {
				continue
			}
			var w struct {
				L int    `json:"l"`
				O AOut   `json:"o"`
				T AState `json:"t"`
			}
			if json.Unmarshal([]byte(s), &w) == nil && w.L == local {
				w.T.norm()
				key = "B:" + st.Req.form() + ":" + strings.Join(diff(w.O, w.T, *st.Got), "+")
				detail += "\nimplementation-level machine: " + mustJSON(map[string]any{"outcome": w.O, "coarse_class": coarse(w.O.Class), "state_after": w.T})
			}
		}
	}
	rep.drift(key, detail)
}

func tailStr(s string, n int) string {
	if len(s) > n {
		return s[len(s)-n:]
	}
	return s
}

var errNoCandidate = fmt.Errorf("self-test: no history offers a line to corrupt")

// selfTest demonstrates that the property-level validation binds: a recorded
// history with (a) one cache entry bound to another text, (b) the request
// that first sent and registered a pair removed from the record, must be
// reported bad at exactly that line with exactly that rule (bound / register).
func (rep *reporter) selfTest(h *history, scratch string) error {
	lines := h.lines()
	if len(lines) > 150 {
		lines = lines[:150]
	}
	steps := h.Steps
	corrupt, drop := -1, -1
	sentSeen := map[[2]string]bool{}
	has := func(st AState, k string) bool {
		for _, e := range st.Ents {
			if e[0] == k {
				return true
			}
		}
		return false
	}
	for i := 1; i < len(lines); i++ {
		st := steps[i-1]
		if corrupt < 0 && len(st.Got.State.Ents) > 0 {
			corrupt = i
		}
		pair := [2]string{st.Req.Hash, st.Req.Text}
		// a request that sent a correct pair for the first time and registered it,
		// followed by one that still sees the entry
		if drop < 0 && i+1 < len(lines) && st.Got.Chg && st.Req.Text != "" && st.Req.Hash == "h:"+st.Req.Text &&
			!sentSeen[pair] && has(st.Got.State, st.Req.Hash) && has(steps[i].Got.State, st.Req.Hash) {
			if nx := steps[i].Req; nx.Hash != st.Req.Hash || nx.Text != st.Req.Text {
				drop = i
			}
		}
		if st.Req.Text != "" && st.Req.Hash != none {
			sentSeen[pair] = true
		}
	}
	if corrupt < 0 || drop < 0 {
		return errNoCandidate
	}
	expect := func(name string, ls [][]byte, wantAt int, rule string) error {
		bad, _, err := propRun(ls, filepath.Join(scratch, name))
		if err != nil {
			return err
		}
		for _, b := range bad {
			if b.Bad < wantAt {
				return fmt.Errorf("self-test %s: line %d reported although only line %d was corrupted", name, b.Bad, wantAt)
			}
			if b.Bad == wantAt && !b.Rules[rule] {
				return nil
			}
		}
		return fmt.Errorf("self-test %s: the property-level validation does not report rule %q at the corrupted line %d (%d lines reported)", name, rule, wantAt, len(bad))
	}
	// (a) one cache entry bound to another text
	var m map[string]any
	if err := json.Unmarshal(lines[corrupt], &m); err != nil {
		return err
	}
	e0 := m["ents"].([]any)[0].([]any)
	if e0[1] == "q5" {
		e0[1] = "q4"
	} else {
		e0[1] = "q5"
	}
	bad, _ := json.Marshal(m)
	a := append([][]byte{}, lines...)
	a[corrupt] = bad
	if err := expect("self-corrupt", a, corrupt+1, "bound"); err != nil {
		return err
	}
	// (b) the request that sent and registered the pair is missing from the record
	b := append(append([][]byte{}, lines[:drop]...), lines[drop+1:]...)
	return expect("self-drop", b, drop+1, "register")
}
