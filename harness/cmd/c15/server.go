package main

// The system under observation: a REAL gqlgen handler.Server with the REAL
// AutomaticPersistedQuery extension in front of a hand-written executable
// schema, a Cache decorator that logs and serialises the cache operations
// (the real map / real LRU is observed ONLY through the public Get / Add of
// graphql.Cache, never through its internals), and two spy mutators around
// the extension.

import (
	"bytes"
	"context"
	"encoding/json"
	"fmt"
	"io"
	"net/http"
	"net/http/httptest"
	"sort"
	"strconv"
	"sync"

	"github.com/vektah/gqlparser/v2"
	"github.com/vektah/gqlparser/v2/ast"
	"github.com/vektah/gqlparser/v2/gqlerror"

	"github.com/99designs/gqlgen/graphql"
	"github.com/99designs/gqlgen/graphql/handler"
	"github.com/99designs/gqlgen/graphql/handler/extension"
	"github.com/99designs/gqlgen/graphql/handler/lru"
	"github.com/99designs/gqlgen/graphql/handler/transport"
)

const schemaSDL = `type Query { a(x: String): String! b(x: String): String! c(x: String): String! d(x: String): String! e(x: String): String! f(x: String): String! }`

// cacheOp is one operation on the APQ cache as seen by the decorator.
type cacheOp struct {
	Op  string `json:"op"` // get | add
	Key string `json:"h"`
	Val string `json:"t"` // value added / value returned ("" + !Hit for a miss)
	Hit bool   `json:"-"`
	Chg bool   `json:"-"` // the operation changed the cache contents
}

// ent is one cache entry.
type ent struct{ Key, Val string }

// snapshot is the observed binding of the real cache (see logCache.known).
// Order is always empty: a recency order is not observable through Get / Add
// without disturbing it (it is identified by replay, see lru.go).
type snapshot struct {
	Ents  []ent
	Order []string
}

// obs is what the harness observed about one request inside the server.
type obs struct {
	mu     sync.Mutex
	Pre    bool     // the mutator chain was reached (spy before the APQ extension)
	Submit *string  // params.Query after the APQ extension (spy after it); nil: not reached
	Execs  []string // RawQuery of every ExecutableSchema.Exec call
	Ops    []cacheOp
	// linearisation (concurrent histories): sequence number of this request's
	// cache operation and the cache content right after it
	Seq     int64
	Snap    *snapshot
	PreSnap *snapshot // cache content right before this request's first cache operation
}

type obsKey struct{}

func obsOf(ctx context.Context) *obs {
	o, _ := ctx.Value(obsKey{}).(*obs)
	return o
}

// logCache decorates the real cache and is the ONLY way the harness looks at
// it: the public graphql.Cache API (Get / Add). Nothing here depends on how
// graphql/handler/lru (or MapCache) is implemented. Its mutex is held across
// the inner operation, so the order of its log IS the order of the operations.
//
// known is the OBSERVED BINDING: what the public API last showed the cache to
// bind (Add(k,v) and a Get hit (k,v) set known[k] = v, a Get miss forgets k).
// It is a summary of the observations, not a model of the cache: an entry the
// cache has silently evicted stays in it until a Get shows the miss.
type logCache struct {
	mu    sync.Mutex
	inner graphql.Cache[string]
	seq   int64
	known map[string]string
	// a Get missed a key the API had last shown as bound: an eviction became visible
	evictionsSeen int64
	gone          map[string]bool // keys seen evicted and not Added again since
	reAdded       int64           // Adds of a key that had been seen evicted
}

func newLogCache(inner graphql.Cache[string]) *logCache {
	return &logCache{inner: inner, known: map[string]string{}, gone: map[string]bool{}}
}

func (c *logCache) Get(ctx context.Context, key string) (string, bool) {
	c.mu.Lock()
	defer c.mu.Unlock()
	v, ok := c.inner.Get(ctx, key)
	c.record(ctx, cacheOp{Op: "get", Key: key, Val: v, Hit: ok})
	return v, ok
}

func (c *logCache) Add(ctx context.Context, key, value string) {
	c.mu.Lock()
	defer c.mu.Unlock()
	c.inner.Add(ctx, key, value)
	c.record(ctx, cacheOp{Op: "add", Key: key, Val: value, Hit: true})
}

func (c *logCache) snap() *snapshot {
	s := &snapshot{Order: []string{}}
	for k, v := range c.known {
		s.Ents = append(s.Ents, ent{k, v})
	}
	sort.Slice(s.Ents, func(i, j int) bool { return s.Ents[i].Key < s.Ents[j].Key })
	return s
}

func (c *logCache) record(ctx context.Context, op cacheOp) {
	c.seq++
	o := obsOf(ctx)
	var prev *snapshot
	if o != nil {
		prev = c.snap()
	}
	old, had := c.known[op.Key]
	switch {
	case op.Op == "add":
		// a registration that changes what the cache is known to bind
		op.Chg = !had || old != op.Val
		c.known[op.Key] = op.Val
		if c.gone[op.Key] {
			c.reAdded++
			delete(c.gone, op.Key)
		}
	case op.Hit:
		c.known[op.Key] = op.Val
	default:
		if had {
			c.evictionsSeen++
			c.gone[op.Key] = true
		}
		delete(c.known, op.Key)
	}
	if o != nil {
		s := c.snap()
		o.mu.Lock()
		if len(o.Ops) == 0 {
			o.PreSnap = prev
		}
		o.Ops = append(o.Ops, op)
		o.Seq = c.seq
		o.Snap = s
		o.mu.Unlock()
	}
}

// Now returns the current sequence number and observed binding (consistent pair).
func (c *logCache) Now() (int64, *snapshot, error) {
	c.mu.Lock()
	defer c.mu.Unlock()
	return c.seq, c.snap(), nil
}

// spy is a HandlerExtension + OperationParameterMutator that records whether
// the mutator chain reached it and which query text it saw.
type spy struct{ after bool }

func (s spy) ExtensionName() string {
	if s.after {
		return "VerifSpyAfter"
	}
	return "VerifSpyBefore"
}
func (s spy) Validate(graphql.ExecutableSchema) error { return nil }
func (s spy) MutateOperationParameters(ctx context.Context, p *graphql.RawParams) *gqlerror.Error {
	if o := obsOf(ctx); o != nil {
		o.mu.Lock()
		if s.after {
			q := p.Query
			o.Submit = &q
		} else {
			o.Pre = true
		}
		o.mu.Unlock()
	}
	return nil
}

// rig is one fresh server instance.
type rig struct {
	Kind   string // map | lru
	Cap    int
	QCache bool
	cache  *logCache
	h      http.Handler
	ts     *httptest.Server
	pend   sync.Map // request id -> *obs
	nextID int64
	idMu   sync.Mutex
}

type rigOpts struct {
	Kind   string
	Cap    int
	QCache bool // also install the parsed-document cache of executor.go
	QSize  int  `json:"qcache_size,omitempty"` // its capacity (0: 4)
	TCP    bool // serve over a real loopback listener instead of a recorder
}

func newRig(o rigOpts) (*rig, error) {
	r := &rig{Kind: o.Kind, Cap: o.Cap, QCache: o.QCache}
	var lc *logCache
	switch o.Kind {
	case "map":
		lc = newLogCache(graphql.MapCache[string]{})
	case "lru":
		lc = newLogCache(lru.New[string](o.Cap))
	default:
		return nil, fmt.Errorf("unknown cache kind %q", o.Kind)
	}
	r.cache = lc
	schema := gqlparser.MustLoadSchema(&ast.Source{Input: schemaSDL})
	es := &graphql.ExecutableSchemaMock{
		SchemaFunc: func() *ast.Schema { return schema },
		ComplexityFunc: func(context.Context, string, string, int, map[string]any) (int, bool) {
			return 1, true
		},
		ExecFunc: func(ctx context.Context) graphql.ResponseHandler {
			oc := graphql.GetOperationContext(ctx)
			if o := obsOf(ctx); o != nil {
				o.mu.Lock()
				o.Execs = append(o.Execs, oc.RawQuery)
				o.mu.Unlock()
			}
			// "resolve" every selected root field: the data names the fields executed
			var buf bytes.Buffer
			buf.WriteByte('{')
			n := 0
			seen := map[string]bool{}
			for _, sel := range oc.Operation.SelectionSet {
				if fld, ok := sel.(*ast.Field); ok && !seen[fld.Alias] {
					seen[fld.Alias] = true
					if n > 0 {
						buf.WriteByte(',')
					}
					n++
					buf.WriteString(strconv.Quote(fld.Alias) + ":" + strconv.Quote("v-"+fld.Name))
				}
			}
			buf.WriteByte('}')
			return graphql.OneShot(&graphql.Response{Data: json.RawMessage(buf.Bytes())})
		},
	}
	srv := handler.New(es)
	srv.AddTransport(transport.POST{})
	srv.AddTransport(transport.GET{})
	if o.QCache {
		n := o.QSize
		if n <= 0 {
			n = 4
		}
		srv.SetQueryCache(lru.New[*ast.QueryDocument](n))
	}
	srv.Use(spy{after: false})
	srv.Use(extension.AutomaticPersistedQuery{Cache: lc})
	srv.Use(spy{after: true})
	r.h = http.HandlerFunc(func(w http.ResponseWriter, req *http.Request) {
		if v, ok := r.pend.Load(req.Header.Get("X-Verif-Id")); ok {
			req = req.WithContext(context.WithValue(req.Context(), obsKey{}, v.(*obs)))
		}
		srv.ServeHTTP(w, req)
	})
	if o.TCP {
		r.ts = httptest.NewServer(r.h)
	}
	return r, nil
}

func (r *rig) Close() {
	if r.ts != nil {
		r.ts.Close()
	}
}

// wire is a concrete HTTP request.
type wire struct {
	Method string `json:"method"`
	Query  string `json:"url_query,omitempty"` // raw query string for GET
	Body   string `json:"body,omitempty"`
	CType  string `json:"content_type,omitempty"`
}

type reply struct {
	Status int
	Body   string
}

// Do sends one request and returns the reply with the in-server observation.
func (r *rig) Do(w wire) (*reply, *obs, error) {
	r.idMu.Lock()
	r.nextID++
	id := strconv.FormatInt(r.nextID, 10)
	r.idMu.Unlock()
	o := &obs{}
	r.pend.Store(id, o)
	defer r.pend.Delete(id)
	target := "/graphql"
	if w.Query != "" {
		target += "?" + w.Query
	}
	if r.ts != nil {
		req, err := http.NewRequest(w.Method, r.ts.URL+target, bytes.NewReader([]byte(w.Body)))
		if err != nil {
			return nil, nil, err
		}
		req.Header.Set("X-Verif-Id", id)
		if w.CType != "" {
			req.Header.Set("Content-Type", w.CType)
		}
		resp, err := r.ts.Client().Do(req)
		if err != nil {
			return nil, nil, err
		}
		defer resp.Body.Close()
		b, err := io.ReadAll(resp.Body)
		if err != nil {
			return nil, nil, err
		}
		return &reply{resp.StatusCode, string(b)}, o, nil
	}
	req := httptest.NewRequest(w.Method, target, bytes.NewReader([]byte(w.Body)))
	req.Header.Set("X-Verif-Id", id)
	if w.CType != "" {
		req.Header.Set("Content-Type", w.CType)
	}
	rec := httptest.NewRecorder()
	r.h.ServeHTTP(rec, req)
	return &reply{rec.Code, rec.Body.String()}, o, nil
}
