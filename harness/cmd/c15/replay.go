package main

// Mechanism A: the labelled state graph TLC printed for the bounded Apq
// model is covered by tours from the initial states; every tour is replayed
// against a fresh real server and compared after every request.

import (
	"encoding/json"
	"fmt"
	"math/rand"
	"os"
	"sort"
	"strings"

	"verifharness/vlib"
)

// Edge is one labelled transition printed by MC_Apq!EmitEdge.
type Edge struct {
	S        AState `json:"s"`
	A        AReq   `json:"a"`
	O        AOut   `json:"o"`
	T        AState `json:"t"`
	from, to string
	covered  bool
}

type graph struct {
	nodes map[string]*AState
	out   map[string][]*Edge
	edges []*Edge
	inits []string
}

func parseGraph(printed []string) (*graph, error) {
	g := &graph{nodes: map[string]*AState{}, out: map[string][]*Edge{}}
	for _, ln := range printed {
		var s string
		if err := json.Unmarshal([]byte(ln), &s); err != nil {
			continue // some other printed line
		}
		if !strings.HasPrefix(s, `{"s":`) {
			continue
		}
		e := &Edge{}
		if err := json.Unmarshal([]byte(s), e); err != nil {
			return nil, fmt.Errorf("edge line %q: %v", s, err)
		}
		e.S.norm()
		e.T.norm()
		e.from, e.to = e.S.key(), e.T.key()
		if _, ok := g.nodes[e.from]; !ok {
			st := e.S
			g.nodes[e.from] = &st
		}
		if _, ok := g.nodes[e.to]; !ok {
			st := e.T
			g.nodes[e.to] = &st
		}
		g.out[e.from] = append(g.out[e.from], e)
		g.edges = append(g.edges, e)
	}
	for k, n := range g.nodes {
		if len(n.Ents) == 0 {
			g.inits = append(g.inits, k)
		}
	}
	sort.Strings(g.inits)
	if len(g.edges) == 0 || len(g.inits) == 0 {
		return nil, fmt.Errorf("no edges / initial states in TLC output (%d printed lines)", len(printed))
	}
	return g, nil
}

// tours computes paths from the initial states that together traverse every
// edge: follow an uncovered edge when the current node has one, otherwise
// walk the shortest way to the nearest node that has one.
func (g *graph) tours(rnd *rand.Rand, maxLen int) ([][]*Edge, error) {
	var ks []string
	for k := range g.out {
		ks = append(ks, k)
	}
	sort.Strings(ks)
	for _, k := range ks {
		es := g.out[k]
		rnd.Shuffle(len(es), func(i, j int) { es[i], es[j] = es[j], es[i] })
	}
	left := len(g.edges)
	var paths [][]*Edge
	for _, init := range g.inits {
		for {
			var path []*Edge
			cur := init
			for len(path) < maxLen {
				var next *Edge
				for _, e := range g.out[cur] {
					if !e.covered {
						next = e
						break
					}
				}
				if next != nil {
					next.covered = true
					left--
					path = append(path, next)
					cur = next.to
					continue
				}
				way := g.nearestUncovered(cur)
				if way == nil {
					break
				}
				if len(path) > 0 && len(path)+len(way)+1 > maxLen {
					break
				}
				path = append(path, way...)
				cur = way[len(way)-1].to
			}
			if len(path) == 0 {
				break
			}
			paths = append(paths, path)
		}
	}
	if left != 0 {
		return nil, fmt.Errorf("%d edges are not reachable from an initial state", left)
	}
	return paths, nil
}

func (g *graph) nearestUncovered(from string) []*Edge {
	type item struct {
		n   string
		via *Edge
		par *item
	}
	seenN := map[string]bool{from: true}
	q := []*item{{n: from}}
	for len(q) > 0 {
		it := q[0]
		q = q[1:]
		if it.n != from {
			for _, e := range g.out[it.n] {
				if !e.covered {
					var way []*Edge
					for x := it; x.via != nil; x = x.par {
						way = append([]*Edge{x.via}, way...)
					}
					return way
				}
			}
		}
		for _, e := range g.out[it.n] {
			if !seenN[e.to] {
				seenN[e.to] = true
				q = append(q, &item{n: e.to, via: e, par: it})
			}
		}
	}
	return nil
}

// replayStep is one request of a replay artefact.
type replayStep struct {
	Req   AReq   `json:"req"`
	Wire  wire   `json:"wire"`
	Want  AOut   `json:"spec_outcome"`
	WantT AState `json:"spec_state_after"`
	Got   *seen  `json:"observed,omitempty"`
}

type replayDoc struct {
	Mechanism string            `json:"mechanism"`
	Rig       rigOpts           `json:"server"`
	Texts     map[string]string `json:"texts"`
	Hashes    map[string]string `json:"hashes"`
	Steps     []replayStep      `json:"steps"`
	FailAt    int               `json:"diverges_at_step"`
}

type reporter struct {
	c        *vlib.Check
	seenKeys map[string]int
	soft     map[string]int
}

func (r *reporter) violate(key, detail string, doc any) {
	r.seenKeys[key]++
	if r.seenKeys[key] > 1 {
		return
	}
	r.c.Violate(key, detail, doc)
}

// boundOnRealCache is C15's invariant evaluated directly on the real cache
// with real SHA-256 (independent of the abstraction).
func boundOnRealCache(s *snapshot) string {
	for _, e := range s.Ents {
		if sha(e.Val) != e.Key {
			return fmt.Sprintf("cache binds hash %q to text %q whose SHA-256 is %s", e.Key, e.Val, sha(e.Val))
		}
	}
	return ""
}

// replayPath drives one tour through a fresh real server. Returns the
// number of requests sent.
func (rep *reporter) replayPath(path []*Edge, texts, valid, wrong []string, ro rigOpts, method string, seed int64) (int, error) {
	rnd := rand.New(rand.NewSource(seed))
	cc := newConc(rnd, texts, valid, wrong, method)
	rg, err := newRig(ro)
	if err != nil {
		return 0, err
	}
	defer rg.Close()
	doc := replayDoc{Mechanism: "A: replay of a TLC-generated path", Rig: ro, Texts: cc.Text, Hashes: cc.Hash}
	for i, e := range path {
		w := cc.wire(e.A)
		rp, o, err := rg.Do(w)
		if err != nil {
			return i, err
		}
		_, snap, err := rg.cache.Now()
		if err != nil {
			return i, err
		}
		got := cc.abstract(ro.Kind, ro.Cap, rp, o, snap)
		doc.Steps = append(doc.Steps, replayStep{Req: e.A, Wire: w, Want: e.O, WantT: e.T, Got: &got})
		rep.c.AddEvals(1)
		rep.c.Class(ro.Kind + "/" + e.A.form() + "->" + e.O.Class)
		if msg := boundOnRealCache(snap); msg != "" {
			doc.FailAt = i + 1
			rep.violate("P:bound:"+e.A.form(), fmt.Sprintf("after request %d (%s, %s %s%s): %s", i+1, e.A.form(), w.Method, w.Query, w.Body, msg), doc)
			return i + 1, nil
		}
		if d := diff(e.O, e.T, got); len(d) > 0 {
			doc.FailAt = i + 1
			wantJ, _ := json.Marshal(map[string]any{"outcome": e.O, "coarse_class": coarse(e.O.Class), "state_after": e.T})
			gotJ, _ := json.Marshal(got)
			rep.violate("A:"+e.A.form()+":"+strings.Join(d, "+"),
				fmt.Sprintf("cache=%s cap=%d, request %d of the path: %s\n  sent: %s %s%s\n  specification: %s\n  real server:   %s\n  response body: %s",
					ro.Kind, ro.Cap, i+1, mustJSON(e.A), w.Method, w.Query, w.Body, wantJ, gotJ, strings.TrimSpace(rp.Body)), doc)
			return i + 1, nil
		}
		// informative: the error wording of the four APQ rejections
		if c := e.O.Class; (c == "mismatch" || c == "invalid" || c == "version" || c == "decode" || c == "notfound") && got.Fine != c {
			rep.soft[c+"->"+got.Fine+" ("+got.Msg+")"]++
		}
		if c := e.O.Class; c == "notfound" && got.Code != "PERSISTED_QUERY_NOT_FOUND" {
			rep.soft["notfound without extensions.code PERSISTED_QUERY_NOT_FOUND"]++
		}
	}
	return len(path), nil
}

func mustJSON(v any) string {
	b, _ := json.Marshal(v)
	return string(b)
}

// runReplayFile re-runs one recorded scenario (./check C15 --replay file).
func runReplayFile(file string) {
	b, err := os.ReadFile(file)
	if err != nil {
		vlib.Infra("replay file: %v", err)
	}
	var env struct {
		Key      string    `json:"key"`
		Scenario replayDoc `json:"scenario"`
	}
	if err := json.Unmarshal(b, &env); err != nil {
		vlib.Infra("replay file: %v", err)
	}
	doc := env.Scenario
	cc := &conc{Text: doc.Texts, Hash: doc.Hashes, Field: map[string]string{}, rText: map[string]string{}, rHash: map[string]string{}}
	for a, s := range doc.Texts {
		cc.rText[s] = a
		if f, ok := fieldOf[a]; ok {
			cc.Field[a] = f
		}
	}
	for a, s := range doc.Hashes {
		cc.rHash[s] = a
	}
	rg, err := newRig(doc.Rig)
	if err != nil {
		vlib.Infra("replay: %v", err)
	}
	defer rg.Close()
	failed := false
	for i, st := range doc.Steps {
		rp, o, err := rg.Do(st.Wire)
		if err != nil {
			vlib.Infra("replay: %v", err)
		}
		_, snap, err := rg.cache.Now()
		if err != nil {
			vlib.Infra("replay: %v", err)
		}
		got := cc.abstract(doc.Rig.Kind, doc.Rig.Cap, rp, o, snap)
		d := diff(st.Want, st.WantT, got)
		if msg := boundOnRealCache(snap); msg != "" {
			d = append(d, "bound: "+msg)
		}
		fmt.Printf("step %d %s %s%s\n  spec: %s -> %s\n  real: %s\n", i+1, st.Wire.Method, st.Wire.Query, st.Wire.Body, mustJSON(st.Want), mustJSON(st.WantT), mustJSON(got))
		if len(d) > 0 {
			fmt.Printf("  DIVERGES in %v\n", d)
			failed = true
			break
		}
	}
	if failed {
		fmt.Printf("VIOLATION property=C15 replay=%s\n", file)
		os.Exit(1)
	}
	fmt.Println("OK replayed scenario conforms to the specification")
	os.Exit(0)
}
