package main

// Mechanism A: the labelled state graph TLC printed for the bounded Apq
// model is covered by tours from the initial states; every tour is replayed
// against a fresh real server and compared after every request.

import (
	"encoding/json"
	"fmt"
	"math/rand"
	"os"
	"sort"
	"strings"

	"verifharness/vlib"
)

// Edge is one labelled transition printed by MC_Apq!EmitEdge.
type Edge struct {
	S        AState `json:"s"`
	A        AReq   `json:"a"`
	O        AOut   `json:"o"`
	T        AState `json:"t"`
	from, to string
	covered  bool
}

type graph struct {
	nodes map[string]*AState
	out   map[string][]*Edge
	edges []*Edge
	inits []string
}

func parseGraph(printed []string) (*graph, error) {
	g := &graph{nodes: map[string]*AState{}, out: map[string][]*Edge{}}
	for _, ln := range printed {
		var s string
		if err := json.Unmarshal([]byte(ln), &s); err != nil {
			continue // some other printed line
		}
		if !strings.HasPrefix(s, `{"s":`) {
			continue
		}
		e := &Edge{}
		if err := json.Unmarshal([]byte(s), e); err != nil {
			return nil, fmt.Errorf("edge line %q: %v", s, err)
		}
		e.S.norm()
		e.T.norm()
		e.from, e.to = e.S.key(), e.T.key()
		if _, ok := g.nodes[e.from]; !ok {
			st := e.S
			g.nodes[e.from] = &st
		}
		if _, ok := g.nodes[e.to]; !ok {
			st := e.T
			g.nodes[e.to] = &st
		}
		g.out[e.from] = append(g.out[e.from], e)
		g.edges = append(g.edges, e)
	}
	for k, n := range g.nodes {
		if len(n.Ents) == 0 {
			g.inits = append(g.inits, k)
		}
	}
	sort.Strings(g.inits)
	if len(g.edges) == 0 || len(g.inits) == 0 {
		return nil, fmt.Errorf("no edges / initial states in TLC output (%d printed lines)", len(printed))
	}
	return g, nil
}

func (e *Edge) gFrom() string  { return e.from }
func (e *Edge) gTo() string    { return e.to }
func (e *Edge) gCovered() bool { return e.covered }
func (e *Edge) gCover()        { e.covered = true }

// tours computes paths from the initial states that together traverse every
// edge (cover.go).
func (g *graph) tours(rnd *rand.Rand, maxLen int) ([][]*Edge, error) {
	return coverTours(g.inits, g.out, len(g.edges), rnd, maxLen)
}

// step returns the edge a request takes from a node.
func (g *graph) step(node string, r AReq) *Edge {
	for _, e := range g.out[node] {
		if e.A == r {
			return e
		}
	}
	return nil
}

func hashOnly(h string) AReq { return AReq{Text: "", Ext: "pq", Ver: "1", Hash: h, Mal: none} }
func register(t string) AReq { return AReq{Text: t, Ext: "pq", Ver: "1", Hash: "h:" + t, Mal: none} }

// withSweep appends, to a path, one hash-only request for the hash of every
// text of the alphabet: the only way to see what the real cache holds at the
// end of the tour through its public API (expected outcomes: the graph's).
func (g *graph) withSweep(path []*Edge, texts []string) []*Edge {
	cur := path[len(path)-1].to
	for _, t := range texts {
		e := g.step(cur, hashOnly("h:"+t))
		if e == nil {
			break
		}
		path = append(path, e)
		cur = e.to
	}
	return path
}

// evictionScenarios derives, for EVERY edge on which a registration evicts an
// entry of a full LRU, the history
//
//	shortest way to the full state, the evicting registration,
//	hash-only(evicted hash)            -> PersistedQueryNotFound
//	hash-only(hash just registered)    -> its own text
//	register(evicted text) again       (re-registration of the evicted hash; evicts in turn)
//	hash-only(evicted hash)            -> its own text
//	hash-only(hash registered before)  -> its own text or PersistedQueryNotFound
//	hash-only of every hash            (sweep)
//
// with the outcomes the graph prescribes (all of them are edges of the graph).
func (g *graph) evictionScenarios(texts []string) [][]*Edge {
	acc := accessPaths(g.inits, g.out)
	var ks []string
	for k := range g.out {
		ks = append(ks, k)
	}
	sort.Strings(ks)
	var out [][]*Edge
	for _, k := range ks {
		es := append([]*Edge{}, g.out[k]...)
		sort.SliceStable(es, func(i, j int) bool { return mustJSON(es[i].A) < mustJSON(es[j].A) })
		for _, e := range es {
			if len(e.O.Ops) != 1 || e.O.Ops[0].Op != "add" {
				continue
			}
			in := map[string]bool{}
			for _, x := range e.T.Ents {
				in[x[0]] = true
			}
			victim := ""
			for _, x := range e.S.Ents {
				if !in[x[0]] {
					victim = x[0]
				}
			}
			if victim == "" {
				continue
			}
			path := append(append([]*Edge{}, acc[e.from]...), e)
			cur := e.to
			for _, r := range []AReq{hashOnly(victim), hashOnly(e.A.Hash), register(strings.TrimPrefix(victim, "h:")), hashOnly(victim), hashOnly(e.A.Hash)} {
				nx := g.step(cur, r)
				if nx == nil {
					break
				}
				path = append(path, nx)
				cur = nx.to
			}
			out = append(out, g.withSweep(path, texts))
		}
	}
	return out
}

func wrongHash(t, h string) AReq { return AReq{Text: t, Ext: "pq", Ver: "1", Hash: h, Mal: none} }

// walk follows the given requests from a node as far as the graph has them.
func (g *graph) walk(path []*Edge, cur string, reqs ...AReq) ([]*Edge, string) {
	for _, r := range reqs {
		e := g.step(cur, r)
		if e == nil {
			break
		}
		path = append(path, e)
		cur = e.to
	}
	return path, cur
}

// twinScenarios: for every initial state (map, every LRU capacity) and every
// base / near-twin pair of the alphabet, the histories
//
//	S1  register(base); twin + hash(base) -> mismatch; hash-only(hash(base)) -> base;
//	    base + hash(twin) -> mismatch; hash-only(hash(twin)) -> not found;
//	    register(twin); hash-only(hash(twin)) -> twin; hash-only(hash(base));
//	    twin + hash(base) again (the twin is a registered text now) -> mismatch;
//	    base + upper-case hex of its own hash; hash-only(upper-case hex); sweep
//	S2  twin + hash(base) first (nothing registered) -> mismatch; hash-only(hash(base))
//	    -> not found; register(base); hash-only(hash(base)) -> base; sweep
//
// with the outcomes the graph prescribes (every step is an edge of the graph):
// each twin sent with the digest of the other is rejected, executes nothing,
// registers nothing, and afterwards each digest still resolves to its own pre-image.
func (g *graph) twinScenarios(texts, alts []string) [][]*Edge {
	var out [][]*Edge
	for _, init := range g.inits {
		for _, tw := range texts {
			if !isTwin(tw) {
				continue
			}
			b := twinBase(tw)
			hb, ht := "h:"+b, "h:"+tw
			s1 := []AReq{register(b), wrongHash(tw, hb), hashOnly(hb), wrongHash(b, ht), hashOnly(ht), register(tw), hashOnly(ht), hashOnly(hb), wrongHash(tw, hb), hashOnly(hb), hashOnly(ht)}
			for _, a := range alts {
				if a == "u:"+b {
					s1 = append(s1, wrongHash(b, a), hashOnly(a), wrongHash(tw, a), hashOnly(hb))
				}
			}
			p, _ := g.walk(nil, init, s1...)
			if len(p) == len(s1) {
				out = append(out, g.withSweep(p, texts))
			}
			s2 := []AReq{wrongHash(tw, hb), hashOnly(hb), register(b), hashOnly(hb), wrongHash(b, ht), hashOnly(ht)}
			p, _ = g.walk(nil, init, s2...)
			if len(p) == len(s2) {
				out = append(out, g.withSweep(p, texts))
			}
		}
	}
	return out
}

// poisonScenarios: a parsed-document cache is configured alongside APQ (as
// NewDefaultServer does). For every ordered pair of distinct valid texts (t, u)
// and every initial state: a request carrying t with the hash of u (rejected)
// comes FIRST, then requests for that hash - the rightful registration of u and
// hash-only requests - which must execute exactly u; and the same with u
// registered before the wrong-hash request.
func (g *graph) poisonScenarios(valid []string) [][]*Edge {
	var out [][]*Edge
	for _, init := range g.inits {
		for _, t := range valid {
			for _, u := range valid {
				if t == u {
					continue
				}
				hu := "h:" + u
				for _, sc := range [][]AReq{
					{wrongHash(t, hu), hashOnly(hu), register(u), hashOnly(hu), wrongHash(t, hu), hashOnly(hu), register(t), hashOnly(hu), hashOnly("h:" + t)},
					{register(u), wrongHash(t, hu), hashOnly(hu), register(u), hashOnly(hu)},
				} {
					p, _ := g.walk(nil, init, sc...)
					if len(p) == len(sc) {
						out = append(out, g.withSweep(p, valid))
					}
				}
			}
		}
	}
	return out
}

// replayStep is one request of a history / replay artefact.
type replayStep struct {
	Req   AReq    `json:"req"`
	Wire  wire    `json:"wire"`
	Want  *AOut   `json:"impl_level_outcome,omitempty"`
	WantT *AState `json:"impl_level_state_after,omitempty"`
	Got   *seen   `json:"observed,omitempty"`
}

type replayDoc struct {
	Mechanism string            `json:"mechanism"`
	Rig       rigOpts           `json:"server"`
	Texts     map[string]string `json:"texts"`
	Hashes    map[string]string `json:"hashes"`
	Sigs      map[string]string `json:"root_fields_selected,omitempty"`
	Twin      string            `json:"near_twin_kind,omitempty"`
	Steps     []replayStep      `json:"steps"`
	FailAt    int               `json:"leaves_property_at_step"`
	Rules     map[string]bool   `json:"rules_at_that_step,omitempty"`
}

// reporter separates the two levels: violate = the observed behaviour leaves
// the PROPERTY level of C15; drift = it differs from the implementation-level
// machine of Apq but stays inside the property (counted, never a verdict).
type reporter struct {
	c        *vlib.Check
	seenKeys map[string]int
	soft     map[string]int
	drifts   map[string]int
	driftEx  []string
}

func (r *reporter) violate(key, detail string, doc any) {
	r.seenKeys[key]++
	if r.seenKeys[key] > 1 {
		return
	}
	r.c.Violate(key, detail, doc)
}

func (r *reporter) drift(key, detail string) {
	r.drifts[key]++
	if r.drifts[key] == 1 && len(r.driftEx) < 8 {
		r.driftEx = append(r.driftEx, key+": "+detail)
		fmt.Fprintf(os.Stderr, "[c15] impl-level drift (not a violation) %s\n    %s\n", key, strings.ReplaceAll(detail, "\n", "\n    "))
	}
}

// replayPath drives one tour through a fresh real server. While the server
// follows the implementation-level machine every request is compared exactly
// with the edge TLC printed; the first difference is recorded as drift and
// the rest of the tour is still sent. The whole observed history is returned
// for the property-level validation.
func (rep *reporter) replayPath(id string, path []*Edge, texts, valid, wrong []string, ro rigOpts, method string, seed int64) (*history, error) {
	return rep.replayPathTwin(id, path, texts, valid, wrong, ro, method, seed, "")
}

// replayPathTwin: like replayPath with the near-twin kind fixed ("" = drawn from the seed).
func (rep *reporter) replayPathTwin(id string, path []*Edge, texts, valid, wrong []string, ro rigOpts, method string, seed int64, twinKind string) (*history, error) {
	rnd := rand.New(rand.NewSource(seed))
	if twinKind == "" {
		twinKind = twinKinds[rnd.Intn(len(twinKinds))]
	}
	cc := newConcTwin(rnd, texts, valid, wrong, method, twinKind)
	rg, err := newRig(ro)
	if err != nil {
		return nil, err
	}
	defer rg.Close()
	h := &history{ID: id, Mech: "A: replay of a TLC-generated tour", Rig: ro, Method: method, Workers: 1, cc: cc}
	drifted := false
	for i, e := range path {
		w := cc.wire(e.A)
		_, pre, err := rg.cache.Now()
		if err != nil {
			return nil, err
		}
		rp, o, err := rg.Do(w)
		if err != nil {
			return nil, err
		}
		_, snap, err := rg.cache.Now()
		if err != nil {
			return nil, err
		}
		got := cc.abstract(ro.Kind, ro.Cap, rp, o, pre, snap)
		st := replayStep{Req: e.A, Wire: w, Got: &got}
		rep.c.AddEvals(1)
		if !drifted {
			eo, et := e.O, e.T
			st.Want, st.WantT = &eo, &et
			rep.c.Class(ro.Kind + "/" + e.A.form() + "->" + e.O.Class)
			if d := diff(e.O, e.T, got); len(d) > 0 {
				drifted = true
				wantJ, _ := json.Marshal(map[string]any{"outcome": e.O, "coarse_class": coarse(e.O.Class), "state_after": e.T})
				rep.drift("A:"+e.A.form()+":"+strings.Join(d, "+"),
					fmt.Sprintf("cache=%s cap=%d, request %d of tour %s: %s\nsent: %s %s%s\nimplementation-level machine: %s\nreal server: %s",
						ro.Kind, ro.Cap, i+1, id, mustJSON(e.A), w.Method, w.Query, w.Body, wantJ, mustJSON(got)))
			} else {
				// informative: the error wording of the APQ rejections
				if c := e.O.Class; (c == "mismatch" || c == "invalid" || c == "version" || c == "decode" || c == "notfound") && got.Fine != c {
					rep.soft[c+"->"+got.Fine+" ("+got.Msg+")"]++
				}
				if c := e.O.Class; c == "notfound" && got.Code != "PERSISTED_QUERY_NOT_FOUND" {
					rep.soft["notfound without extensions.code PERSISTED_QUERY_NOT_FOUND"]++
				}
			}
		}
		h.Steps = append(h.Steps, st)
	}
	h.Drifted = drifted
	h.EvSeen, h.ReAdded = int(rg.cache.evictionsSeen), int(rg.cache.reAdded)
	return h, nil
}

func mustJSON(v any) string {
	b, _ := json.Marshal(v)
	return string(b)
}

// runReplayFile re-runs one recorded scenario (./check C15 --replay file):
// the concrete requests are sent again to a fresh real server and the
// observed history is validated against the property level by TLC.
func runReplayFile(file string) {
	b, err := os.ReadFile(file)
	if err != nil {
		vlib.Infra("replay file: %v", err)
	}
	var env struct {
		Key      string    `json:"key"`
		Scenario replayDoc `json:"scenario"`
	}
	if err := json.Unmarshal(b, &env); err != nil {
		vlib.Infra("replay file: %v", err)
	}
	if strings.HasPrefix(env.Scenario.Mechanism, "L") {
		runLReplay(b) // a scenario of the LRU phase (lru.go)
	}
	doc := env.Scenario
	cc := &conc{Text: doc.Texts, Hash: doc.Hashes, Field: map[string]string{}, Sig: map[string]string{}, rText: map[string]string{}, rHash: map[string]string{}, Twin: doc.Twin}
	for a, s := range doc.Texts {
		cc.rText[s] = a
		if f, ok := fieldOf[twinBase(a)]; ok {
			cc.Field[a], cc.Sig[a] = f, f
		}
	}
	for a, sg := range doc.Sigs {
		cc.Sig[a] = sg
	}
	for a, s := range doc.Hashes {
		cc.rHash[s] = a
	}
	rg, err := newRig(doc.Rig)
	if err != nil {
		vlib.Infra("replay: %v", err)
	}
	defer rg.Close()
	h := &history{ID: "replay", Mech: "replay", Rig: doc.Rig, Workers: 1, cc: cc}
	for i, st := range doc.Steps {
		_, pre, err := rg.cache.Now()
		if err != nil {
			vlib.Infra("replay: %v", err)
		}
		rp, o, err := rg.Do(st.Wire)
		if err != nil {
			vlib.Infra("replay: %v", err)
		}
		_, snap, err := rg.cache.Now()
		if err != nil {
			vlib.Infra("replay: %v", err)
		}
		got := cc.abstract(doc.Rig.Kind, doc.Rig.Cap, rp, o, pre, snap)
		fmt.Printf("step %d %s %s%s\n  real: %s\n", i+1, st.Wire.Method, st.Wire.Query, st.Wire.Body, mustJSON(got))
		h.Steps = append(h.Steps, replayStep{Req: st.Req, Wire: st.Wire, Got: &got})
	}
	c := vlib.NewCheck("C15", "model_checking")
	rep := &reporter{c: c, seenKeys: map[string]int{}, soft: map[string]int{}, drifts: map[string]int{}}
	bad, _, err := rep.validateProp([]*history{h}, vlib.Work("C15-replay"))
	if err != nil {
		vlib.Infra("replay: %v", err)
	}
	if bad > 0 {
		os.Exit(1)
	}
	fmt.Println("OK replayed scenario stays inside the property level of C15")
	os.Exit(0)
}
