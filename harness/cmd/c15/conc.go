package main

// Abstract requests / outcomes / states of spec/Apq.tla, their concretisation
// into HTTP requests (real SHA-256 of concrete texts) and the abstraction of
// what the real server did.

import (
	"crypto/sha256"
	"encoding/hex"
	"encoding/json"
	"fmt"
	"math/rand"
	"net/url"
	"sort"
	"strings"
	"sync"
	"sync/atomic"
)

const none = "-" // Apq!None

// AReq is Apq's request record.
type AReq struct {
	Text string `json:"text"`
	Ext  string `json:"ext"`
	Ver  string `json:"ver"`
	Hash string `json:"hash"`
	Mal  string `json:"mal"`
}

// AOp is one cache operation in Apq's alphabet.
type AOp struct {
	Op string `json:"op"`
	H  string `json:"h"`
	T  string `json:"t"`
}

// AOut is Apq's outcome record (Class: the specification's fine class on the
// model side, the structural coarse class on the observed side).
type AOut struct {
	Submit string `json:"submit"`
	Exec   string `json:"exec"` // text whose operation was executed ("-": none)
	Class  string `json:"class"`
	Ops    []AOp  `json:"ops"`
}

// AState is Apq's projected state.
type AState struct {
	Kind  string      `json:"kind"`
	Cap   int         `json:"cap"`
	Ents  [][2]string `json:"ents"`
	Order []string    `json:"order"`
}

func (s *AState) norm() {
	if s.Ents == nil {
		s.Ents = [][2]string{}
	}
	if s.Order == nil {
		s.Order = []string{}
	}
	sort.Slice(s.Ents, func(i, j int) bool { return s.Ents[i][0] < s.Ents[j][0] })
}

func (s AState) key() string {
	s.norm()
	b, _ := json.Marshal(s)
	return string(b)
}

// form names the request form (class key of evidence and violations).
func (r AReq) form() string {
	t := "text"
	if r.Text == "" {
		t = "empty"
	}
	switch r.Ext {
	case "none", "null":
		return t + "+no-pq(" + r.Ext + ")"
	case "undecodable":
		return t + "+undecodable"
	case "malformed":
		return t + "+malformed(" + r.Mal + ")"
	case "pq":
		if r.Ver != "1" {
			return t + "+version(" + r.Ver + ")"
		}
		switch {
		case r.Text == "":
			return "hash-only(" + hashClass(r.Hash) + ")"
		case r.Hash == "h:"+r.Text:
			return "text+correct-hash"
		case r.Hash == "u:"+r.Text:
			return "text+own-hash-in-upper-case-hex"
		case strings.HasPrefix(r.Hash, "h:") && twinBase(r.Text) == twinBase(r.Hash[2:]):
			return "text+hash-of-its-near-twin"
		default:
			return "text+wrong-hash(" + hashClass(r.Hash) + ")"
		}
	}
	return "?"
}

func hashClass(h string) string {
	if strings.HasPrefix(h, "h:") {
		return "hash-of-a-text"
	}
	if strings.HasPrefix(h, "u:") {
		return "upper-case-hex-of-a-text-hash"
	}
	return h
}

// A text named <base>x is a NEAR-TWIN of <base>: a text that a lossy
// normalisation would identify with it, but whose SHA-256 differs.
func isTwin(t string) bool   { return len(t) > 1 && strings.HasSuffix(t, "x") }
func twinBase(t string) string { return strings.TrimSuffix(t, "x") }

// twinKinds: how the twin differs from its base. f is the root field both
// select, g a second field that only the "comment-cr" twin selects (a lone CR
// is a GraphQL line terminator and ends the comment). All texts are valid.
var twinKinds = []string{"cr-insert", "crlf", "comment-cr", "trailing-newline", "bom", "leading-space", "trailing-space", "tab-for-space", "unicode-escape", "comma"}

func twinPair(kind, f, g string) (base, twin, twinSig string) {
	switch kind {
	case "cr-insert":
		return "{ " + f + " }", "{\r " + f + " }", f
	case "crlf":
		return "query {\n  " + f + "\n}\n", "query {\r\n  " + f + "\r\n}\r\n", f
	case "comment-cr":
		return "query {\n  " + f + "\n  # " + g + "\n}", "query {\n  " + f + "\n  #\r " + g + "\n}", sigOf(f, g)
	case "trailing-newline":
		return "{ " + f + " }", "{ " + f + " }\n", f
	case "bom":
		return "{ " + f + " }", "\ufeff{ " + f + " }", f
	case "leading-space":
		return "{ " + f + " }", " { " + f + " }", f
	case "trailing-space":
		return "{ " + f + " }", "{ " + f + " } ", f
	case "tab-for-space":
		return "{ " + f + " }", "{\t" + f + " }", f
	case "unicode-escape":
		return "{ " + f + `(x: "caf\u00e9") }`, "{ " + f + "(x: \"caf\u00e9\") }", f
	case "comma":
		return "{ " + f + " }", "{ " + f + ", }", f
	}
	panic("unknown twin kind " + kind)
}

func sigOf(fs ...string) string {
	sort.Strings(fs)
	return strings.Join(fs, ",")
}

// coarse maps the specification's outcome class to what the harness can tell
// apart structurally (same table as ApqTrace!Coarse).
func coarse(c string) string {
	switch c {
	case "parse", "noop":
		return "postreject"
	case "mismatch", "invalid", "version":
		return "apqreject"
	}
	return c
}

func sha(s string) string {
	b := sha256.Sum256([]byte(s))
	return hex.EncodeToString(b[:])
}

// conc fixes, for one history, the concrete text of every abstract text and
// the concrete value of every abstract wrong hash.
type conc struct {
	rnd    *rand.Rand
	Text   map[string]string // abstract text -> concrete
	Field  map[string]string // abstract valid text -> root field it selects
	Sig    map[string]string // abstract valid text -> root fields its operation selects (sorted, comma separated)
	Twin   string            // how the near-twins of this history differ from their bases
	Hash   map[string]string // abstract hash -> concrete
	rText  map[string]string
	rHash  map[string]string
	Method string // POST | GET | mix
	// history-dependent wrong hashes: a generic wrong hash sent together with a
	// text is, every other time, the SHA-256 of (text of the previous request of
	// this client ++ this text) - the digest a hasher that carried state over
	// from the previous request would compute. Still a hash no text of the
	// alphabet hashes to; registered in rHash under the abstract name it stands for.
	hmu      *sync.Mutex
	lastText string
	lastMis  bool // the previous request of this client carried a text and a 64-character hash that is not its own
}

// carryHashes counts the history-dependent wrong hashes sent (all histories).
var carryHashes int64

var fieldOf = map[string]string{"q1": "a", "q2": "b", "q3": "c", "q4": "d", "q5": "e", "q6": "f"}

func validVariants(f string) []string {
	return []string{
		"{ " + f + " }", "{" + f + "}", "query { " + f + " }", "query Q { " + f + " }",
		"# café \"quoted\" \\ &=+%\n{ " + f + " }", "{\n\t" + f + "\n}", "query Q{" + f + " " + f + "}",
		" { " + f + " }", "{ " + f + " }\n", "\t{ " + f + " } ",
	}
}

var badVariants = [][]string{
	{"{ a", "query {", "}{", "{ a } }", "é"},                              // syntax errors
	{"{ nosuch }", "{ a { x } }", "{ a(arg: 1) }", "query($v: Int){ a }"}, // validation errors
	{" ", "\n", "# only a comment"},                                       // no operation at all (non-empty text)
}

func newConc(rnd *rand.Rand, texts, valid []string, wrong []string, method string) *conc {
	return newConcTwin(rnd, texts, valid, wrong, method, twinKinds[rnd.Intn(len(twinKinds))])
}

func newConcTwin(rnd *rand.Rand, texts, valid []string, wrong []string, method, twinKind string) *conc {
	c := &conc{rnd: rnd, Text: map[string]string{}, Field: map[string]string{}, Sig: map[string]string{}, Hash: map[string]string{},
		rText: map[string]string{}, rHash: map[string]string{}, Method: method, Twin: twinKind, hmu: &sync.Mutex{}}
	hasTwin := map[string]bool{}
	for _, t := range texts {
		if isTwin(t) {
			hasTwin[twinBase(t)] = true
		}
	}
	isValid := map[string]bool{}
	for _, v := range valid {
		isValid[v] = true
	}
	nb := rnd.Intn(len(badVariants))
	for _, t := range texts {
		var s string
		if isValid[t] {
			f := fieldOf[twinBase(t)]
			vs := validVariants(f)
			s = vs[rnd.Intn(len(vs))]
			c.Field[t], c.Sig[t] = f, f
			if hasTwin[t] || isTwin(t) {
				// a base / twin pair: both fixed by the twin kind ("f" is the field only
				// a comment-cr twin selects in addition)
				b, tw, twSig := twinPair(twinKind, f, "f")
				if isTwin(t) {
					s, c.Sig[t] = tw, twSig
				} else {
					s = b
				}
			}
		} else {
			for {
				fam := badVariants[nb%len(badVariants)]
				nb++
				s = fam[rnd.Intn(len(fam))]
				if _, dup := c.rText[s]; !dup {
					break
				}
			}
		}
		c.Text[t] = s
		c.rText[s] = t
		c.Hash["h:"+t] = sha(s)
		c.rHash[sha(s)] = "h:" + t
	}
	first := c.Hash["h:"+texts[0]]
	for _, w := range wrong {
		var s string
		switch {
		case strings.HasPrefix(w, "u:"):
			// the upper-case hex spelling of a text's digest
			s = strings.ToUpper(c.Hash["h:"+w[2:]])
		case w == "x:empty":
			s = ""
		default:
			// (an upper-case spelling of a correct digest is NOT used as a wrong
			// hash: it denotes the same SHA-256 value, and whether a server
			// treats it as equal is outside C15)
			t0 := c.Text[texts[0]]
			k := rnd.Intn(6)
			if strings.TrimSpace(t0) != t0 && rnd.Intn(2) == 0 {
				k = 6
			}
			switch k {
			case 6:
				// near miss: the hash of the first text without its outer whitespace
				s = sha(strings.TrimSpace(t0))
			case 0:
				s = sha(t0 + " ")
			case 1:
				s = first + " "
			case 2:
				s = first[:63]
			case 3:
				s = sha("{ zzz }" + w)
			case 4:
				s = "deadbeef"
			default:
				b := make([]byte, 32)
				rnd.Read(b)
				s = hex.EncodeToString(b)
			}
			if _, dup := c.rHash[s]; dup {
				s = sha("wrong " + w)
			}
		}
		c.Hash[w] = s
		c.rHash[s] = w
	}
	return c
}

func (c *conc) absText(s string) string {
	if s == "" {
		return ""
	}
	if t, ok := c.rText[s]; ok {
		return t
	}
	return "?text:" + s
}

func (c *conc) absHash(s string) string {
	c.hmu.Lock()
	defer c.hmu.Unlock()
	if h, ok := c.rHash[s]; ok {
		return h
	}
	return "?hash:" + s
}

func jstr(s string) string {
	b, _ := json.Marshal(s)
	return string(b)
}

// extJSON renders the value of "extensions" for a request ("" = leave it out).
func (c *conc) extJSON(r AReq, get bool) string {
	h := c.Hash[r.Hash]
	if r.Ext == "pq" && r.Ver == "1" && r.Text != "" && c.lastText != "" && len(h) == 64 &&
		!strings.HasPrefix(r.Hash, "h:") && !strings.HasPrefix(r.Hash, "u:") && r.Hash != "x:empty" && (c.rnd.Intn(2) == 0 || c.lastMis) {
		cat := sha(c.lastText + c.Text[r.Text])
		c.hmu.Lock()
		if _, dup := c.rHash[cat]; !dup {
			c.rHash[cat] = r.Hash
			h = cat
			atomic.AddInt64(&carryHashes, 1)
		} else if c.rHash[cat] == r.Hash {
			h = cat
			atomic.AddInt64(&carryHashes, 1)
		}
		c.hmu.Unlock()
	}
	hashField := func() string {
		if r.Hash == "x:empty" && c.rnd.Intn(2) == 0 {
			return "" // sha256Hash absent
		}
		return `"sha256Hash":` + jstr(h)
	}
	join := func(parts ...string) string {
		var ps []string
		for _, p := range parts {
			if p != "" {
				ps = append(ps, p)
			}
		}
		if c.rnd.Intn(2) == 0 {
			for i, j := 0, len(ps)-1; i < j; i, j = i+1, j-1 {
				ps[i], ps[j] = ps[j], ps[i]
			}
		}
		return "{" + strings.Join(ps, ",") + "}"
	}
	pq := func(v string) string { return `{"persistedQuery":` + v + `}` }
	switch r.Ext {
	case "none":
		return ""
	case "null":
		alts := []string{"null", "{}", `{"persistedQuery":null}`, `{"other":{"sha256Hash":"x","version":1}}`}
		return alts[c.rnd.Intn(len(alts))]
	case "undecodable":
		alts := []string{`"str"`, `[1]`, `7`, `true`}
		if get {
			alts = append(alts, `{`, `{"persistedQuery":`, `nul`)
		}
		return alts[c.rnd.Intn(len(alts))]
	case "malformed":
		switch r.Mal {
		case "pq_string":
			return pq([]string{`"asdf"`, jstr(h), `""`}[c.rnd.Intn(3)])
		case "pq_list":
			return pq([]string{`[1,2]`, `[]`, `[{"version":1}]`}[c.rnd.Intn(3)])
		case "pq_number":
			return pq([]string{`5`, `1`, `0`, `1.5`}[c.rnd.Intn(4)])
		case "pq_bool":
			return pq([]string{`true`, `false`}[c.rnd.Intn(2)])
		case "ver_string":
			return pq(join(`"version":`+[]string{`"1"`, `"one"`, `""`}[c.rnd.Intn(3)], hashField()))
		case "ver_float":
			return pq(join(`"version":`+[]string{`1.5`, `1.0`, `1e0`, `0.1`}[c.rnd.Intn(4)], hashField()))
		case "hash_object":
			return pq(join(`"version":1`, `"sha256Hash":`+[]string{`{"v":` + jstr(h) + `}`, `[` + jstr(h) + `]`}[c.rnd.Intn(2)]))
		}
	case "pq":
		var v string
		switch r.Ver {
		case "1":
			v = `"version":1`
		case "2":
			v = `"version":2`
		case "0":
			v = `"version":0`
		case "absent":
			v = ""
		case "neg":
			v = `"version":-1`
		case "big":
			v = `"version":1099511627776`
		default:
			panic("unknown version " + r.Ver)
		}
		extra := ""
		if c.rnd.Intn(4) == 0 {
			extra = `"unknownKey":"ignored"`
		}
		return pq(join(v, hashField(), extra))
	}
	panic(fmt.Sprintf("cannot render extension of %+v", r))
}

// wire renders an abstract request as a concrete HTTP request.
func (c *conc) wire(r AReq) wire {
	m := c.Method
	if m == "mix" {
		m = []string{"POST", "GET"}[c.rnd.Intn(2)]
	}
	text := c.Text[r.Text] // "" for NoText
	defer func() {
		if text != "" {
			c.lastText = text
		}
		c.lastMis = r.Ext == "pq" && r.Ver == "1" && text != "" && len(c.Hash[r.Hash]) == 64 && c.Hash[r.Hash] != sha(text)
	}()
	if m == "GET" {
		ext := c.extJSON(r, true)
		q := url.Values{}
		if text != "" || c.rnd.Intn(2) == 0 {
			q.Set("query", text)
		}
		if ext != "" {
			q.Set("extensions", ext)
		}
		if c.rnd.Intn(3) == 0 {
			q.Set("operationName", "")
		}
		return wire{Method: "GET", Query: q.Encode()}
	}
	ext := c.extJSON(r, false)
	var parts []string
	switch {
	case text != "":
		parts = append(parts, `"query":`+jstr(text))
	default:
		switch c.rnd.Intn(3) {
		case 0:
			parts = append(parts, `"query":""`)
		case 1:
			parts = append(parts, `"query":null`)
		}
	}
	if ext != "" {
		parts = append(parts, `"extensions":`+ext)
	}
	if c.rnd.Intn(2) == 0 {
		for i, j := 0, len(parts)-1; i < j; i, j = i+1, j-1 {
			parts[i], parts[j] = parts[j], parts[i]
		}
	}
	ct := []string{"application/json", "application/json; charset=utf-8"}[c.rnd.Intn(2)]
	return wire{Method: "POST", Body: "{" + strings.Join(parts, ",") + "}", CType: ct}
}

// seen is the abstraction of what the server did with one request.
type seen struct {
	Out     AOut     `json:"out"`
	Pre     AState   `json:"state_before"`  // OBSERVED BINDING before / after (what Get / Add last showed the cache to bind)
	State   AState   `json:"state"`
	Chg     bool     `json:"changed_cache"` // one of this request's Adds changed the observed binding
	BoundOK bool     `json:"bound_ok"`      // real sha256(value) == key for every entry of the real cache
	BoundEx string   `json:"bound_counterexample,omitempty"`
	Fine    string   `json:"fine"`            // class read from the error message / code (informative)
	Code    string   `json:"code"`            // extensions.code of the first error
	Msg     string   `json:"msg"`             // message of the first error
	HTTP    int      `json:"status"`          // HTTP status
	Notes   []string `json:"notes,omitempty"` // implementation-level oddities (RawQuery label, ...)
}

type gqlResp struct {
	Data   json.RawMessage `json:"data"`
	Errors []struct {
		Message    string         `json:"message"`
		Extensions map[string]any `json:"extensions"`
	} `json:"errors"`
}

func (c *conc) absState(kind string, capacity int, snap *snapshot) AState {
	st := AState{Kind: kind, Cap: capacity}
	for _, e := range snap.Ents {
		st.Ents = append(st.Ents, [2]string{c.absHash(e.Key), c.absText(e.Val)})
	}
	for _, k := range snap.Order {
		st.Order = append(st.Order, c.absHash(k))
	}
	st.norm()
	return st
}

// abstract turns the reply + in-server observation + cache contents before
// and after into Apq's alphabet.
//
//	submit: text seen by the mutator placed after the APQ extension ("-": not reached)
//	exec:   text identified by the root fields in the response data of an
//	        execution that really happened ("-": nothing executed)
//	class:  data | postreject | notfound | apqreject | decode | odd:<what>
func (c *conc) abstract(kind string, capacity int, rp *reply, o *obs, pre, snap *snapshot) seen {
	var s seen
	s.HTTP = rp.Status
	s.Pre = c.absState(kind, capacity, pre)
	s.State = c.absState(kind, capacity, snap)
	s.BoundOK = true
	for _, e := range snap.Ents {
		if !strings.EqualFold(sha(e.Val), e.Key) {
			s.BoundOK = false
			s.BoundEx = fmt.Sprintf("cache binds hash %q to text %q whose SHA-256 is %s", e.Key, e.Val, sha(e.Val))
			break
		}
	}
	s.Out.Ops = []AOp{}
	for _, op := range o.Ops {
		a := AOp{Op: op.Op, H: c.absHash(op.Key)}
		if op.Op == "get" && !op.Hit {
			a.T = none
		} else {
			a.T = c.absText(op.Val)
		}
		s.Out.Ops = append(s.Out.Ops, a)
		if op.Chg {
			s.Chg = true
		}
	}
	s.Out.Submit, s.Out.Exec = none, none
	if o.Submit != nil {
		s.Out.Submit = c.absText(*o.Submit)
	}
	var g gqlResp
	if err := json.Unmarshal([]byte(rp.Body), &g); err != nil {
		s.Out.Class = "odd:response body is not JSON"
		return s
	}
	hasData := len(g.Data) > 0 && string(g.Data) != "null"
	if len(g.Errors) > 0 {
		s.Msg = g.Errors[0].Message
		if code, ok := g.Errors[0].Extensions["code"].(string); ok {
			s.Code = code
		}
	}
	switch {
	case s.Msg == "PersistedQueryNotFound" || s.Code == "PERSISTED_QUERY_NOT_FOUND":
		s.Fine = "notfound"
	case s.Msg == "provided APQ hash does not match query":
		s.Fine = "mismatch"
	case s.Msg == "invalid APQ extension data":
		s.Fine = "invalid"
	case s.Msg == "unsupported APQ version":
		s.Fine = "version"
	case strings.Contains(s.Msg, "could not be decoded"):
		s.Fine = "decode"
	case s.Msg == "no operation provided":
		s.Fine = "noop"
	case s.Code == "GRAPHQL_PARSE_FAILED" || s.Code == "GRAPHQL_VALIDATION_FAILED":
		s.Fine = "parse"
	case len(g.Errors) == 0 && hasData:
		s.Fine = "data"
	default:
		s.Fine = "other"
	}
	if len(o.Execs) > 0 {
		// Something was executed. WHICH operation is read off the data (the mock
		// resolves exactly the root fields of the parsed operation).
		var d map[string]string
		s.Out.Exec = "?exec:" + string(g.Data)
		if json.Unmarshal(g.Data, &d) == nil && len(d) >= 1 {
			// the operation executed, identified by the root fields it resolved. Texts
			// that select the same fields (a text and its purely textual near-twin) are
			// the same operation: the one handed to the executor is named if it is among them.
			var fs []string
			ok := true
			for k, v := range d {
				fs = append(fs, k)
				ok = ok && v == "v-"+k
			}
			if ok {
				sig := sigOf(fs...)
				var cands []string
				for t, ts := range c.Sig {
					if ts == sig {
						cands = append(cands, t)
					}
				}
				sort.Strings(cands)
				for i, t := range cands {
					if i == 0 || t == s.Out.Submit {
						s.Out.Exec = t
					}
				}
			}
		}
		if len(o.Execs) != 1 {
			s.Notes = append(s.Notes, fmt.Sprintf("%d executions for one request", len(o.Execs)))
		}
		if o.Submit != nil && o.Execs[0] != *o.Submit {
			s.Notes = append(s.Notes, fmt.Sprintf("OperationContext.RawQuery %q is not the text handed to the executor", o.Execs[0]))
		}
		if len(g.Errors) > 0 || !hasData {
			s.Out.Class = "odd:executed but the response carries errors or no data"
			return s
		}
		s.Out.Class = "data"
		return s
	}
	switch {
	case hasData:
		s.Out.Class = "odd:data without any execution"
	case len(g.Errors) == 0:
		s.Out.Class = "odd:neither data nor errors"
	case o.Submit != nil:
		s.Out.Class = "postreject"
	case !o.Pre:
		s.Out.Class = "decode"
	case s.Msg == "PersistedQueryNotFound":
		s.Out.Class = "notfound"
	default:
		s.Out.Class = "apqreject"
	}
	return s
}

// diff lists the fields in which an observation differs from the
// IMPLEMENTATION-level outcome and successor state (drift, not a verdict).
func diff(want AOut, wantT AState, got seen) []string {
	var d []string
	if coarse(want.Class) != got.Out.Class {
		d = append(d, "class")
	}
	if want.Submit != got.Out.Submit {
		d = append(d, "submit")
	}
	if want.Exec != got.Out.Exec {
		d = append(d, "exec")
	}
	wo, _ := json.Marshal(normOps(want.Ops))
	gotOps, _ := json.Marshal(normOps(got.Out.Ops))
	if string(wo) != string(gotOps) {
		d = append(d, "ops")
	}
	// The contents and the recency order of the real cache are not observable
	// without disturbing them; they are compared through the RESULTS of the
	// cache operations (ops, above: every Get with hit / miss and value), the
	// hash-only sweep that ends every tour, and the state identification of
	// the LRU phase (lru.go). What can be compared here: nothing the public
	// API has shown the cache to bind may contradict the model's contents.
	wantT.norm()
	wantE := map[string]string{}
	for _, e := range wantT.Ents {
		wantE[e[0]] = e[1]
	}
	for _, op := range got.Out.Ops {
		if t, in := wantE[op.H]; (op.T != none) != in || (in && op.T != t) {
			d = append(d, "cache")
			break
		}
	}
	if len(got.Notes) > 0 {
		d = append(d, "rawquery")
	}
	return d
}

func normOps(o []AOp) []AOp {
	if o == nil {
		return []AOp{}
	}
	return o
}
