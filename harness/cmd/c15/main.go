// C15: the persisted-query cache binds a hash only to the text that hashes to it.
//
// The real caches (graphql.MapCache, graphql/handler/lru) are observed ONLY
// through the public graphql.Cache API (Get / Add) by a recording decorator:
// any implementation of them is judged by its behaviour.
//
//  0. Phase L (lru.go): spec/Lru.tla - the LRU as a machine of its own - is
//     checked exhaustively by TLC and the real lru.New[string](N) is driven
//     through every edge of its state graph, state-identification suffixes
//     and long random histories; TLC judges every Get (LruTrace).
//  1. TLC checks spec/Apq.tla exhaustively (MC_Apq*.cfg: all request forms,
//     histories of any length; MC_ApqHist*.cfg: with the history variable)
//     and prints the complete labelled state graph of the bounded model.
//  2. Mechanism A: tours covering EVERY edge of that graph are replayed
//     against a real handler.Server with the real AutomaticPersistedQuery
//     extension over the real MapCache / real LRU; after every request the
//     cache contents and recency order, the text handed to the executor, the
//     response class, the cache operations and the resolver log are compared
//     with the successor state and outcome TLC printed.
//     Phase E: the same over MC_ApqEvict*.cfg (LRU capacity 1..3, more texts
//     than capacity: the cache is full and evicts), plus one scenario per
//     evicting edge (hash-only for the evicted hash, re-registration of it).
//     Phase T: the near-twin model MC_ApqTwin.cfg (the hash is an explicit
//     function Text -> HashValue; texts that a lossy normalisation would
//     identify; upper-case spelling of a digest); two negative configurations
//     with a non-injective hash must be refuted by TLC; per twin kind the
//     scenarios "each twin sent with the real SHA-256 of the other"; scenarios
//     with a parsed-document cache where a wrong-hash request comes first.
//  3. Mechanism B: long random histories (sequential and with concurrent
//     clients, POST bodies and GET query strings, bigger alphabet, LRU
//     capacity 1..4 with eviction) are recorded and validated by TLC against
//     spec/ApqTrace.tla.
package main

import (
	"sync/atomic"
	"fmt"
	"math/rand"
	"net"
	"os"
	"regexp"
	"sort"
	"strconv"
	"strings"
	"time"

	"verifharness/vlib"
)

var reAct = regexp.MustCompile(`(?m)^<(\w+) line \d+, col \d+ to line \d+, col \d+ of module Apq>: (\d+):(\d+)`)

var apqActions = []string{"TextOnly", "Undecodable", "Malformed", "WrongVersion", "HashOnlyHit", "HashOnlyMiss", "TextHashMismatch", "TextHashOK"}

func loopbackWorks() bool {
	l, err := net.Listen("tcp", "127.0.0.1:0")
	if err != nil {
		return false
	}
	l.Close()
	return true
}

func main() {
	if rp := os.Getenv("VERIF_REPLAY"); rp != "" {
		runReplayFile(rp)
	}
	c := vlib.NewCheck("C15", "model_checking")
	thorough := vlib.Tier() == "thorough"
	seed := vlib.Seed()
	rep := &reporter{c: c, seenKeys: map[string]int{}, soft: map[string]int{}, drifts: map[string]int{}}
	scratch := vlib.Work("C15")
	_ = os.RemoveAll(scratch)

	// ---- 1. model checking -------------------------------------------------
	cfg, hist := "MC_Apq.cfg", "MC_ApqHist.cfg"
	texts, valid := []string{"q1", "q2", "bad"}, []string{"q1", "q2"}
	if thorough {
		cfg, hist = "MC_Apq_thorough.cfg", "MC_ApqHist_thorough.cfg"
		texts, valid = []string{"q1", "q2", "q3", "bad"}, []string{"q1", "q2", "q3"}
	}
	wrong := []string{"x:rand", "x:empty"}
	histDone := make(chan *vlib.TLCResult, 1)
	go func() {
		r, err := vlib.RunTLC(vlib.TLCOpts{Module: "MC_Apq", Config: hist, Workers: 4, Scratch: scratch + "/mc-hist", Timeout: 15 * time.Minute})
		if err != nil {
			r = &vlib.TLCResult{Output: err.Error()}
		}
		histDone <- r
	}()
	// ---- 0. phase L: the LRU itself ------------------------------------------
	ls := rep.runLru(scratch, thorough, seed)
	tMC0 := time.Now()

	mc, err := vlib.RunTLC(vlib.TLCOpts{Module: "MC_Apq", Config: cfg, Workers: 1, Coverage: true, Scratch: scratch + "/mc", Timeout: 10 * time.Minute})
	if err != nil {
		vlib.Infra("TLC: %v", err)
	}
	if !mc.OK {
		vlib.Infra("TLC reports an error on the model itself (%s):\n%s", cfg, tailStr(mc.Output, 4000))
	}
	gen := map[string]int64{}
	for _, m := range reAct.FindAllStringSubmatch(mc.Output, -1) {
		n, _ := strconv.ParseInt(m[3], 10, 64)
		gen[m[1]] += n
	}
	for _, a := range apqActions {
		if gen[a] == 0 {
			vlib.Infra("vacuous model: action %s of Apq was never taken (%s)", a, cfg)
		}
	}
	c.AddStates(mc.Distinct, mc.Generated)
	tMC := time.Since(tMC0).Seconds()
	fmt.Fprintf(os.Stderr, "[c15] TLC %s: %d distinct states, %d generated, %.1fs\n", cfg, mc.Distinct, mc.Generated, mc.WallS)

	// ---- 2. mechanism A: replay of every edge ------------------------------
	tA := time.Now()
	g, err := parseGraph(mc.Printed)
	if err != nil {
		vlib.Infra("state graph: %v", err)
	}
	if int64(len(g.edges)) != mc.Generated-int64(len(g.inits)) {
		vlib.Infra("state graph incomplete: %d edges printed, TLC generated %d states (%d initial)", len(g.edges), mc.Generated, len(g.inits))
	}
	maxLen := 40
	if thorough {
		maxLen = 80
	}
	paths, err := g.tours(rand.New(rand.NewSource(seed)), maxLen)
	if err != nil {
		vlib.Infra("edge cover: %v", err)
	}
	for i := range paths {
		paths[i] = g.withSweep(paths[i], texts)
	}
	tcp := loopbackWorks()
	type mode struct {
		method string
		qcache bool
		tcp    bool
	}
	modes := []mode{{"POST", false, false}, {"GET", false, false}, {"mix", true, tcp}}
	nreq, nreplays, ndrifted := 0, 0, 0
	var ahs []*history
	for i, p := range paths {
		st := p[0].S
		for j, m := range modes {
			ro := rigOpts{Kind: st.Kind, Cap: st.Cap, QCache: m.qcache, TCP: m.tcp}
			h, err := rep.replayPath(fmt.Sprintf("t%03d-%s", i, m.method), p, texts, valid, wrong, ro, m.method, seed*1000003+int64(i)*7+int64(j))
			if err != nil {
				vlib.Infra("replay: %v", err)
			}
			ahs = append(ahs, h)
			nreq += len(h.Steps)
			nreplays++
			if h.Drifted {
				ndrifted++
			}
		}
		if i == 0 {
			var s []string
			for _, e := range p {
				s = append(s, fmt.Sprintf("%s => %s/%s", e.A.form(), e.O.Class, e.O.Submit))
				if len(s) >= 12 {
					break
				}
			}
			c.Sample(map[string]any{"mechanism": "A", "cache": st.Kind, "cap": st.Cap, "path_len": len(p), "first_requests": s})
		}
	}
	fmt.Fprintf(os.Stderr, "[c15] A: %d states, %d edges, %d covering paths (max length %d), %d replays (%d left the implementation-level machine), %d requests, %.1fs\n",
		len(g.nodes), len(g.edges), len(paths), maxLen, nreplays, ndrifted, nreq, time.Since(tA).Seconds())

	// ---- 2b. phase E: the LRU full and evicting behind the real extension ------
	tE := time.Now()
	ecfg, etexts := "MC_ApqEvict.cfg", []string{"q1", "q2", "q3", "q4"}
	if thorough {
		ecfg, etexts = "MC_ApqEvict_thorough.cfg", []string{"q1", "q2", "q3", "q4", "q5"}
	}
	emc, err := vlib.RunTLC(vlib.TLCOpts{Module: "MC_Apq", Config: ecfg, Workers: 1, Coverage: true, Scratch: scratch + "/mc-evict", Timeout: 10 * time.Minute})
	if err != nil {
		vlib.Infra("TLC: %v", err)
	}
	if !emc.OK {
		vlib.Infra("TLC reports an error on the model itself (%s):\n%s", ecfg, tailStr(emc.Output, 4000))
	}
	for _, a := range []string{"HashOnlyHit", "HashOnlyMiss", "TextHashMismatch", "TextHashOK"} {
		if !actionTaken(emc.Output, a, "Apq") {
			vlib.Infra("vacuous model: action %s of Apq was never taken (%s)", a, ecfg)
		}
	}
	c.AddStates(emc.Distinct, emc.Generated)
	eg, err := parseGraph(emc.Printed)
	if err != nil {
		vlib.Infra("state graph (%s): %v", ecfg, err)
	}
	if int64(len(eg.edges)) != emc.Generated-int64(len(eg.inits)) {
		vlib.Infra("state graph incomplete (%s): %d edges printed, TLC generated %d states (%d initial)", ecfg, len(eg.edges), emc.Generated, len(eg.inits))
	}
	epaths, err := eg.tours(rand.New(rand.NewSource(seed+77)), maxLen)
	if err != nil {
		vlib.Infra("edge cover (%s): %v", ecfg, err)
	}
	for i := range epaths {
		epaths[i] = eg.withSweep(epaths[i], etexts)
	}
	nTours := len(epaths)
	scen := eg.evictionScenarios(etexts)
	if len(scen) == 0 {
		vlib.Infra("vacuous eviction model: no edge of %s evicts", ecfg)
	}
	epaths = append(epaths, scen...)
	var ehs []*history
	ereq, edrifted := 0, 0
	for i, p := range epaths {
		st := p[0].S
		for j, m := range modes {
			if i >= nTours && j == 1 {
				continue // scenarios: POST and mixed only
			}
			ro := rigOpts{Kind: st.Kind, Cap: st.Cap, QCache: m.qcache, TCP: m.tcp && i%4 == 0}
			id := fmt.Sprintf("e%03d-%s", i, m.method)
			if i >= nTours {
				id = fmt.Sprintf("evict%03d-%s", i-nTours, m.method)
			}
			h, err := rep.replayPath(id, p, etexts, etexts, []string{"x:rand"}, ro, m.method, seed*1000033+int64(i)*11+int64(j))
			if err != nil {
				vlib.Infra("replay: %v", err)
			}
			if i >= nTours {
				h.Mech = "E: eviction scenario derived from the state graph (full LRU, evicting registration, hash-only for the evicted hash, re-registration)"
			} else {
				h.Mech = "E: replay of a TLC-generated tour over a full, evicting LRU"
			}
			ehs = append(ehs, h)
			ereq += len(h.Steps)
			if h.Drifted {
				edrifted++
			}
		}
		if i == nTours {
			var s []string
			for _, e := range p {
				s = append(s, fmt.Sprintf("%s %s => %s/%s", e.A.form(), e.A.Hash, e.O.Class, e.O.Submit))
			}
			c.Sample(map[string]any{"mechanism": "E", "cache": st.Kind, "cap": st.Cap, "eviction_scenario": s})
		}
	}
	evSeenE, reAddE := 0, 0
	for _, h := range ehs {
		evSeenE += h.EvSeen
		reAddE += h.ReAdded
	}
	if (evSeenE == 0 || reAddE == 0) && len(rep.drifts) == 0 && c.Violations() == 0 {
		vlib.Infra("vacuous eviction phase: %d hash-only requests for an evicted hash, %d re-registrations of an evicted hash", evSeenE, reAddE)
	}
	fmt.Fprintf(os.Stderr, "[c15] E: TLC %s: %d states, %d edges; %d covering tours + %d eviction scenarios, %d replays (%d left the implementation-level machine), %d requests, %d hash-only requests for an evicted hash, %d re-registrations of an evicted hash, %.1fs\n",
		ecfg, emc.Distinct, len(eg.edges), nTours, len(scen), len(ehs), edrifted, ereq, evSeenE, reAddE, time.Since(tE).Seconds())

	// ---- 2c. phase T: near-twin texts, spellings of a digest, document-cache poisoning ----
	tT := time.Now()
	ttexts, twrong, talts := []string{"q1", "q1x", "q2"}, []string{"x:rand", "u:q1"}, []string{"u:q1"}
	type negRes struct {
		cfg, want string
		r         *vlib.TLCResult
		err       error
	}
	negDone := make(chan negRes, 2)
	for _, n := range []negRes{{cfg: "MC_ApqTwin_neg.cfg", want: "Invariant Bound is violated"}, {cfg: "MC_ApqTwin_neg2.cfg", want: "Action property ImplConforms is violated"}} {
		go func(n negRes) {
			n.r, n.err = vlib.RunTLC(vlib.TLCOpts{Module: "MC_Apq", Config: n.cfg, Workers: 1, Scratch: scratch + "/mc-" + strings.TrimSuffix(n.cfg, ".cfg"), Timeout: 10 * time.Minute})
			negDone <- n
		}(n)
	}
	tmc, err := vlib.RunTLC(vlib.TLCOpts{Module: "MC_Apq", Config: "MC_ApqTwin.cfg", Workers: 1, Coverage: true, Scratch: scratch + "/mc-twin", Timeout: 10 * time.Minute})
	if err != nil {
		vlib.Infra("TLC: %v", err)
	}
	if !tmc.OK {
		vlib.Infra("TLC reports an error on the model itself (MC_ApqTwin.cfg):\n%s", tailStr(tmc.Output, 4000))
	}
	for _, a := range []string{"HashOnlyHit", "HashOnlyMiss", "TextHashMismatch", "TextHashOK"} {
		if !actionTaken(tmc.Output, a, "Apq") {
			vlib.Infra("vacuous model: action %s of Apq was never taken (MC_ApqTwin.cfg)", a)
		}
	}
	c.AddStates(tmc.Distinct, tmc.Generated)
	tg, err := parseGraph(tmc.Printed)
	if err != nil {
		vlib.Infra("state graph (MC_ApqTwin.cfg): %v", err)
	}
	if int64(len(tg.edges)) != tmc.Generated-int64(len(tg.inits)) {
		vlib.Infra("state graph incomplete (MC_ApqTwin.cfg): %d edges printed, TLC generated %d states (%d initial)", len(tg.edges), tmc.Generated, len(tg.inits))
	}
	tpaths, err := tg.tours(rand.New(rand.NewSource(seed+99)), maxLen)
	if err != nil {
		vlib.Infra("edge cover (MC_ApqTwin.cfg): %v", err)
	}
	var ths []*history
	treq, tdrifted := 0, 0
	addT := func(h *history, mech string) {
		h.Mech = mech
		ths = append(ths, h)
		treq += len(h.Steps)
		if h.Drifted {
			tdrifted++
		}
	}
	for i, p := range tpaths {
		p = tg.withSweep(p, ttexts)
		for j, m := range modes {
			ro := rigOpts{Kind: p[0].S.Kind, Cap: p[0].S.Cap, QCache: m.qcache, TCP: m.tcp && i%4 == 0}
			h, err := rep.replayPathTwin(fmt.Sprintf("w%03d-%s", i, m.method), p, ttexts, ttexts, twrong, ro, m.method, seed*1000037+int64(i)*13+int64(j), twinKinds[(i+j)%len(twinKinds)])
			if err != nil {
				vlib.Infra("replay: %v", err)
			}
			addT(h, "T: replay of a TLC-generated tour over the near-twin alphabet (twin kind "+h.cc.Twin+")")
		}
	}
	tscen := tg.twinScenarios(ttexts, talts)
	if len(tscen) == 0 {
		vlib.Infra("vacuous near-twin model: no twin scenario is a path of MC_ApqTwin.cfg")
	}
	for i, p := range tscen {
		for k, kind := range twinKinds {
			for j, m := range modes {
				ro := rigOpts{Kind: p[0].S.Kind, Cap: p[0].S.Cap, QCache: m.qcache, TCP: m.tcp && (i+k)%8 == 0}
				h, err := rep.replayPathTwin(fmt.Sprintf("twin%02d-%s-%s", i, kind, m.method), p, ttexts, ttexts, twrong, ro, m.method, seed*1000039+int64(i)*17+int64(k)*5+int64(j), kind)
				if err != nil {
					vlib.Infra("replay: %v", err)
				}
				addT(h, "T: near-twin scenario ("+kind+"): each twin sent with the SHA-256 of the other must be rejected, execute nothing, register nothing; each digest keeps resolving to its own pre-image")
			}
		}
		if i == 0 {
			var s []string
			for _, e := range p {
				s = append(s, fmt.Sprintf("%s [%s,%s] => %s/%s", e.A.form(), e.A.Text, e.A.Hash, e.O.Class, e.O.Submit))
			}
			c.Sample(map[string]any{"mechanism": "T", "cache": p[0].S.Kind, "cap": p[0].S.Cap, "near_twin_scenario": s, "twin_kinds": twinKinds})
		}
	}
	pscen := tg.poisonScenarios(ttexts)
	if len(pscen) == 0 {
		vlib.Infra("vacuous model: no document-cache poisoning scenario is a path of MC_ApqTwin.cfg")
	}
	for i, p := range pscen {
		for j, method := range []string{"POST", "GET"} {
			for _, qs := range []int{1, 4} {
				ro := rigOpts{Kind: p[0].S.Kind, Cap: p[0].S.Cap, QCache: true, QSize: qs, TCP: tcp && i%12 == 0 && j == 0}
				h, err := rep.replayPath(fmt.Sprintf("doc%03d-%s-q%d", i, method, qs), p, ttexts, ttexts, twrong, ro, method, seed*1000081+int64(i)*19+int64(j)*3+int64(qs))
				if err != nil {
					vlib.Infra("replay: %v", err)
				}
				addT(h, fmt.Sprintf("T: parsed-document cache (capacity %d) configured alongside APQ: a text sent with the hash of another text is rejected first, then that hash is used", qs))
			}
		}
	}
	nTwinReq, nUpperReq := 0, 0
	for _, h := range ths {
		for _, st := range h.Steps {
			switch st.Req.form() {
			case "text+hash-of-its-near-twin":
				nTwinReq++
			case "text+own-hash-in-upper-case-hex":
				nUpperReq++
			}
		}
	}
	if nTwinReq == 0 || nUpperReq == 0 {
		vlib.Infra("vacuous near-twin phase: %d twin-with-the-other's-hash requests, %d upper-case spellings", nTwinReq, nUpperReq)
	}
	for i := 0; i < 2; i++ {
		n := <-negDone
		if n.err != nil {
			vlib.Infra("TLC (%s): %v", n.cfg, n.err)
		}
		if n.r.OK || !strings.Contains(n.r.Output, n.want) {
			vlib.Infra("the NEGATIVE configuration %s (non-injective hash: near-twins collide) is not refuted by TLC as expected (%q):\n%s", n.cfg, n.want, tailStr(n.r.Output, 3000))
		}
	}
	fmt.Fprintf(os.Stderr, "[c15] T: TLC MC_ApqTwin.cfg: %d states, %d edges; negative configs (twins collide) refuted: Bound, ImplConforms; %d tours + %d twin scenarios x %d twin kinds + %d document-cache scenarios = %d replays (%d left the implementation-level machine), %d requests, %d twin-with-the-other's-hash, %d upper-case spellings, %.1fs\n",
		tmc.Distinct, len(tg.edges), len(tpaths), len(tscen), len(twinKinds), len(pscen), len(ths), tdrifted, treq, nTwinReq, nUpperReq, time.Since(tT).Seconds())

	// ---- 3. mechanism B: random histories validated by TLC ------------------
	tB := time.Now()
	nh, hlen := 36, 250
	if thorough {
		nh, hlen = 240, 600
	}
	rnd := rand.New(rand.NewSource(seed ^ 0x5eed))
	var hs []*history
	for i := 0; i < nh; i++ {
		ro := rigOpts{Kind: "lru", Cap: 1 + rnd.Intn(4), QCache: rnd.Intn(2) == 0, TCP: tcp && i%6 == 5}
		workers := 1
		if i%3 == 2 {
			workers = 4 // concurrent clients, only against the thread-safe LRU
		} else if i%6 == 0 {
			ro.Kind, ro.Cap = "map", 0
		}
		method := []string{"POST", "GET", "mix"}[i%3]
		if workers > 1 {
			method = "mix"
		}
		h, err := record(fmt.Sprintf("h%03d", i), ro, method, hlen, workers, seed*7919+int64(i))
		if err != nil {
			vlib.Infra("recording history: %v", err)
		}
		hs = append(hs, h)
	}
	// what the histories exercised (non-vacuity of B)
	stats := map[string]int{}
	for _, h := range hs {
		for _, s := range h.Steps {
			c.AddEvals(1)
			k := s.Got.Out.Class
			if strings.HasPrefix(k, "inconsistent") {
				k = "inconsistent"
			}
			stats[s.Req.form()+"->"+k]++
			c.Class("B/" + h.Rig.Kind + "/" + s.Req.form() + "->" + k)
		}
		if h.Rig.Kind == "lru" {
			stats["lru:evictions"] += h.EvSeen
			stats["lru:readded"] += h.ReAdded
		}
	}
	if len(hs) > 0 && len(hs[1].Steps) > 0 {
		var s []string
		for _, st := range hs[1].Steps[:min(10, len(hs[1].Steps))] {
			s = append(s, fmt.Sprintf("%s %s => %s/%s observed-binding=%v", st.Wire.Method, st.Req.form(), st.Got.Out.Class, st.Got.Out.Submit, st.Got.State.Ents))
		}
		c.Sample(map[string]any{"mechanism": "B", "cache": hs[1].Rig.Kind, "cap": hs[1].Rig.Cap, "first_requests": s})
	}
	hits, misses := 0, 0
	for k, n := range stats {
		if strings.HasPrefix(k, "hash-only(hash-of-a-text)->") {
			if strings.HasSuffix(k, "notfound") {
				misses += n
			} else {
				hits += n
			}
		}
	}
	if (hits == 0 || misses == 0 || stats["lru:evictions"] == 0) && len(rep.drifts) == 0 && c.Violations() == 0 {
		vlib.Infra("vacuous random histories: %d hash-only hits, %d misses, %d evictions", hits, misses, stats["lru:evictions"])
	}
	// the VERDICT: every observed history (tours of A, histories of B) against the property level
	tV := time.Now()
	all := append(append(append(append([]*history{}, ahs...), ehs...), ths...), hs...)
	badH, events, err := rep.validateProp(all, scratch+"/trace")
	if err != nil {
		vlib.Infra("property-level trace validation: %v", err)
	}
	badBy := map[string]int{}
	for _, h := range all {
		if h.Bad {
			k := h.Mech
			if i := strings.IndexAny(k, "(:"); i > 0 && k[0] != 'T' {
				k = k[:i]
			} else if k[0] == 'T' {
				switch {
				case strings.Contains(k, "near-twin scenario"):
					k = "T/near-twin scenario"
				case strings.Contains(k, "parsed-document cache"):
					k = "T/document-cache scenario"
				default:
					k = "T/tour"
				}
			}
			badBy[k]++
		}
	}
	c.Set("histories_leaving_property_level_by_mechanism", badBy)
	fmt.Fprintf(os.Stderr, "[c15] verdict: %d histories (%d lines) validated by TLC against the property level, %d leave it %v, %.1fs\n",
		len(all), events, badH, badBy, time.Since(tV).Seconds())
	// binding of the verdict path, demonstrated on a history that is itself clean
	selfErr := errNoCandidate
	for _, h := range hs {
		if h.Workers == 1 && !h.Bad {
			if selfErr = rep.selfTest(h, scratch+"/trace"); selfErr != errNoCandidate {
				break
			}
		}
	}
	switch {
	case selfErr == nil:
	case selfErr == errNoCandidate && (len(rep.drifts) > 0 || c.Violations() > 0):
		// an implementation that registers nothing, or no clean history left
		fmt.Fprintf(os.Stderr, "[c15] self-test of the trace validation skipped: %v\n", selfErr)
	case c.Violations() > 0:
		fmt.Fprintf(os.Stderr, "[c15] self-test of the trace validation: %v\n", selfErr)
	default:
		vlib.Infra("%v", selfErr)
	}
	// implementation level, drift only
	implOK, implUnchecked, err := rep.compareImpl(hs, scratch+"/trace")
	if err != nil {
		fmt.Fprintf(os.Stderr, "[c15] implementation-level comparison of the random histories stopped: %v\n", err)
		rep.drift("B:comparison-stopped", err.Error())
	}
	fmt.Fprintf(os.Stderr, "[c15] B: %d histories x %d requests (%d concurrent), %d follow the implementation-level machine exactly (%d not compared), hash-only hits %d / misses %d, of which for an evicted hash %d, re-registrations of an evicted hash %d, %.1fs\n",
		len(hs), hlen, nh/3, implOK, implUnchecked, hits, misses, stats["lru:evictions"], stats["lru:readded"], time.Since(tB).Seconds())

	// ---- history-variable model check (ran in parallel) ----------------------
	hr := <-histDone
	if !hr.OK {
		vlib.Infra("TLC reports an error on the model itself (%s):\n%s", hist, tailStr(hr.Output, 4000))
	}
	c.AddStates(hr.Distinct, hr.Generated)
	fmt.Fprintf(os.Stderr, "[c15] TLC %s: %d distinct states, %d generated, %.1fs\n", hist, hr.Distinct, hr.Generated, hr.WallS)

	// ---- optional: Apalache discharges the inductive invariant ---------------
	if thorough {
		c.Set("apalache_inductive_invariant", runApalache(scratch+"/apalache"))
	}

	var softKeys []string
	for k, n := range rep.soft {
		softKeys = append(softKeys, fmt.Sprintf("%s x%d", k, n))
	}
	sort.Strings(softKeys)
	if len(softKeys) > 0 {
		fmt.Fprintf(os.Stderr, "[c15] note: error wording differs from the specification's class (not a violation): %v\n", softKeys)
	}
	if softKeys == nil {
		softKeys = []string{}
	}
	c.Set("error_wording_differences", softKeys)
	driftTotal := 0
	for _, n := range rep.drifts {
		driftTotal += n
	}
	if rep.driftEx == nil {
		rep.driftEx = []string{}
	}
	c.Set("impl_level_drift", map[string]any{"total": driftTotal, "by_key": rep.drifts, "examples": rep.driftEx,
		"meaning": "observed behaviour differs from the implementation-level machine of Apq.tla but stays inside the property level of C15; never a verdict"})
	if driftTotal > 0 {
		fmt.Fprintf(os.Stderr, "[c15] impl_level_drift: %d differences in %d classes (the implementation-level actions of spec/Apq.tla no longer describe the code; C15 itself is judged by the property level only)\n", driftTotal, len(rep.drifts))
	}
	c.Set("model", map[string]any{"config": cfg, "distinct_states": mc.Distinct, "edges": len(g.edges), "covering_paths": len(paths),
		"replays": nreplays, "replayed_requests": nreq, "history_config": hist, "history_states": hr.Distinct, "history_transitions": hr.Generated})
	c.Set("lru_model", map[string]any{"config": "MC_Lru.cfg", "distinct_states": ls.States, "edges": ls.Edges,
		"history_states": ls.HistStates, "history_transitions": ls.HistTrans,
		"tours": ls.Tours, "tour_operations": ls.TourOps, "edge_instances_by_action": ls.ByAction,
		"state_identification_runs": ls.IdentRuns, "state_identification_operations": ls.IdentOps, "state_identification_differences": ls.IdentDiffs,
		"random_histories": ls.Random, "random_operations": ls.RandomOps, "get_hits": ls.Hits, "get_misses": ls.Misses, "visible_evictions": ls.Evicts,
		"lines_judged_by_tlc": ls.Lines, "histories_leaving_property_level": ls.BadHistories,
		"meaning": "phase L: spec/Lru.tla (capacity 1..3, 4 keys, 2 values) checked exhaustively; the real lru.New[string](N) driven through every edge (tours), every edge followed by a characterising suffix that identifies contents and recency order by replay, and random histories; observed only through Get/Add; every Get judged by TLC (LruTrace): a hit returning a value never Added under that key is the violation, everything else about hit/miss/recency is implementation-level drift"})
	c.Set("eviction_model", map[string]any{"config": ecfg, "distinct_states": emc.Distinct, "edges": len(eg.edges), "covering_tours": nTours, "eviction_scenarios": len(scen),
		"replays": len(ehs), "replayed_requests": ereq, "hash_only_requests_for_an_evicted_hash": evSeenE, "re_registrations_of_an_evicted_hash": reAddE,
		"meaning": "phase E: Apq composed with the Lru machine (Apq!CacheIsLru) for LRU capacity 1..3 with more valid texts than capacity; every edge replayed through the real AutomaticPersistedQuery{Cache: lru.New[string](N)} behind a real handler, plus one scenario per evicting edge (hash-only for the evicted hash, re-registration of it, hash-only for both); verdict by ApqPropTrace"})
	c.Set("near_twin_model", map[string]any{"config": "MC_ApqTwin.cfg", "distinct_states": tmc.Distinct, "edges": len(tg.edges),
		"negative_configs_refuted": []string{"MC_ApqTwin_neg.cfg: Invariant Bound", "MC_ApqTwin_neg2.cfg: ImplConforms"},
		"twin_kinds": twinKinds, "tours": len(tpaths), "twin_scenarios": len(tscen), "document_cache_scenarios": len(pscen), "replays": len(ths), "replayed_requests": treq,
		"requests_twin_with_the_others_hash": nTwinReq, "requests_own_hash_in_upper_case_hex": nUpperReq,
		"meaning": "phase T: the hash is an explicit function Text -> HashValue (HashOf = true SHA-256, injective on an alphabet with NEAR-TWINS; ImplHash = what the code compares with); TLC refutes the model with a non-injective ImplHash; every edge of the twin model and, for each of the 10 twin kinds, scenarios in which each twin is sent with the real SHA-256 of the other (must be a mismatch, execute nothing, register nothing, and the digest keeps resolving to its own pre-image) are replayed over POST and GET, map and LRU; upper-case hex spellings of a digest; scenarios with a parsed-document cache where a wrong-hash request precedes the use of that hash"})
	c.Set("trace_validation", map[string]any{"histories": len(hs), "requests_each": hlen, "concurrent_histories": nh / 3,
		"lines_validated_property_level": events, "histories_leaving_property_level": badH, "random_histories_matching_impl_level": implOK, "hash_only_hits": hits, "hash_only_misses": misses,
		"hash_only_requests_for_an_evicted_hash": stats["lru:evictions"], "re_registrations_of_an_evicted_hash": stats["lru:readded"]})
	c.Set("wall_s_by_stage", map[string]any{"lru_phase_tlc": ls.TLCs, "lru_phase_replay": ls.Replay, "tlc_model": tMC, "replay": tE.Sub(tA).Seconds(), "eviction_phase": tT.Sub(tE).Seconds(), "near_twin_phase": tB.Sub(tT).Seconds(), "random_histories": time.Since(tB).Seconds()})
	nCarry := atomic.LoadInt64(&carryHashes)
	if nCarry == 0 {
		vlib.Infra("vacuous: no text+wrong-hash request carried the digest of (previous text ++ own text)")
	}
	c.Set("carried_state_wrong_hashes", map[string]any{"requests": nCarry,
		"what": "text + SHA-256 of (text of the client's previous request ++ this text): what a hasher that kept state from the previous request would compute; must be rejected like any other wrong hash (judged by PropRel and by sha256(value) == key on the real cache)"})
	c.Set("exhaustive", true)
	c.Set("rule", "T: like A over the near-twin model (texts q1, its near-twin q1x, q2; upper-case spelling of a digest), plus per twin kind the scenarios of replay.go twinScenarios and the document-cache scenarios; class = (cache kind, request form incl. text+hash-of-its-near-twin, outcome). L: TLC enumerates the complete labelled state graph of the LRU machine Lru.tla (4 keys x 2 values x capacity 1..3); every edge is replayed on the real lru.New[string](N) in tours and once more followed by a characterising suffix; a case class is (capacity, action of Lru.tla); random histories: class (capacity, number of keys). E: like A over the eviction model (LRU only, more texts than capacity) plus one scenario per evicting edge. A: TLC enumerates the complete labelled state graph of the implementation-level machine of Apq for the bounded alphabet (texts x request forms x cache map/LRU cap); every edge is replayed on the real server at least 3 times (POST, GET, mixed+query cache) inside tours from the initial state and compared exactly (differences = impl_level_drift); a case class is (cache kind, request form, specification outcome). B: seeded random histories over a larger alphabet, recorded on the real server. VERDICT: every observed history of A and B is validated by TLC against the property-level relation Apq!PropRel (ApqPropTrace); a case class is (cache kind, request form, observed outcome class). A case is non-trivial by construction: every class is a distinct (form, outcome) pair; evaluations = requests sent.")
	c.Assume("the real caches are observed only through the public graphql.Cache API (Get / Add) by a recording decorator; what the specification calls the cache at the property level is the OBSERVED BINDING (Add(k,v) and a Get hit (k,v) set k -> v, a Get miss forgets k); a wrong binding that no Get ever shows is not seen (every tour / history ends with a hash-only request for every hash)")
	c.Assume("a fresh cache built with the same constructor and driven through the same operations is in the same state (state identification by replay in phase L)")
	c.Assume("the Cache decorator serialises cache operations with its own mutex; a request performs at most one cache operation (checked), which is its linearisation point in concurrent histories")
	c.Assume("SHA-256 is injective on the concrete texts used (the specification's HashOf is injective on the alphabet)")
	c.Assume("a rejection is any error response without execution; PersistedQueryNotFound is recognised by its message")
	c.Assume("which text was executed is read off the root fields in the response data produced by the hand-written schema (one distinct field per abstract text)")
	c.Finish()
}
