package main

// Edge-covering tours and access paths over a labelled state graph exported by
// TLC (shared by the Apq graphs and the Lru graph).

import (
	"fmt"
	"math/rand"
	"sort"
)

type gEdge interface {
	gFrom() string
	gTo() string
	gCovered() bool
	gCover()
}

// coverTours computes paths from the initial states that together traverse
// every edge: follow an uncovered edge when the current node has one,
// otherwise walk the shortest way to the nearest node that has one.
func coverTours[E gEdge](inits []string, out map[string][]E, total int, rnd *rand.Rand, maxLen int) ([][]E, error) {
	var ks []string
	for k := range out {
		ks = append(ks, k)
	}
	sort.Strings(ks)
	for _, k := range ks {
		es := out[k]
		rnd.Shuffle(len(es), func(i, j int) { es[i], es[j] = es[j], es[i] })
	}
	left := total
	var paths [][]E
	for _, init := range inits {
		for {
			var path []E
			cur := init
			for len(path) < maxLen {
				found := false
				for _, e := range out[cur] {
					if !e.gCovered() {
						e.gCover()
						left--
						path = append(path, e)
						cur = e.gTo()
						found = true
						break
					}
				}
				if found {
					continue
				}
				way := nearestUncovered(out, cur)
				if way == nil {
					break
				}
				if len(path) > 0 && len(path)+len(way)+1 > maxLen {
					break
				}
				path = append(path, way...)
				cur = way[len(way)-1].gTo()
			}
			if len(path) == 0 {
				break
			}
			paths = append(paths, path)
		}
	}
	if left != 0 {
		return nil, fmt.Errorf("%d edges are not reachable from an initial state", left)
	}
	return paths, nil
}

func nearestUncovered[E gEdge](out map[string][]E, from string) []E {
	type item struct {
		n   string
		via *E
		par *item
	}
	seenN := map[string]bool{from: true}
	q := []*item{{n: from}}
	for len(q) > 0 {
		it := q[0]
		q = q[1:]
		if it.n != from {
			for _, e := range out[it.n] {
				if !e.gCovered() {
					var way []E
					for x := it; x.via != nil; x = x.par {
						way = append([]E{*x.via}, way...)
					}
					return way
				}
			}
		}
		for i := range out[it.n] {
			e := out[it.n][i]
			if !seenN[e.gTo()] {
				seenN[e.gTo()] = true
				q = append(q, &item{n: e.gTo(), via: &e, par: it})
			}
		}
	}
	return nil
}

// accessPaths returns, for every node reachable from an initial state, a
// shortest path of edges leading to it (empty for the initial states).
func accessPaths[E gEdge](inits []string, out map[string][]E) map[string][]E {
	acc := map[string][]E{}
	var q []string
	for _, i := range inits {
		acc[i] = []E{}
		q = append(q, i)
	}
	for len(q) > 0 {
		n := q[0]
		q = q[1:]
		es := append([]E{}, out[n]...)
		sort.SliceStable(es, func(i, j int) bool { return es[i].gTo() < es[j].gTo() })
		for _, e := range es {
			if _, ok := acc[e.gTo()]; !ok {
				acc[e.gTo()] = append(append([]E{}, acc[n]...), e)
				q = append(q, e.gTo())
			}
		}
	}
	return acc
}
