// C02: resolvers receive arguments exactly as GraphQL input coercion defines.
//
// spec/Coerce.tla enumerates (argument shape, source, abstract JSON value)
// together with the outcome CoerceVariableValues + CoerceArgumentValues + input
// coercion prescribe, and TLC checks the module's theorems on every case. This
// driver renders the SDL of the `args` probe FROM the printed shape list,
// generates and compiles servers from /repo's current templates in five
// configurations that pairwise cover {nullable_input_omittable,
// return_pointers_in_unmarshalinput, call_argument_directives_with_null,
// struct_fields_always_pointers}, concretises every case, executes it through
// the real executor and compares what the resolver received (or where the
// error went). The scalar unmarshalers are additionally driven directly over
// the class x carrier grid.
package main

import (
	"encoding/json"
	"fmt"
	"os"
	"sort"
	"strconv"
	"strings"
	"time"

	"verifharness/vlib"
)

func variants(s *Schema) []*variant {
	mk := func(name string, follow, fn bool, mapBound bool, opts ...string) *variant {
		o := map[string]bool{}
		for _, k := range opts {
			o[k] = true
		}
		v := &variant{v: vlib.Variant{Name: name, FollowSchema: follow, FuncSyntax: fn, Opts: o, Extra: modelsYAML(s, mapBound)}, binds: bindTable{}}
		for n, b := range s.Binds {
			if b == "map" && !mapBound {
				b = "struct"
			}
			if b == "struct" && o["nullable_input_omittable"] {
				b = "omit"
			}
			v.binds[n] = b
		}
		return v
	}
	const (
		N = "nullable_input_omittable"
		R = "return_pointers_in_unmarshalinput"
		C = "call_argument_directives_with_null"
		S = "struct_fields_always_pointers"
	)
	// the four non-empty configurations cover every pair of the four options
	return []*variant{
		mk("v0", false, false, true),
		mk("v1", false, false, true, N, C, S),
		mk("v2", false, true, false, N, R),
		mk("v3", true, false, false, R, C),
		mk("v4", false, false, false, R, S),
	}
}

func main() {
	c := vlib.NewCheck("C02", "exploration")
	thorough := vlib.Tier() == "thorough"
	cfg := "MC_Coerce.cfg"
	if thorough {
		cfg = "MC_Coerce_thorough.cfg"
	}
	t0 := time.Now()
	sp := runSpec(cfg, 10*time.Minute)
	c.AddStates(sp.res.Distinct, sp.res.Generated)
	c.Set("tlc_config", cfg)
	c.Set("tlc_wall_s", sp.res.WallS)
	c.Set("cases", len(sp.cases))
	c.Set("shapes", len(sp.schema.Shapes))
	checkClasses(sp.schema.Classes)
	checkRanges(sp.schema)
	checkFloats(sp.schema.Floats)
	fmt.Fprintf(os.Stderr, "c02: TLC %s: %d cases, %d grid cells, %d states (%.1fs)\n", cfg, len(sp.cases), len(sp.grid), sp.res.Distinct, time.Since(t0).Seconds())

	if rp := os.Getenv("VERIF_REPLAY"); rp != "" {
		replayOne(c, rp, sp, thorough)
		return
	}

	// the scalar unmarshalers, in process
	runGrid(c, sp.grid)
	// the generator's rendering of default values into Go source, in process
	runDumpGrid(c, sp.schema)

	// the probe: SDL from the shape list
	installSDL(renderSDL(sp.schema))
	vars := variants(sp.schema)
	vs := make([]vlib.Variant, 0, len(vars))
	for _, v := range vars {
		vs = append(vs, v.v)
	}
	t1 := time.Now()
	comboDone := make(chan struct{})
	go func() { buildCombo(c, sp.schema); close(comboDone) }()
	bins, err := vlib.BuildProbes("args", vs)
	if err != nil {
		if c.Violations() > 0 {
			// what was found in process (e.g. a default rendered into text that is not the number) may be the
			// very reason the generated server does not compile: the violations stand
			fmt.Fprintf(os.Stderr, "c02: the probe servers cannot be built (%s); finishing with the violations found so far\n", tail(err.Error(), 600))
			<-comboDone
			c.Set("rule", "in-process grids only: the generated probe servers did not build")
			c.Finish()
		}
		vlib.Infra("build probes: %v", err)
	}
	for _, v := range vars {
		v.bin = bins[v.v.ID()]
	}
	<-comboDone
	fmt.Fprintf(os.Stderr, "c02: %d configurations generated and compiled (%.1fs)\n", len(vars), time.Since(t1).Seconds())

	t2 := time.Now()
	results := replayAll(sp.schema, sp.cases, vars, vlib.Seed())
	sort.SliceStable(results, func(i, j int) bool {
		if results[i].cs.N != results[j].cs.N {
			return results[i].cs.N < results[j].cs.N
		}
		return results[i].vr.v.Name < results[j].vr.v.Name
	})
	called, rejected := 0, 0
	perKey := map[string]int{}
	reported := map[string]bool{}
	sixAt := map[string]int{} // where the 6-decimals signature was seen
	where := map[string][]string{} // key -> distinct shape(type)/configurations
	{
		cfgs := map[string]map[string]map[string]bool{}
		for _, r := range results {
			if r.ver == nil {
				continue
			}
			perKey[r.ver.key]++
			sh := fmt.Sprintf("%s(x: %s)", r.cs.Shape, r.cs.sh.Type.String())
			if cfgs[r.ver.key] == nil {
				cfgs[r.ver.key] = map[string]map[string]bool{}
			}
			if cfgs[r.ver.key][sh] == nil {
				cfgs[r.ver.key][sh] = map[string]bool{}
			}
			cfgs[r.ver.key][sh][r.vr.v.Name] = true
			if r.ver.at != "" {
				sixAt[r.ver.at]++
			}
		}
		for k, m := range cfgs {
			for sh, cs := range m {
				names := make([]string, 0, len(cs))
				for n := range cs {
					names = append(names, n)
				}
				sort.Strings(names)
				where[k] = append(where[k], sh+"/"+strings.Join(names, "+"))
			}
			sort.Strings(where[k])
			if len(where[k]) > 24 {
				where[k] = append(where[k][:24], "...")
			}
		}
	}
	dims := map[string]int64{}
	siteSeen := map[string]int{}
	for _, r := range results {
		c.AddEvals(1)
		for _, d := range dimensions(&r) {
			dims[d]++
		}
		for _, d := range r.obs.Dirs {
			siteSeen[d.Tag+"/"+r.vr.v.Name]++
		}
		outcome := "value"
		if r.obs.Called == 0 {
			outcome = "rejected"
			rejected++
		} else {
			called++
		}
		exp := "ok"
		if !r.cs.Out.OK {
			exp = "err"
		} else if len(r.cs.Out.Soft) > 0 {
			exp = "lenient"
		}
		c.Class(fmt.Sprintf("%s/%s/%s/%s/%s/%s", r.cs.sh.Type.String(), defKind(r.cs.sh), r.cs.Src.String(), r.cs.Origin, r.cs.Val.kindOf(), exp+">"+outcome))
		if r.ver != nil && !reported[r.ver.key] {
			reported[r.ver.key] = true
			c.Violate(treatFixed(r.ver.key), fmt.Sprintf("%s\n[%d observations with this key, at: %s]", r.ver.detail, perKey[r.ver.key], strings.Join(where[r.ver.key], " ")), scenarioOf(&r))
		}
	}
	c.Set("six_decimals_signature_seen_at", sixAt)
	// the dimensions the enumeration is meant to reach
	for _, d := range dimensionNames {
		c.Set("dim_"+d, dims[d])
		if dims[d] == 0 && c.Violations() == 0 {
			vlib.Infra("vacuous: no execution in the dimension %q", d)
		}
	}
	for _, st := range sp.schema.Sites {
		n := 0
		for _, v := range vars {
			n += siteSeen[st.Tag()+"/"+v.v.Name]
			if siteSeen[st.Tag()+"/"+v.v.Name] == 0 && c.Violations() == 0 {
				vlib.Infra("vacuous: the directive @dflt at %s was never invoked in configuration %s", st.Tag(), v.v.Name)
			}
		}
		c.Class("dirsite/" + st.Tag() + "/" + st.App.kindOf())
		c.Set("dirsite_"+st.Tag()+"_invocations", n)
	}
	for i := 0; i < len(results) && i < 4*len(vars); i += len(vars) + 1 {
		r := results[i*37%len(results)]
		c.Sample(map[string]any{"config": r.vr.v.Name, "query": r.cmd.Query, "variables": r.cmd.Vars, "specification_ok": r.cs.Out.OK,
			"specification_v": r.cs.Out.V.String(), "resolver_called": r.obs.Called, "resolver_args": r.obs.Args, "errors": append(r.obs.Gate, r.obs.Errs...)})
	}
	if called == 0 || rejected == 0 {
		vlib.Infra("vacuous: %d cases reached a resolver, %d were rejected", called, rejected)
	}
	keys := make([]string, 0, len(perKey))
	for k := range perKey {
		keys = append(keys, k)
	}
	sort.Strings(keys)
	dev := map[string]int{}
	for _, k := range keys {
		dev[k] = perKey[k]
	}
	c.Set("deviating_observations_by_key", dev)
	c.Set("resolver_reached", called)
	c.Set("rejected", rejected)
	c.Set("configurations", len(vars))
	c.Set("exhaustive", true)
	c.Set("rule", "TLC enumerates every (argument shape, source, abstract value) of the bounded universe in spec/Coerce.tla "+
		"("+strconv.Itoa(len(sp.schema.Shapes))+" shapes; sources literal / variable (json.Number, float64) / variable with default / nullable variable at a non-null position; "+
		"values: integer boundary classes, floats, strings, enum literals, lists <= 2, single-for-list, objects deviating from a base object in <= "+
		map[bool]string{false: "2 fields", true: "3 fields"}[thorough]+" incl. unknown / missing / variable-carried fields; Float defaults - fine fractions, tiny, denormal, huge, integral - of input fields (also inside list and object defaults), of arguments, of variables and of the arguments of a directive applied in the schema) with the outcome the GraphQL specification prescribes; "+
		"every case is executed on every generated configuration; a class is distinct by (type, default, source, origin of the value, value kind, expected>observed outcome); "+
		"the scalar unmarshalers are driven over target x carrier x class; templates.Dump over the named floats and seed-derived float64 values")
	c.Assume("ur.Canon renders the Go values the resolver received faithfully (nil pointer = null, Omittable unset / set, map keys)")
	c.Assume("the view of absent / null under a Go binding (struct: both nil; Omittable: unset vs set(nil); map: no key vs nil) is as printed by the specification's ViewTable")
	c.Assume("Int bound to Go int (64 bit): values outside 32 bit may be rejected or delivered unchanged; float64 rounding of integers beyond 2^53 into Float is not judged")
	fmt.Fprintf(os.Stderr, "c02: %d executions on %d configurations (%.1fs); %d reached the resolver, %d rejected\n", len(results), len(vars), time.Since(t2).Seconds(), called, rejected)
	c.Finish()
}

func defKind(sh *Shape) string {
	s := "nodef"
	if sh.Def.T != "nodef" {
		s = "def"
	}
	if sh.Dir {
		s += "+dir"
	}
	if sh.FDir != nil && sh.FDir.T != "nodef" {
		s += "+dflt"
	}
	return s
}

func scenarioOf(r *result) map[string]any {
	return map[string]any{"kind": "case", "config": r.vr.v.Name, "options": r.vr.v.Opts, "seed": vlib.Seed(), "tier": vlib.Tier(),
		"query": r.cmd.Query, "variables": r.cmd.Vars, "carrier": r.cmd.Carrier, "shape": r.cs.Shape, "source": r.cs.Src.String(), "value": r.cs.Val.String(),
		"specification": map[string]any{"ok": r.cs.Out.OK, "v": r.cs.Out.V.String(), "faults": r.cs.Out.Faults, "soft": r.cs.Out.Soft, "field_defaults_at": r.cs.Out.Dfl},
		"observed":      r.obs}
}

// replayOne re-runs exactly one recorded scenario (./check C02 --replay file).
func replayOne(c *vlib.Check, path string, sp *specOut, thorough bool) {
	b, err := os.ReadFile(path)
	if err != nil {
		vlib.Infra("replay file: %v", err)
	}
	var rf struct {
		Scenario struct {
			Kind   string `json:"kind"`
			Config string `json:"config"`
			Seed   int64  `json:"seed"`
			Shape  string `json:"shape"`
			Source string `json:"source"`
			Value  string `json:"value"`
		} `json:"scenario"`
	}
	if err := json.Unmarshal(b, &rf); err != nil {
		vlib.Infra("replay file: %v", err)
	}
	sc := rf.Scenario
	switch sc.Kind {
	case "grid":
		runGrid(c, sp.grid)
		runDumpGrid(c, sp.schema)
	case "build":
		buildCombo(c, sp.schema)
	case "case":
		var cs *Case
		find := func(s *specOut) {
			for _, x := range s.cases {
				if x.Shape == sc.Shape && x.Src.String() == sc.Source && x.Val.String() == sc.Value {
					cs = x
				}
			}
		}
		find(sp)
		if cs == nil && !thorough {
			sp = runSpec("MC_Coerce_thorough.cfg", 20*time.Minute)
			find(sp)
		}
		if cs == nil {
			vlib.Infra("the recorded case (%s, %s, %s) is not in the specification's universe any more", sc.Shape, sc.Source, sc.Value)
		}
		installSDL(renderSDL(sp.schema))
		var vr *variant
		for _, v := range variants(sp.schema) {
			if v.v.Name == sc.Config {
				vr = v
			}
		}
		if vr == nil {
			vlib.Infra("unknown configuration %q", sc.Config)
		}
		bin, err := vlib.BuildProbe("args", vr.v)
		if err != nil {
			vlib.Infra("build probe: %v", err)
		}
		vr.bin = bin
		seed := sc.Seed
		if seed == 0 {
			seed = vlib.Seed()
		}
		for _, r := range replayAll(sp.schema, []*Case{cs}, []*variant{vr}, seed) {
			c.AddEvals(1)
			c.Class("replay")
			c.Class("replay/" + caseKey(r.cs))
			c.Sample(scenarioOf(&r))
			fmt.Printf("replay: %s  variables %s -> called=%d args=%s gate=%v errs=%v\n", r.cmd.Query, r.cmd.Vars, r.obs.Called, r.obs.Args, r.obs.Gate, r.obs.Errs)
			if r.ver != nil {
				c.Violate(treatFixed(r.ver.key), r.ver.detail, scenarioOf(&r))
			}
		}
	default:
		vlib.Infra("replay file of unknown kind %q", sc.Kind)
	}
	c.Set("rule", "replay of one recorded scenario")
	c.Finish()
}

// buildCombo: the combination the probe cannot be built in (observed, then avoided).
func buildCombo(c *vlib.Check, s *Schema) {
	combo := vlib.Variant{Name: "vx", Opts: map[string]bool{"return_pointers_in_unmarshalinput": true}, Extra: modelsYAML(s, true)}
	_, err := vlib.BuildProbe("args", combo)
	c.AddEvals(1)
	if err == nil {
		return
	}
	msg := err.Error()
	if strings.Contains(msg, "compile") && strings.Contains(msg, "*map[string]interface{}") {
		c.Violate("build:map-backed-input+return_pointers_in_unmarshalinput:does-not-compile",
			"a map-backed input type (models: InM: {model: \"map[string]interface{}\"}) with return_pointers_in_unmarshalinput: true generates code that does not compile, so no resolver can receive such an argument:\n"+tail(msg, 600),
			map[string]any{"kind": "build", "options": combo.Opts, "models": "InM: map[string]interface{}"})
		return
	}
	if c.Violations() > 0 {
		// e.g. a schema default rendered into text the compiler rejects: found in process already; the violations stand
		fmt.Fprintf(os.Stderr, "c02: the map + return_pointers_in_unmarshalinput configuration does not build: %s\n", tail(msg, 400))
		return
	}
	vlib.Infra("build of the map + return_pointers_in_unmarshalinput configuration failed for an unexpected reason: %v", err)
}
