package main

import (
	"fmt"
	"verifharness/vlib"
)

func main() {
	vs := []vlib.Variant{{Name: "v0"}, {Name: "v1", Opts: map[string]bool{"nullable_input_omittable": true, "return_pointers_in_unmarshalinput": true}}}
	bins, err := vlib.BuildProbes("args", vs)
	fmt.Println(bins, err)
}
