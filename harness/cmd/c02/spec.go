package main

// What spec/Coerce.tla prints: the shape list, the input object definitions,
// the scalar grid and every (shape, source, value) -> outcome.

import (
	"encoding/json"
	"fmt"
	"sort"
	"strings"
	"time"

	"verifharness/vlib"
)

// Val is a tagged abstract value (Coerce.tla "Abstract JSON / GraphQL values").
type Val struct {
	T  string // absent null nodef any bad int flt fx nstr str bool enum list obj var
	C  string // integer class (int flt nstr) / named float class (fx)
	Fr bool   // flt: + 0.5
	S  string // str bool enum
	E  []*Val // list
	F  []KV   // obj
	V  *Val   // var: bound value (absent = unbound)
	D  *Val   // var: declared default (nodef = none)
}

type KV struct {
	K string `json:"k"`
	V *Val   `json:"v"`
}

func (v *Val) UnmarshalJSON(b []byte) error {
	var raw map[string]json.RawMessage
	if err := json.Unmarshal(b, &raw); err != nil {
		return fmt.Errorf("value %.80s: %v", b, err)
	}
	if err := json.Unmarshal(raw["t"], &v.T); err != nil {
		return fmt.Errorf("value without tag %.80s", b)
	}
	get := func(k string, into any) error {
		r, ok := raw[k]
		if !ok {
			return fmt.Errorf("value %.80s lacks %q", b, k)
		}
		return json.Unmarshal(r, into)
	}
	switch v.T {
	case "int", "nstr", "fx":
		return get("c", &v.C)
	case "flt":
		if err := get("c", &v.C); err != nil {
			return err
		}
		return get("fr", &v.Fr)
	case "str", "bool", "enum":
		return get("v", &v.S)
	case "list":
		v.E = []*Val{}
		return get("e", &v.E)
	case "obj":
		v.F = []KV{}
		return get("f", &v.F)
	case "var":
		if err := get("v", &v.V); err != nil {
			return err
		}
		return get("d", &v.D)
	case "absent", "null", "nodef", "any", "bad":
		return nil
	}
	return fmt.Errorf("unknown value tag %q", v.T)
}

func (v *Val) String() string {
	if v == nil {
		return "<nil>"
	}
	switch v.T {
	case "int":
		return "int." + v.C
	case "nstr":
		return "nstr." + v.C
	case "fx":
		return "fx." + v.C
	case "flt":
		if v.Fr {
			return "flt." + v.C + "+.5"
		}
		return "flt." + v.C + ".0"
	case "str":
		return fmt.Sprintf("str%q", v.S)
	case "bool", "enum":
		return v.T + "." + v.S
	case "list":
		var p []string
		for _, e := range v.E {
			p = append(p, e.String())
		}
		return "[" + strings.Join(p, ",") + "]"
	case "obj":
		var p []string
		for _, f := range v.F {
			p = append(p, f.K+":"+f.V.String())
		}
		return "{" + strings.Join(p, ",") + "}"
	case "var":
		s := "$(" + v.V.String()
		if v.D.T != "nodef" {
			s += " =" + v.D.String()
		}
		return s + ")"
	}
	return v.T
}

// kindOf is a coarse class of a value (for evidence classes and violation keys).
func (v *Val) kindOf() string {
	switch v.T {
	case "int", "nstr", "fx":
		return v.T + "." + v.C
	case "flt":
		if v.Fr {
			return "flt.frac"
		}
		return "flt.int"
	case "list":
		ks := map[string]bool{}
		for _, e := range v.E {
			ks[e.kindOf()] = true
		}
		var p []string
		for k := range ks {
			p = append(p, k)
		}
		sort.Strings(p)
		return fmt.Sprintf("list%d(%s)", len(v.E), strings.Join(p, "|"))
	case "obj":
		var p []string
		for _, f := range v.F {
			p = append(p, f.K+"="+f.V.kindOf())
		}
		sort.Strings(p)
		return "obj{" + strings.Join(p, ",") + "}"
	case "var":
		s := "var(" + v.V.kindOf()
		if v.D.T != "nodef" {
			s += ",dflt"
		}
		return s + ")"
	case "str", "bool", "enum":
		return v.T + "." + v.S
	}
	return v.T
}

type Type struct {
	K  string `json:"k"` // n | l
	N  string `json:"n"`
	NN bool   `json:"nn"`
	Of *Type  `json:"of"`
}

func (t *Type) String() string {
	s := t.N
	if t.K == "l" {
		s = "[" + t.Of.String() + "]"
	}
	if t.NN {
		s += "!"
	}
	return s
}

func (t *Type) Nullable() *Type { c := *t; c.NN = false; return &c }

func (t *Type) Base() string {
	for t.K == "l" {
		t = t.Of
	}
	return t.N
}

type Shape struct {
	ID   string `json:"id"`
	Type *Type  `json:"type"`
	Def  *Val   `json:"def"`
	Dir  bool   `json:"dir"`
	FDir *Val   `json:"fdir"` // nodef | the arguments @dflt is applied with
}

type FieldDef struct {
	Name string `json:"name"`
	Type *Type  `json:"type"`
	Def  *Val   `json:"def"`
	Dir  bool   `json:"dir"`
	FDir *Val   `json:"fdir"`
}

// DirSite is one application of @dflt in the schema and what the directive must receive there.
type DirSite struct {
	Ty   string `json:"ty"` // "Query" (argument x of field Fld) or an input type (field Fld)
	Fld  string `json:"fld"`
	App  *Val   `json:"app"`
	Sees *Val   `json:"sees"`
}

func (d *DirSite) Tag() string { return d.Ty + "." + d.Fld }

type Schema struct {
	Shapes  []*Shape                     `json:"shapes"`
	Inputs  map[string][]*FieldDef       `json:"inputs"`
	Binds   map[string]string            `json:"binds"`
	Views   map[string]map[string]string `json:"views"`
	Classes []string                     `json:"classes"`
	Enum    []string                     `json:"enum"`
	Ranges  map[string][]string          `json:"ranges"`
	Floats  []string                     `json:"floats"`
	DirDef  []*FieldDef                  `json:"dirdef"`
	Sites   []*DirSite                   `json:"dirsites"`
	byID    map[string]*Shape
	byTag   map[string]*DirSite
}

type Src struct {
	K       string `json:"k"` // lit | var
	Carrier string `json:"carrier"`
	VT      string `json:"vt"`
	VDef    *Val   `json:"vdef"`
}

func (s *Src) String() string {
	if s.K == "lit" {
		return "lit"
	}
	r := "var." + s.Carrier
	if s.VT == "nullable" {
		r += ".nullable"
	}
	if s.VDef != nil && s.VDef.T != "nodef" {
		r += ".dflt"
	}
	return r
}

type Out struct {
	OK     bool       `json:"ok"`
	V      *Val       `json:"v"`
	Faults [][]string `json:"faults"`
	Soft   [][]string `json:"soft"`
	Dfl    [][]string `json:"dfl"` // positions holding an injected input FIELD default
}

type Case struct {
	Shape  string `json:"shape"`
	Src    *Src   `json:"src"`
	Val    *Val   `json:"val"`
	Origin string `json:"origin"`
	Out    *Out   `json:"out"`
	N      int    `json:"-"`
	sh     *Shape
}

type Leaf struct {
	R string `json:"r"` // ok | soft | err
	V *Val   `json:"v"`
}

type GridCell struct {
	N   string `json:"n"`
	Val *Val   `json:"val"`
	Out *Leaf  `json:"out"`
}

type specOut struct {
	schema *Schema
	cases  []*Case
	grid   []*GridCell
	res    *vlib.TLCResult
}

func runSpec(cfg string, timeout time.Duration) *specOut {
	res, err := vlib.RunTLC(vlib.TLCOpts{Module: "Coerce", Config: cfg, Workers: 1, Timeout: timeout,
		Scratch: vlib.Work("C02", "tlc"), HeapGB: 4})
	if err != nil {
		vlib.Infra("TLC %s: %v", cfg, err)
	}
	if res.TimedOut {
		vlib.Infra("TLC %s timed out", cfg)
	}
	if !res.OK {
		vlib.Infra("TLC reports an error in the model %s (a specification problem, not a finding):\n%s\n%s", cfg, res.Violation, tail(res.Output, 1500))
	}
	out := &specOut{res: res}
	for _, ln := range res.Printed {
		if !strings.HasPrefix(ln, "\"{") {
			continue
		}
		var inner string
		if err := json.Unmarshal([]byte(ln), &inner); err != nil {
			vlib.Infra("TLC %s: cannot decode printed line: %v: %.200s", cfg, err, ln)
		}
		var probe map[string]json.RawMessage
		if err := json.Unmarshal([]byte(inner), &probe); err != nil {
			vlib.Infra("TLC %s: printed line is not a JSON object: %v: %.200s", cfg, err, inner)
		}
		_, isSchema := probe["shapes"]
		_, isGrid := probe["grid"]
		switch {
		case isSchema:
			var s Schema
			if err := json.Unmarshal([]byte(inner), &s); err != nil {
				vlib.Infra("schema line: %v", err)
			}
			s.byID = map[string]*Shape{}
			for _, sh := range s.Shapes {
				s.byID[sh.ID] = sh
			}
			s.byTag = map[string]*DirSite{}
			for _, st := range s.Sites {
				s.byTag[st.Tag()] = st
			}
			if len(s.Sites) == 0 || len(s.DirDef) == 0 || len(s.Floats) == 0 {
				vlib.Infra("schema line without directive sites / named floats")
			}
			out.schema = &s
		case isGrid:
			var g struct {
				Grid []*GridCell `json:"grid"`
			}
			if err := json.Unmarshal([]byte(inner), &g); err != nil {
				vlib.Infra("grid line: %v", err)
			}
			out.grid = g.Grid
		default:
			var c Case
			if err := json.Unmarshal([]byte(inner), &c); err != nil {
				vlib.Infra("TLC %s: case line: %v: %.300s", cfg, err, inner)
			}
			out.cases = append(out.cases, &c)
		}
	}
	if out.schema == nil || len(out.cases) == 0 || len(out.grid) == 0 {
		vlib.Infra("TLC %s printed no schema / cases / grid (vacuous)", cfg)
	}
	// every case is one initial state and one Compute step
	if int64(len(out.cases))*2 != res.Distinct {
		vlib.Infra("TLC %s: %d printed cases do not match %d distinct states", cfg, len(out.cases), res.Distinct)
	}
	for _, c := range out.cases {
		c.sh = out.schema.byID[c.Shape]
		if c.sh == nil {
			vlib.Infra("case names unknown shape %s", c.Shape)
		}
	}
	// a canonical order (TLC's set order is deterministic, but do not depend on it)
	sort.SliceStable(out.cases, func(i, j int) bool { return caseKey(out.cases[i]) < caseKey(out.cases[j]) })
	for i, c := range out.cases {
		c.N = i
	}
	return out
}

func caseKey(c *Case) string {
	return fmt.Sprintf("%04s|%s|%s", c.Shape[1:], c.Src.String(), c.Val.String())
}

func tail(s string, n int) string {
	if len(s) > n {
		return s[len(s)-n:]
	}
	return s
}
