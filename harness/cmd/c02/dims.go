package main

// Dimensions of the enumeration that are counted (and must not be empty): each
// of them has been the place of a defect or of a seeded change that an earlier
// version of this check reached only by accident.

import (
	"os"
	"strconv"
	"strings"
)

// treatFixed: VERIF_C02_ASSUME_FIXED=<key>[,<key>] reports an OPEN finding's key as an ordinary violation
// (used to verify a proposed repair before the findings file is flipped).
func treatFixed(key string) string {
	for _, k := range strings.Split(os.Getenv("VERIF_C02_ASSUME_FIXED"), ",") {
		if k != "" && k == key {
			return key + ":assumed-fixed"
		}
	}
	return key
}

const (
	dimVarDefNoMember = iota
	dimVarDefEmptyObject
	dimNullViaDefaultedVarNoC
	dimNullViaDefaultedVarC
	dimFloatFieldDefault
	dimFloatFieldDefaultNested
	dimFloatArgDefault
	dimFloatVarDefault
)

var dimensionNames = []string{
	dimVarDefNoMember:          "variable_default_used_request_without_variables_member",
	dimVarDefEmptyObject:       "variable_default_used_request_with_empty_variables_object",
	dimNullViaDefaultedVarNoC:  "explicit_null_through_defaulted_nullable_variable_at_nonnull_argument__directives_not_called_with_null",
	dimNullViaDefaultedVarC:    "explicit_null_through_defaulted_nullable_variable_at_nonnull_argument__directives_called_with_null",
	dimFloatFieldDefault:       "float_input_field_default_reached_resolver",
	dimFloatFieldDefaultNested: "float_inside_list_or_object_default_of_input_field_reached_resolver",
	dimFloatArgDefault:         "float_argument_default_reached_resolver",
	dimFloatVarDefault:         "float_variable_default_used",
}

// dimensions of one execution
func dimensions(r *result) []string {
	var out []string
	add := func(i int) { out = append(out, dimensionNames[i]) }
	cs := r.cs
	if cs.Src.K == "var" && cs.Origin == "vardef" {
		switch r.cmd.Vars {
		case "":
			add(dimVarDefNoMember)
		case "{}":
			add(dimVarDefEmptyObject)
		}
		if hasFloat(cs.Src.VDef) {
			add(dimFloatVarDefault)
		}
	}
	if cs.Src.K == "var" && cs.Src.VT == "nullable" && cs.Src.VDef.T != "nodef" && cs.Val.T == "null" && cs.sh.Type.NN {
		if r.vr.v.Opts["call_argument_directives_with_null"] {
			add(dimNullViaDefaultedVarC)
		} else {
			add(dimNullViaDefaultedVarNoC)
		}
	}
	if r.obs.Called == 1 && cs.Out.OK {
		flat, nested := false, false
		for _, p := range cs.Out.Dfl {
			if v := at(cs.Out.V, p); v != nil && hasFloat(v) {
				flat = true
				if v.T == "list" || v.T == "obj" {
					nested = true
				}
			}
		}
		if flat {
			add(dimFloatFieldDefault)
		}
		if nested {
			add(dimFloatFieldDefaultNested)
		}
		if cs.Origin == "argdef" && hasFloat(cs.sh.Def) {
			add(dimFloatArgDefault)
		}
	}
	return out
}

func hasFloat(v *Val) bool {
	if v == nil {
		return false
	}
	switch v.T {
	case "flt", "fx":
		return true
	case "list":
		for _, e := range v.E {
			if hasFloat(e) {
				return true
			}
		}
	case "obj":
		for _, f := range v.F {
			if hasFloat(f.V) {
				return true
			}
		}
	}
	return false
}

// at navigates a coerced value along a position of the specification (list indices as decimal strings)
func at(v *Val, p []string) *Val {
	for _, k := range p {
		if v == nil {
			return nil
		}
		switch v.T {
		case "list":
			i, err := strconv.Atoi(k)
			if err != nil || i < 0 || i >= len(v.E) {
				return nil
			}
			v = v.E[i]
		case "obj":
			var nx *Val
			for _, f := range v.F {
				if f.K == k {
					nx = f.V
				}
			}
			v = nx
		default:
			return nil
		}
	}
	return v
}
