package main

// Concretisation: abstract classes -> concrete numbers, abstract values ->
// GraphQL literal text / JSON text, cases -> operations, shapes -> SDL.

import (
	"fmt"
	"hash/fnv"
	"math"
	"math/big"
	"math/rand"
	"os"
	"path/filepath"
	"sort"
	"strconv"
	"strings"

	"verifharness/ur"
	"verifharness/vlib"
)

// representatives of the integer classes; every representative of a class in
// Coerce.tla's FloatExact is exactly representable as float64.
var classReps = map[string][]string{
	"ltMin64":  {"-9223372036854775809", "-10000000000000000000"},
	"min64":    {"-9223372036854775808"},
	"ltMin32":  {"-2147483649", "-4294967296", "-9007199254740992"},
	"min32":    {"-2147483648"},
	"m1":       {"-1"},
	"zero":     {"0"},
	"one":      {"1"},
	"two":      {"2"},
	"three":    {"3"},
	"five":     {"5"},
	"seven":    {"7"},
	"max32":    {"2147483647"},
	"gtMax32":  {"2147483648", "3000000000"},
	"maxU32":   {"4294967295"},
	"gtMaxU32": {"4294967296", "9007199254740992"},
	"max64":    {"9223372036854775807"},
	"gtMax64":  {"9223372036854775808", "10000000000000000000"},
	"maxU64":   {"18446744073709551615"},
	"gtMaxU64": {"18446744073709551616", "100000000000000000000"},
}

// spellings of the named floats (Coerce.tla FloatNames). The FIRST spelling is the one written into
// the SDL (schema defaults, directive arguments): it is the float's shortest exact decimal form;
// requests use any of them. Every spelling of one name denotes the same float64.
var fxReps = map[string][]string{
	"fine7":   {"0.1234567", "1.234567e-1", "0.12345670"},
	"fineBig": {"123456.7890123", "1.234567890123E5"},
	"negFine": {"-0.0000012345", "-1.2345e-6"},
	"tiny":    {"1e-7", "0.0000001", "1.0E-7"},
	"denorm":  {"5e-324", "4.9406564584124654e-324"},
	"huge":    {"1e30", "1000000000000000000000000000000.0", "1.0e+30"},
	"maxF":    {"1.7976931348623157e308", "1.7976931348623157E+308"},
}

// checkFloats: the specification's named floats are the harness's, every spelling of a name is the
// same finite float64, different names are different numbers, and the set has members that a
// 6-decimal rendering changes and members it does not (so both outcomes of that rendering occur).
func checkFloats(names []string) {
	if len(names) != len(fxReps) {
		vlib.Infra("named floats of the specification (%d) differ from the harness's (%d)", len(names), len(fxReps))
	}
	seen := map[float64]string{}
	changed, kept := 0, 0
	for _, n := range names {
		reps, ok := fxReps[n]
		if !ok {
			vlib.Infra("no spelling for the named float %s", n)
		}
		f0, err := strconv.ParseFloat(reps[0], 64)
		if err != nil || math.IsInf(f0, 0) || math.IsNaN(f0) {
			vlib.Infra("named float %s: %q is not a finite float64", n, reps[0])
		}
		for _, r := range reps[1:] {
			if f, err := strconv.ParseFloat(r, 64); err != nil || f != f0 {
				vlib.Infra("named float %s: spelling %q is not the number %q", n, r, reps[0])
			}
		}
		if o, dup := seen[f0]; dup {
			vlib.Infra("named floats %s and %s are the same number", o, n)
		}
		seen[f0] = n
		if sixDecimals(f0) != f0 {
			changed++
		} else {
			kept++
		}
	}
	if changed < 3 || kept < 2 {
		vlib.Infra("named floats: %d changed by a 6-decimal rendering, %d not", changed, kept)
	}
}

// sixDecimals is the number a "%f" rendering of f denotes.
func sixDecimals(f float64) float64 {
	g, _ := strconv.ParseFloat(fmt.Sprintf("%f", f), 64)
	return g
}

// checkClasses asserts that the representatives respect the order TLC printed.
func checkClasses(order []string) {
	var prev *big.Int
	for _, c := range order {
		reps, ok := classReps[c]
		if !ok {
			vlib.Infra("no representative for integer class %s", c)
		}
		lo, hi := new(big.Int), new(big.Int)
		for i, r := range reps {
			n, ok := new(big.Int).SetString(r, 10)
			if !ok {
				vlib.Infra("bad representative %s", r)
			}
			if i == 0 || n.Cmp(lo) < 0 {
				lo = n
			}
			if i == 0 || n.Cmp(hi) > 0 {
				hi = n
			}
		}
		if prev != nil && lo.Cmp(prev) <= 0 {
			vlib.Infra("representatives of class %s are not above the previous class", c)
		}
		prev = hi
	}
	if len(order) != len(classReps) {
		vlib.Infra("class list of the specification (%d) differs from the harness's (%d)", len(order), len(classReps))
	}
}

// conc holds the per-case choice of representatives.
type conc struct {
	pick map[string]string
	rnd  *rand.Rand
	sdl  bool // rendering the schema: always the first spelling
}

// the choice depends on the seed and on the case itself (not on its position in a list)
func newConc(seed int64, key string) *conc {
	h := fnv.New64a()
	h.Write([]byte(key))
	return &conc{pick: map[string]string{}, rnd: rand.New(rand.NewSource(seed*1000003 + int64(h.Sum64()>>1)))}
}

func (c *conc) num(class string) string {
	if s, ok := c.pick[class]; ok {
		return s
	}
	reps := classReps[class]
	s := reps[c.rnd.Intn(len(reps))]
	c.pick[class] = s
	return s
}

func (c *conc) flt(v *Val) string {
	if v.T == "fx" {
		reps := fxReps[v.C]
		if len(reps) == 0 {
			vlib.Infra("no spelling for the named float %s", v.C)
		}
		if c.sdl {
			return reps[0]
		}
		if s, ok := c.pick["fx."+v.C]; ok {
			return s
		}
		s := reps[c.rnd.Intn(len(reps))]
		c.pick["fx."+v.C] = s
		return s
	}
	if v.Fr {
		return c.num(v.C) + ".5"
	}
	return c.num(v.C) + ".0"
}

type varDecl struct {
	name string
	typ  string
	def  string // "" none
	json string // "" unbound
}

// builder renders one case.
type builder struct {
	c     *conc
	sch   *Schema
	vars  []varDecl
	nwrap int
}

func (b *builder) fieldType(t *Type, key string) *Type {
	if t == nil || t.K != "n" {
		return nil
	}
	for _, f := range b.sch.Inputs[t.N] {
		if f.Name == key {
			return f.Type
		}
	}
	return nil
}

func elemType(t *Type) *Type {
	if t != nil && t.K == "l" {
		return t.Of
	}
	return t // a single value where a list is expected is coerced with the item type... the caller keeps t
}

// lit renders v as a GraphQL literal; t is the expected type (may be nil when unknown).
func (b *builder) lit(v *Val, t *Type) string {
	switch v.T {
	case "null":
		return "null"
	case "int":
		return b.c.num(v.C)
	case "flt", "fx":
		return b.c.flt(v)
	case "nstr":
		return strconv.Quote(b.c.num(v.C))
	case "str":
		return strconv.Quote(v.S)
	case "bool", "enum":
		return v.S
	case "list":
		var p []string
		for _, e := range v.E {
			p = append(p, b.lit(e, elemType(t)))
		}
		return "[" + strings.Join(p, ", ") + "]"
	case "obj":
		ot := t
		for ot != nil && ot.K == "l" {
			ot = ot.Of
		}
		var p []string
		for _, f := range v.F {
			p = append(p, f.K+": "+b.lit(f.V, b.fieldType(ot, f.K)))
		}
		return "{" + strings.Join(p, ", ") + "}"
	case "var":
		if t == nil {
			vlib.Infra("variable wrapper at a position of unknown type")
		}
		b.nwrap++
		d := varDecl{name: fmt.Sprintf("w%d", b.nwrap), typ: t.String()}
		if v.D.T != "nodef" {
			// a variable with a default may be declared nullable where a non-null value is expected
			d.typ = t.Nullable().String()
			d.def = b.lit(v.D, t)
		}
		if v.V.T != "absent" {
			d.json = b.json(v.V)
		}
		b.vars = append(b.vars, d)
		return "$" + d.name
	}
	vlib.Infra("cannot render %s as a literal", v.T)
	return ""
}

// json renders v as JSON text (the carrier of variables).
func (b *builder) json(v *Val) string {
	switch v.T {
	case "null":
		return "null"
	case "int":
		return b.c.num(v.C)
	case "flt", "fx":
		return b.c.flt(v)
	case "nstr":
		return strconv.Quote(b.c.num(v.C))
	case "str", "enum":
		return strconv.Quote(v.S)
	case "bool":
		return v.S
	case "list":
		var p []string
		for _, e := range v.E {
			p = append(p, b.json(e))
		}
		return "[" + strings.Join(p, ",") + "]"
	case "obj":
		var p []string
		for _, f := range v.F {
			p = append(p, strconv.Quote(f.K)+":"+b.json(f.V))
		}
		return "{" + strings.Join(p, ",") + "}"
	}
	vlib.Infra("cannot render %s as JSON", v.T)
	return ""
}

// build turns a case into a probe command.
func build(sch *Schema, cs *Case, seed int64) (ur.C02Case, *conc) {
	b := &builder{c: newConc(seed, caseKey(cs)), sch: sch}
	out := ur.C02Case{ID: cs.N, Field: "f"}
	sel := "f: " + cs.Shape
	switch cs.Src.K {
	case "lit":
		if cs.Val.T != "absent" {
			sel += "(x: " + b.lit(cs.Val, cs.sh.Type) + ")"
		}
	case "var":
		sel += "(x: $v)"
		d := varDecl{name: "v", typ: cs.sh.Type.String()}
		if cs.Src.VT == "nullable" {
			d.typ = cs.sh.Type.Nullable().String()
		}
		if cs.Src.VDef.T != "nodef" {
			d.def = b.lit(cs.Src.VDef, cs.sh.Type)
		}
		if cs.Val.T != "absent" {
			d.json = b.json(cs.Val)
		}
		b.vars = append(b.vars, d)
		if cs.Src.Carrier == "f64" {
			out.Carrier = "f64"
		}
	default:
		vlib.Infra("unknown source %s", cs.Src.K)
	}
	q := "{ " + sel + " }"
	if len(b.vars) > 0 {
		var decl, bound []string
		for _, d := range b.vars {
			s := "$" + d.name + ": " + d.typ
			if d.def != "" {
				s += " = " + d.def
			}
			decl = append(decl, s)
			if d.json != "" {
				bound = append(bound, strconv.Quote(d.name)+":"+d.json)
			}
		}
		q = "query(" + strings.Join(decl, ", ") + ") " + q
		out.Vars = "{" + strings.Join(bound, ",") + "}"
		// a request that binds no variable at all either has an empty `variables` object or no such member
		if len(bound) == 0 && b.c.rnd.Intn(2) == 0 {
			out.Vars = ""
		}
	}
	out.Query = q
	return out, b.c
}

// ---------------------------------------------------------------------------
// SDL

var builtin = map[string]bool{"Int": true, "Float": true, "String": true, "ID": true, "Boolean": true}

// the Go binding of the custom scalars (gqlgen.yml models) and the range of that Go type
var scalarModel = map[string]string{
	"I32": "Int32", "I64": "Int64", "U32": "Uint32", "U64": "Uint64", "UU": "Uint", "IID": "IntID", "UID": "UintID", "Any": "Any",
	// K reports which Go carrier its unmarshaler was handed (harness/ur/scalars/c02_kind.go)
	"K": "verifharness/ur/scalars.C02Kind",
}
var scalarRange = map[string][2]string{
	"Int": {"min64", "max64"}, "I32": {"min32", "max32"}, "I64": {"min64", "max64"}, "U32": {"zero", "maxU32"},
	"U64": {"zero", "maxU64"}, "UU": {"zero", "maxU64"}, "IID": {"min64", "max64"}, "UID": {"zero", "maxU64"},
}

func renderSDL(s *Schema) string {
	var sb strings.Builder
	sb.WriteString("# RENDERED from the shape list spec/Coerce.tla prints (harness/cmd/c02); do not edit.\n")
	sb.WriteString("directive @goField(forceResolver: Boolean, name: String, omittable: Boolean) on INPUT_FIELD_DEFINITION | FIELD_DEFINITION\n")
	sb.WriteString("directive @dchk(tag: String) on FIELD_DEFINITION | ARGUMENT_DEFINITION | INPUT_FIELD_DEFINITION\n")
	b := &builder{c: newConc(0, ""), sch: s}
	b.c.sdl = true
	sb.WriteString("directive @dflt(tag: String")
	for _, a := range s.DirDef {
		fmt.Fprintf(&sb, ", %s: %s", a.Name, a.Type.String())
		if a.Def.T != "nodef" {
			sb.WriteString(" = " + b.lit(a.Def, a.Type))
		}
	}
	sb.WriteString(") on ARGUMENT_DEFINITION | INPUT_FIELD_DEFINITION\n\n")
	// @dflt applied with the arguments of the specification's site; tag names the site
	dflt := func(ty, fld string, app *Val) string {
		if app == nil || app.T == "nodef" {
			return ""
		}
		if s.byTag[ty+"."+fld] == nil {
			vlib.Infra("@dflt at %s.%s is not among the specification's directive sites", ty, fld)
		}
		out := fmt.Sprintf(" @dflt(tag: %q", ty+"."+fld)
		for _, f := range app.F {
			var at *Type
			for _, a := range s.DirDef {
				if a.Name == f.K {
					at = a.Type
				}
			}
			if at == nil {
				vlib.Infra("@dflt has no argument %s", f.K)
			}
			out += ", " + f.K + ": " + b.lit(f.V, at)
		}
		return out + ")"
	}
	used := map[string]bool{}
	var walk func(t *Type)
	walk = func(t *Type) {
		if t.K == "l" {
			walk(t.Of)
			return
		}
		if used[t.N] {
			return
		}
		used[t.N] = true
		for _, f := range s.Inputs[t.N] {
			walk(f.Type)
		}
	}
	for _, sh := range s.Shapes {
		walk(sh.Type)
	}
	for _, a := range s.DirDef {
		walk(a.Type)
	}
	names := make([]string, 0, len(used))
	for n := range used {
		names = append(names, n)
	}
	sort.Strings(names)
	for _, n := range names {
		_, isInput := s.Inputs[n]
		switch {
		case builtin[n] || isInput:
		case n == "E":
			en := append([]string{}, s.Enum...)
			sort.Strings(en)
			fmt.Fprintf(&sb, "enum E { %s }\n", strings.Join(en, " "))
		default:
			if _, ok := scalarModel[n]; !ok {
				vlib.Infra("the specification uses scalar %s, which the harness cannot bind", n)
			}
			fmt.Fprintf(&sb, "scalar %s\n", n)
		}
	}
	sb.WriteString("\n")
	for _, n := range names {
		fs, ok := s.Inputs[n]
		if !ok {
			continue
		}
		fmt.Fprintf(&sb, "input %s {\n", n)
		for _, f := range fs {
			fmt.Fprintf(&sb, "  %s: %s", f.Name, f.Type.String())
			if f.Def.T != "nodef" {
				sb.WriteString(" = " + b.lit(f.Def, f.Type))
			}
			if f.Dir {
				fmt.Fprintf(&sb, " @dchk(tag: %q)", f.Name)
			}
			sb.WriteString(dflt(n, f.Name, f.FDir))
			if s.Binds[n] == "omit" && !f.Type.NN {
				sb.WriteString(" @goField(omittable: true)")
			}
			sb.WriteString("\n")
		}
		sb.WriteString("}\n")
	}
	sb.WriteString("\ntype Query {\n")
	for _, sh := range s.Shapes {
		fmt.Fprintf(&sb, "  %s(x: %s", sh.ID, sh.Type.String())
		if sh.Def.T != "nodef" {
			sb.WriteString(" = " + b.lit(sh.Def, sh.Type))
		}
		if sh.Dir {
			sb.WriteString(` @dchk(tag: "x")`)
		}
		sb.WriteString(dflt("Query", sh.ID, sh.FDir))
		sb.WriteString("): String\n")
	}
	sb.WriteString("}\n")
	if len(b.vars) > 0 {
		vlib.Infra("a schema default contains a variable")
	}
	return sb.String()
}

// modelsYAML is the `models:` block of a variant; mapBound: InM etc. are map[string]interface{}.
func modelsYAML(s *Schema, mapBound bool) string {
	var sb strings.Builder
	sb.WriteString("models:\n")
	names := make([]string, 0)
	for n := range scalarModel {
		names = append(names, n)
	}
	sort.Strings(names)
	for _, n := range names {
		m := scalarModel[n]
		if !strings.Contains(m, "/") {
			m = "github.com/99designs/gqlgen/graphql." + m
		}
		fmt.Fprintf(&sb, "  %s: {model: %s}\n", n, m)
	}
	if mapBound {
		in := make([]string, 0)
		for n, b := range s.Binds {
			if b == "map" {
				in = append(in, n)
			}
		}
		sort.Strings(in)
		for _, n := range in {
			fmt.Fprintf(&sb, "  %s: {model: \"map[string]interface{}\"}\n", n)
		}
	}
	return sb.String()
}

// installSDL makes harness/probes/args/shapes.graphqls equal to the rendered SDL.
func installSDL(sdl string) {
	dir := filepath.Join(vlib.Harness(), "probes", "args")
	p := filepath.Join(dir, "shapes.graphqls")
	if old, err := os.ReadFile(p); err == nil && string(old) == sdl {
		return
	}
	tmp := fmt.Sprintf("%s.%d.tmp", p, os.Getpid())
	if err := os.WriteFile(tmp, []byte(sdl), 0o644); err != nil {
		vlib.Infra("write SDL: %v", err)
	}
	if err := os.Rename(tmp, p); err != nil {
		vlib.Infra("install SDL: %v", err)
	}
	fmt.Fprintln(os.Stderr, "c02: probes/args/shapes.graphqls re-rendered from the specification's shape list")
}

func checkRanges(s *Schema) {
	for n, r := range s.Ranges {
		g, ok := scalarRange[n]
		if !ok || len(r) != 2 || g[0] != r[0] || g[1] != r[1] {
			vlib.Infra("range of %s: specification %v, harness binding %v", n, r, g)
		}
	}
}
