package main

// Replay of the enumerated cases against the generated servers and the verdict
// on each observation.

import (
	"fmt"
	"strings"
	"sync"
	"time"

	"verifharness/ur"
	"verifharness/vlib"
)

type variant struct {
	v     vlib.Variant
	binds bindTable
	bin   string
}

// verdict of one (case, configuration)
type verdict struct {
	key    string
	detail string
	at     string // keyDump6: input-field-default | directive-argument | both
}

func under(path, prefix string) (string, bool) {
	if path == prefix {
		return "", true
	}
	if strings.HasPrefix(path, prefix+".") {
		return path[len(prefix)+1:], true
	}
	return "", false
}

// related: the observed sub-path is a prefix of a listed position or extends one
func related(sub string, sets ...[][]string) bool {
	for _, set := range sets {
		for _, p := range set {
			q := strings.Join(p, ".")
			if q == sub || sub == "" || q == "" || strings.HasPrefix(q, sub+".") || strings.HasPrefix(sub, q+".") {
				return true
			}
		}
	}
	return false
}

func hasClassOutsideInt64(v *Val) bool {
	switch v.T {
	case "int":
		switch v.C {
		case "ltMin64", "gtMax64", "maxU64", "gtMaxU64":
			return true
		}
	case "list":
		for _, e := range v.E {
			if hasClassOutsideInt64(e) {
				return true
			}
		}
	case "obj":
		for _, f := range v.F {
			if hasClassOutsideInt64(f.V) {
				return true
			}
		}
	}
	return false
}

// wrappers lists the object fields written as variables: key -> wrapper
func wrappers(v *Val, into map[string]*Val) {
	switch v.T {
	case "list":
		for _, e := range v.E {
			wrappers(e, into)
		}
	case "obj":
		for _, f := range v.F {
			if f.V.T == "var" {
				into[f.K] = f.V
			} else {
				wrappers(f.V, into)
			}
		}
	}
}

// nullInListOfLists: a null element of a list whose item type is itself a list
func nullInListOfLists(t *Type, v *Val) bool {
	if t == nil || t.K != "l" || v.T != "list" {
		return false
	}
	for _, e := range v.E {
		if t.Of.K == "l" && e.T == "null" {
			return true
		}
		if nullInListOfLists(t.Of, e) {
			return true
		}
	}
	return false
}

func isNegative(v *Val) bool {
	if v.T != "int" && v.T != "nstr" && v.T != "flt" {
		return false
	}
	switch v.C {
	case "ltMin64", "min64", "ltMin32", "min32", "m1":
		return true
	}
	return false
}

// keyDump6: ONE defect - codegen/templates.Dump renders a float64 with "%f", so a Float default that the
// generator writes into Go source (input field defaults, arguments of directives applied in the schema)
// keeps 6 decimals. The key is used only for a difference with exactly that signature at such a position.
const keyDump6 = "float-default:rendered-into-generated-code-with-6-decimals"

// judge: the verdict on the case itself, then on what @dflt received; a difference that is not the
// signature of keyDump6 takes precedence over one that is.
func judge(sch *Schema, cs *Case, vr *variant, cc *conc, cmd *ur.C02Case, o *ur.C02Obs) *verdict {
	v := judgeCase(sch, cs, vr, cc, cmd, o)
	if v != nil && v.key != keyDump6 {
		return v
	}
	dv := judgeDirs(sch, cs, vr, cc, cmd, o)
	if dv != nil && dv.key != keyDump6 {
		return dv
	}
	switch {
	case v != nil && dv != nil:
		return &verdict{keyDump6, v.detail + "\nand: " + dv.detail, "both"}
	case dv != nil:
		return dv
	}
	return v
}

// judgeDirs: every invocation of the schema directive @dflt received the arguments the specification
// prescribes for its site (DirSees). Whether it is invoked at all is not judged here (configuration).
func judgeDirs(sch *Schema, cs *Case, vr *variant, cc *conc, cmd *ur.C02Case, o *ur.C02Obs) *verdict {
	var six *verdict
	for _, d := range o.Dirs {
		ctx := fmt.Sprintf("configuration %s; %s  variables %s; @dflt invoked at path %s with tag %q received %s", vr.v.Name, cmd.Query, cmd.Vars, d.Path, d.Tag, d.Args)
		st := sch.byTag[d.Tag]
		if st == nil {
			return &verdict{"dirarg:unknown-site:" + d.Tag, "the directive received a tag that names no application site\n" + ctx, ""}
		}
		ct, err := parseCanon(d.Args)
		if err != nil || ct.K != "list" {
			vlib.Infra("cannot parse canonical directive arguments %q: %v", d.Args, err)
		}
		if len(ct.L) != len(sch.DirDef) || len(st.Sees.F) != len(sch.DirDef) {
			vlib.Infra("@dflt: %d arguments observed, %d declared, %d prescribed", len(ct.L), len(sch.DirDef), len(st.Sees.F))
		}
		m := &cmp{sch: sch, binds: vr.binds, c: cc, all: true}
		for i, a := range sch.DirDef {
			if st.Sees.F[i].K != a.Name {
				vlib.Infra("@dflt: prescribed argument order differs from the declaration")
			}
			if df := m.match(a.Type, st.Sees.F[i].V, ct.L[i], "@dflt("+d.Tag+")."+a.Name); df != "" {
				return &verdict{"dirarg:wrong-value:" + d.Tag + ":" + a.Name,
					"a directive applied in the schema did not receive the argument value the schema states: " + df + "\nprescribed " + st.Sees.String() + "\n" + ctx, ""}
			}
		}
		if len(m.sixDec) > 0 && six == nil {
			six = &verdict{keyDump6, "a directive applied in the schema received a Float argument cut to 6 decimals: " + strings.Join(m.sixDec, "; ") +
				"\nprescribed " + st.Sees.String() + " (application " + st.App.String() + ")\n" + ctx, "directive-argument"}
		}
	}
	return six
}

func judgeCase(sch *Schema, cs *Case, vr *variant, cc *conc, cmd *ur.C02Case, o *ur.C02Obs) *verdict {
	generic := func(what string) string {
		return fmt.Sprintf("%s:%s(%s):%s:%s", what, cs.Shape, cs.sh.Type.String(), cs.Src.String(), cs.Val.kindOf())
	}
	ctx := fmt.Sprintf("configuration %s; %s  variables %s  [shape %s x: %s, source %s, value %s]\nspecification: ok=%v v=%s faults=%v soft=%v\nobserved: called=%d args=%s gate=%v errs=%v",
		vr.v.Name, cmd.Query, cmd.Vars, cs.Shape, cs.sh.Type.String(), cs.Src.String(), cs.Val.String(),
		cs.Out.OK, cs.Out.V.String(), cs.Out.Faults, cs.Out.Soft, o.Called, o.Args, o.Gate, o.Errs)
	if o.Hung {
		return &verdict{generic("hang"), "the operation did not finish within 10 s\n" + ctx, ""}
	}
	wr := map[string]*Val{}
	wrappers(cs.Val, wr)
	if o.Panic != "" {
		if strings.HasPrefix(o.Panic, "harness:") {
			vlib.Infra("%s\n%s", o.Panic, ctx)
		}
		key := generic("panic")
		if cs.Src.K == "var" && nullInListOfLists(cs.sh.Type, cs.Val) {
			key = "var:null-in-list-of-lists:panic"
		}
		return &verdict{key, "a panic escaped the executor: " + o.Panic + "\n" + ctx, ""}
	}
	if len(o.Recov) > 0 && cs.Src.K == "lit" && hasClassOutsideInt64(cs.Val) && !builtin[cs.sh.Type.Base()] {
		return &verdict{"custom-scalar:int-literal-beyond-int64:panic-in-argument-map",
			"an integer literal outside int64 for a custom scalar panics in ast.arg2map (recovered): the error is reported at the field's path, not the argument's: " + strings.Join(o.Recov, "; ") + "\n" + ctx, ""}
	}
	if len(o.Recov) > 0 && cs.Src.K == "var" && cs.Val.T == "null" && cs.sh.Type.NN && o.Called == 0 {
		return &verdict{"nonnull:explicit-null-through-variable", "explicit null for a non-null input object through a nullable variable: unmarshalInput panics (recovered), reported at the field's path: " + strings.Join(o.Recov, "; ") + "\n" + ctx, ""}
	}
	if len(o.Recov) > 0 {
		return &verdict{generic("recovered-panic"), "gqlgen recovered a panic: " + strings.Join(o.Recov, "; ") + "\n" + ctx, ""}
	}
	if o.Others > 0 || o.Called > 1 {
		return &verdict{generic("resolver-count"), "unexpected resolver invocations\n" + ctx, ""}
	}
	// where did the errors go?
	type loc struct {
		sub     string
		hasPath bool
	}
	var locs []loc
	for _, e := range o.Gate {
		if e.P == "" {
			locs = append(locs, loc{}) // validation: the document is rejected, positions are source locations
			continue
		}
		rest, ok := under(e.P, "variable")
		if !ok {
			return &verdict{generic("errpath"), fmt.Sprintf("request error at unexpected path %q\n%s", e.P, ctx), ""}
		}
		name := strings.SplitN(rest, ".", 2)[0]
		if name == "v" {
			sub, _ := under(rest, "v")
			locs = append(locs, loc{sub, true})
		} else {
			locs = append(locs, loc{}) // a variable standing for an object field: position unknown
		}
	}
	for _, e := range o.Errs {
		sub, ok := under(e.P, "f.x")
		if !ok {
			return &verdict{generic("errpath"), fmt.Sprintf("error at path %q, which is not the argument's path f.x\n%s", e.P, ctx), ""}
		}
		locs = append(locs, loc{sub, true})
	}
	called := o.Called == 1
	if called && len(locs) > 0 {
		return &verdict{generic("called-and-error"), "the resolver was called although an input error was reported\n" + ctx, ""}
	}
	if !called && len(locs) == 0 {
		return &verdict{generic("silently-dropped"), "the resolver was not called and no error was reported\n" + ctx, ""}
	}
	if !cs.Out.OK {
		if called {
			key := generic("accepted-uncoercible")
			switch {
			case cs.sh.Type.Base() == "UID" && isNegative(cs.Val):
				key = "uintid:negative-wraps"
			case cs.Src.K == "var" && cs.Val.T == "null" && cs.sh.Type.NN:
				key = "nonnull:explicit-null-through-variable"
			default:
				for _, w := range wr {
					if w.V.T == "null" && w.D.T != "nodef" {
						key = "nonnull:explicit-null-through-variable"
					}
				}
			}
			return &verdict{key, "the input cannot be coerced, but the resolver was called\n" + ctx, ""}
		}
		for _, l := range locs {
			if l.hasPath && !related(l.sub, cs.Out.Faults, cs.Out.Soft) {
				return &verdict{generic("errpath"), fmt.Sprintf("error reported at %q below the argument; the uncoercible positions are %v\n%s", l.sub, cs.Out.Faults, ctx), ""}
			}
		}
		return nil
	}
	// coercible
	if !called {
		if len(cs.Out.Soft) == 0 {
			key := generic("rejected-valid")
			if cs.Src.K == "var" && cs.Src.VT == "nullable" && cs.Src.VDef.T == "nodef" && cs.sh.Def.T != "nodef" && len(o.Errs) == 0 &&
				len(o.Gate) == 1 && strings.Contains(o.Gate[0].M, "used in position expecting type") {
				key = "varusage:nullable-variable-at-nonnull-argument-with-default:rejected"
			}
			return &verdict{key, "the input is coercible, but it was rejected\n" + ctx, ""}
		}
		for _, l := range locs {
			if l.hasPath && !related(l.sub, cs.Out.Soft) {
				return &verdict{generic("rejected-valid"), fmt.Sprintf("rejected at %q; leniency only exists at %v\n%s", l.sub, cs.Out.Soft, ctx), ""}
			}
		}
		return nil
	}
	ct, err := parseCanon(o.Args)
	if err != nil {
		vlib.Infra("cannot parse canonical argument text: %v\n%s", err, ctx)
	}
	m := &cmp{sch: sch, binds: vr.binds, c: cc, dfl: cs.Out.Dfl}
	d := m.match(cs.sh.Type, cs.Out.V, ct, "x")
	if d == "" && len(m.sixDec) > 0 {
		return &verdict{keyDump6, "an input field's Float default reached the resolver cut to 6 decimals: " + strings.Join(m.sixDec, "; ") + "\n" + ctx, "input-field-default"}
	}
	if d != "" {
		key := generic("wrong-value")
		for k, w := range wr {
			if w.V.T == "absent" && w.D.T == "nodef" && strings.Contains(d, "at x."+k+":") {
				key = "objlit:unbound-variable-field:null-instead-of-absent"
			}
		}
		return &verdict{key, d + "\n" + ctx, ""}
	}
	return nil
}

type result struct {
	cs  *Case
	vr  *variant
	cmd ur.C02Case
	ver *verdict
	obs ur.C02Obs
}

// replayAll runs every case on every configuration (one probe process per configuration).
func replayAll(sch *Schema, cases []*Case, vars []*variant, seed int64) []result {
	var mu sync.Mutex
	var out []result
	var wg sync.WaitGroup
	for _, vr := range vars {
		wg.Add(1)
		go func(vr *variant) {
			defer wg.Done()
			p, err := vlib.StartProc(vr.bin, nil)
			if err != nil {
				vlib.Infra("start probe %s: %v", vr.v.Name, err)
			}
			defer p.Close()
			const batch = 200
			for i := 0; i < len(cases); i += batch {
				j := min(i+batch, len(cases))
				cmds := make([]ur.C02Case, 0, j-i)
				concs := make([]*conc, 0, j-i)
				for _, cs := range cases[i:j] {
					c, cc := build(sch, cs, seed)
					cmds = append(cmds, c)
					concs = append(concs, cc)
				}
				var res ur.C02Result
				for attempt := 0; ; attempt++ {
					if err := p.Send(ur.C02Batch{Cmd: "c02", Cases: cmds}); err != nil {
						vlib.Infra("probe %s: send: %v", vr.v.Name, err)
					}
					err := p.Recv(&res, 120*time.Second)
					if err == nil {
						break
					}
					if attempt >= 1 {
						vlib.Infra("probe %s died twice on one batch: %v\n%s", vr.v.Name, err, tail(p.Stderr, 2000))
					}
					if rerr := p.Restart(); rerr != nil {
						vlib.Infra("probe %s: restart: %v", vr.v.Name, rerr)
					}
				}
				if res.Err != "" || len(res.Obs) != len(cmds) {
					vlib.Infra("probe %s: %s (%d observations for %d cases)", vr.v.Name, res.Err, len(res.Obs), len(cmds))
				}
				loc := make([]result, 0, len(cmds))
				for k := range cmds {
					cs := cases[i+k]
					ver := judge(sch, cs, vr, concs[k], &cmds[k], &res.Obs[k])
					loc = append(loc, result{cs: cs, vr: vr, cmd: cmds[k], ver: ver, obs: res.Obs[k]})
				}
				mu.Lock()
				out = append(out, loc...)
				mu.Unlock()
			}
		}(vr)
	}
	wg.Wait()
	return out
}
