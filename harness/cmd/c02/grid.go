package main

// The scalar unmarshalers driven directly (in process) over the class x carrier
// grid; the oracle is CoerceScalar as printed by TLC.

import (
	"encoding/json"
	"fmt"
	"go/constant"
	"go/token"
	"go/types"
	"math"
	"math/big"
	"math/rand"
	"strconv"
	"time"

	"github.com/google/uuid"

	"github.com/99designs/gqlgen/codegen/templates"
	"github.com/99designs/gqlgen/graphql"

	"verifharness/vlib"
)

func wrapU[T any](f func(any) (T, error)) func(any) (any, error) {
	return func(v any) (any, error) { return f(v) }
}

var unmarshalers = map[string]func(any) (any, error){
	"Int": wrapU(graphql.UnmarshalInt), "I32": wrapU(graphql.UnmarshalInt32), "I64": wrapU(graphql.UnmarshalInt64),
	"U32": wrapU(graphql.UnmarshalUint32), "U64": wrapU(graphql.UnmarshalUint64), "UU": wrapU(graphql.UnmarshalUint),
	"IID": wrapU(graphql.UnmarshalIntID), "UID": wrapU(graphql.UnmarshalUintID),
	"Float": wrapU(graphql.UnmarshalFloat), "ID": wrapU(graphql.UnmarshalID), "String": wrapU(graphql.UnmarshalString),
	"Boolean": wrapU(graphql.UnmarshalBoolean),
}

type carried struct {
	name string
	v    any
}

func exactFloat(text string) (float64, bool) {
	f, err := strconv.ParseFloat(text, 64)
	if err != nil {
		return 0, false
	}
	a, ok := new(big.Float).SetPrec(512).SetString(text)
	return f, ok && a.Cmp(new(big.Float).SetPrec(512).SetFloat64(f)) == 0
}

// carriers of one abstract value, for one representative per class
func carriersOf(v *Val, rep string) []carried {
	var out []carried
	switch v.T {
	case "int":
		out = append(out, carried{"json.Number", json.Number(rep)})
		if n, err := strconv.ParseInt(rep, 10, 64); err == nil {
			out = append(out, carried{"int64", n}, carried{"int", int(n)})
		}
	case "flt":
		text := rep + ".0"
		if v.Fr {
			text = rep + ".5"
		}
		out = append(out, carried{"json.Number", json.Number(text)})
		if f, ok := exactFloat(text); ok {
			out = append(out, carried{"float64", f})
		}
	case "fx": // rep is one spelling of the named float
		out = append(out, carried{"json.Number", json.Number(rep)})
		if f, err := strconv.ParseFloat(rep, 64); err == nil {
			out = append(out, carried{"float64", f})
		}
	case "nstr":
		out = append(out, carried{"string", rep})
	case "str":
		out = append(out, carried{"string", v.S})
	case "bool":
		out = append(out, carried{"bool", v.S == "true"})
	}
	return out
}

func sameGot(want *Val, rep string, got any) bool {
	switch want.T {
	case "any":
		return true
	case "int":
		return sameNumber(fmt.Sprint(got), rep)
	case "flt":
		text := rep + ".0"
		if want.Fr {
			text = rep + ".5"
		}
		f, ok := got.(float64)
		w, _ := strconv.ParseFloat(text, 64)
		return ok && f == w
	case "fx":
		f, ok := got.(float64)
		w, _ := strconv.ParseFloat(rep, 64)
		return ok && f == w
	case "nstr":
		s, ok := got.(string)
		return ok && s == rep
	case "str":
		s, ok := got.(string)
		return ok && s == want.S
	case "bool":
		b, ok := got.(bool)
		return ok && strconv.FormatBool(b) == want.S
	}
	return false
}

func runGrid(c *vlib.Check, grid []*GridCell) {
	n := 0
	for _, cell := range grid {
		fn, ok := unmarshalers[cell.N]
		if !ok {
			vlib.Infra("grid: no unmarshaler for %s", cell.N)
		}
		reps := []string{""}
		if cell.Val.C != "" {
			reps = classReps[cell.Val.C]
		}
		if cell.Val.T == "fx" {
			reps = fxReps[cell.Val.C]
		}
		for _, rep := range reps {
			for _, ca := range carriersOf(cell.Val, rep) {
				n++
				var got any
				var err error
				var pan any
				func() {
					defer func() { pan = recover() }()
					got, err = fn(ca.v)
				}()
				c.Class(fmt.Sprintf("grid/%s/%s/%s/%s", cell.N, ca.name, cell.Val.kindOf(), cell.Out.R))
				detail := fmt.Sprintf("graphql unmarshaler of %s on %s(%v) [%s]: specification %s %s; got (%v, %v)",
					cell.N, ca.name, ca.v, cell.Val.String(), cell.Out.R, cell.Out.V.String(), got, err)
				replay := map[string]any{"kind": "grid", "target": cell.N, "carrier": ca.name, "value": fmt.Sprint(ca.v)}
				key := ""
				switch {
				case pan != nil:
					key = fmt.Sprintf("grid:panic:%s:%s:%s", cell.N, ca.name, cell.Val.kindOf())
					detail += fmt.Sprintf(" panic %v", pan)
				case cell.Out.R == "err" && err == nil:
					key = fmt.Sprintf("grid:accepted-uncoercible:%s:%s:%s", cell.N, ca.name, cell.Val.kindOf())
					if cell.N == "UID" && isNegative(cell.Val) {
						key = "uintid:negative-wraps"
					}
				case cell.Out.R == "ok" && err != nil:
					key = fmt.Sprintf("grid:rejected-valid:%s:%s:%s", cell.N, ca.name, cell.Val.kindOf())
				case err == nil && cell.Out.R != "err" && !sameGot(cell.Out.V, rep, got):
					key = fmt.Sprintf("grid:wrong-value:%s:%s:%s", cell.N, ca.name, cell.Val.kindOf())
				}
				if key != "" {
					c.Violate(key, detail, replay)
				}
			}
		}
	}
	c.AddEvals(int64(n))
	c.Set("grid_evaluations", n)

	// the non-numeric library scalars: identity / parse round trips (not enumerated by TLC)
	m := 0
	bad := func(key, detail string) {
		c.Violate("grid:"+key, detail, map[string]any{"kind": "grid", "target": key})
	}
	ts := "2020-01-02T03:04:05.000000006Z"
	if t, err := graphql.UnmarshalTime(ts); err != nil || t.Format(time.RFC3339Nano) != "2020-01-02T03:04:05.000000006Z" {
		bad("time:roundtrip", fmt.Sprintf("UnmarshalTime(%q) = %v, %v", ts, t, err))
	}
	if _, err := graphql.UnmarshalTime("yesterday"); err == nil {
		bad("time:accepts-garbage", "UnmarshalTime(\"yesterday\") succeeded")
	}
	us := "123e4567-e89b-12d3-a456-426614174000"
	if u, err := graphql.UnmarshalUUID(us); err != nil || u != uuid.MustParse(us) {
		bad("uuid:roundtrip", fmt.Sprintf("UnmarshalUUID(%q) = %v, %v", us, u, err))
	}
	if _, err := graphql.UnmarshalUUID("zz"); err == nil {
		bad("uuid:accepts-garbage", "UnmarshalUUID(\"zz\") succeeded")
	}
	mv := map[string]any{"a": json.Number("9223372036854775807"), "b": nil}
	if got, err := graphql.UnmarshalMap(mv); err != nil || len(got) != 2 || got["a"] != json.Number("9223372036854775807") {
		bad("map:identity", fmt.Sprintf("UnmarshalMap(%v) = %v, %v", mv, got, err))
	}
	if _, err := graphql.UnmarshalMap("x"); err == nil {
		bad("map:accepts-string", "UnmarshalMap(\"x\") succeeded")
	}
	for _, x := range []any{json.Number("18446744073709551616"), int64(-1), "s", nil, true, 1.5} {
		if got, err := graphql.UnmarshalAny(x); err != nil || got != x {
			bad("any:identity", fmt.Sprintf("UnmarshalAny(%v) = %v, %v", x, got, err))
		}
		m++
	}
	m += 6
	c.AddEvals(int64(m))
}

// runDumpGrid drives codegen/templates.Dump - the function the generator uses to write a schema
// default (input field defaults, arguments of directives applied in the schema) into Go source - over
// float64 values: the specification's named floats, the floats of the schema, and seed-derived ones.
// The text is evaluated as the Go expression it will be in the generated file, in an `any` context
// (asMap[k] = <text>; unmarshal(ctx, <text>)): it must be a float64 there and the same number.
// Inf / NaN cannot be written in SDL and are not produced.
func runDumpGrid(c *vlib.Check, sch *Schema) {
	type in struct {
		f    float64
		from string
	}
	var ins []in
	for _, n := range sch.Floats {
		f, _ := strconv.ParseFloat(fxReps[n][0], 64)
		ins = append(ins, in{f, "named float " + n + " = " + fxReps[n][0]}, in{-f, "named float -" + n})
	}
	for _, f := range []float64{0, 5, 1, -7, 100000, 1e6, 1e21, 1.5, 2.5, 0.000001, 0.0000005, 123456789.125, math.MaxFloat64, math.SmallestNonzeroFloat64, 1 << 53, 1<<53 + 2} {
		ins = append(ins, in{f, "fixed"})
	}
	rnd := rand.New(rand.NewSource(vlib.Seed()*7919 + 2))
	for len(ins) < 600 {
		var f float64
		switch rnd.Intn(4) {
		case 0: // any finite bit pattern
			f = math.Float64frombits(rnd.Uint64())
		case 1: // a decimal with up to 12 decimals, as somebody would write a default
			f, _ = strconv.ParseFloat(strconv.FormatFloat(rnd.Float64()*math.Pow10(rnd.Intn(7)), 'f', rnd.Intn(13), 64), 64)
		case 2: // integral
			f = float64(rnd.Int63n(1 << 40))
		default: // scientific
			f, _ = strconv.ParseFloat(fmt.Sprintf("%de%d", 1+rnd.Intn(9), rnd.Intn(600)-320), 64)
		}
		if math.IsInf(f, 0) || math.IsNaN(f) {
			continue
		}
		ins = append(ins, in{f, "seed-derived"})
	}
	n, changed6, reportedSix, reportedOther := 0, 0, false, 0
	for _, x := range ins {
		n++
		var text string
		var pan any
		func() {
			defer func() { pan = recover() }()
			text = templates.Dump(x.f)
		}()
		want := strconv.FormatFloat(x.f, 'g', -1, 64)
		replay := map[string]any{"kind": "grid", "target": "templates.Dump", "value": want}
		if pan != nil {
			c.Violate("dump:panic:float64", fmt.Sprintf("templates.Dump(float64 %s) panics: %v", want, pan), replay)
			continue
		}
		tv, err := types.Eval(token.NewFileSet(), nil, token.NoPos, text)
		kind := "invalid"
		var got float64
		if err == nil && tv.Value != nil {
			if b, ok := tv.Type.(*types.Basic); ok {
				switch types.Default(b).(*types.Basic).Kind() {
				case types.Float64:
					kind = "float64"
				case types.Int:
					kind = "int"
				default:
					kind = b.String()
				}
			}
			got, _ = constant.Float64Val(constant.ToFloat(tv.Value))
		}
		c.Class(fmt.Sprintf("dump/%s/%s/changed-by-6-decimals=%v", x.from[:min(len(x.from), 5)], kind, sixDecimals(x.f) != x.f))
		switch {
		case kind == "float64" && got == x.f:
		case kind == "float64" && got == sixDecimals(x.f):
			changed6++
			if !reportedSix {
				reportedSix = true
				c.Violate(treatFixed(keyDump6), fmt.Sprintf("templates.Dump(float64 %s) [%s] = %q, which is the number %s in the generated Go source: a Float default written into generated code keeps 6 decimals",
					want, x.from, text, strconv.FormatFloat(got, 'g', -1, 64)), replay)
			}
		default:
			if reportedOther < 3 {
				reportedOther++
				c.Violate("dump:float64:"+kind, fmt.Sprintf("templates.Dump(float64 %s) [%s] = %q: in an `any` context of the generated Go source this is %s %s, not the float64 %s",
					want, x.from, text, kind, strconv.FormatFloat(got, 'g', -1, 64), want), replay)
			}
		}
	}
	c.AddEvals(int64(n))
	c.Set("dump_evaluations", n)
	c.Set("dump_changed_by_6_decimals", changed6)
}
