package main

// The scalar unmarshalers driven directly (in process) over the class x carrier
// grid; the oracle is CoerceScalar as printed by TLC.

import (
	"encoding/json"
	"fmt"
	"math/big"
	"strconv"
	"time"

	"github.com/google/uuid"

	"github.com/99designs/gqlgen/graphql"

	"verifharness/vlib"
)

func wrapU[T any](f func(any) (T, error)) func(any) (any, error) {
	return func(v any) (any, error) { return f(v) }
}

var unmarshalers = map[string]func(any) (any, error){
	"Int": wrapU(graphql.UnmarshalInt), "I32": wrapU(graphql.UnmarshalInt32), "I64": wrapU(graphql.UnmarshalInt64),
	"U32": wrapU(graphql.UnmarshalUint32), "U64": wrapU(graphql.UnmarshalUint64), "UU": wrapU(graphql.UnmarshalUint),
	"IID": wrapU(graphql.UnmarshalIntID), "UID": wrapU(graphql.UnmarshalUintID),
	"Float": wrapU(graphql.UnmarshalFloat), "ID": wrapU(graphql.UnmarshalID), "String": wrapU(graphql.UnmarshalString),
	"Boolean": wrapU(graphql.UnmarshalBoolean),
}

type carried struct {
	name string
	v    any
}

func exactFloat(text string) (float64, bool) {
	f, err := strconv.ParseFloat(text, 64)
	if err != nil {
		return 0, false
	}
	a, ok := new(big.Float).SetPrec(512).SetString(text)
	return f, ok && a.Cmp(new(big.Float).SetPrec(512).SetFloat64(f)) == 0
}

// carriers of one abstract value, for one representative per class
func carriersOf(v *Val, rep string) []carried {
	var out []carried
	switch v.T {
	case "int":
		out = append(out, carried{"json.Number", json.Number(rep)})
		if n, err := strconv.ParseInt(rep, 10, 64); err == nil {
			out = append(out, carried{"int64", n}, carried{"int", int(n)})
		}
	case "flt":
		text := rep + ".0"
		if v.Fr {
			text = rep + ".5"
		}
		out = append(out, carried{"json.Number", json.Number(text)})
		if f, ok := exactFloat(text); ok {
			out = append(out, carried{"float64", f})
		}
	case "nstr":
		out = append(out, carried{"string", rep})
	case "str":
		out = append(out, carried{"string", v.S})
	case "bool":
		out = append(out, carried{"bool", v.S == "true"})
	}
	return out
}

func sameGot(want *Val, rep string, got any) bool {
	switch want.T {
	case "any":
		return true
	case "int":
		return sameNumber(fmt.Sprint(got), rep)
	case "flt":
		text := rep + ".0"
		if want.Fr {
			text = rep + ".5"
		}
		f, ok := got.(float64)
		w, _ := strconv.ParseFloat(text, 64)
		return ok && f == w
	case "nstr":
		s, ok := got.(string)
		return ok && s == rep
	case "str":
		s, ok := got.(string)
		return ok && s == want.S
	case "bool":
		b, ok := got.(bool)
		return ok && strconv.FormatBool(b) == want.S
	}
	return false
}

func runGrid(c *vlib.Check, grid []*GridCell) {
	n := 0
	for _, cell := range grid {
		fn, ok := unmarshalers[cell.N]
		if !ok {
			vlib.Infra("grid: no unmarshaler for %s", cell.N)
		}
		reps := []string{""}
		if cell.Val.C != "" {
			reps = classReps[cell.Val.C]
		}
		for _, rep := range reps {
			for _, ca := range carriersOf(cell.Val, rep) {
				n++
				var got any
				var err error
				var pan any
				func() {
					defer func() { pan = recover() }()
					got, err = fn(ca.v)
				}()
				c.Class(fmt.Sprintf("grid/%s/%s/%s/%s", cell.N, ca.name, cell.Val.kindOf(), cell.Out.R))
				detail := fmt.Sprintf("graphql unmarshaler of %s on %s(%v) [%s]: specification %s %s; got (%v, %v)",
					cell.N, ca.name, ca.v, cell.Val.String(), cell.Out.R, cell.Out.V.String(), got, err)
				replay := map[string]any{"kind": "grid", "target": cell.N, "carrier": ca.name, "value": fmt.Sprint(ca.v)}
				key := ""
				switch {
				case pan != nil:
					key = fmt.Sprintf("grid:panic:%s:%s:%s", cell.N, ca.name, cell.Val.kindOf())
					detail += fmt.Sprintf(" panic %v", pan)
				case cell.Out.R == "err" && err == nil:
					key = fmt.Sprintf("grid:accepted-uncoercible:%s:%s:%s", cell.N, ca.name, cell.Val.kindOf())
					if cell.N == "UID" && isNegative(cell.Val) {
						key = "uintid:negative-wraps"
					}
				case cell.Out.R == "ok" && err != nil:
					key = fmt.Sprintf("grid:rejected-valid:%s:%s:%s", cell.N, ca.name, cell.Val.kindOf())
				case err == nil && cell.Out.R != "err" && !sameGot(cell.Out.V, rep, got):
					key = fmt.Sprintf("grid:wrong-value:%s:%s:%s", cell.N, ca.name, cell.Val.kindOf())
				}
				if key != "" {
					c.Violate(key, detail, replay)
				}
			}
		}
	}
	c.AddEvals(int64(n))
	c.Set("grid_evaluations", n)

	// the non-numeric library scalars: identity / parse round trips (not enumerated by TLC)
	m := 0
	bad := func(key, detail string) {
		c.Violate("grid:"+key, detail, map[string]any{"kind": "grid", "target": key})
	}
	ts := "2020-01-02T03:04:05.000000006Z"
	if t, err := graphql.UnmarshalTime(ts); err != nil || t.Format(time.RFC3339Nano) != "2020-01-02T03:04:05.000000006Z" {
		bad("time:roundtrip", fmt.Sprintf("UnmarshalTime(%q) = %v, %v", ts, t, err))
	}
	if _, err := graphql.UnmarshalTime("yesterday"); err == nil {
		bad("time:accepts-garbage", "UnmarshalTime(\"yesterday\") succeeded")
	}
	us := "123e4567-e89b-12d3-a456-426614174000"
	if u, err := graphql.UnmarshalUUID(us); err != nil || u != uuid.MustParse(us) {
		bad("uuid:roundtrip", fmt.Sprintf("UnmarshalUUID(%q) = %v, %v", us, u, err))
	}
	if _, err := graphql.UnmarshalUUID("zz"); err == nil {
		bad("uuid:accepts-garbage", "UnmarshalUUID(\"zz\") succeeded")
	}
	mv := map[string]any{"a": json.Number("9223372036854775807"), "b": nil}
	if got, err := graphql.UnmarshalMap(mv); err != nil || len(got) != 2 || got["a"] != json.Number("9223372036854775807") {
		bad("map:identity", fmt.Sprintf("UnmarshalMap(%v) = %v, %v", mv, got, err))
	}
	if _, err := graphql.UnmarshalMap("x"); err == nil {
		bad("map:accepts-string", "UnmarshalMap(\"x\") succeeded")
	}
	for _, x := range []any{json.Number("18446744073709551616"), int64(-1), "s", nil, true, 1.5} {
		if got, err := graphql.UnmarshalAny(x); err != nil || got != x {
			bad("any:identity", fmt.Sprintf("UnmarshalAny(%v) = %v, %v", x, got, err))
		}
		m++
	}
	m += 6
	c.AddEvals(int64(m))
}
