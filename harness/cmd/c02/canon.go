package main

// The abstraction from the universal resolver's canonical argument text
// (ur.Canon) to the specification's value form, and the comparison under the
// binding of each input type (what a Go binding can express of absent / null).

import (
	"fmt"
	"math/big"
	"strconv"
	"strings"
)

// CT is a parsed canonical value.
type CT struct {
	K    string // null unset set str num bool list obj
	S    string // str (unquoted) / num text / bool text
	In   *CT    // set
	L    []*CT
	Keys []string
	M    map[string]*CT
}

type cparser struct {
	s string
	i int
}

func parseCanon(s string) (*CT, error) {
	p := &cparser{s: s}
	v, err := p.value()
	if err != nil {
		return nil, fmt.Errorf("%v at %d in %q", err, p.i, s)
	}
	if p.i != len(p.s) {
		return nil, fmt.Errorf("trailing text at %d in %q", p.i, s)
	}
	return v, nil
}

func (p *cparser) has(pre string) bool { return strings.HasPrefix(p.s[p.i:], pre) }

func (p *cparser) value() (*CT, error) {
	switch {
	case p.i >= len(p.s):
		return nil, fmt.Errorf("unexpected end")
	case p.has("null"):
		p.i += 4
		return &CT{K: "null"}, nil
	case p.has("<unset>"):
		p.i += 7
		return &CT{K: "unset"}, nil
	case p.has("set:"):
		p.i += 4
		in, err := p.value()
		if err != nil {
			return nil, err
		}
		return &CT{K: "set", In: in}, nil
	case p.has("true"):
		p.i += 4
		return &CT{K: "bool", S: "true"}, nil
	case p.has("false"):
		p.i += 5
		return &CT{K: "bool", S: "false"}, nil
	case p.s[p.i] == '"':
		q, err := strconv.QuotedPrefix(p.s[p.i:])
		if err != nil {
			return nil, err
		}
		p.i += len(q)
		u, err := strconv.Unquote(q)
		if err != nil {
			return nil, err
		}
		return &CT{K: "str", S: u}, nil
	case p.s[p.i] == '[':
		p.i++
		out := &CT{K: "list", L: []*CT{}}
		for {
			if p.i < len(p.s) && p.s[p.i] == ']' {
				p.i++
				return out, nil
			}
			if len(out.L) > 0 {
				if p.i >= len(p.s) || p.s[p.i] != ',' {
					return nil, fmt.Errorf("expected ,")
				}
				p.i++
			}
			e, err := p.value()
			if err != nil {
				return nil, err
			}
			out.L = append(out.L, e)
		}
	case p.s[p.i] == '{':
		p.i++
		out := &CT{K: "obj", M: map[string]*CT{}}
		for {
			if p.i < len(p.s) && p.s[p.i] == '}' {
				p.i++
				return out, nil
			}
			if len(out.Keys) > 0 {
				if p.i >= len(p.s) || p.s[p.i] != ',' {
					return nil, fmt.Errorf("expected ,")
				}
				p.i++
			}
			j := strings.IndexByte(p.s[p.i:], ':')
			if j <= 0 {
				return nil, fmt.Errorf("expected key")
			}
			k := p.s[p.i : p.i+j]
			p.i += j + 1
			e, err := p.value()
			if err != nil {
				return nil, err
			}
			out.Keys = append(out.Keys, k)
			out.M[k] = e
		}
	default:
		j := p.i
		for j < len(p.s) && strings.IndexByte("+-.eE0123456789", p.s[j]) >= 0 {
			j++
		}
		if j == p.i {
			return nil, fmt.Errorf("unexpected %q", p.s[p.i])
		}
		out := &CT{K: "num", S: p.s[p.i:j]}
		p.i = j
		return out, nil
	}
}

func (c *CT) String() string {
	switch c.K {
	case "set":
		return "set:" + c.In.String()
	case "str":
		return strconv.Quote(c.S)
	case "num", "bool":
		return c.S
	case "list":
		var p []string
		for _, e := range c.L {
			p = append(p, e.String())
		}
		return "[" + strings.Join(p, ",") + "]"
	case "obj":
		var p []string
		for _, k := range c.Keys {
			p = append(p, k+":"+c.M[k].String())
		}
		return "{" + strings.Join(p, ",") + "}"
	}
	return c.K
}

// binding of the input types in one generated configuration
type bindTable map[string]string // input type -> struct | omit | map

type cmp struct {
	sch   *Schema
	binds bindTable
	c     *conc
	// positions (dotted, below the argument) whose value is an input FIELD default the generated code
	// injected, i.e. a value the generator rendered into Go source; all: every position is (directive arguments)
	dfl [][]string
	all bool
	// differences that are exactly "the rendered default kept 6 decimals" at such a position
	sixDec []string
}

// rendered: the position `path` ("x.o.n", "x[0].w[1]") lies at or below a rendered default
func (m *cmp) rendered(path string) bool {
	if m.all {
		return true
	}
	p := strings.NewReplacer("[", ".", "]", "").Replace(path)
	if i := strings.IndexByte(p, '.'); i >= 0 {
		p = p[i+1:]
	} else {
		p = ""
	}
	for _, d := range m.dfl {
		q := strings.Join(d, ".")
		if p == q || strings.HasPrefix(p, q+".") {
			return true
		}
	}
	return false
}

// matchKind compares a value of the carrier-observing scalar K ("<Go type>:<value>").
func (m *cmp) matchKind(v *Val, o *CT, path string) string {
	diff := func(want string) string {
		return fmt.Sprintf("at %s: specification %s, the scalar's unmarshaler was handed %s", path, want, o.String())
	}
	if v.T == "absent" || v.T == "null" {
		if o.K != "null" {
			return diff(v.T)
		}
		return ""
	}
	if o.K != "str" {
		return diff(v.String())
	}
	i := strings.IndexByte(o.S, ':')
	if i < 0 {
		return diff(v.String())
	}
	typ, txt := o.S[:i], o.S[i+1:]
	switch v.T {
	case "int":
		want := m.c.num(v.C)
		if (typ == "int64" || typ == "int" || typ == "json.Number") && !strings.ContainsAny(txt, ".eE") && sameNumber(txt, want) {
			return ""
		}
		return diff("the integer " + want)
	case "flt", "fx":
		want := m.c.flt(v)
		isFloat := typ == "float64" || (typ == "json.Number" && strings.ContainsAny(txt, ".eE"))
		if isFloat && sameFloat(txt, want) {
			return ""
		}
		if !isFloat && sameFloat(txt, want) {
			return diff("the FLOAT " + want + " (a float64, as for a Float written in a document)")
		}
		return diff("the float " + want)
	case "any":
		return ""
	}
	return fmt.Sprintf("at %s: specification value %s cannot be compared for scalar K", path, v.T)
}

func sameNumber(a, b string) bool {
	x, ok1 := new(big.Float).SetPrec(256).SetString(a)
	y, ok2 := new(big.Float).SetPrec(256).SetString(b)
	return ok1 && ok2 && x.Cmp(y) == 0
}

func sameFloat(a, b string) bool {
	x, err1 := strconv.ParseFloat(a, 64)
	y, err2 := strconv.ParseFloat(b, 64)
	return err1 == nil && err2 == nil && x == y
}

// match compares the specification's coerced value v (type t) with the observed value o.
// anyTyped: the position is bound to `any` (numbers may arrive as json.Number, which Canon quotes).
// It returns "" or the first difference.
func (m *cmp) match(t *Type, v *Val, o *CT, path string) string {
	diff := func(want string) string {
		return fmt.Sprintf("at %s: specification %s, resolver received %s", path, want, o.String())
	}
	anyTyped := t != nil && t.K == "n" && t.N == "Any"
	if t == nil {
		anyTyped = true
	}
	if t != nil && t.K == "n" && t.N == "K" {
		return m.matchKind(v, o, path)
	}
	switch v.T {
	case "any":
		return ""
	case "absent", "null":
		if o.K != "null" {
			return diff(v.T)
		}
		return ""
	case "int", "flt", "fx":
		want := ""
		if v.T == "int" {
			want = m.c.num(v.C)
		} else {
			want = m.c.flt(v)
		}
		same := sameNumber
		if v.T != "int" {
			same = sameFloat // a float is compared as the float64 it denotes
		}
		if o.K == "num" && same(o.S, want) {
			return ""
		}
		if anyTyped && o.K == "str" && same(o.S, want) {
			return ""
		}
		if v.T != "int" && o.K == "num" && m.rendered(path) {
			// the signature of ONE defect: the default was written into the generated source with "%f"
			w, _ := strconv.ParseFloat(want, 64)
			if g, err := strconv.ParseFloat(o.S, 64); err == nil && g != w && g == sixDecimals(w) {
				m.sixDec = append(m.sixDec, fmt.Sprintf("at %s: the schema's default is %s, received %s", path, want, o.S))
				return ""
			}
		}
		return diff("the number " + want)
	case "nstr":
		if o.K == "str" && o.S == m.c.num(v.C) {
			return ""
		}
		return diff("the string " + strconv.Quote(m.c.num(v.C)))
	case "str", "enum":
		if o.K == "str" && o.S == v.S {
			return ""
		}
		return diff(strconv.Quote(v.S))
	case "bool":
		if o.K == "bool" && o.S == v.S {
			return ""
		}
		return diff(v.S)
	case "list":
		if o.K != "list" {
			return diff("a list")
		}
		if len(o.L) != len(v.E) {
			return diff(fmt.Sprintf("a list of %d", len(v.E)))
		}
		var et *Type
		if t != nil && t.K == "l" {
			et = t.Of
		} else if anyTyped {
			et = t
		}
		for i := range v.E {
			if d := m.match(et, v.E[i], o.L[i], fmt.Sprintf("%s[%d]", path, i)); d != "" {
				return d
			}
		}
		return ""
	case "obj":
		if o.K != "obj" {
			return diff("an object")
		}
		if anyTyped {
			if len(o.Keys) != len(v.F) {
				return diff("an object with the same keys")
			}
			for _, f := range v.F {
				of, ok := o.M[f.K]
				if !ok {
					return diff("key " + f.K)
				}
				if d := m.match(t, f.V, of, path+"."+f.K); d != "" {
					return d
				}
			}
			return ""
		}
		defs := m.sch.Inputs[t.N]
		bind := m.binds[t.N]
		view := m.sch.Views[bind]
		if view == nil {
			return fmt.Sprintf("at %s: no binding for input type %s", path, t.N)
		}
		seen := 0
		for i, f := range v.F {
			if i >= len(defs) || defs[i].Name != f.K {
				return fmt.Sprintf("at %s: specification output does not follow the field order", path)
			}
			fd := defs[i]
			fp := path + "." + f.K
			of, has := o.M[f.K]
			if has {
				seen++
			}
			// how this binding expresses the field
			wrapped := bind == "omit" && !fd.Type.NN
			if f.V.T == "absent" || f.V.T == "null" {
				how := view[f.V.T]
				switch how {
				case "nokey":
					if has {
						return fmt.Sprintf("at %s: specification %s (no key), resolver received %s", fp, f.V.T, of.String())
					}
					continue
				case "unset":
					if wrapped {
						if !has || of.K != "unset" {
							return fmt.Sprintf("at %s: specification %s (Omittable not set), resolver received %s", fp, f.V.T, ctStr(of))
						}
						continue
					}
				case "set:null":
					if wrapped {
						if !has || of.K != "set" || of.In.K != "null" {
							return fmt.Sprintf("at %s: specification %s (Omittable set to null), resolver received %s", fp, f.V.T, ctStr(of))
						}
						continue
					}
				}
				if !has || of.K != "null" {
					return fmt.Sprintf("at %s: specification %s, resolver received %s", fp, f.V.T, ctStr(of))
				}
				continue
			}
			if !has {
				return fmt.Sprintf("at %s: specification %s, the resolver's value has no such field", fp, f.V.String())
			}
			if wrapped {
				if of.K != "set" {
					return fmt.Sprintf("at %s: specification %s (Omittable set), resolver received %s", fp, f.V.String(), of.String())
				}
				of = of.In
			}
			if d := m.match(fd.Type, f.V, of, fp); d != "" {
				return d
			}
		}
		if seen != len(o.Keys) {
			return diff("exactly the declared fields")
		}
		return ""
	}
	return fmt.Sprintf("at %s: specification value %s cannot be compared", path, v.T)
}

func ctStr(c *CT) string {
	if c == nil {
		return "<no key>"
	}
	return c.String()
}
