package main

import "fmt"

// Independent strict validator: RFC 8259 grammar + well-formed UTF-8 (Unicode
// Table 3-7).  It shares no code with encoding/json, unicode/utf8 or gqlgen.

type vErr struct {
	Kind string // "utf8" | "syntax"
	Off  int
	Msg  string
}

func (e *vErr) Error() string { return fmt.Sprintf("%s error at offset %d: %s", e.Kind, e.Off, e.Msg) }

type jv struct {
	b []byte
	i int
}

// validateJSON checks that b is exactly one JSON text (RFC 8259 section 2) in
// well-formed UTF-8.
func validateJSON(b []byte) *vErr {
	p := &jv{b: b}
	p.ws()
	if e := p.value(0); e != nil {
		return e
	}
	p.ws()
	if p.i != len(p.b) {
		return &vErr{"syntax", p.i, "trailing data after the JSON value"}
	}
	return nil
}

func (p *jv) ws() {
	for p.i < len(p.b) {
		switch p.b[p.i] {
		case 0x20, 0x09, 0x0A, 0x0D:
			p.i++
		default:
			return
		}
	}
}

func (p *jv) lit(s string) *vErr {
	if len(p.b)-p.i < len(s) || string(p.b[p.i:p.i+len(s)]) != s {
		return &vErr{"syntax", p.i, "invalid literal, want " + s}
	}
	p.i += len(s)
	return nil
}

func (p *jv) value(depth int) *vErr {
	if depth > 10000 {
		return &vErr{"syntax", p.i, "nesting too deep"}
	}
	if p.i >= len(p.b) {
		return &vErr{"syntax", p.i, "unexpected end, value expected"}
	}
	switch c := p.b[p.i]; {
	case c == '{':
		p.i++
		p.ws()
		if p.i < len(p.b) && p.b[p.i] == '}' {
			p.i++
			return nil
		}
		for {
			p.ws()
			if p.i >= len(p.b) || p.b[p.i] != '"' {
				return &vErr{"syntax", p.i, "object key (string) expected"}
			}
			if e := p.str(); e != nil {
				return e
			}
			p.ws()
			if p.i >= len(p.b) || p.b[p.i] != ':' {
				return &vErr{"syntax", p.i, "':' expected"}
			}
			p.i++
			p.ws()
			if e := p.value(depth + 1); e != nil {
				return e
			}
			p.ws()
			if p.i >= len(p.b) {
				return &vErr{"syntax", p.i, "unexpected end in object"}
			}
			if p.b[p.i] == ',' {
				p.i++
				continue
			}
			if p.b[p.i] == '}' {
				p.i++
				return nil
			}
			return &vErr{"syntax", p.i, "',' or '}' expected"}
		}
	case c == '[':
		p.i++
		p.ws()
		if p.i < len(p.b) && p.b[p.i] == ']' {
			p.i++
			return nil
		}
		for {
			p.ws()
			if e := p.value(depth + 1); e != nil {
				return e
			}
			p.ws()
			if p.i >= len(p.b) {
				return &vErr{"syntax", p.i, "unexpected end in array"}
			}
			if p.b[p.i] == ',' {
				p.i++
				continue
			}
			if p.b[p.i] == ']' {
				p.i++
				return nil
			}
			return &vErr{"syntax", p.i, "',' or ']' expected"}
		}
	case c == '"':
		return p.str()
	case c == 't':
		return p.lit("true")
	case c == 'f':
		return p.lit("false")
	case c == 'n':
		return p.lit("null")
	case c == '-' || (c >= '0' && c <= '9'):
		return p.num()
	default:
		return &vErr{"syntax", p.i, fmt.Sprintf("unexpected byte 0x%02X, value expected", c)}
	}
}

func isDigit(c byte) bool { return c >= '0' && c <= '9' }

func (p *jv) num() *vErr {
	if p.b[p.i] == '-' {
		p.i++
	}
	if p.i >= len(p.b) || !isDigit(p.b[p.i]) {
		return &vErr{"syntax", p.i, "digit expected in number"}
	}
	if p.b[p.i] == '0' {
		p.i++
	} else {
		for p.i < len(p.b) && isDigit(p.b[p.i]) {
			p.i++
		}
	}
	if p.i < len(p.b) && p.b[p.i] == '.' {
		p.i++
		if p.i >= len(p.b) || !isDigit(p.b[p.i]) {
			return &vErr{"syntax", p.i, "digit expected after '.'"}
		}
		for p.i < len(p.b) && isDigit(p.b[p.i]) {
			p.i++
		}
	}
	if p.i < len(p.b) && (p.b[p.i] == 'e' || p.b[p.i] == 'E') {
		p.i++
		if p.i < len(p.b) && (p.b[p.i] == '+' || p.b[p.i] == '-') {
			p.i++
		}
		if p.i >= len(p.b) || !isDigit(p.b[p.i]) {
			return &vErr{"syntax", p.i, "digit expected in exponent"}
		}
		for p.i < len(p.b) && isDigit(p.b[p.i]) {
			p.i++
		}
	}
	// a number must be followed by a structural character, whitespace or the end
	if p.i < len(p.b) {
		switch p.b[p.i] {
		case ',', '}', ']', 0x20, 0x09, 0x0A, 0x0D:
		default:
			return &vErr{"syntax", p.i, fmt.Sprintf("unexpected byte 0x%02X after number", p.b[p.i])}
		}
	}
	return nil
}

func isHex(c byte) bool {
	return (c >= '0' && c <= '9') || (c >= 'a' && c <= 'f') || (c >= 'A' && c <= 'F')
}

// utf8Len returns the length of the well-formed UTF-8 sequence starting at
// b[i] (Unicode Table 3-7), or 0 if b[i] does not start one.
func utf8Len(b []byte, i int) int {
	c := b[i]
	in := func(j int, lo, hi byte) bool { return j < len(b) && b[j] >= lo && b[j] <= hi }
	switch {
	case c <= 0x7F:
		return 1
	case c >= 0xC2 && c <= 0xDF:
		if in(i+1, 0x80, 0xBF) {
			return 2
		}
	case c == 0xE0:
		if in(i+1, 0xA0, 0xBF) && in(i+2, 0x80, 0xBF) {
			return 3
		}
	case (c >= 0xE1 && c <= 0xEC) || c == 0xEE || c == 0xEF:
		if in(i+1, 0x80, 0xBF) && in(i+2, 0x80, 0xBF) {
			return 3
		}
	case c == 0xED:
		if in(i+1, 0x80, 0x9F) && in(i+2, 0x80, 0xBF) {
			return 3
		}
	case c == 0xF0:
		if in(i+1, 0x90, 0xBF) && in(i+2, 0x80, 0xBF) && in(i+3, 0x80, 0xBF) {
			return 4
		}
	case c >= 0xF1 && c <= 0xF3:
		if in(i+1, 0x80, 0xBF) && in(i+2, 0x80, 0xBF) && in(i+3, 0x80, 0xBF) {
			return 4
		}
	case c == 0xF4:
		if in(i+1, 0x80, 0x8F) && in(i+2, 0x80, 0xBF) && in(i+3, 0x80, 0xBF) {
			return 4
		}
	}
	return 0
}

func (p *jv) str() *vErr {
	p.i++ // opening quote
	for {
		if p.i >= len(p.b) {
			return &vErr{"syntax", p.i, "unterminated string"}
		}
		c := p.b[p.i]
		switch {
		case c == '"':
			p.i++
			return nil
		case c < 0x20:
			return &vErr{"syntax", p.i, fmt.Sprintf("unescaped control character 0x%02X in string", c)}
		case c == '\\':
			if p.i+1 >= len(p.b) {
				return &vErr{"syntax", p.i, "unterminated escape"}
			}
			switch p.b[p.i+1] {
			case '"', '\\', '/', 'b', 'f', 'n', 'r', 't':
				p.i += 2
			case 'u':
				if p.i+5 >= len(p.b) || !isHex(p.b[p.i+2]) || !isHex(p.b[p.i+3]) || !isHex(p.b[p.i+4]) || !isHex(p.b[p.i+5]) {
					return &vErr{"syntax", p.i, "\\u needs four hex digits"}
				}
				p.i += 6
			default:
				return &vErr{"syntax", p.i, fmt.Sprintf("invalid escape \\%c", p.b[p.i+1])}
			}
		default:
			n := utf8Len(p.b, p.i)
			if n == 0 {
				return &vErr{"utf8", p.i, fmt.Sprintf("byte 0x%02X does not start a well-formed UTF-8 sequence", c)}
			}
			p.i += n
		}
	}
}

// repairUTF8 replaces every byte that does not belong to a well-formed UTF-8
// sequence by EF BF BD (one replacement per offending byte).
func repairUTF8(b []byte) []byte {
	out := make([]byte, 0, len(b)+8)
	for i := 0; i < len(b); {
		n := utf8Len(b, i)
		if n == 0 {
			out = append(out, 0xEF, 0xBF, 0xBD)
			i++
			continue
		}
		out = append(out, b[i:i+n]...)
		i += n
	}
	return out
}

// hasInvalidUTF8 reports whether s contains an offending byte.
func hasInvalidUTF8(b []byte) bool {
	for i := 0; i < len(b); {
		n := utf8Len(b, i)
		if n == 0 {
			return true
		}
		i += n
	}
	return false
}
