package main

import (
	"encoding/hex"
	"encoding/json"
	"fmt"
	"math"
	"math/rand"
	"reflect"
	"strconv"
	"time"

	"github.com/99designs/gqlgen/graphql"
	"github.com/google/uuid"
	"github.com/vektah/gqlparser/v2/ast"
	"github.com/vektah/gqlparser/v2/gqlerror"

	"verifharness/vlib"
)

func collected(alias string) graphql.CollectedField {
	return graphql.CollectedField{Field: &ast.Field{Alias: alias, Name: alias}}
}

// node is a random composition: the gqlgen marshaler, the JSON value it
// stands for (numbers as json.Number text), and its shape for blaming.
type node struct {
	m     graphql.Marshaler
	want  any
	kind  string // object | list | leaf kind
	kids  []*node
	bytes bool // contains a string with offending bytes
}

func numText(s string) any { return json.Number(s) }

func randLeaf(rng *rand.Rand, allowInvalid bool) *node {
	switch rng.Intn(14) {
	case 0:
		s := classString(rng, true)
		return &node{m: graphql.MarshalString(s), want: s, kind: "string"}
	case 1:
		if allowInvalid {
			s := classString(rng, false)
			return &node{m: graphql.MarshalString(s), want: string(repairUTF8([]byte(s))), kind: "string-invalid", bytes: true}
		}
		s := classString(rng, true)
		return &node{m: graphql.MarshalID(s), want: s, kind: "id"}
	case 2:
		v := []int{0, -1, math.MaxInt64, math.MinInt64, rng.Intn(1 << 20), -rng.Intn(1 << 40)}[rng.Intn(6)]
		return &node{m: graphql.MarshalInt(v), want: numText(strconv.Itoa(v)), kind: "int"}
	case 3:
		v := []int32{0, math.MaxInt32, math.MinInt32, int32(rng.Uint32())}[rng.Intn(4)]
		return &node{m: graphql.MarshalInt32(v), want: numText(strconv.FormatInt(int64(v), 10)), kind: "int32"}
	case 4:
		v := []uint64{0, math.MaxUint64, math.MaxUint32, rng.Uint64()}[rng.Intn(4)]
		return &node{m: graphql.MarshalUint64(v), want: numText(strconv.FormatUint(v, 10)), kind: "uint64"}
	case 5:
		f := []float64{0, math.Copysign(0, -1), 1e21, 5e-324, -math.MaxFloat64, rng.NormFloat64(), float64(rng.Intn(1000)), rng.Float64() * 1e-9}[rng.Intn(8)]
		return &node{m: graphql.WrapContextMarshaler(ctxWithErrors(), graphql.MarshalFloatContext(f)), want: f, kind: "float"}
	case 6:
		b := rng.Intn(2) == 0
		return &node{m: graphql.MarshalBoolean(b), want: b, kind: "bool"}
	case 7:
		return &node{m: graphql.Null, want: nil, kind: "null"}
	case 8:
		t := randTime(rng, time.FixedZone("", (rng.Intn(1440)-720)*60), rng.Intn(2) == 0)
		return &node{m: graphql.MarshalTime(t), want: t.Format(time.RFC3339Nano), kind: "time"}
	case 9:
		var u uuid.UUID
		rng.Read(u[:])
		if u == uuid.Nil {
			u[0] = 1
		}
		return &node{m: graphql.MarshalUUID(u), want: u.String(), kind: "uuid"}
	case 10:
		v := rng.Intn(1 << 30)
		return &node{m: graphql.MarshalIntID(v), want: strconv.Itoa(v), kind: "intid"}
	case 11:
		m, _ := randJSONValue(rng, "map", 0).(map[string]any)
		return &node{m: graphql.MarshalMap(m), want: jsonNorm(m), kind: "map"}
	case 12:
		v := randJSONValue(rng, "nested", 2)
		return &node{m: graphql.MarshalAny(v), want: jsonNorm(v), kind: "any"}
	default:
		return &node{m: graphql.True, want: true, kind: "true"}
	}
}

func randNode(rng *rand.Rand, depth int, allowInvalid bool) *node {
	if depth <= 0 || rng.Intn(4) == 0 {
		return randLeaf(rng, allowInvalid)
	}
	n := []int{0, 1, 2, 3, 5}[rng.Intn(5)]
	if rng.Intn(2) == 0 {
		arr := graphql.Array{}
		want := []any{}
		nd := &node{kind: "list"}
		for i := 0; i < n; i++ {
			k := randNode(rng, depth-1, allowInvalid)
			arr = append(arr, k.m)
			want = append(want, k.want)
			nd.kids = append(nd.kids, k)
			nd.bytes = nd.bytes || k.bytes
		}
		nd.m, nd.want = arr, want
		return nd
	}
	var fields []graphql.CollectedField
	want := map[string]any{}
	nd := &node{kind: "object"}
	var aliases []string
	for i := 0; i < n; i++ {
		alias := fmt.Sprintf("f%d", i)
		switch rng.Intn(4) {
		case 0:
			alias = fmt.Sprintf("a%d_", i) + classString(rng, true)
		case 1:
			if allowInvalid && rng.Intn(3) == 0 {
				alias = fmt.Sprintf("b%d_", i) + classString(rng, false)
				nd.bytes = true
			}
		}
		aliases = append(aliases, alias)
		fields = append(fields, collected(alias))
	}
	fs := graphql.NewFieldSet(fields)
	for i := 0; i < n; i++ {
		k := randNode(rng, depth-1, allowInvalid)
		fs.Values[i] = k.m
		want[string(repairUTF8([]byte(aliases[i])))] = k.want
		nd.kids = append(nd.kids, k)
		nd.bytes = nd.bytes || k.bytes
	}
	nd.m, nd.want = fs, want
	return nd
}

// sameJSON compares a value decoded with UseNumber against the expected tree.
func sameJSON(got, want any) bool {
	switch w := want.(type) {
	case json.Number:
		g, ok := got.(json.Number)
		return ok && string(g) == string(w)
	case float64:
		g, ok := got.(json.Number)
		if !ok {
			return false
		}
		f, err := strconv.ParseFloat(string(g), 64)
		return err == nil && (sameFloat(f, w) || (f == 0 && w == 0 && math.Signbit(f) == math.Signbit(w)))
	case []any:
		g, ok := got.([]any)
		if !ok || len(g) != len(w) {
			return false
		}
		for i := range w {
			if !sameJSON(g[i], w[i]) {
				return false
			}
		}
		return true
	case map[string]any:
		g, ok := got.(map[string]any)
		if !ok || len(g) != len(w) {
			return false
		}
		for k, e := range w {
			ge, ok := g[k]
			if !ok || !sameJSON(ge, e) {
				return false
			}
		}
		return true
	}
	return reflect.DeepEqual(got, want)
}

// checkTree returns a failure kind ("" = fine) for one node marshalled alone.
func checkTree(n *node) (kind, detail string, out []byte) {
	out = marshalBytes(n.m)
	try := func(b []byte) (string, string) {
		if e := validateJSON(b); e != nil {
			return e.Kind, fmt.Sprintf("rejected by the strict validator: %v", e)
		}
		dec, err := decodeToken(b)
		if err != nil {
			return "not-decodable", err.Error()
		}
		if !sameJSON(dec, n.want) {
			return "value-changed", fmt.Sprintf("decodes to %#v, expected %#v", dec, n.want)
		}
		return "", ""
	}
	k, d := try(out)
	if k == "utf8" && n.bytes {
		if k2, _ := try(repairUTF8(out)); k2 == "" {
			return "invalid-utf8-verbatim", d, out
		}
	}
	if k == "utf8" || k == "syntax" {
		k = "not-valid-json"
	}
	return k, d, out
}

// minimalFailing descends to a smallest subtree that fails the same way.
func minimalFailing(n *node, kind string) *node {
	for _, k := range n.kids {
		if kk, _, _ := checkTree(k); kk == kind {
			return minimalFailing(k, kind)
		}
	}
	return n
}

func arity(n int) string {
	switch {
	case n == 0:
		return "0"
	case n == 1:
		return "1"
	}
	return "2+"
}

func checkNestings(c *vlib.Check, rng *rand.Rand, trees int) int64 {
	var evals int64
	for i := 0; i < trees; i++ {
		allowInvalid := i%10 == 9
		n := randNode(rng, 1+rng.Intn(4), allowInvalid)
		evals++
		c.Class("N:" + n.kind + "/" + arity(len(n.kids)) + "/" + strconv.FormatBool(n.bytes))
		kind, detail, out := checkTree(n)
		if kind != "" {
			key := "string:invalid-utf8-verbatim"
			if kind != "invalid-utf8-verbatim" {
				m := minimalFailing(n, kind)
				key = "nest:" + kind + ":" + m.kind + "/" + arity(len(m.kids))
			}
			c.Violate(key, fmt.Sprintf("composition wrote %q: %s", out, detail),
				map[string]any{"kind": "nesting", "tree_index": i, "output_hex": hex.EncodeToString(out), "expected": fmt.Sprintf("%#v", n.want)})
			continue
		}
		// the Response envelope every transport writes
		hasNext := rng.Intn(2) == 0
		resp := graphql.Response{Data: out, Label: classString(rng, true), HasNext: &hasNext,
			Path:       ast.Path{ast.PathName(classString(rng, true)), ast.PathIndex(rng.Intn(5))},
			Extensions: map[string]any{"ext": randJSONValue(rng, "nested", 2)}}
		if rng.Intn(2) == 0 {
			resp.Errors = gqlerror.List{{Message: classString(rng, true), Path: ast.Path{ast.PathName("a"), ast.PathIndex(1)},
				Extensions: map[string]any{"code": classString(rng, true)}}}
		}
		rb, err := json.Marshal(&resp)
		evals++
		if err != nil {
			c.Violate("response:marshal-error", fmt.Sprintf("json.Marshal(Response{Data:%q}): %v", out, err), map[string]any{"kind": "response", "data_hex": hex.EncodeToString(out)})
			continue
		}
		if e := validateJSON(rb); e != nil {
			c.Violate("response:not-valid-json", fmt.Sprintf("Response wrote %q: %v", rb, e), map[string]any{"kind": "response", "output_hex": hex.EncodeToString(rb)})
			continue
		}
		dec, err := decodeToken(rb)
		obj, _ := dec.(map[string]any)
		if err != nil || obj == nil || !sameJSON(obj["data"], n.want) || (resp.Label != "" && !sameJSON(obj["label"], resp.Label)) {
			c.Violate("response:value-changed", fmt.Sprintf("Response wrote %q; data expected %#v", rb, n.want), map[string]any{"kind": "response", "output_hex": hex.EncodeToString(rb)})
		}
	}
	return evals
}
