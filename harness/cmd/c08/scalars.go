package main

import (
	"bytes"
	"context"
	"encoding/json"
	"fmt"
	"math"
	"math/big"
	"math/rand"
	"strconv"
	"strings"

	"github.com/99designs/gqlgen/graphql"

	"verifharness/vlib"
)

// scLine is one scalar case printed by JsonWriter!Emit.
type scLine struct {
	K   string `json:"k"`   // M marshal | U unmarshal
	Ty  string `json:"ty"`  // scalar type
	Ca  string `json:"ca"`  // carrier (U) / binding (M)
	Cl  string `json:"cl"`  // value class
	Out string `json:"out"` // prescribed outcome
	Rt  string `json:"rt"`  // round-trip demand
}

func (l *scLine) id() string { return l.K + ":" + l.Ty + ":" + l.Ca + ":" + l.Cl }

func pow2(n uint) *big.Int             { return new(big.Int).Lsh(big.NewInt(1), n) }
func add(a *big.Int, d int64) *big.Int { return new(big.Int).Add(a, big.NewInt(d)) }
func neg(a *big.Int) *big.Int          { return new(big.Int).Neg(a) }

// between returns n random integers in [lo, hi] plus both ends' neighbours inside.
func between(lo, hi *big.Int, n int, rng *rand.Rand) []*big.Int {
	out := []*big.Int{new(big.Int).Set(lo), new(big.Int).Set(hi)}
	w := new(big.Int).Sub(hi, lo)
	w.Add(w, big.NewInt(1))
	for i := 0; i < n; i++ {
		r := new(big.Int).Rand(rng, w)
		out = append(out, r.Add(r, lo))
	}
	return out
}

// intPoints concretises a symbolic point/interval of the integer line.
func intPoints(cl string, n int, rng *rand.Rand) []*big.Int {
	one := func(v *big.Int) []*big.Int { return []*big.Int{v} }
	minI64, maxI64 := neg(pow2(63)), add(pow2(63), -1)
	minI32, maxI32 := neg(pow2(31)), add(pow2(31), -1)
	maxU32, maxU64 := add(pow2(32), -1), add(pow2(64), -1)
	switch cl {
	case "belowI64":
		huge, _ := new(big.Int).SetString("-1000000000000000000000000000000", 10)
		return append(between(add(neg(pow2(64)), -5), add(minI64, -1), n, rng), huge)
	case "minI64":
		return one(minI64)
	case "minI64+1":
		return one(add(minI64, 1))
	case "negBig":
		return between(add(minI64, 2), add(minI32, -2), n, rng)
	case "minI32-1":
		return one(add(minI32, -1))
	case "minI32":
		return one(minI32)
	case "minI32+1":
		return one(add(minI32, 1))
	case "negSmall":
		return between(add(minI32, 2), big.NewInt(-2), n, rng)
	case "-1":
		return one(big.NewInt(-1))
	case "0":
		return one(big.NewInt(0))
	case "1":
		return one(big.NewInt(1))
	case "posSmall":
		return between(big.NewInt(2), add(maxI32, -2), n, rng)
	case "maxI32-1":
		return one(add(maxI32, -1))
	case "maxI32":
		return one(maxI32)
	case "maxI32+1":
		return one(add(maxI32, 1))
	case "midU32":
		return between(add(maxI32, 2), add(maxU32, -2), n, rng)
	case "maxU32-1":
		return one(add(maxU32, -1))
	case "maxU32":
		return one(maxU32)
	case "maxU32+1":
		return one(add(maxU32, 1))
	case "posBig":
		return between(add(maxU32, 2), add(maxI64, -2), n, rng)
	case "maxI64-1":
		return one(add(maxI64, -1))
	case "maxI64":
		return one(maxI64)
	case "maxI64+1":
		return one(add(maxI64, 1))
	case "bigU64":
		return between(add(maxI64, 2), add(maxU64, -2), n, rng)
	case "maxU64-1":
		return one(add(maxU64, -1))
	case "maxU64":
		return one(maxU64)
	case "aboveU64":
		huge, _ := new(big.Int).SetString("1000000000000000000000000000000", 10)
		return append(between(add(maxU64, 1), add(pow2(65), 0), n, rng), huge)
	}
	vlib.Infra("specification printed an unknown integer class %q", cl)
	return nil
}

func ctxWithErrors() context.Context {
	return graphql.WithResponseContext(context.Background(), graphql.DefaultErrorPresenter, graphql.DefaultRecover)
}

// marshalInt calls the real Marshal function of an integer type.
func marshalInt(ty string, v *big.Int) []byte {
	switch ty {
	case "Int":
		return marshalBytes(graphql.MarshalInt(int(v.Int64())))
	case "Int32":
		return marshalBytes(graphql.MarshalInt32(int32(v.Int64())))
	case "Int64":
		return marshalBytes(graphql.MarshalInt64(v.Int64()))
	case "Uint":
		return marshalBytes(graphql.MarshalUint(uint(v.Uint64())))
	case "Uint32":
		return marshalBytes(graphql.MarshalUint32(uint32(v.Uint64())))
	case "Uint64":
		return marshalBytes(graphql.MarshalUint64(v.Uint64()))
	case "IntID":
		return marshalBytes(graphql.MarshalIntID(int(v.Int64())))
	case "UintID":
		return marshalBytes(graphql.MarshalUintID(uint(v.Uint64())))
	}
	vlib.Infra("unknown integer type %q", ty)
	return nil
}

// unmarshalInt calls the real Unmarshal function; the result as a big.Int.
func unmarshalInt(ty string, carrier any) (*big.Int, error) {
	switch ty {
	case "Int":
		r, err := graphql.UnmarshalInt(carrier)
		return big.NewInt(int64(r)), err
	case "Int32":
		r, err := graphql.UnmarshalInt32(carrier)
		return big.NewInt(int64(r)), err
	case "Int64":
		r, err := graphql.UnmarshalInt64(carrier)
		return big.NewInt(r), err
	case "Uint":
		r, err := graphql.UnmarshalUint(carrier)
		return new(big.Int).SetUint64(uint64(r)), err
	case "Uint32":
		r, err := graphql.UnmarshalUint32(carrier)
		return new(big.Int).SetUint64(uint64(r)), err
	case "Uint64":
		r, err := graphql.UnmarshalUint64(carrier)
		return new(big.Int).SetUint64(r), err
	case "IntID":
		r, err := graphql.UnmarshalIntID(carrier)
		return big.NewInt(int64(r)), err
	case "UintID":
		r, err := graphql.UnmarshalUintID(carrier)
		return new(big.Int).SetUint64(uint64(r)), err
	}
	vlib.Infra("unknown integer type %q", ty)
	return nil, nil
}

func carrierOf(ca string, v *big.Int) any {
	switch ca {
	case "string":
		return v.String()
	case "jsonNumber":
		return json.Number(v.String())
	case "int":
		return int(v.Int64())
	case "int32":
		return int32(v.Int64())
	case "int64":
		return v.Int64()
	case "uint32":
		return uint32(v.Uint64())
	case "uint64":
		return v.Uint64()
	case "float64":
		return float64(v.Int64())
	}
	vlib.Infra("unknown carrier %q", ca)
	return nil
}

// decodeToken decodes one JSON token the way gqlgen's own decoder does (UseNumber).
func decodeToken(b []byte) (any, error) {
	d := json.NewDecoder(bytes.NewReader(b))
	d.UseNumber()
	var v any
	if err := d.Decode(&v); err != nil {
		return nil, err
	}
	return v, nil
}

func replay(l *scLine, extra map[string]any) map[string]any {
	m := map[string]any{"kind": "scalar", "case": l}
	for k, v := range extra {
		m[k] = v
	}
	return m
}

func checkIntMarshal(c *vlib.Check, l *scLine, rng *rand.Rand, n int) int64 {
	var evals int64
	for _, v := range intPoints(l.Cl, n, rng) {
		evals++
		out := marshalInt(l.Ty, v)
		key := func(what string) string { return "int:" + l.Ty + ":marshal:" + what }
		rp := replay(l, map[string]any{"value": v.String(), "output": string(out)})
		if e := validateJSON(out); e != nil {
			c.Violate(key("not-valid-json"), fmt.Sprintf("Marshal%s(%s) wrote %q: %v", l.Ty, v, out, e), rp)
			continue
		}
		dec, err := decodeToken(out)
		if err != nil {
			c.Violate(key("not-decodable"), fmt.Sprintf("Marshal%s(%s) wrote %q: %v", l.Ty, v, out, err), rp)
			continue
		}
		var text string
		switch d := dec.(type) {
		case json.Number:
			if l.Out != "num" {
				c.Violate(key("token-kind"), fmt.Sprintf("Marshal%s(%s) wrote %q, specification prescribes a %s token", l.Ty, v, out, l.Out), rp)
				continue
			}
			text = string(d)
		case string:
			if l.Out != "str" {
				c.Violate(key("token-kind"), fmt.Sprintf("Marshal%s(%s) wrote %q, specification prescribes a %s token", l.Ty, v, out, l.Out), rp)
				continue
			}
			text = d
		default:
			c.Violate(key("token-kind"), fmt.Sprintf("Marshal%s(%s) wrote %q", l.Ty, v, out), rp)
			continue
		}
		got, ok := new(big.Int).SetString(text, 10)
		if !ok || got.Cmp(v) != 0 {
			c.Violate(key("value-changed"), fmt.Sprintf("Marshal%s(%s) wrote %q (class %s)", l.Ty, v, out, l.Cl), rp)
			continue
		}
		back, err := unmarshalInt(l.Ty, dec)
		if err != nil || back.Cmp(v) != 0 {
			c.Violate("int:"+l.Ty+":roundtrip", fmt.Sprintf("Unmarshal%s(%#v) = %s, %v; original %s", l.Ty, dec, back, err, v), rp)
		}
	}
	return evals
}

func checkIntUnmarshal(c *vlib.Check, l *scLine, rng *rand.Rand, n int) int64 {
	var evals int64
	for _, v := range intPoints(l.Cl, n, rng) {
		evals++
		carrier := carrierOf(l.Ca, v)
		got, err := unmarshalInt(l.Ty, carrier)
		what := ""
		switch {
		case l.Out == "ok" && err != nil:
			what = "rejected-in-range"
		case l.Out == "err" && err == nil:
			what = "accepted-out-of-range"
		case err == nil && got.Cmp(v) != 0:
			what = "value-changed"
		}
		if what == "" {
			continue
		}
		key := "int:" + l.Ty + ":" + l.Ca + ":" + what
		if l.Ty == "UintID" && v.Sign() < 0 && err == nil && (l.Ca == "int" || l.Ca == "int32" || l.Ca == "int64") {
			wrapped := new(big.Int).Add(v, pow2(64))
			if got.Cmp(wrapped) == 0 {
				key = "uintid:negative-wraps"
			}
		}
		c.Violate(key, fmt.Sprintf("Unmarshal%s(%T(%v)) = %s, %v; class %s, specification prescribes %q (a value is preserved or rejected)",
			l.Ty, carrier, carrier, got, err, l.Cl, l.Out), replay(l, map[string]any{"value": v.String(), "result": got.String(), "error": fmt.Sprint(err)}))
	}
	return evals
}

// floatPoints concretises a float class.
func floatPoints(cl string, n int, rng *rand.Rand) []float64 {
	pick := func(pred func(f float64) bool, seeds ...float64) []float64 {
		out := append([]float64{}, seeds...)
		for tries := 0; len(out) < len(seeds)+n && tries < 100000; tries++ {
			f := math.Float64frombits(rng.Uint64())
			if pred(f) {
				out = append(out, f)
			}
		}
		return out
	}
	finite := func(f float64) bool { return !math.IsNaN(f) && !math.IsInf(f, 0) }
	switch cl {
	case "+0":
		return []float64{0}
	case "-0":
		return []float64{math.Copysign(0, -1)}
	case "subnormal":
		out := []float64{5e-324, math.Float64frombits(0x000FFFFFFFFFFFFF)}
		for i := 0; i < n; i++ {
			out = append(out, math.Float64frombits(rng.Uint64()&0x000FFFFFFFFFFFFF|1))
		}
		return out
	case "minNormal":
		return []float64{math.Float64frombits(0x0010000000000000)}
	case "fraction":
		out := []float64{0.1, 0.5, 1.0 / 3, 0.000001, 0.0000001, 123456.789, 1e-7, 99999.99999}
		for i := 0; i < n; i++ {
			out = append(out, rng.Float64(), rng.Float64()*1e6, rng.ExpFloat64())
		}
		return out
	case "one":
		return []float64{1}
	case "integral":
		out := []float64{2, 100000, 1e6, 1e15, 9007199254740991, 9007199254740992, 1e20, 123456789012345678}
		for i := 0; i < n; i++ {
			out = append(out, float64(rng.Int63n(1<<53)))
		}
		return out
	case "exp21":
		return pick(func(f float64) bool { return finite(f) && f >= 1e21 }, 1e21, 1.5e300, 1e22, 1e100)
	case "max":
		return []float64{math.MaxFloat64}
	case "negative":
		return pick(func(f float64) bool { return finite(f) && f < 0 }, -1, -0.5, -1e21, -math.MaxFloat64, -5e-324, -123.456)
	case "+Inf":
		return []float64{math.Inf(1)}
	case "-Inf":
		return []float64{math.Inf(-1)}
	case "NaN":
		return []float64{math.NaN(), math.Float64frombits(0x7FF0000000000001), math.Float64frombits(0xFFF8000000000001)}
	}
	vlib.Infra("specification printed an unknown float class %q", cl)
	return nil
}

func sameFloat(a, b float64) bool { return math.Float64bits(a) == math.Float64bits(b) }

func checkFloatMarshal(c *vlib.Check, l *scLine, rng *rand.Rand, n int) int64 {
	var evals int64
	for _, f := range floatPoints(l.Cl, n, rng) {
		evals++
		var buf bytes.Buffer
		var err error
		fn := "MarshalFloat"
		if l.Ca == "ctx" {
			fn = "MarshalFloatContext"
			err = graphql.MarshalFloatContext(f).MarshalGQLContext(context.Background(), &buf)
		} else {
			graphql.MarshalFloat(f).MarshalGQL(&buf)
		}
		out := buf.Bytes()
		key := func(what string) string { return "float:" + l.Ca + ":" + what }
		rp := replay(l, map[string]any{"bits": fmt.Sprintf("%016x", math.Float64bits(f)), "output": string(out), "error": fmt.Sprint(err)})
		if l.Out == "err" {
			if err == nil {
				c.Violate(key("non-finite-no-error"), fmt.Sprintf("%s(%v) reported no error and wrote %q", fn, f, out), rp)
				continue
			}
			if len(out) > 0 && validateJSON(out) != nil {
				c.Violate(key("non-finite-token"), fmt.Sprintf("%s(%v) wrote the invalid token %q", fn, f, out), rp)
			}
			// through the adapter the generated code uses: null + one error
			ctx := ctxWithErrors()
			ad := marshalBytes(graphql.WrapContextMarshaler(ctx, graphql.MarshalFloatContext(f)))
			if e := validateJSON(ad); e != nil || string(ad) != "null" || len(graphql.GetErrors(ctx)) != 1 {
				c.Violate(key("non-finite-adapter"), fmt.Sprintf("WrapContextMarshaler(MarshalFloatContext(%v)) wrote %q with %d errors", f, ad, len(graphql.GetErrors(ctx))), rp)
			}
			continue
		}
		if err != nil {
			c.Violate(key("finite-rejected"), fmt.Sprintf("%s(%v): %v", fn, f, err), rp)
			continue
		}
		if e := validateJSON(out); e != nil {
			c.Violate(key("not-valid-json:"+l.Cl), fmt.Sprintf("%s(%v) wrote %q: %v", fn, f, out, e), rp)
			continue
		}
		var dec float64
		if err := json.Unmarshal(out, &dec); err != nil || !sameFloat(dec, f) {
			c.Violate(key("value-changed:"+l.Cl), fmt.Sprintf("%s(%v) wrote %q which decodes to %v (%v)", fn, f, out, dec, err), rp)
			continue
		}
		tok, err := decodeToken(out)
		if _, isNum := tok.(json.Number); err != nil || !isNum {
			c.Violate(key("token-kind"), fmt.Sprintf("%s(%v) wrote %q", fn, f, out), rp)
			continue
		}
		for _, carrier := range []any{tok, dec} {
			back, err := graphql.UnmarshalFloat(carrier)
			if err != nil || !sameFloat(back, f) {
				c.Violate("float:roundtrip:"+l.Cl, fmt.Sprintf("UnmarshalFloat(%#v) = %v, %v; original %v", carrier, back, err, f), rp)
			}
		}
	}
	return evals
}

func checkFloatUnmarshal(c *vlib.Check, l *scLine, rng *rand.Rand, n int) int64 {
	var evals int64
	for _, f := range floatPoints(l.Cl, n, rng) {
		var carrier any
		switch l.Ca {
		case "float64":
			carrier = f
		case "jsonNumber":
			carrier = json.Number(strconv.FormatFloat(f, 'g', -1, 64))
		case "string":
			carrier = strconv.FormatFloat(f, 'e', -1, 64)
		case "int":
			carrier = int(f)
		case "int64":
			carrier = int64(f)
		}
		if (l.Ca == "int" || l.Ca == "int64") && math.Abs(f) >= 1<<53 {
			continue
		}
		evals++
		back, err := graphql.UnmarshalFloat(carrier)
		if err != nil || !sameFloat(back, f) {
			c.Violate("float:unmarshal:"+l.Ca+":"+l.Cl, fmt.Sprintf("UnmarshalFloat(%T(%v)) = %v, %v; want %v", carrier, carrier, back, err, f),
				replay(l, map[string]any{"bits": fmt.Sprintf("%016x", math.Float64bits(f))}))
		}
		if l.Ca == "float64" || l.Ca == "jsonNumber" {
			b2, err := graphql.UnmarshalFloatContext(context.Background(), carrier)
			if err != nil || !sameFloat(b2, f) {
				c.Violate("float:unmarshal-ctx:"+l.Ca+":"+l.Cl, fmt.Sprintf("UnmarshalFloatContext(%T(%v)) = %v, %v", carrier, carrier, b2, err), replay(l, nil))
			}
		}
	}
	return evals
}

func checkBool(c *vlib.Check, l *scLine) int64 {
	b := l.Cl == "true"
	if l.K == "M" {
		out := marshalBytes(graphql.MarshalBoolean(b))
		var dec bool
		if e := validateJSON(out); e != nil || string(out) != l.Out || json.Unmarshal(out, &dec) != nil || dec != b {
			c.Violate("bool:marshal:"+l.Cl, fmt.Sprintf("MarshalBoolean(%v) wrote %q", b, out), replay(l, nil))
			return 1
		}
		back, err := graphql.UnmarshalBoolean(dec)
		if err != nil || back != b {
			c.Violate("bool:roundtrip:"+l.Cl, fmt.Sprintf("UnmarshalBoolean(%v) = %v, %v", dec, back, err), replay(l, nil))
		}
		return 1
	}
	var carrier any = b
	if l.Ca == "string" {
		carrier = l.Cl
	}
	back, err := graphql.UnmarshalBoolean(carrier)
	if (l.Out == "ok" && err != nil) || (err == nil && back != b) {
		c.Violate("bool:unmarshal:"+l.Ca+":"+l.Cl, fmt.Sprintf("UnmarshalBoolean(%#v) = %v, %v", carrier, back, err), replay(l, nil))
	}
	return 1
}

// checkScalarLine dispatches one scalar case of the specification.
func checkScalarLine(c *vlib.Check, l *scLine, rng *rand.Rand, n int) int64 {
	c.Class("C:" + l.id())
	isInt := strings.HasPrefix(l.Ty, "Int") || strings.HasPrefix(l.Ty, "Uint")
	switch {
	case isInt && l.K == "M":
		return checkIntMarshal(c, l, rng, n)
	case isInt && l.K == "U":
		return checkIntUnmarshal(c, l, rng, n)
	case l.Ty == "Float" && l.K == "M":
		return checkFloatMarshal(c, l, rng, n)
	case l.Ty == "Float" && l.K == "U":
		return checkFloatUnmarshal(c, l, rng, n)
	case l.Ty == "Boolean":
		return checkBool(c, l)
	case l.Ty == "Time":
		return checkTime(c, l, rng, n)
	case l.Ty == "Duration":
		return checkDuration(c, l, rng, n)
	case l.Ty == "UUID":
		return checkUUID(c, l, rng, n)
	case l.Ty == "Map" || l.Ty == "Any":
		return checkJSONValue(c, l, rng, n)
	case l.Ty == "Omittable":
		return checkOmittable(c, l, rng, n)
	}
	vlib.Infra("specification printed an unknown scalar case %+v", *l)
	return 0
}
