package main

import (
	"bytes"
	"encoding/hex"
	"encoding/json"
	"fmt"
	"math/rand"
	"strings"

	"github.com/99designs/gqlgen/graphql"

	"verifharness/vlib"
)

// strLine is one line printed by JsonWriter!Emit for a string input.
type strLine struct {
	K string   `json:"k"`
	U []string `json:"u"` // units
	B []string `json:"b"` // byte classes
	E []int    `json:"e"` // prescribed decoding: w>0 = a character of w bytes, 0 = offending byte -> U+FFFD
	T []string `json:"t"` // prescribed token kinds (v e x r)
}

// byteRanges maps a byte class of the specification to the bytes it stands for.
var byteRanges = map[string][]byte{}

func span(lo, hi int, except ...byte) []byte {
	var out []byte
	for c := lo; c <= hi; c++ {
		skip := false
		for _, e := range except {
			if byte(c) == e {
				skip = true
			}
		}
		if !skip {
			out = append(out, byte(c))
		}
	}
	return out
}

func init() {
	byteRanges["tab"] = []byte{0x09}
	byteRanges["nl"] = []byte{0x0A}
	byteRanges["cr"] = []byte{0x0D}
	byteRanges["bs"] = []byte{0x08}
	byteRanges["ff"] = []byte{0x0C}
	byteRanges["ctl"] = span(0x00, 0x1F, 0x08, 0x09, 0x0A, 0x0C, 0x0D)
	byteRanges["quote"] = []byte{'"'}
	byteRanges["bslash"] = []byte{'\\'}
	byteRanges["ascii"] = span(0x20, 0x7E, '"', '\\')
	byteRanges["del"] = []byte{0x7F}
	byteRanges["c8"] = span(0x80, 0x8F)
	byteRanges["c9"] = span(0x90, 0x9F)
	byteRanges["cA"] = span(0xA0, 0xBF)
	byteRanges["C0"] = []byte{0xC0, 0xC1}
	byteRanges["L2"] = span(0xC2, 0xDF)
	byteRanges["E0"] = []byte{0xE0}
	byteRanges["L3"] = span(0xE1, 0xEF, 0xED)
	byteRanges["ED"] = []byte{0xED}
	byteRanges["F0"] = []byte{0xF0}
	byteRanges["L4"] = span(0xF1, 0xF3)
	byteRanges["F4"] = []byte{0xF4}
	byteRanges["F5"] = span(0xF5, 0xFD)
	byteRanges["FE"] = []byte{0xFE, 0xFF}
}

// asciiSpecial are plain ASCII bytes that matter to escapers and to the
// acceptor when they follow a (wrongly unescaped) backslash.
var asciiSpecial = []byte{' ', '/', '<', '>', '&', '\'', 'u', 'n', 't', 'b', 'f', 'r', '0', '9', 'a', 'F', '{', '}', '[', ']', ':', ',', '~'}

// concretise turns a byte-class sequence into concrete bytes.  variant 0 takes
// the lowest byte of every class, variant 1 the highest, others are random.
func concretise(classes []string, variant int, rng *rand.Rand) []byte {
	out := make([]byte, len(classes))
	for i, c := range classes {
		r := byteRanges[c]
		if len(r) == 0 {
			vlib.Infra("specification printed an unknown byte class %q", c)
		}
		switch {
		case variant == 0:
			out[i] = r[0]
		case variant == 1:
			out[i] = r[len(r)-1]
		case c == "ascii" && rng.Intn(2) == 0:
			out[i] = asciiSpecial[rng.Intn(len(asciiSpecial))]
		default:
			out[i] = r[rng.Intn(len(r))]
		}
	}
	return out
}

// expectedDecoded builds the string the specification prescribes as the
// decoded value: every character kept, every offending byte -> U+FFFD.
func expectedDecoded(in []byte, e []int) (string, bool) {
	var sb strings.Builder
	i := 0
	for _, w := range e {
		if w == 0 {
			sb.WriteString("�")
			i++
			continue
		}
		if i+w > len(in) {
			return "", false
		}
		sb.Write(in[i : i+w])
		i += w
	}
	return sb.String(), i == len(in)
}

func marshalBytes(m graphql.Marshaler) []byte {
	var b bytes.Buffer
	m.MarshalGQL(&b)
	return b.Bytes()
}

// checkStringOutput applies checks (i)-(iii) to the output of a string
// writer for input `in` whose prescribed decoding is `want`.  It returns ""
// or a failure kind, plus a detail text.
func checkStringOutput(in []byte, out []byte, want string) (kind, detail string) {
	if e := validateJSON(out); e != nil {
		if e.Kind == "utf8" && hasInvalidUTF8(in) {
			// is this exactly "offending byte copied verbatim" (and nothing else)?
			rep := repairUTF8(out)
			if validateJSON(rep) == nil {
				var dec string
				if err := json.Unmarshal(rep, &dec); err == nil && dec == want {
					return "invalid-utf8-verbatim", fmt.Sprintf("output %q is not valid UTF-8: %v", out, e)
				}
			}
		}
		return "not-valid-json", fmt.Sprintf("output %q rejected by the strict validator: %v", out, e)
	}
	var dec string
	if err := json.Unmarshal(out, &dec); err != nil {
		return "not-decodable", fmt.Sprintf("output %q: encoding/json: %v", out, err)
	}
	if dec != want {
		return "decode-mismatch", fmt.Sprintf("output %q decodes to %q, specification prescribes %q", out, dec, want)
	}
	back, err := graphql.UnmarshalString(dec)
	if err != nil || back != dec {
		return "unmarshal-mismatch", fmt.Sprintf("UnmarshalString(%q) = %q, %v", dec, back, err)
	}
	if !hasInvalidUTF8(in) && back != string(in) {
		return "roundtrip-mismatch", fmt.Sprintf("round trip of %q gives %q", in, back)
	}
	return "", ""
}

// blame finds the smallest part of the input that fails on its own: the byte
// classes of one character / offending byte, or "context".
func blame(ln *strLine, in []byte) string {
	i := 0
	for _, w := range ln.E {
		n := w
		if n == 0 {
			n = 1
		}
		part := in[i : i+n]
		want, _ := expectedDecoded(part, []int{w})
		if k, _ := checkStringOutput(part, marshalBytes(graphql.MarshalString(string(part))), want); k != "" && k != "invalid-utf8-verbatim" {
			return strings.Join(ln.B[i:i+n], "+")
		}
		i += n
	}
	return "context"
}

type strStats struct {
	evals   int64
	invalid int64 // inputs containing offending bytes
}

// checkStringLine concretises one class sequence and drives the real writer.
func checkStringLine(c *vlib.Check, ln *strLine, variants int, rng *rand.Rand, st *strStats) {
	nontrivial := len(ln.B) > 0
	if nontrivial {
		c.Class("S:" + strings.Join(ln.U, ","))
	}
	seen := map[string]bool{}
	for v := 0; v < variants; v++ {
		in := concretise(ln.B, v, rng)
		if seen[string(in)] {
			continue
		}
		seen[string(in)] = true
		want, ok := expectedDecoded(in, ln.E)
		if !ok {
			vlib.Infra("specification line inconsistent: %v %v", ln.B, ln.E)
		}
		if hasInvalidUTF8(in) {
			st.invalid++
		}
		type target struct {
			name string
			m    graphql.Marshaler
		}
		targets := []target{{"MarshalString", graphql.MarshalString(string(in))}}
		if v == 0 {
			targets = append(targets, target{"MarshalID", graphql.MarshalID(string(in))})
		}
		for _, tg := range targets {
			out := marshalBytes(tg.m)
			st.evals++
			kind, detail := checkStringOutput(in, out, want)
			if kind == "" {
				continue
			}
			key := "string:" + kind
			if kind != "invalid-utf8-verbatim" {
				key += ":" + blame(ln, in)
			}
			c.Violate(key, fmt.Sprintf("%s(%q) [classes %v]: %s", tg.name, in, ln.B, detail),
				map[string]any{"kind": "string", "func": tg.name, "units": ln.U, "classes": ln.B, "input_hex": hex.EncodeToString(in),
					"output_hex": hex.EncodeToString(out), "prescribed_decoding": want, "prescribed_tokens": ln.T})
		}
		if v == 0 {
			// the same writer produces object keys
			fs := graphql.NewFieldSet([]graphql.CollectedField{collected(string(in))})
			fs.Values[0] = graphql.Null
			out := marshalBytes(fs)
			st.evals++
			if kind, detail := checkKeyOutput(in, out, want); kind != "" {
				key := "fieldset-key:" + kind
				if kind != "invalid-utf8-verbatim" {
					key += ":" + blame(ln, in)
				} else {
					key = "string:invalid-utf8-verbatim"
				}
				c.Violate(key, fmt.Sprintf("FieldSet with alias %q [classes %v]: %s", in, ln.B, detail),
					map[string]any{"kind": "fieldset-key", "classes": ln.B, "input_hex": hex.EncodeToString(in), "output_hex": hex.EncodeToString(out)})
			}
		}
	}
}

// checkKeyOutput: {"<key>":null} must be valid JSON whose only key decodes to want.
func checkKeyOutput(in, out []byte, want string) (string, string) {
	try := func(b []byte) (string, string) {
		if e := validateJSON(b); e != nil {
			return e.Kind, fmt.Sprintf("output %q rejected by the strict validator: %v", out, e)
		}
		var m map[string]any
		if err := json.Unmarshal(b, &m); err != nil {
			return "not-decodable", fmt.Sprintf("output %q: %v", out, err)
		}
		if v, ok := m[want]; len(m) != 1 || !ok || v != nil {
			return "decode-mismatch", fmt.Sprintf("output %q decodes to %v, want the single key %q", out, m, want)
		}
		return "", ""
	}
	k, d := try(out)
	if k == "utf8" && hasInvalidUTF8(in) {
		if k2, _ := try(repairUTF8(out)); k2 == "" {
			return "invalid-utf8-verbatim", d
		}
	}
	if k == "utf8" || k == "syntax" {
		k = "not-valid-json"
	}
	return k, d
}
