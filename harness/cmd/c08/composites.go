package main

import (
	"bytes"
	"encoding/json"
	"fmt"
	"math"
	"math/rand"
	"reflect"
	"strings"
	"time"

	"github.com/99designs/gqlgen/graphql"
	"github.com/google/uuid"

	"verifharness/vlib"
)

// ---------------------------------------------------------------- Time

func randTime(rng *rand.Rand, loc *time.Location, nanos bool) time.Time {
	ns := 0
	if nanos {
		ns = rng.Intn(1_000_000_000)
	}
	return time.Date(1971+rng.Intn(200), time.Month(1+rng.Intn(12)), 1+rng.Intn(28), rng.Intn(24), rng.Intn(60), rng.Intn(60), ns, loc)
}

func timePoints(cl string, n int, rng *rand.Rand) []time.Time {
	var out []time.Time
	zone := func(min int) *time.Location { return time.FixedZone("", min*60) }
	for i := 0; i < n+1; i++ {
		switch cl {
		case "zero":
			return []time.Time{{}, time.Time{}.UTC()}
		case "utc-sec":
			out = append(out, randTime(rng, time.UTC, false))
		case "utc-nano":
			out = append(out, randTime(rng, time.UTC, true))
		case "utc-trailing-zeros":
			t := randTime(rng, time.UTC, false)
			out = append(out, t.Add(time.Duration([]int{500_000_000, 120_000_000, 1000, 1, 999_999_990, 100}[rng.Intn(6)])))
		case "offset-plus":
			out = append(out, randTime(rng, zone(1+rng.Intn(14*60)), rng.Intn(2) == 0))
		case "offset-minus":
			out = append(out, randTime(rng, zone(-1-rng.Intn(12*60)), rng.Intn(2) == 0))
		case "offset-max":
			out = append(out, randTime(rng, zone(23*60+59), true), randTime(rng, zone(-23*60-59), true), randTime(rng, zone(14*60), false))
		case "local-monotonic":
			out = append(out, time.Now(), time.Now().In(zone(90)))
		case "year1":
			out = append(out, time.Date(1, 1, 1, 0, 0, 0, 1+rng.Intn(999), time.UTC), time.Date(1, 1, 1, 0, 0, 1, 0, time.UTC), time.Date(1, 3, 1, 0, 0, 0, 0, zone(60)))
		case "year9999":
			out = append(out, time.Date(9999, 12, 31, 23, 59, 59, 999_999_999, time.UTC), time.Date(9999, 12, 31, 0, 0, 0, 0, zone(-60)))
		case "pre1970":
			out = append(out, time.Date(1000+rng.Intn(969), time.Month(1+rng.Intn(12)), 1+rng.Intn(28), rng.Intn(24), rng.Intn(60), rng.Intn(60), rng.Intn(1_000_000_000), time.UTC))
		case "leap-day":
			out = append(out, time.Date(2000+4*rng.Intn(20)+4, 2, 29, 23, 59, 59, rng.Intn(1_000_000_000), zone(rng.Intn(600)-300)), time.Date(2000, 2, 29, 0, 0, 0, 0, time.UTC))
		default:
			vlib.Infra("specification printed an unknown time class %q", cl)
		}
	}
	return out
}

func checkTime(c *vlib.Check, l *scLine, rng *rand.Rand, n int) int64 {
	var evals int64
	for _, t := range timePoints(l.Cl, n, rng) {
		evals++
		out := marshalBytes(graphql.MarshalTime(t))
		rp := replay(l, map[string]any{"time": t.String(), "output": string(out)})
		if e := validateJSON(out); e != nil {
			c.Violate("time:not-valid-json:"+l.Cl, fmt.Sprintf("MarshalTime(%v) wrote %q: %v", t, out, e), rp)
			continue
		}
		if l.Out == "null" {
			if string(out) != "null" {
				c.Violate("time:zero-not-null", fmt.Sprintf("MarshalTime(zero) wrote %q", out), rp)
			}
			continue
		}
		var dec string
		if err := json.Unmarshal(out, &dec); err != nil {
			c.Violate("time:token-kind:"+l.Cl, fmt.Sprintf("MarshalTime(%v) wrote %q: %v", t, out, err), rp)
			continue
		}
		back, err := graphql.UnmarshalTime(dec)
		_, o1 := t.Zone()
		_, o2 := back.Zone()
		if err != nil || !back.Equal(t) || o1 != o2 {
			c.Violate("time:roundtrip:"+l.Cl, fmt.Sprintf("UnmarshalTime(%q) = %v, %v; original %v", dec, back, err, t), rp)
		}
	}
	return evals
}

// ---------------------------------------------------------------- Duration

const (
	dMonth = 730 * time.Hour
	dYear  = 8760 * time.Hour
)

func durationPoints(cl string, n int, rng *rand.Rand) []time.Duration {
	var out []time.Duration
	r := func(max int64) time.Duration { return time.Duration(rng.Int63n(max)) }
	for i := 0; i < n+1; i++ {
		switch cl {
		case "zero":
			return []time.Duration{0}
		case "ns":
			out = append(out, 1, 999, 1+r(999))
		case "sub-second":
			out = append(out, 1000, 999_999_999, 1+r(999_999_999))
		case "seconds":
			out = append(out, time.Second, 59*time.Second, time.Duration(1+rng.Intn(59))*time.Second)
		case "seconds-frac":
			out = append(out, time.Second+1, 59*time.Second+999_999_999, time.Second+r(int64(58*time.Second)))
		case "minutes":
			out = append(out, time.Minute, 59*time.Minute, time.Minute+r(int64(59*time.Minute)))
		case "hours":
			out = append(out, time.Hour, 23*time.Hour, time.Hour+r(int64(23*time.Hour)))
		case "days":
			out = append(out, 24*time.Hour, 24*time.Hour+r(int64(6*24*time.Hour)))
		case "weeks":
			out = append(out, 168*time.Hour, 168*time.Hour+r(int64(dMonth-168*time.Hour)))
		case "months":
			out = append(out, dMonth, 11*dMonth, dMonth+r(int64(dYear-dMonth)))
		case "years":
			out = append(out, dYear, 292*dYear, dYear+r(math.MaxInt64-int64(dYear)), time.Duration(1+rng.Intn(291))*dYear+r(int64(dYear-time.Second))+time.Duration(500*time.Millisecond))
		case "negative":
			out = append(out, -1, -time.Second, -dYear, -r(math.MaxInt64), -(1 + r(int64(time.Hour))))
		case "mixed":
			out = append(out, r(math.MaxInt64), r(int64(dYear)), r(int64(dMonth)), r(int64(24*time.Hour)))
		case "maxInt64":
			return []time.Duration{math.MaxInt64, math.MaxInt64 - 1}
		case "minInt64":
			return []time.Duration{math.MinInt64}
		case "unit-minus-ns":
			out = append(out, time.Second-1, time.Minute-1, time.Hour-1, 24*time.Hour-1, 168*time.Hour-1, dMonth-1,
				time.Duration(2+rng.Intn(50))*time.Minute-1, time.Duration(2+rng.Intn(20))*time.Hour-1)
		case "boundary-minus-ns":
			// a few nanoseconds below a whole number of 730 h months / 8760 h years
			out = append(out, dYear-1, 2*dYear-1, 6*dMonth-1, 11*dMonth-1,
				time.Duration(1+rng.Intn(290))*dYear-time.Duration(1+rng.Intn(3)),
				time.Duration(6+rng.Intn(6))*dMonth-1,
				time.Duration(1+rng.Intn(290))*dYear+time.Duration(6+rng.Intn(6))*dMonth-1)
		default:
			vlib.Infra("specification printed an unknown duration class %q", cl)
		}
	}
	return out
}

func checkDuration(c *vlib.Check, l *scLine, rng *rand.Rand, n int) int64 {
	var evals int64
	for _, d := range durationPoints(l.Cl, n, rng) {
		evals++
		out := marshalBytes(graphql.MarshalDuration(d))
		rp := replay(l, map[string]any{"nanoseconds": int64(d), "output": string(out)})
		if e := validateJSON(out); e != nil {
			c.Violate("duration:not-valid-json:"+l.Cl, fmt.Sprintf("MarshalDuration(%d ns) wrote %q: %v", int64(d), out, e), rp)
			continue
		}
		var dec string
		if err := json.Unmarshal(out, &dec); err != nil {
			c.Violate("duration:token-kind:"+l.Cl, fmt.Sprintf("MarshalDuration(%d ns) wrote %q: %v", int64(d), out, err), rp)
			continue
		}
		back, err := graphql.UnmarshalDuration(dec)
		if err != nil || back != d {
			c.Violate("duration:"+l.Cl+":no-roundtrip", fmt.Sprintf("MarshalDuration(%d ns) wrote %q; UnmarshalDuration gives %d ns, %v", int64(d), out, int64(back), err), rp)
		}
	}
	return evals
}

// ---------------------------------------------------------------- UUID

func checkUUID(c *vlib.Check, l *scLine, rng *rand.Rand, n int) int64 {
	var ids []uuid.UUID
	for i := 0; i < n+1; i++ {
		var u uuid.UUID
		rng.Read(u[:])
		switch l.Cl {
		case "nil":
			u = uuid.Nil
		case "v4":
			u[6] = u[6]&0x0f | 0x40
			u[8] = u[8]&0x3f | 0x80
		case "v1":
			u[6] = u[6]&0x0f | 0x10
			u[8] = u[8]&0x3f | 0x80
		case "max":
			for j := range u {
				u[j] = 0xff
			}
		case "random-bits":
		default:
			vlib.Infra("specification printed an unknown uuid class %q", l.Cl)
		}
		ids = append(ids, u)
	}
	var evals int64
	for _, u := range ids {
		evals++
		out := marshalBytes(graphql.MarshalUUID(u))
		rp := replay(l, map[string]any{"uuid": u.String(), "output": string(out)})
		if e := validateJSON(out); e != nil {
			c.Violate("uuid:not-valid-json:"+l.Cl, fmt.Sprintf("MarshalUUID(%v) wrote %q: %v", u, out, e), rp)
			continue
		}
		if l.Out == "null" {
			if string(out) != "null" {
				c.Violate("uuid:nil-not-null", fmt.Sprintf("MarshalUUID(nil) wrote %q", out), rp)
			}
			continue
		}
		var dec string
		if err := json.Unmarshal(out, &dec); err != nil {
			c.Violate("uuid:token-kind:"+l.Cl, fmt.Sprintf("MarshalUUID(%v) wrote %q", u, out), rp)
			continue
		}
		back, err := graphql.UnmarshalUUID(dec)
		if err != nil || back != u {
			c.Violate("uuid:roundtrip:"+l.Cl, fmt.Sprintf("UnmarshalUUID(%q) = %v, %v; original %v", dec, back, err, u), rp)
		}
	}
	return evals
}

// ---------------------------------------------------------------- Map / Any

// classString returns a string over the byte classes of the specification.
func classString(rng *rand.Rand, valid bool) string {
	validUnits := [][]string{{"tab"}, {"nl"}, {"cr"}, {"bs"}, {"ff"}, {"ctl"}, {"quote"}, {"bslash"}, {"ascii"}, {"ascii"}, {"ascii"}, {"del"},
		{"L2", "cA"}, {"L3", "c9", "c8"}, {"E0", "cA", "c8"}, {"ED", "c8", "cA"}, {"L4", "c8", "c9", "cA"}, {"F0", "c9", "c8", "c8"}, {"F4", "c8", "cA", "cA"}}
	badUnits := [][]string{{"c8"}, {"cA"}, {"C0", "c8"}, {"L2"}, {"L3", "c9"}, {"E0", "c8", "c8"}, {"ED", "cA", "c8"}, {"F4", "c9", "c8", "c8"}, {"F5"}, {"FE"}, {"L4", "c8", "c8"}}
	var b []byte
	n := rng.Intn(8)
	bad := -1
	if !valid {
		n++
		bad = rng.Intn(n)
	}
	for i := 0; i < n; i++ {
		var u []string
		if i == bad || (!valid && rng.Intn(4) == 0) {
			u = badUnits[rng.Intn(len(badUnits))]
		} else {
			u = validUnits[rng.Intn(len(validUnits))]
		}
		b = append(b, concretise(u, 2, rng)...)
	}
	if valid && hasInvalidUTF8(b) {
		return string(repairUTF8(b))
	}
	return string(b)
}

// jsonNorm is the JSON value a Go value stands for, with numbers as float64
// and every offending byte of a string replaced by U+FFFD.
func jsonNorm(v any) any {
	switch x := v.(type) {
	case nil:
		return nil
	case bool:
		return x
	case string:
		return string(repairUTF8([]byte(x)))
	case int:
		return float64(x)
	case int64:
		return float64(x)
	case float64:
		return x
	case []any:
		out := make([]any, len(x))
		for i := range x {
			out[i] = jsonNorm(x[i])
		}
		return out
	case map[string]any:
		if x == nil {
			return nil
		}
		out := make(map[string]any, len(x))
		for k, e := range x {
			out[string(repairUTF8([]byte(k)))] = jsonNorm(e)
		}
		return out
	}
	vlib.Infra("jsonNorm: unexpected %T", v)
	return nil
}

func randJSONLeaf(rng *rand.Rand, cls string) any {
	switch cls {
	case "string-classes":
		return classString(rng, true)
	case "invalid-utf8":
		return classString(rng, false)
	case "html":
		return []string{"<script>", "a&b", "</tag>", "  ", "x>y"}[rng.Intn(5)]
	case "numbers", "int":
		return []any{0, -1, 1 << 31, int64(1) << 52, int64(-1) << 52, rng.Intn(1000000)}[rng.Intn(6)]
	case "float":
		return []any{0.5, -1e21, 1e-7, 5e-324, math.MaxFloat64, rng.NormFloat64()}[rng.Intn(6)]
	case "bool":
		return rng.Intn(2) == 0
	case "nil":
		return nil
	}
	switch rng.Intn(6) {
	case 0:
		return classString(rng, true)
	case 1:
		return rng.Intn(100000) - 50000
	case 2:
		return rng.NormFloat64() * 1000
	case 3:
		return rng.Intn(2) == 0
	case 4:
		return nil
	}
	return "plain"
}

func randJSONValue(rng *rand.Rand, cls string, depth int) any {
	switch cls {
	case "list":
		n := rng.Intn(4)
		out := make([]any, n)
		for i := range out {
			out[i] = randJSONLeaf(rng, "")
		}
		return out
	case "empty":
		return map[string]any{}
	case "map", "flat", "string-classes-map", "invalid-utf8-map", "html-map", "numbers-map":
		leaf := ""
		if len(cls) > 4 && cls[len(cls)-4:] == "-map" {
			leaf = cls[:len(cls)-4]
		}
		n := 1 + rng.Intn(4)
		out := map[string]any{}
		for i := 0; i < n; i++ {
			k := fmt.Sprintf("k%d", i)
			if leaf == "string-classes" || leaf == "invalid-utf8" {
				// index prefix: keys must stay distinct after offending bytes became U+FFFD
				k = fmt.Sprintf("%d:", i) + classString(rng, leaf == "string-classes")
			}
			out[k] = randJSONLeaf(rng, leaf)
		}
		return out
	case "nested":
		if depth <= 0 {
			return randJSONLeaf(rng, "")
		}
		if rng.Intn(2) == 0 {
			n := rng.Intn(4)
			out := make([]any, n)
			for i := range out {
				out[i] = randJSONValue(rng, "nested", depth-1)
			}
			return out
		}
		n := rng.Intn(4)
		out := map[string]any{}
		for i := 0; i < n; i++ {
			out[fmt.Sprintf("f%d", i)] = randJSONValue(rng, "nested", depth-1)
		}
		return out
	}
	return randJSONLeaf(rng, cls)
}

func checkJSONValue(c *vlib.Check, l *scLine, rng *rand.Rand, n int) int64 {
	var evals int64
	for i := 0; i < n+1; i++ {
		evals++
		var v any
		var out []byte
		if l.Out == "refuse" {
			checkNoJSON(c, l, rng)
			continue
		}
		if l.Ty == "Map" {
			var m map[string]any
			switch l.Cl {
			case "nil":
			case "empty", "flat", "nested":
				m, _ = randJSONValue(rng, l.Cl, 3).(map[string]any)
				if m == nil {
					m = map[string]any{"v": randJSONValue(rng, "nested", 3)}
				}
			default:
				m = randJSONValue(rng, l.Cl+"-map", 0).(map[string]any)
			}
			v = m
			out = marshalBytes(graphql.MarshalMap(m))
		} else {
			v = randJSONValue(rng, l.Cl, 3)
			out = marshalBytes(graphql.MarshalAny(v))
		}
		rp := replay(l, map[string]any{"value": fmt.Sprintf("%#v", v), "output": string(out)})
		key := func(what string) string { return "json:" + l.Ty + ":" + what + ":" + l.Cl }
		if e := validateJSON(out); e != nil {
			c.Violate(key("not-valid-json"), fmt.Sprintf("Marshal%s(%#v) wrote %q: %v", l.Ty, v, out, e), rp)
			continue
		}
		var dec any
		if err := json.Unmarshal(out, &dec); err != nil {
			c.Violate(key("not-decodable"), fmt.Sprintf("Marshal%s(%#v) wrote %q: %v", l.Ty, v, out, err), rp)
			continue
		}
		want := jsonNorm(v)
		if !reflect.DeepEqual(dec, want) {
			c.Violate(key("value-changed"), fmt.Sprintf("Marshal%s(%#v) wrote %q which decodes to %#v", l.Ty, v, out, dec), rp)
			continue
		}
		if l.Ty == "Map" && dec != nil {
			back, err := graphql.UnmarshalMap(dec)
			if err != nil || !reflect.DeepEqual(any(back), want) {
				c.Violate(key("roundtrip"), fmt.Sprintf("UnmarshalMap(%#v) = %#v, %v", dec, back, err), rp)
			}
		}
		if l.Ty == "Any" {
			back, err := graphql.UnmarshalAny(dec)
			if err != nil || !reflect.DeepEqual(back, want) {
				c.Violate(key("roundtrip"), fmt.Sprintf("UnmarshalAny(%#v) = %#v, %v", dec, back, err), rp)
			}
		}
	}
	return evals
}

// ---------------------------------------------------------------- Omittable

type omitStruct struct {
	A string         `json:"a"`
	B int            `json:"b"`
	C *float64       `json:"c"`
	D map[string]any `json:"d"`
}

// omitRound marshals an Omittable[T], validates, and demands that
// UnmarshalJSON restores value and set flag (set case).
func omitRound[T any](c *vlib.Check, l *scLine, v T, eq func(a, b T) bool) {
	o := graphql.OmittableOf(v)
	if l.Ca == "unset" {
		o = graphql.Omittable[T]{}
	}
	out, err := o.MarshalJSON()
	rp := replay(l, map[string]any{"value": fmt.Sprintf("%#v", v), "output": string(out)})
	key := func(what string) string { return "omittable:" + what + ":" + l.Cl }
	if err != nil {
		c.Violate(key("marshal-error"), fmt.Sprintf("Omittable(%#v).MarshalJSON: %v", v, err), rp)
		return
	}
	if e := validateJSON(out); e != nil {
		c.Violate(key("not-valid-json"), fmt.Sprintf("Omittable(%#v).MarshalJSON wrote %q: %v", v, out, e), rp)
		return
	}
	gql := marshalBytes(o)
	if e := validateJSON(gql); e != nil {
		c.Violate(key("gql-not-valid-json"), fmt.Sprintf("Omittable(%#v).MarshalGQL wrote %q: %v", v, gql, e), rp)
		return
	}
	if l.Ca == "unset" {
		var zero T
		zb, _ := json.Marshal(zero)
		if string(zb) != string(out) {
			c.Violate(key("unset-not-zero"), fmt.Sprintf("unset Omittable wrote %q, zero value is %q", out, zb), rp)
		}
		return
	}
	var back graphql.Omittable[T]
	if err := back.UnmarshalJSON(out); err != nil {
		c.Violate(key("unmarshal-error"), fmt.Sprintf("Omittable.UnmarshalJSON(%q): %v", out, err), rp)
		return
	}
	if got, ok := back.ValueOK(); !ok || !back.IsSet() || !eq(got, v) {
		c.Violate(key("roundtrip"), fmt.Sprintf("Omittable round trip of %#v through %q gives %#v (set=%v)", v, out, got, ok), rp)
	}
	var viaGQL graphql.Omittable[T]
	if err := viaGQL.UnmarshalGQL(gql); err != nil {
		c.Violate(key("gql-unmarshal-error"), fmt.Sprintf("Omittable.UnmarshalGQL(%q): %v", gql, err), rp)
		return
	}
	if got, ok := viaGQL.ValueOK(); !ok || !eq(got, v) {
		c.Violate(key("gql-roundtrip"), fmt.Sprintf("Omittable MarshalGQL/UnmarshalGQL of %#v through %q gives %#v (set=%v)", v, gql, got, ok), rp)
	}
}

func deepEq[T any](a, b T) bool { return reflect.DeepEqual(a, b) }

func checkOmittable(c *vlib.Check, l *scLine, rng *rand.Rand, n int) int64 {
	var evals int64
	for i := 0; i < n+1; i++ {
		evals++
		switch l.Cl {
		case "string":
			omitRound(c, l, []string{"", "x", "hello world"}[rng.Intn(3)], deepEq[string])
		case "string-classes":
			omitRound(c, l, classString(rng, true), deepEq[string])
		case "int":
			omitRound(c, l, []int{0, -1, math.MaxInt64, math.MinInt64, rng.Int()}[rng.Intn(5)], deepEq[int])
		case "float":
			omitRound(c, l, []float64{0, 0.1, -1e21, 5e-324, math.MaxFloat64, rng.NormFloat64()}[rng.Intn(6)], func(a, b float64) bool { return a == b })
		case "bool":
			omitRound(c, l, rng.Intn(2) == 0, deepEq[bool])
		case "nil-pointer":
			omitRound(c, l, (*string)(nil), deepEq[*string])
		case "pointer":
			s := classString(rng, true)
			omitRound(c, l, &s, deepEq[*string])
		case "struct":
			f := rng.NormFloat64()
			v := omitStruct{A: classString(rng, true), B: rng.Intn(1000) - 500, C: &f, D: map[string]any{"k": "v", "n": 1.5}}
			if rng.Intn(2) == 0 {
				v.C, v.D = nil, nil
			}
			omitRound(c, l, v, deepEq[omitStruct])
		case "slice":
			v := []string{}
			for j := rng.Intn(4); j > 0; j-- {
				v = append(v, classString(rng, true))
			}
			omitRound(c, l, v, deepEq[[]string])
		case "map":
			omitRound(c, l, map[string]any{"a": classString(rng, true), "b": 2.5, "c": []any{true, nil}}, deepEq[map[string]any])
		case "zero":
			omitRound(c, l, "", deepEq[string])
			omitRound(c, l, 0, deepEq[int])
			omitRound(c, l, false, deepEq[bool])
		default:
			vlib.Infra("specification printed an unknown omittable class %q", l.Cl)
		}
	}
	return evals
}

// checkNoJSON: a value without JSON representation must not make the writer complete
// with bytes that are not valid JSON.
func checkNoJSON(c *vlib.Check, l *scLine, rng *rand.Rand) {
	bad := []any{math.NaN(), math.Inf(1), math.Inf(-1)}
	badNum := []any{json.Number("NaN"), json.Number("1,5"), json.Number("0x10"), json.Number("1e"), json.Number("--1"), json.Number("Infinity")}
	var leaf any
	switch l.Cl {
	case "nan":
		leaf = bad[0]
	case "+inf":
		leaf = bad[1]
	case "-inf":
		leaf = bad[2]
	case "bad-number", "nested-bad-number":
		leaf = badNum[rng.Intn(len(badNum))]
	case "nested-nan":
		leaf = bad[rng.Intn(len(bad))]
	default:
		vlib.Infra("specification printed an unknown no-JSON class %q", l.Cl)
	}
	v := leaf
	if strings.HasPrefix(l.Cl, "nested-") || l.Ty == "Map" {
		switch rng.Intn(3) {
		case 0:
			v = map[string]any{"a": 1, "v": leaf}
		case 1:
			v = map[string]any{"l": []any{"x", leaf}}
		default:
			v = map[string]any{"m": map[string]any{"v": leaf}, "z": "z"}
		}
		if l.Ty == "Any" && rng.Intn(2) == 0 {
			v = []any{leaf, 1}
		}
	}
	var buf bytes.Buffer
	panicked := func() (p bool) {
		defer func() {
			if recover() != nil {
				p = true
			}
		}()
		if l.Ty == "Map" {
			graphql.MarshalMap(v.(map[string]any)).MarshalGQL(&buf)
		} else {
			graphql.MarshalAny(v).MarshalGQL(&buf)
		}
		return false
	}()
	out := buf.Bytes()
	if !panicked && validateJSON(out) != nil {
		c.Violate("json:"+l.Ty+":no-json-value-written:"+l.Cl,
			fmt.Sprintf("Marshal%s(%#v) completed and wrote %q, which is not valid JSON", l.Ty, v, out),
			replay(l, map[string]any{"value": fmt.Sprintf("%#v", v), "output": string(out)}))
	}
}
