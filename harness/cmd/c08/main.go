// C08: everything gqlgen serializes is valid JSON that round-trips the value.
//
// TLC checks spec/JsonWriter.tla (theorems of the string transducer and of
// the scalar tables) and prints every enumerated input class sequence /
// scalar case with the outcome the specification prescribes; this driver
// concretises each class, calls the real graphql.Marshal* / Unmarshal*
// functions and compares (independent strict validator, encoding/json
// decoding, round trip).
package main

import (
	"encoding/json"
	"fmt"
	"math/rand"
	"os"
	"strconv"
	"strings"
	"sync"
	"time"

	"verifharness/vlib"
)

// shards of the first unit for the thorough tier (4 TLC processes, 1 worker each)
var unitShards = [][]string{
	{"tab", "nl", "cr", "bs", "ff", "ctl", "quote", "bslash", "ascii"},
	{"del", "c8", "c9", "cA", "C0", "L2", "E0", "L3", "ED"},
	{"F0", "L4", "F4", "F5", "FE", "u2", "u3", "u3lo", "u3hi"},
	{"u4", "u4lo", "u4hi", "ovl2", "ovl3", "ovl4", "sur", "big"},
}

func shardFiles(maxLen int, shard []string, scalars bool) map[string][]byte {
	q := make([]string, len(shard))
	for i, u := range shard {
		q[i] = strconv.Quote(u)
	}
	tla := "---------------------------- MODULE MC_JsonWriterShard ----------------------------\n" +
		"EXTENDS JsonWriter\nMC_First == {" + strings.Join(q, ", ") + "}\n" +
		"ShardInit == Init /\\ " + map[bool]string{true: "TRUE", false: "kind = \"S\""}[scalars] + "\n" +
		"ShardSpec == ShardInit /\\ [][Next]_vars\n" +
		"=============================================================================\n"
	cfg := fmt.Sprintf("SPECIFICATION ShardSpec\nCONSTANTS\n  MaxLen = %d\n  FirstUnits <- MC_First\n  CopyInvalidVerbatim = FALSE\n  UintIDWraps = FALSE\n  EmitLines = TRUE\n"+
		"INVARIANTS TypeOK ThmAccepted ThmValidUtf8 ThmDecodes ThmRuneAtIsRef ThmNoSilentWrap ThmRoundTripCloses ThmNonFinite\nACTION_CONSTRAINT Emit\nCHECK_DEADLOCK FALSE\n", maxLen)
	return map[string][]byte{"MC_JsonWriterShard.tla": []byte(tla), "MC_JsonWriterShard.cfg": []byte(cfg)}
}

// runModel runs TLC (exit 2 on any problem of the model alone) and returns the printed lines.
func runModel(c *vlib.Check, thorough bool) []string {
	type job struct {
		opts vlib.TLCOpts
		res  *vlib.TLCResult
		err  error
	}
	var jobs []*job
	if !thorough {
		jobs = append(jobs, &job{opts: vlib.TLCOpts{Module: "MC_JsonWriter", Config: "MC_JsonWriter.cfg", Workers: 2,
			Timeout: 10 * time.Minute, Scratch: vlib.Work("C08", "tlc-quick"), HeapGB: 4}})
	} else {
		for i, sh := range unitShards {
			jobs = append(jobs, &job{opts: vlib.TLCOpts{Module: "MC_JsonWriterShard", Config: "MC_JsonWriterShard.cfg", Workers: 1,
				Data: shardFiles(4, sh, i == 0), Timeout: 25 * time.Minute, Scratch: vlib.Work("C08", fmt.Sprintf("tlc-shard%d", i)), HeapGB: 3,
				Coverage: false}})
		}
	}
	var wg sync.WaitGroup
	for _, j := range jobs {
		wg.Add(1)
		go func(j *job) {
			defer wg.Done()
			_ = os.RemoveAll(j.opts.Scratch)
			j.res, j.err = vlib.RunTLC(j.opts)
		}(j)
	}
	wg.Wait()
	var lines []string
	for _, j := range jobs {
		if j.err != nil {
			vlib.Infra("TLC: %v", j.err)
		}
		if !j.res.OK {
			tail := j.res.Output
			if len(tail) > 3000 {
				tail = tail[len(tail)-3000:]
			}
			vlib.Infra("TLC did not verify JsonWriter (%s, timed out=%v): %s\n%s", j.opts.Config, j.res.TimedOut, j.res.Violation, tail)
		}
		c.AddStates(j.res.Distinct, j.res.Generated)
		lines = append(lines, j.res.Printed...)
		j.res.Output, j.res.Printed = "", nil
		_ = os.RemoveAll(j.opts.Scratch)
	}
	return lines
}

// deviationIsRefuted: the model of the pinned tree's behaviour (offending
// bytes copied verbatim, UnmarshalUintID wrapping) must be REFUTED by TLC -
// otherwise the theorems are too weak to mean anything (non-vacuity).
func deviationIsRefuted() {
	sc := vlib.Work("C08", "tlc-dev")
	_ = os.RemoveAll(sc)
	res, err := vlib.RunTLC(vlib.TLCOpts{Module: "MC_JsonWriter", Config: "MC_JsonWriter_dev.cfg", Workers: 1, Timeout: 5 * time.Minute,
		Scratch: sc, HeapGB: 2, Extra: []string{"-continue"}})
	if err != nil {
		vlib.Infra("TLC (deviation model): %v", err)
	}
	// (ThmAccepted subsumes ThmValidUtf8 - the acceptor has the UTF-8 states inlined - and is reported first)
	for _, thm := range []string{"ThmAccepted", "ThmNoSilentWrap"} {
		if !strings.Contains(res.Output, "Invariant "+thm+" is violated") {
			vlib.Infra("vacuous: TLC does not refute %s on the deviation model (CopyInvalidVerbatim / UintIDWraps)", thm)
		}
	}
	_ = os.RemoveAll(sc)
}

func main() {
	c := vlib.NewCheck("C08", "exploration")
	thorough := vlib.Tier() == "thorough"
	seed := vlib.Seed()

	lines := runModel(c, thorough)
	deviationIsRefuted()

	variants, perClass, trees := 5, 20, 20000
	if thorough {
		variants, perClass, trees = 3, 40, 40000
	}

	// split the printed lines
	var strs []*strLine
	var scs []*scLine
	for _, raw := range lines {
		if !strings.HasPrefix(raw, "\"{") {
			continue
		}
		txt, err := strconv.Unquote(raw)
		if err != nil {
			vlib.Infra("cannot unquote TLC line %q: %v", raw, err)
		}
		var probe struct {
			K string `json:"k"`
		}
		if err := json.Unmarshal([]byte(txt), &probe); err != nil {
			vlib.Infra("cannot parse TLC line %q: %v", txt, err)
		}
		if probe.K == "S" {
			var l strLine
			if err := json.Unmarshal([]byte(txt), &l); err != nil {
				vlib.Infra("cannot parse TLC line %q: %v", txt, err)
			}
			strs = append(strs, &l)
		} else {
			var l scLine
			if err := json.Unmarshal([]byte(txt), &l); err != nil {
				vlib.Infra("cannot parse TLC line %q: %v", txt, err)
			}
			scs = append(scs, &l)
		}
	}
	lines = nil
	if len(strs) < 40000 || len(scs) < 1000 {
		vlib.Infra("vacuous: TLC printed only %d string inputs and %d scalar cases", len(strs), len(scs))
	}

	// A: strings, in parallel
	const workers = 4
	var wg sync.WaitGroup
	stats := make([]strStats, workers)
	for w := 0; w < workers; w++ {
		wg.Add(1)
		go func(w int) {
			defer wg.Done()
			rng := rand.New(rand.NewSource(seed*1000003 + int64(w)))
			for i := w; i < len(strs); i += workers {
				checkStringLine(c, strs[i], variants, rng, &stats[w])
			}
		}(w)
	}
	wg.Wait()
	var sEvals, sInvalid int64
	for _, s := range stats {
		sEvals += s.evals
		sInvalid += s.invalid
	}
	c.AddEvals(sEvals)

	// B: scalars
	rng := rand.New(rand.NewSource(seed*7919 + 17))
	var cEvals int64
	for _, l := range scs {
		cEvals += checkScalarLine(c, l, rng, perClass)
	}
	c.AddEvals(cEvals)

	// C: compositions
	nEvals := checkNestings(c, rand.New(rand.NewSource(seed*104729+5)), trees)
	c.AddEvals(nEvals)

	c.Set("rule", "TLC enumerates (a) every sequence of <= MaxLen units over the 35 units of JsonWriter (23 byte classes of UTF-8/JSON, 7 well-formed and 5 ill-formed multi-byte sequences) and (b) every scalar case (type x value class for Marshal*, type x carrier x value class for Unmarshal*) and prints each with the outcome the specification prescribes; a case is distinct when its unit sequence / (direction,type,carrier,class) differs; each is concretised into several concrete byte strings / values (lowest and highest byte of each class, then seeded random) and driven through the real graphql.Marshal*/Unmarshal* functions; compositions are seeded random FieldSet/Array/Response trees, distinct by root shape")
	c.Set("exhaustive", true)
	c.Set("string_class_sequences", len(strs))
	c.Set("scalar_cases", len(scs))
	c.Set("string_evaluations", sEvals)
	c.Set("string_inputs_with_offending_bytes", sInvalid)
	c.Set("scalar_evaluations", cEvals)
	c.Set("composition_evaluations", nEvals)
	c.Set("max_units", map[bool]int{false: 3, true: 4}[thorough])
	c.Assume("TLC; encoding/json as the decoder of (ii); the concretisation tables byte class -> byte range and integer class -> value; 64-bit int")
	c.Assume("Time is checked on the instants RFC 3339 can express (year 0..9999, whole-minute zone offset); zero Time / nil UUID marshal to null by documented design")
	c.Assume("MarshalFloat (the non-default binding) is checked on finite values only; the statement demands an error for non-finite values only under the default binding MarshalFloatContext")
	if len(strs) > 20001 {
		c.Sample(strs[500])
		c.Sample(strs[20000])
	}
	c.Sample(scs[0])
	c.Sample(scs[len(scs)/2])
	fmt.Fprintf(os.Stderr, "C08: %d string class sequences (%d evaluations, %d with offending bytes), %d scalar cases (%d evaluations), %d composition evaluations\n",
		len(strs), sEvals, sInvalid, len(scs), cEvals, nEvals)
	c.Finish()
}
