package main

import (
	"fmt"
	"math/rand"

	"verifharness/c03lib"
)

func main() {
	es := c03lib.NewES()
	rng := rand.New(rand.NewSource(1))
	for _, k := range c03lib.Kinds {
		for i := 0; i < 30; i++ {
			q := c03lib.GenRequest(rng, k, nil, true)
			q.Describe(es.Schema(), false)
			if !q.Consistent() {
				fmt.Println("INCONSISTENT", k, q.Query, q.OpName, q.Vars, q.Cls, q.OpSel, q.VarCls)
			}
		}
	}
	exts := []c03lib.HookSet{c03lib.HookSetOf(63), c03lib.HookSetOf(0b111100), c03lib.HookSetOf(0b100011)}
	s := &c03lib.Session{Cfg: c03lib.Config{ID: "s1", Exts: exts, CK: "lru", CN: 1, Sugg: true, Rules0: []string{"FOCT"}}}
	s.Steps = [][]*c03lib.Request{
		{c03lib.GenRequest(rng, "valid", exts, true)},
		{c03lib.GenRequest(rng, "unknown-field", exts, true), c03lib.GenRequest(rng, "multi-operation", exts, true)},
		{{Kind: "valid", Query: "subscription { tick }", Rej: c03lib.Rej{K: "none"}, Vars: map[string]any{}}},
		{{Kind: "valid", Query: "{ user { id } }", Rej: c03lib.Rej{K: "cm", I: 3}, Vars: map[string]any{}}},
	}
	c03lib.ResetRules()
	s.Run(es)
	for _, l := range s.Lines {
		fmt.Println(string(l))
	}
	fmt.Println(c03lib.ProbeRules(es.Schema()))
}
