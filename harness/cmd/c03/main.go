// C03: nothing executes unless the operation passed parsing, validation and
// every gate (spec/Pipeline.tla; notes/C03.md).
package main

import (
	"bytes"
	"encoding/json"
	"fmt"
	"math/rand"
	"os"
	"path/filepath"
	"regexp"
	"sort"
	"strconv"
	"strings"
	"sync"
	"time"

	"verifharness/c03lib"
	"verifharness/vlib"
)

const (
	// keys of the genuine defects of the per-request rule swap (DESIGN 7 #3)
	keyAccepted = "rule-swap-race:unknown-field-document-accepted-cached-executed"
	keyPanic    = "rule-swap-race:panic-on-damaged-rule-slice"
	keyDataRace = "rule-swap-race:go-race-detector-report-on-validator.specifiedRules"
)

var (
	c        *vlib.Check
	es       = c03lib.NewES()
	thorough = vlib.Tier() == "thorough"
)

func main() {
	switch os.Getenv("C03_MODE") {
	case "race":
		raceChild()
		return
	case "child":
		c03lib.ChildMain()
		return
	}
	c = vlib.NewCheck("C03", "model_checking")
	c.Set("rule", "TLC: all interleavings at shared-state steps of N requests x extension lists x caches x suggestions (constants in spec/MC_Pipeline*.cfg); every mutator gate has three outcomes (pass, error, PANIC) and a panicking gate is a gate that did not pass (I0-I7). "+
		"Implementation: (A) every TLC-enumerated order of cache operations of 2 (thorough: sample of 3) concurrent requests is forced on the real executor through a gating query cache; "+
		"(G) gate sweep: every behaviour of MC_PipelineGates.cfg (7 transports x 2 extension lists x 11 request classes x every gate plan: one gate rejects or panics at every gate position, two gates fail with at least one panicking) is replayed against a real handler.Server over the real transport (POST, GET, multipart form, SSE, multipart/mixed, websocket, and the direct driver) and compared with the word TLC prescribes: what ran, what touched the cache, what the client got; a case class = fate x gate plan x document class x transport; "+
		"(B) seeded random sessions (extension lists of length 0-3 over all 63 hook subsets x {none,map,lru1-3} x suggestions on/off x direct/real transports x sequential and concurrent steps over the 9-kind request alphabet x gate plans with 0-2 rejecting/panicking gates) "+
		"are recorded and validated by TLC against PipelineTrace; a case class = request kind x gate plan x cache kind x seq/conc x suggestions x #extensions x transport; "+
		"(C) statistical reproduction of the rule-swap window with lockstep goroutines")
	c.Assume("TLC and the Json community module are correct")
	c.Assume("gqlparser's parser, validator.Validate with an explicit rule list and validator.VariableValues classify the documents of the alphabet (independent of the executor and of the global rule set)")
	c.Assume("the hand-written ExecutableSchema nests RootResolverMiddleware / ResolverMiddleware the way generated code does")
	c.Assume("word-sized loads and stores of the slice header are atomic (rule model \"words\")")
	c.Assume("the harness's transport clients (net/http, mime/multipart, gorilla/websocket) report the answers of the server faithfully; an answer is noted by the client some time after the server produced it (PipelineTrace: wire)")

	if f := os.Getenv("VERIF_REPLAY"); f != "" {
		replay(f)
		return
	}
	selfCheckAlphabet()
	// the exhaustive model checks (3 TLC workers) run while the conformance
	// inputs are exported (1 TLC worker) and driven through the real code
	mcDone := make(chan struct{})
	go func() { modelCheck(); close(mcDone) }()
	var sessions []*c03lib.Session
	sessions = append(sessions, replaySchedules()...)
	sessions = append(sessions, gateSweep()...)
	sessions = append(sessions, ruleSweep()...)
	sessions = append(sessions, randomSessions()...)
	<-mcDone
	validate(sessions)
	selfTest(sessions)
	window()
	if thorough {
		raceRun()
	}
	finishChecks()
	c.Finish()
}

// infra-level observations that must not pre-empt a violation: a broken tree
// can make the harness's own expectations (client framing, non-vacuity) fail
var deferredInfra []string

func finishChecks() {
	if len(deferredInfra) > 0 && c.Violations() == 0 {
		vlib.Infra("%s", strings.Join(deferredInfra, "\n"))
	}
}

// clientErrs notes requests the transport client could not complete.
func clientErrs(s *c03lib.Session) bool {
	if len(s.ClientErrs) == 0 {
		return false
	}
	deferredInfra = append(deferredInfra, fmt.Sprintf("transport client failed in session %s (%s): %s", s.Cfg.ID, s.Cfg.Transport(), strings.Join(s.ClientErrs, "; ")))
	return true
}

// ---------------------------------------------------------------------------

func selfCheckAlphabet() {
	rng := rand.New(rand.NewSource(7))
	exts := []c03lib.HookSet{c03lib.HookSetOf(63), c03lib.HookSetOf(3)}
	for _, k := range c03lib.Kinds {
		for i := 0; i < 60; i++ {
			q := c03lib.GenRequest(rng, k, exts, true)
			q.Describe(es.Schema(), "direct")
			if !q.Consistent() {
				vlib.Infra("request alphabet: %q (opname %q, vars %v) meant as %s is classified %s/%s/%s", q.Query, q.OpName, q.Vars, k, q.Cls, q.OpSel, q.VarCls)
			}
		}
	}
	if bad := c03lib.CheckRuleDocs(es.AST(), c03lib.NewQueryOnlyES().AST()); len(bad) > 0 {
		vlib.Infra("per-rule documents disagree with gqlparser (fix or drop the constant):\n%s", strings.Join(bad, "\n"))
	}
	c03lib.ResetRules()
	if got := strings.Join(c03lib.ProbeRules(es.Schema()), ","); got != "FOCT" {
		vlib.Infra("cannot reset the global rule set: probe says %q", got)
	}
}

func tlc(name, module, cfg string, workers int, cov bool, timeout time.Duration) *vlib.TLCResult {
	res, err := vlib.RunTLC(vlib.TLCOpts{Module: module, Config: cfg, Workers: workers, Coverage: cov,
		Scratch: vlib.Work("C03", "tlc-"+name), Timeout: timeout})
	if err != nil {
		vlib.Infra("TLC %s: %v", name, err)
	}
	if res.TimedOut {
		vlib.Infra("TLC %s timed out", name)
	}
	return res
}

// modelCheck runs the exhaustive configurations. The repaired design must
// satisfy I1-I5; the model of the current code is expected to violate them
// (recorded, not a verdict: the verdict comes from the real code below).
func modelCheck() {
	mc := map[string]any{}
	need := func(name, cfg string, workers int, cov bool) *vlib.TLCResult {
		r := tlc(name, "MC_Pipeline", cfg, workers, cov, 15*time.Minute)
		if !r.OK {
			vlib.Infra("model %s: TLC reports an error on the specification alone:\n%s", cfg, r.Violation)
		}
		c.AddStates(r.Distinct, r.Generated)
		mc[cfg] = map[string]any{"distinct": r.Distinct, "generated": r.Generated, "depth": r.Depth, "wall_s": r.WallS, "result": "no error"}
		fmt.Fprintf(os.Stderr, "[tlc] %s: %d distinct / %d generated states, depth %d, %.1fs: no error\n", cfg, r.Distinct, r.Generated, r.Depth, r.WallS)
		return r
	}
	r := need("mc", "MC_Pipeline.cfg", 3, thorough)
	if thorough {
		// (TLC attributes Start to the enclosing MCNext disjunct in this config)
		for _, m := range regexp.MustCompile(`(?m)^<MCNext line [^>]*>: (\d+):(\d+)`).FindAllStringSubmatch(r.Output, -1) {
			n, _ := strconv.ParseInt(m[2], 10, 64)
			r.ActionCount["Start"] += n
		}
		for _, a := range []string{"Start", "Emit", "CacheGet", "Validate", "CacheAdd"} {
			if r.ActionCount[a] == 0 {
				vlib.Infra("vacuous model check: action %s was never taken (coverage %v)", a, r.ActionCount)
			}
		}
		mc["coverage"] = r.ActionCount
	}
	need("steps", "MC_PipelineSteps.cfg", 3, false)
	need("atomic", "MC_PipelineCur_atomic.cfg", 3, false)
	if thorough {
		need("mc3", "MC_Pipeline3.cfg", 3, false)
	}
	for _, inv := range []string{"I1", "I2", "I5"} {
		cfg := "MC_PipelineCur_words_" + inv + ".cfg"
		r := tlc("words"+inv, "MC_Pipeline", cfg, 3, false, 10*time.Minute)
		if r.OK || !strings.Contains(r.Output, "Invariant "+inv+" is violated") {
			vlib.Infra("model %s: expected TLC to violate %s on the model of the current per-request rule swap; output:\n%s", cfg, inv, tailStr(r.Output, 2000))
		}
		c.AddStates(r.Distinct, r.Generated)
		steps := []string{}
		for _, m := range regexp.MustCompile(`State \d+: <(?:(\w+)\((\d+)|(MCNext) line)`).FindAllStringSubmatch(r.Output, -1) {
			if m[3] != "" {
				steps = append(steps, "Start") // (TLC attributes Start to the enclosing MCNext disjunct)
			} else {
				steps = append(steps, m[1]+"("+m[2]+")")
			}
		}
		mc[cfg] = map[string]any{"distinct": r.Distinct, "generated": r.Generated, "result": "Invariant " + inv + " is violated", "behaviour": strings.Join(steps, " ")}
		fmt.Fprintf(os.Stderr, "[tlc] %s: %s VIOLATED by the model of the current code: %s\n", cfg, inv, strings.Join(steps, " "))
	}
	c.Set("model_checks", mc)
}

// ---------------------------------------------------------------------------
// (A) replay of TLC-generated interleavings of the cache operations

type schedJ struct {
	CK   string `json:"ck"`
	CN   int    `json:"cn"`
	Sugg bool   `json:"sugg"`
	GLog []struct {
		R  int    `json:"r"`
		Op string `json:"op"`
		D  string `json:"d"`
	} `json:"glog"`
	Reqs []struct {
		Q, Cls, OpSel, VCls, Last string
	} `json:"reqs"`
}

func concretise(q, cls, opsel, vcls string, n int) *c03lib.Request {
	r := &c03lib.Request{Gates: []c03lib.Gate{}, Vars: map[string]any{}}
	switch q {
	case "QI":
		// rotate through the per-rule invalid documents
		var docs []c03lib.RuleDoc
		for _, d := range c03lib.InvalidByRule {
			if !d.QOnly {
				docs = append(docs, d)
			}
		}
		r.FromRuleDoc(docs[n%len(docs)])
		r.Kind = "invalid"
		return r
	case "Q1":
		r.Query, r.Kind = "query F($id: Int!) { find(id: $id) user { id } }", "valid"
		r.Vars = map[string]any{"id": 1}
	case "Q2":
		r.Query, r.Kind = "query A { name } query B { a: name }", "multi-operation"
		r.OpName = "B"
	case "QU":
		r.Query, r.Kind = "{ name nosuch }", "unknown-field"
	case "QP":
		r.Query, r.Kind = "{ name", "parse-error"
	default:
		vlib.Infra("schedule export: unknown query id %s", q)
	}
	if opsel == "notfound" {
		r.OpName, r.Kind = "Nope", "operation-not-found"
	}
	if vcls == "bad" {
		r.Vars, r.Kind = map[string]any{"id": "x"}, "bad-variable"
	}
	return r
}

func replaySchedules() []*c03lib.Session {
	cfg, module := "MC_PipelineSched.cfg", "MC_Pipeline"
	if thorough {
		cfg = "MC_PipelineSched3.cfg"
	}
	var lines []string
	for _, cf := range []string{"MC_PipelineSched.cfg", cfg} {
		r := tlc("sched-"+cf, module, cf, 1, false, 20*time.Minute)
		if !r.OK {
			vlib.Infra("schedule export %s: %s", cf, r.Violation)
		}
		c.AddStates(r.Distinct, r.Generated)
		lines = append(lines, r.Printed...)
		if cf == cfg {
			break
		}
	}
	seen := map[string]bool{}
	var scheds []schedJ
	for _, ln := range lines {
		if !strings.HasPrefix(ln, "\"{") {
			continue
		}
		var inner string
		if err := json.Unmarshal([]byte(ln), &inner); err != nil {
			vlib.Infra("schedule export: %v in %s", err, ln)
		}
		if seen[inner] {
			continue
		}
		seen[inner] = true
		var s schedJ
		if err := json.Unmarshal([]byte(inner), &s); err != nil {
			vlib.Infra("schedule export: %v in %s", err, inner)
		}
		scheds = append(scheds, s)
	}
	if len(scheds) < 100 {
		vlib.Infra("schedule export produced only %d behaviours", len(scheds))
	}
	sort.Slice(scheds, func(i, j int) bool {
		a, _ := json.Marshal(scheds[i])
		b, _ := json.Marshal(scheds[j])
		return string(a) < string(b)
	})
	rng := rand.New(rand.NewSource(vlib.Seed() + 101))
	max := 1500
	if thorough {
		max = 6000
	}
	if len(scheds) > max {
		// keep all 2-request schedules, sample the 3-request ones
		var keep, rest []schedJ
		for _, s := range scheds {
			if len(s.Reqs) == 2 {
				keep = append(keep, s)
			} else {
				rest = append(rest, s)
			}
		}
		rng.Shuffle(len(rest), func(i, j int) { rest[i], rest[j] = rest[j], rest[i] })
		if len(keep) < max {
			keep = append(keep, rest[:min(len(rest), max-len(keep))]...)
		}
		scheds = keep
	}
	var out, all []*c03lib.Session
	masks := []int{63, 0b111100, 0b000011, 0b101010}
	div := 0
	for i, sj := range scheds {
		s := &c03lib.Session{Cfg: c03lib.Config{ID: fmt.Sprintf("sched%d", i), CK: sj.CK, CN: sj.CN, Sugg: sj.Sugg, Rules0: []string{"FOCT"}, Tr: "direct",
			Exts: []c03lib.HookSet{c03lib.HookSetOf(masks[rng.Intn(len(masks))])}}}
		var step []*c03lib.Request
		for _, rq := range sj.Reqs {
			step = append(step, concretise(rq.Q, rq.Cls, rq.OpSel, rq.VCls, i))
		}
		s.Steps = [][]*c03lib.Request{step}
		s.Sched = []c03lib.SchedOp{}
		for _, g := range sj.GLog {
			s.Sched = append(s.Sched, c03lib.SchedOp{R: g.R, Op: g.Op, D: g.D})
		}
		all = append(all, s)
	}
	all = runSessions("sched", all)
	// absence of an expected operation is judged only after a retry with a
	// ten times longer wait
	var retry []*c03lib.Session
	var retryIdx []int
	for i, s := range all {
		if strings.Contains(s.Diverge, "never arrived") {
			cp := &c03lib.Session{Cfg: s.Cfg, Steps: s.Steps, Sched: s.Sched, WaitMs: 50000}
			retry = append(retry, cp)
			retryIdx = append(retryIdx, i)
		}
	}
	if len(retry) > 0 && len(retry) <= 40 {
		fmt.Fprintf(os.Stderr, "[replay] retrying %d schedules that timed out with a 50 s wait\n", len(retry))
		for j, s := range runSessions("sched-retry", retry) {
			all[retryIdx[j]] = s
		}
	}
	for i, s := range all {
		sj := scheds[i]
		step := s.Steps[0]
		if s.NotRun != "" {
			continue
		}
		c.AddEvals(int64(len(step)))
		for _, cl := range s.Classes() {
			c.Class("sched/" + cl)
		}
		if len(s.Panics) > 0 {
			reportPanics(s)
			continue
		}
		// compare with what the model prescribes: order and outcome of the
		// cache operations, final answer of every request
		problem := s.Diverge
		if problem == "" {
			var got []string
			for _, ln := range s.Lines {
				var ev c03lib.Ev
				if json.Unmarshal(ln, &ev) == nil && ev.E == "H" && (ev.K == "cget" || ev.K == "cadd") {
					got = append(got, fmt.Sprintf("%d:%s:%s", ev.R, ev.K, ev.D))
				}
			}
			var want []string
			for _, g := range sj.GLog {
				want = append(want, fmt.Sprintf("%d:%s:%s", g.R, g.Op, g.D))
			}
			if strings.Join(got, " ") != strings.Join(want, " ") {
				problem = fmt.Sprintf("cache operations %v, the model prescribes %v", got, want)
			}
			for j, rq := range sj.Reqs {
				q := step[j]
				last := "none"
				if len(q.Resps) > 0 {
					last = q.Resps[len(q.Resps)-1]
				}
				if last != rq.Last && problem == "" {
					problem = fmt.Sprintf("request %d (%s) answered %q, the model prescribes %q", j+1, q.Kind, last, rq.Last)
				}
			}
		}
		if problem != "" {
			div++
			kinds := []string{}
			for _, q := range step {
				kinds = append(kinds, q.Kind)
			}
			c.Violate("replay-diverged:"+strings.Join(kinds, "+")+":"+sj.CK, "forced interleaving of cache operations: "+problem+"\nconfiguration: "+jsonStr(s.Cfg)+"\nschedule: "+jsonStr(s.Sched), s)
			continue
		}
		out = append(out, s)
	}
	c.Set("replayed_interleavings", len(scheds))
	fmt.Fprintf(os.Stderr, "[replay] %d TLC-generated interleavings of cache operations forced on the real executor, %d diverged\n", len(scheds), div)
	if len(out) > 0 {
		c.Sample(map[string]any{"replayed_schedule": out[len(out)/2].Sched, "config": out[len(out)/2].Cfg})
	}
	return out
}

// ---------------------------------------------------------------------------
// (B) random sessions

func randomSessions() []*c03lib.Session {
	n := 300
	if thorough {
		n = 5000
	}
	rng := rand.New(rand.NewSource(vlib.Seed()))
	var gen, out []*c03lib.Session
	for i := 0; i < n; i++ {
		gen = append(gen, c03lib.GenSession(rng, fmt.Sprintf("rnd%d", i), 12))
	}
	for _, s := range runSessions("rnd", gen) {
		if s.NotRun != "" {
			continue
		}
		for _, st := range s.Steps {
			for _, q := range st {
				if !q.Consistent() {
					vlib.Infra("request alphabet: %q meant as %s is classified %s/%s/%s", q.Query, q.Kind, q.Cls, q.OpSel, q.VarCls)
				}
				c.AddEvals(1)
			}
		}
		for _, cl := range s.Classes() {
			c.Class(cl)
		}
		if len(s.Panics) > 0 {
			// reported; the rest of such a session runs on a damaged rule slice
			// and is not trace-validated
			reportPanics(s)
			continue
		}
		if clientErrs(s) {
			continue
		}
		out = append(out, s)
	}
	return out
}

// runSessions executes sessions in child processes (see c03lib.Job) and
// returns them with their results, in order.
func runSessions(name string, ss []*c03lib.Session) []*c03lib.Session {
	out := make([]*c03lib.Session, 0, len(ss))
	const batch = 500
	spawned := 0
	for len(out) < len(ss) {
		rest := ss[len(out):min(len(ss), len(out)+batch)]
		spawned++
		if spawned > len(ss)/batch+30 {
			vlib.Infra("session children keep dying (%d spawned for %d sessions)", spawned, len(ss))
		}
		lines, stderr := runChild(fmt.Sprintf("%s-%d", name, spawned), c03lib.Job{Sessions: rest})
		got := 0
		finished := false
		for _, l := range lines {
			switch {
			case l.Session != nil:
				s := l.Session
				for _, ln := range s.LinesS {
					s.Lines = append(s.Lines, []byte(ln))
				}
				s.LinesS = nil
				out = append(out, s)
				got++
			case l.Damaged != "":
				last := rest[0].Cfg
				if got > 0 {
					last = out[len(out)-1].Cfg
				}
				violateOnce(keyPanic, "after a session with concurrent requests and SetDisableSuggestion(true), "+l.Damaged+"\nlast configuration: "+jsonStr(last), map[string]any{"window": true})
				finished = true
			case l.Done:
				finished = true
			}
		}
		if !finished {
			// the child died in the middle of a session: that session is lost
			if got < len(rest) {
				lost := *rest[got]
				lost.NotRun = "child process died: " + tailStr(stderr, 1500)
				if strings.Contains(stderr, "validator.") && lost.Cfg.Sugg {
					violateOnce(keyPanic, "the process died during a session with SetDisableSuggestion(true):\n"+tailStr(stderr, 1800), &lost)
				} else {
					vlib.Infra("session child died:\n%s", tailStr(stderr, 3000))
				}
				out = append(out, &lost)
			}
		}
	}
	return out
}

func runChild(name string, job c03lib.Job) ([]c03lib.ChildLine, string) {
	dir := vlib.Work("C03", "child")
	_ = os.MkdirAll(dir, 0o755)
	jf, rf := filepath.Join(dir, name+".job.json"), filepath.Join(dir, name+".result.ndjson")
	b, _ := json.Marshal(job)
	if err := os.WriteFile(jf, b, 0o644); err != nil {
		vlib.Infra("child job: %v", err)
	}
	_ = os.Remove(rf)
	self, err := os.Executable()
	if err != nil {
		vlib.Infra("child: %v", err)
	}
	env := append(os.Environ(), "C03_MODE=child", "C03_JOB="+jf, "C03_RESULT="+rf)
	stderr, _ := vlib.RunCmd(vlib.Harness(), env, 20*time.Minute, self)
	rb, _ := os.ReadFile(rf)
	var lines []c03lib.ChildLine
	for _, ln := range bytes.Split(rb, []byte("\n")) {
		if len(bytes.TrimSpace(ln)) == 0 {
			continue
		}
		var l c03lib.ChildLine
		if err := json.Unmarshal(ln, &l); err != nil {
			break // a torn last line of a dead child
		}
		lines = append(lines, l)
	}
	_ = os.Remove(jf)
	_ = os.Remove(rf)
	return lines, stderr
}

// panicInSwap: the panic happened in gqlparser's Validate / RemoveRule /
// ReplaceRule called from executor.parseQuery of an executor with
// SetDisableSuggestion(true) - the damaged global rule slice.
func panicInSwap(s *c03lib.Session, p string) bool {
	return s.Cfg.Sugg && strings.Contains(p, "executor.(*Executor).parseQuery") &&
		(strings.Contains(p, "validator.Validate(") || strings.Contains(p, "validator.RemoveRule(") || strings.Contains(p, "validator.ReplaceRule("))
}

// ruleSweep: every per-rule invalid document x suggestions on/off x cache
// kind x first / repeated / concurrent (c03lib.GenRuleSweep).
func ruleSweep() []*c03lib.Session {
	variants := 1
	if thorough {
		variants = 4
	}
	rng := rand.New(rand.NewSource(vlib.Seed() + 303))
	var gen, out []*c03lib.Session
	for v := 0; v < variants; v++ {
		gen = append(gen, c03lib.GenRuleSweep(rng, v)...)
	}
	nsweep := len(gen)
	gen = append(gen, c03lib.GenKeySweep()...) // cache-key sweep: texts that differ only in layout
	seen := map[string]int{} // rule/sugg -> invalid requests sent
	nreq := 0
	for _, s := range runSessions("rules", gen) {
		if s.NotRun != "" {
			continue
		}
		for _, st := range s.Steps {
			for _, q := range st {
				if !q.Consistent() {
					vlib.Infra("per-rule document %q (%s) meant as %s is classified %s/%s/%s", q.Query, q.Rule, q.Kind, q.Cls, q.OpSel, q.VarCls)
				}
				c.AddEvals(1)
				nreq++
				if q.Kind == "invalid" {
					seen[fmt.Sprintf("%s/%v", q.Rule, s.Cfg.Sugg)]++
				}
			}
		}
		for _, cl := range s.Classes() {
			c.Class(cl)
		}
		if len(s.Panics) > 0 {
			reportPanics(s)
			continue
		}
		if clientErrs(s) {
			continue
		}
		out = append(out, s)
	}
	for _, r := range c03lib.RuleNames() {
		for _, sugg := range []bool{true, false} {
			if seen[fmt.Sprintf("%s/%v", r, sugg)] == 0 {
				vlib.Infra("rule sweep is vacuous: no invalid document of rule %s was sent with suggestions disabled=%v", r, sugg)
			}
		}
	}
	c.Set("cache_key_sweep", map[string]any{"sessions": len(gen) - nsweep, "what": "12 texts that differ only in layout (trailing/leading blank, line breaks, tab, comma, white space inside a string literal, a comment that swallows the closing brace when the line break is folded) x {map, lru, lru over POST}: each a miss the first time and a hit the second"})
	c.Set("rule_sweep", map[string]any{"sessions": len(out), "requests": nreq, "rules": c03lib.RuleNames(),
		"invalid_documents": len(c03lib.InvalidByRule), "near_miss_documents": len(c03lib.NearMiss)})
	fmt.Fprintf(os.Stderr, "[rules] %d sessions / %d requests: %d invalid documents of %d validation rules (+%d valid near-misses) x suggestions on/off x 4 caches x first/repeated/concurrent\n",
		len(out), nreq, len(c03lib.InvalidByRule), len(c03lib.RuleNames()), len(c03lib.NearMiss))
	return out
}

// reportPanics classifies panics that left gqlgen during a session.
func reportPanics(s *c03lib.Session) {
	for _, p := range s.Panics {
		switch {
		case panicInSwap(s, p):
			violateOnce(keyPanic, "a request panicked inside validator.Validate called from executor.parseQuery (nil RuleFunc in the global rule slice after concurrent RemoveRule/ReplaceRule)\nconfiguration: "+jsonStr(s.Cfg)+"\n"+tailStr(p, 1800), s)
		case strings.Contains(firstFrame(p), "verifharness/"):
			// (decided at the end: a broken tree can drive the harness's schema into
			// states it was not written for; a violation found elsewhere takes precedence)
			deferredInfra = append(deferredInfra, "panic in harness code:\n"+p)
		default:
			c.Violate("panic:"+firstFrame(p), "a request panicked:\nconfiguration: "+jsonStr(s.Cfg)+"\n"+tailStr(p, 1800), s)
		}
	}
}

// firstFrame is the function that panicked (first frame below panic()).
func firstFrame(stack string) string {
	lines := strings.Split(stack, "\n")
	for i, ln := range lines {
		if strings.HasPrefix(ln, "panic(") && i+2 < len(lines) {
			f := lines[i+2]
			if j := strings.LastIndex(f, "("); j > 0 {
				f = f[:j]
			}
			return f
		}
	}
	return "unknown"
}

// ---------------------------------------------------------------------------
// trace validation

type rejection struct {
	s      *c03lib.Session
	lineNo int
	line   string
	prefix []string
}

// tlcTraces validates the concatenated sessions; a rejected session is
// removed and the rest re-validated. Returns the rejected sessions.
func tlcTraces(name, cfg string, ss []*c03lib.Session, count bool) []rejection {
	var rej []rejection
	remaining := ss
	// a handful of rejected sessions decide the verdict; the rest of a batch is
	// not examined further then (each rejection costs one more TLC run)
	for round := 0; round < 6 && len(remaining) > 0; round++ {
		var buf bytes.Buffer
		var owner []int
		var all []string
		for i, s := range remaining {
			for _, ln := range s.Lines {
				buf.Write(ln)
				buf.WriteByte('\n')
				owner = append(owner, i)
				all = append(all, string(ln))
			}
		}
		res, err := vlib.RunTLC(vlib.TLCOpts{Module: "PipelineTrace", Config: cfg, Workers: 1, DFS: true,
			Data: map[string][]byte{"trace.ndjson": buf.Bytes()}, Scratch: vlib.Work("C03", fmt.Sprintf("tv-%s-%d", name, round)), Timeout: 30 * time.Minute})
		if err != nil {
			vlib.Infra("trace validation: %v", err)
		}
		if count {
			c.AddStates(res.Distinct, res.Generated)
		}
		if res.OK {
			if count {
				c.AddTraces(int64(len(remaining)))
			}
			return rej
		}
		if res.RejectedAt == 0 || res.RejectedAt > len(owner) {
			vlib.Infra("TLC failed without a trace rejection (%s):\n%s", cfg, tailStr(res.Output, 3000))
		}
		idx := owner[res.RejectedAt-1]
		first := res.RejectedAt - 1
		for first > 0 && owner[first-1] == idx {
			first--
		}
		rej = append(rej, rejection{s: remaining[idx], lineNo: res.RejectedAt - first, line: all[res.RejectedAt-1], prefix: all[first : res.RejectedAt-1]})
		if count {
			c.AddTraces(int64(idx))
		}
		remaining = remaining[idx+1:]
	}
	return rej
}

func validate(sessions []*c03lib.Session) {
	var ok []*c03lib.Session
	for _, s := range sessions {
		ok = append(ok, s)
	}
	t0 := time.Now()
	nlines := 0
	for _, s := range ok {
		nlines += len(s.Lines)
	}
	// batches are validated side by side (one TLC worker each, at most four at a time)
	const batch = 600
	nb := (len(ok) + batch - 1) / batch
	parts := make([][]rejection, nb)
	var wg sync.WaitGroup
	sem := make(chan struct{}, 4)
	for b := 0; b < nb; b++ {
		wg.Add(1)
		go func(b int) {
			defer wg.Done()
			sem <- struct{}{}
			defer func() { <-sem }()
			parts[b] = tlcTraces(fmt.Sprintf("strict%d", b), "PipelineTrace.cfg", ok[b*batch:min(len(ok), (b+1)*batch)], true)
		}(b)
	}
	wg.Wait()
	var rejs []rejection
	for _, p := range parts {
		rejs = append(rejs, p...)
	}
	fmt.Fprintf(os.Stderr, "[trace] %d sessions, %d trace lines validated against PipelineTrace (repaired rule model) in %.1fs: %d rejected\n", len(ok), nlines, time.Since(t0).Seconds(), len(rejs))
	c.Set("trace_lines", nlines)
	for _, r := range rejs {
		rejectedSessions[r.s] = true
		classifyRejection(r)
	}
	for _, s := range ok {
		if len(s.Steps) > 2 && len(s.Cfg.Exts) > 1 && !s.Cfg.Remote() {
			c.Sample(map[string]any{"session": s.Cfg, "trace_head": headLines(s.Lines, 14)})
			break
		}
	}
}

// sessions the trace specification rejected (not used by the binding self-test)
var rejectedSessions = map[*c03lib.Session]bool{}

// classifyRejection decides what a session rejected by the repaired model is:
// if the model of the current code (per-request swap, word level) explains it,
// the session needed the rule-swap race; otherwise it is something else.
func classifyRejection(r rejection) {
	var ev c03lib.Ev
	_ = json.Unmarshal([]byte(r.line), &ev)
	kind := "?"
	for _, st := range r.s.Steps {
		for _, q := range st {
			if q.R == ev.R {
				kind = q.Kind
			}
		}
	}
	detail := fmt.Sprintf("configuration: %s\nthe specification rejects trace line %d: %s\n(request kind: %s)\nlast accepted events: %s",
		jsonStr(r.s.Cfg), r.lineNo, r.line, kind, strings.Join(lastN(r.prefix, 10), " | "))
	if r.s.Cfg.Sugg {
		lenient := tlcTraces("lenient", "PipelineTraceCur.cfg", []*c03lib.Session{r.s}, false)
		if len(lenient) == 0 {
			key := keyAccepted
			if len(r.s.Panics) > 0 {
				key = keyPanic
			}
			violateOnce(key, "explained only by the model of the per-request rule swap (RuleModel \"words\")\n"+detail, r.s)
			return
		}
	}
	e := ev.E
	if ev.E == "H" {
		e = ev.K + "/" + ev.D
	}
	c.Violate("trace-rejected:"+e+":"+kind, detail, r.s)
}

// selfTest corrupts recorded sessions and requires TLC to reject each
// corruption (the binding is demonstrated, not assumed).
func selfTest(sessions []*c03lib.Session) {
	type mut struct {
		name string
		f    func(evs []map[string]any) []map[string]any
	}
	find := func(evs []map[string]any, pred func(a map[string]any) bool) int {
		for i, e := range evs {
			if e["e"] == "H" && pred(e) {
				return i
			}
		}
		return -1
	}
	muts := []mut{
		{"swap-two-interceptor-entries", func(evs []map[string]any) []map[string]any {
			for i := 0; i+1 < len(evs); i++ {
				a, b := evs[i], evs[i+1]
				if a["e"] == "H" && b["e"] == "H" && a["k"] == b["k"] && a["d"] == "in" && b["d"] == "in" && a["r"] == b["r"] && a["i"] != b["i"] {
					evs[i], evs[i+1] = b, a
					return evs
				}
			}
			return nil
		}},
		{"drop-resolver-event", func(evs []map[string]any) []map[string]any {
			i := find(evs, func(a map[string]any) bool { return a["k"] == "res" })
			if i < 0 {
				return nil
			}
			return append(evs[:i:i], evs[i+1:]...)
		}},
		{"duplicate-hook-event", func(evs []map[string]any) []map[string]any {
			i := find(evs, func(a map[string]any) bool { return a["k"] == "oi" || a["k"] == "fi" || a["k"] == "cm" })
			if i < 0 {
				return nil
			}
			out := append([]map[string]any{}, evs[:i+1]...)
			out = append(out, evs[i])
			return append(out, evs[i+1:]...)
		}},
		{"exec-for-rejected-request", func(evs []map[string]any) []map[string]any {
			i := find(evs, func(a map[string]any) bool { return a["k"] == "resp" && a["d"] == "errors" })
			if i < 0 {
				return nil
			}
			out := append([]map[string]any{}, evs[:i]...)
			out = append(out, map[string]any{"e": "H", "r": evs[i]["r"], "k": "exec", "d": "call", "i": 0, "f": ""})
			return append(out, evs[i:]...)
		}},
		{"cache-add-before-miss-is-validated", func(evs []map[string]any) []map[string]any {
			// an unknown-field / invalid request that adds to the cache
			for i, e := range evs {
				if e["e"] == "Req" && (e["cls"] == "unk" || e["cls"] == "inv") {
					j := -1
					for k := i + 1; k < len(evs); k++ {
						if evs[k]["e"] == "H" && evs[k]["r"] == e["r"] && evs[k]["k"] == "cget" && evs[k]["d"] == "miss" {
							j = k
							break
						}
					}
					if j < 0 {
						continue
					}
					out := append([]map[string]any{}, evs[:j+1]...)
					out = append(out, map[string]any{"e": "H", "r": e["r"], "k": "cadd", "d": "call", "i": 0, "f": evs[j]["f"]})
					return append(out, evs[j+1:]...)
				}
			}
			return nil
		}},
		{"flip-cache-hit", func(evs []map[string]any) []map[string]any {
			i := find(evs, func(a map[string]any) bool { return a["k"] == "cget" })
			if i < 0 {
				return nil
			}
			cp := map[string]any{}
			for k, v := range evs[i] {
				cp[k] = v
			}
			if cp["d"] == "hit" {
				cp["d"] = "miss"
			} else {
				cp["d"] = "hit"
			}
			evs[i] = cp
			return evs
		}},
		{"response-with-data-for-rejected-request", func(evs []map[string]any) []map[string]any {
			i := find(evs, func(a map[string]any) bool { return a["k"] == "resp" && a["d"] == "errors" })
			if i < 0 {
				return nil
			}
			cp := map[string]any{}
			for k, v := range evs[i] {
				cp[k] = v
			}
			cp["d"] = "mixed"
			evs[i] = cp
			return evs
		}},
		// --- a gate that panicked (round 3): the recover line of a request marks it
		{"exec-after-a-panicking-gate", func(evs []map[string]any) []map[string]any {
			i := find(evs, func(a map[string]any) bool { return a["k"] == "recover" })
			if i < 0 {
				return nil
			}
			out := append([]map[string]any{}, evs[:i]...)
			out = append(out, map[string]any{"e": "H", "r": evs[i]["r"], "k": "exec", "d": "call", "i": 0, "f": ""})
			return append(out, evs[i:]...)
		}},
		{"operation-interceptor-instead-of-recover-after-a-panicking-gate", func(evs []map[string]any) []map[string]any {
			// what a swallowed panic looks like: the pipeline goes on
			i := find(evs, func(a map[string]any) bool { return a["k"] == "recover" })
			if i < 0 {
				return nil
			}
			cp := map[string]any{"e": "H", "r": evs[i]["r"], "k": "oi", "d": "in", "i": 1, "f": ""}
			out := append([]map[string]any{}, evs[:i]...)
			out = append(out, cp)
			return append(out, evs[i+1:]...)
		}},
		{"cache-lookup-after-a-panicking-parameter-gate", func(evs []map[string]any) []map[string]any {
			for i, e := range evs {
				if e["e"] != "H" || e["k"] != "recover" {
					continue
				}
				// the last event of that request before the recover line is a pm call
				for j := i - 1; j >= 0; j-- {
					if evs[j]["e"] == "H" && evs[j]["r"] == e["r"] {
						if evs[j]["k"] != "pm" {
							break
						}
						out := append([]map[string]any{}, evs[:i]...)
						out = append(out, map[string]any{"e": "H", "r": e["r"], "k": "cget", "d": "miss", "i": 0, "f": "Q1"})
						return append(out, evs[i:]...)
					}
				}
			}
			return nil
		}},
		{"data-answer-for-a-request-whose-gate-panicked", func(evs []map[string]any) []map[string]any {
			for i, e := range evs {
				if e["e"] != "H" || e["k"] != "recover" {
					continue
				}
				for j := range evs {
					if evs[j]["e"] == "H" && evs[j]["r"] == e["r"] && evs[j]["k"] == "resp" && j > i-3 {
						cp := map[string]any{}
						for k, v := range evs[j] {
							cp[k] = v
						}
						cp["d"] = "data"
						evs[j] = cp
						return evs
					}
				}
			}
			return nil
		}},
		{"success-status-for-a-request-whose-gate-panicked", func(evs []map[string]any) []map[string]any {
			for i, e := range evs {
				if e["e"] != "H" || e["k"] != "recover" {
					continue
				}
				for j := i; j < len(evs); j++ {
					if evs[j]["e"] == "H" && evs[j]["r"] == e["r"] && evs[j]["k"] == "resp" && evs[j]["f"] == "4xx" {
						cp := map[string]any{}
						for k, v := range evs[j] {
							cp[k] = v
						}
						cp["f"] = "2xx"
						evs[j] = cp
						return evs
					}
				}
			}
			return nil
		}},
	}
	// the corrupted sessions are prepared one after the other and validated side by side
	res := map[string]string{}
	var mu sync.Mutex
	var wg sync.WaitGroup
	sem := make(chan struct{}, 4)
	for mi, m := range muts {
		found := false
		for _, s := range sessions {
			if len(s.Panics) > 0 || len(s.Lines) < 20 || rejectedSessions[s] {
				continue
			}
			var evs []map[string]any
			for _, ln := range s.Lines {
				var e map[string]any
				if err := json.Unmarshal(ln, &e); err != nil {
					vlib.Infra("self-test: %v", err)
				}
				evs = append(evs, e)
			}
			mutated := m.f(evs)
			if mutated == nil {
				continue
			}
			cs := &c03lib.Session{Cfg: s.Cfg}
			for _, e := range mutated {
				b, _ := json.Marshal(e)
				cs.Lines = append(cs.Lines, b)
			}
			found = true
			wg.Add(1)
			go func(mi int, name string) {
				defer wg.Done()
				sem <- struct{}{}
				defer func() { <-sem }()
				r := tlcTraces(fmt.Sprintf("selftest%d", mi), "PipelineTrace.cfg", []*c03lib.Session{cs}, false)
				if len(r) == 0 {
					vlib.Infra("binding self-test: the corruption %q of a recorded session was ACCEPTED by the trace specification", name)
				}
				mu.Lock()
				res[name] = "rejected at line " + strconv.Itoa(r[0].lineNo)
				mu.Unlock()
			}(mi, m.name)
			break
		}
		if !found {
			deferredInfra = append(deferredInfra, fmt.Sprintf("binding self-test: no recorded session to apply corruption %q to", m.name))
		}
	}
	wg.Wait()
	c.Set("binding_self_test", res)
	fmt.Fprintf(os.Stderr, "[selftest] %d corruptions of recorded sessions all rejected by the trace specification\n", len(res))
}

// ---------------------------------------------------------------------------
// (C) statistical reproduction of the rule-swap window

func window() {
	trials, budget := 12000, 12*time.Second
	if thorough {
		trials, budget = 150000, 90*time.Second
	}
	agg := map[string]any{}
	for _, k := range []int{2, 3, 4} {
		lines, stderr := runChild(fmt.Sprintf("window-%d", k), c03lib.Job{Window: &c03lib.WindowJob{K: k, Trials: trials / 3, BudgetMs: int(budget.Milliseconds() / 3)}})
		if len(lines) == 0 || lines[0].Window == nil {
			if strings.Contains(stderr, "validator.") {
				violateOnce(keyPanic, "the process running the window experiment died:\n"+tailStr(stderr, 1800), map[string]any{"window": true, "goroutines": k})
				continue
			}
			vlib.Infra("window child died:\n%s", tailStr(stderr, 3000))
		}
		st := lines[0].Window
		agg[fmt.Sprintf("k=%d", k)] = st
		if st.Damaged != "" {
			c.Class("window/damaged")
			violateOnce(keyPanic, fmt.Sprintf("%d goroutines: %s", k, st.Damaged), map[string]any{"window": true, "goroutines": k})
		}
		c.AddEvals(int64(st.Trials * k))
		fmt.Fprintf(os.Stderr, "[window] %d goroutines x %d trials (SetDisableSuggestion(true), cold cache, fresh rule set): %d unknown-field requests accepted, %d resolvers run for them, %d such documents cached, %d panics, %d poisoned rule sets (%.1fs)\n",
			k, st.Trials, st.Accepted, st.Executed, st.Cached, st.Panics, st.Poisoned, st.WallS)
		if st.Accepted > 0 {
			c.Class("window/accepted")
			violateOnce(keyAccepted, fmt.Sprintf("%d goroutines issuing unknown-field documents concurrently as the first requests of an executor with SetDisableSuggestion(true): in %d of %d trials a request passed validation, its document was added to the query cache (%d times) and its resolvers ran (%d), e.g. %s; first hit in trial %d\nevents of that trial: %v",
				k, st.TrialsHit, st.Trials, st.Cached, st.Executed, st.ExampleData, st.FirstHit, st.Example), map[string]any{"window": true, "goroutines": k})
		}
		if st.Panics > 0 {
			c.Class("window/panic")
			violateOnce(keyPanic, fmt.Sprintf("%d goroutines, %d trials: %d requests panicked in validator.Validate; after %d trials the rule set kept a nil rule, so a later sequential valid request panicked too\n%s",
				k, st.Trials, st.Panics, st.Poisoned, tailStr(st.PanicText, 1500)), map[string]any{"window": true, "goroutines": k})
		}
	}
	c.Set("rule_swap_window", agg)
}

// ---------------------------------------------------------------------------
// -race

func raceRun() {
	bin := vlib.Work("C03", "c03race")
	_ = os.MkdirAll(filepath.Dir(bin), 0o755)
	out, err := vlib.RunCmd(vlib.Harness(), vlib.GoEnv(), 15*time.Minute, "go", "build", "-race", "-tags", "verif", "-o", bin, "./cmd/c03")
	if err != nil {
		c.Set("race_detector", "not run: go build -race failed: "+tailStr(out, 400))
		fmt.Fprintf(os.Stderr, "[race] go build -race failed, skipped: %s\n", tailStr(out, 400))
		return
	}
	logp := vlib.Work("C03", "race-report")
	old, _ := filepath.Glob(logp + ".*")
	for _, f := range old {
		_ = os.Remove(f)
	}
	env := append(os.Environ(), "C03_MODE=race", "GORACE=halt_on_error=0 log_path="+logp)
	o, _ := vlib.RunCmd(vlib.Harness(), env, 15*time.Minute, bin)
	if !strings.Contains(o, "RACE-CHILD-DONE") {
		vlib.Infra("race child did not finish:\n%s", tailStr(o, 2000))
	}
	files, _ := filepath.Glob(logp + ".*")
	var reports []string
	for _, f := range files {
		b, _ := os.ReadFile(f)
		for _, blk := range strings.Split(string(b), "==================") {
			if strings.Contains(blk, "WARNING: DATA RACE") {
				reports = append(reports, blk)
			}
		}
	}
	known, other := 0, 0
	for _, blk := range reports {
		switch {
		case strings.Contains(blk, "validator.RemoveRule") || strings.Contains(blk, "validator.ReplaceRule"):
			known++
			violateOnce(keyDataRace, "go run -race of the concurrent driver (sessions with SetDisableSuggestion(true)):\n"+tailStr(blk, 1800), map[string]any{"race": true})
		case !strings.Contains(blk, "github.com/99designs/gqlgen") && !strings.Contains(blk, "gqlparser"):
			vlib.Infra("data race inside the harness itself:\n%s", blk)
		default:
			other++
			c.Violate("data-race:"+raceKey(blk), "go race detector report:\n"+tailStr(blk, 1800), map[string]any{"race": true})
		}
	}
	c.Set("race_detector", map[string]any{"reports": len(reports), "on_rule_swap": known, "other": other, "child": strings.TrimSpace(lastLine(o))})
	fmt.Fprintf(os.Stderr, "[race] %d race reports (%d on the rule swap, %d other)\n", len(reports), known, other)
}

func raceKey(blk string) string {
	for _, ln := range strings.Split(blk, "\n") {
		ln = strings.TrimSpace(ln)
		if strings.HasPrefix(ln, "github.com/") {
			if j := strings.Index(ln, "("); j > 0 {
				return ln[:j]
			}
		}
	}
	return "unknown"
}

// raceChild is the concurrent driver compiled with -race (no TLC).
func raceChild() {
	rng := rand.New(rand.NewSource(vlib.Seed()))
	n, reqs := 400, 0
	for i := 0; i < n; i++ {
		s := c03lib.GenSession(rng, fmt.Sprintf("race%d", i), 12)
		if err := c03lib.SafeReset(es.Schema()); err != nil {
			fmt.Printf("RACE-CHILD-DAMAGED %v\n", err)
			break
		}
		s.Run(es)
		for _, st := range s.Steps {
			reqs += len(st)
		}
	}
	st := c03lib.RunWindow(es, 3, 300, 20*time.Second, 0)
	fmt.Printf("RACE-CHILD-DONE sessions=%d requests=%d window_trials=%d\n", n, reqs, st.Trials)
}

// ---------------------------------------------------------------------------

func replay(file string) {
	b, err := os.ReadFile(file)
	if err != nil {
		vlib.Infra("replay: %v", err)
	}
	var doc struct {
		Key      string          `json:"key"`
		Scenario json.RawMessage `json:"scenario"`
	}
	if err := json.Unmarshal(b, &doc); err != nil {
		vlib.Infra("replay: %v", err)
	}
	var probe map[string]any
	_ = json.Unmarshal(doc.Scenario, &probe)
	if probe["window"] == true {
		window()
		c.Finish()
	}
	if probe["race"] == true {
		raceRun()
		c.Finish()
	}
	var s0 c03lib.Session
	if err := json.Unmarshal(doc.Scenario, &s0); err != nil {
		vlib.Infra("replay: %v", err)
	}
	s0.Panics, s0.Diverge, s0.LinesS = nil, "", nil
	s := runSessions("replay", []*c03lib.Session{&s0})[0]
	c.AddEvals(1)
	if len(s.Panics) > 0 {
		reportPanics(s)
	}
	if s.Diverge != "" {
		c.Violate(doc.Key, "forced interleaving diverged again: "+s.Diverge, s)
	}
	for _, ln := range s.Lines {
		fmt.Println(string(ln))
	}
	validate([]*c03lib.Session{s})
	c.Finish()
}

// onceKeys: the rule-swap findings are reported once per run
var onceKeys = map[string]bool{}

func violateOnce(key, detail string, replay any) {
	if onceKeys[key] {
		return
	}
	onceKeys[key] = true
	c.Violate(key, detail, replay)
}

func jsonStr(v any) string { b, _ := json.Marshal(v); return string(b) }

func tailStr(s string, n int) string {
	if len(s) > n {
		return "..." + s[len(s)-n:]
	}
	return s
}

func lastLine(s string) string {
	ls := strings.Split(strings.TrimSpace(s), "\n")
	return ls[len(ls)-1]
}

func lastN(ss []string, n int) []string {
	if len(ss) > n {
		ss = ss[len(ss)-n:]
	}
	return ss
}

func headLines(ls [][]byte, n int) []string {
	out := []string{}
	for i := 0; i < len(ls) && i < n; i++ {
		out = append(out, string(ls[i]))
	}
	return out
}
