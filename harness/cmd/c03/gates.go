package main

// (G) gate sweep: the behaviours of spec/MC_PipelineGates.cfg - one request,
// every transport, every gate plan (a mutator gate passes, returns an error or
// PANICS, at every gate position, one or two gates failing) - replayed against
// a real handler.Server over the real transports.

import (
	"encoding/json"
	"fmt"
	"math/rand"
	"os"
	"sort"
	"strings"

	"verifharness/c03lib"
	"verifharness/vlib"
)

type gateJ struct {
	Exts []c03lib.HookSet `json:"exts"`
	CK   string           `json:"ck"`
	CN   int              `json:"cn"`
	Tr   string           `json:"tr"`
	Req  struct {
		Q      string        `json:"q"`
		Cls    string        `json:"cls"`
		OpSel  string        `json:"opsel"`
		VCls   string        `json:"vcls"`
		Opt    string        `json:"opt"`
		Gates  []c03lib.Gate `json:"gates"`
		Rounds []string      `json:"rounds"`
		Roots  []c03lib.Root `json:"roots"`
	} `json:"req"`
	Fate string      `json:"fate"`
	Log  []c03lib.Ev `json:"log"`
	GLog []struct {
		R  int    `json:"r"`
		Op string `json:"op"`
		D  string `json:"d"`
	} `json:"glog"`
}

// concretiseGate turns a request class of the model into a request. The n-th
// request of a session gets a distinct text (trailing comment), so that - as in
// the single-request model - every request finds a cold cache entry.
func concretiseGate(g *gateJ, n int) *c03lib.Request {
	r := &c03lib.Request{Gates: g.Req.Gates, Vars: map[string]any{}}
	if r.Gates == nil {
		r.Gates = []c03lib.Gate{}
	}
	switch g.Req.Q {
	case "Q1":
		r.Query, r.Kind = "query F($id: Int!) { a: user @onField(x: $id) { b: id } }", "valid"
		r.Vars = map[string]any{"id": 1}
		if g.Req.OpSel == "notfound" {
			r.OpName, r.Kind = "Nope", "operation-not-found"
		}
		if g.Req.VCls == "bad" {
			r.Vars, r.Kind = map[string]any{"id": "x"}, "bad-variable"
		}
	case "Q2":
		r.Query, r.OpName, r.Kind = "query A { x: name } query B { c: name }", "B", "multi-operation"
	case "QU":
		r.Query, r.Kind = "{ c: nosuch }", "unknown-field"
	case "QP":
		r.Query, r.Kind = "{ c: name", "parse-error"
	case "QN":
		r.Query, r.Kind = "fragment F on Query { name }", "no-operation"
	case "QT":
		r.Query, r.Kind = c03lib.TlimDocs[n%len(c03lib.TlimDocs)], "over-token-limit"
		if strings.HasPrefix(r.Query, "query A") {
			r.OpName = "A"
		}
	case "QI":
		r.Query, r.Kind = "{ c: name @nosuchDirective }", "invalid"
	case "QV":
		r.Query, r.Kind = "query "+c03lib.PanicOpName+" { c: name }", "rule-panic"
	case "QM":
		r.Query, r.Kind = "mutation { c: setName(v: \"x\") }", "valid"
	case "QS":
		r.Query, r.Kind = "subscription { c: tick }", "valid"
	default:
		vlib.Infra("gate sweep export: unknown query id %s", g.Req.Q)
	}
	r.Query += fmt.Sprintf("\n# %d", n)
	return r
}

func evWord(evs []c03lib.Ev, resp bool) string {
	var out []string
	for _, e := range evs {
		if (e.K == "resp") != resp {
			continue
		}
		if resp {
			out = append(out, e.D)
		} else {
			out = append(out, fmt.Sprintf("%s/%s/%d/%s", e.K, e.D, e.I, e.F))
		}
	}
	return strings.Join(out, " ")
}

func gateSweep() []*c03lib.Session {
	r := tlc("gates", "MC_Pipeline", "MC_PipelineGates.cfg", 1, false, 15*60e9)
	if !r.OK {
		vlib.Infra("model MC_PipelineGates.cfg: TLC reports an error on the specification alone:\n%s", r.Violation)
	}
	c.AddStates(r.Distinct, r.Generated)
	fmt.Fprintf(os.Stderr, "[tlc] MC_PipelineGates.cfg: %d distinct / %d generated states, %.1fs: no error (I0-I7: a panicking gate is a gate that did not pass)\n", r.Distinct, r.Generated, r.WallS)
	seen := map[string]bool{}
	var behs []*gateJ
	for _, ln := range r.Printed {
		if !strings.HasPrefix(ln, "\"{") {
			continue
		}
		var inner string
		if err := json.Unmarshal([]byte(ln), &inner); err != nil {
			vlib.Infra("gate sweep export: %v in %s", err, ln)
		}
		if seen[inner] {
			continue
		}
		seen[inner] = true
		g := &gateJ{}
		if err := json.Unmarshal([]byte(inner), g); err != nil {
			vlib.Infra("gate sweep export: %v in %s", err, inner)
		}
		behs = append(behs, g)
	}
	if len(behs) < 1000 {
		vlib.Infra("gate sweep export produced only %d behaviours", len(behs))
	}
	key := func(g *gateJ) string { b, _ := json.Marshal(g.Exts); return g.Tr + string(b) }
	sort.SliceStable(behs, func(i, j int) bool {
		if key(behs[i]) != key(behs[j]) {
			return key(behs[i]) < key(behs[j])
		}
		a, _ := json.Marshal(behs[i].Req)
		b, _ := json.Marshal(behs[j].Req)
		return string(a) < string(b)
	})
	// sessions: same configuration, up to 10 behaviours one after the other (the
	// order within a configuration is seeded), then up to two follow-ups: the
	// text of a request that did not pass its gates, sent again without a gate
	// plan - what the earlier request left in the cache decides hit or miss
	rng := rand.New(rand.NewSource(vlib.Seed() + 707))
	type item struct {
		g *gateJ
		q *c03lib.Request
	}
	var sessions []*c03lib.Session
	var items [][]item
	skipped := 0
	for i := 0; i < len(behs); {
		j := i
		for j < len(behs) && key(behs[j]) == key(behs[i]) {
			j++
		}
		grp := append([]*gateJ{}, behs[i:j]...)
		rng.Shuffle(len(grp), func(a, b int) { grp[a], grp[b] = grp[b], grp[a] })
		for k := 0; k < len(grp); k += 10 {
			chunk := grp[k:min(len(grp), k+10)]
			n := len(sessions)
			s := &c03lib.Session{Cfg: c03lib.Config{ID: fmt.Sprintf("gates%d", n), Exts: chunk[0].Exts, CK: chunk[0].CK, CN: chunk[0].CN,
				Sugg: n%2 == 1, Rules0: []string{"FOCT"}, Tr: chunk[0].Tr}}
			// bare gates: gqlgen's own APQ / ComplexityLimit extensions stand there
			s.Cfg.Impl = make([]string, len(s.Cfg.Exts))
			for x, e := range s.Cfg.Exts {
				switch e {
				case c03lib.HookSet{PM: true}:
					s.Cfg.Impl[x] = "apq"
				case c03lib.HookSet{CM: true}:
					s.Cfg.Impl[x] = "complexity"
				}
			}
			if thorough && n%3 == 2 {
				s.Cfg.CK, s.Cfg.CN = "lru", 12
			}
			var its []item
			var again []*c03lib.Request
			for m, g := range chunk {
				if g.Tr == "mixed" && g.Req.Opt == "subscription" {
					skipped++ // not a supported combination (closing boundary after the first response)
					continue
				}
				q := concretiseGate(g, m)
				its = append(its, item{g, q})
				s.Steps = append(s.Steps, []*c03lib.Request{q})
				if g.Fate != "accepted" && len(again) < 2 && g.Req.Cls == "ok" && g.Req.OpSel == "found" && g.Req.VCls == "good" {
					cp := *q
					cp.Gates = []c03lib.Gate{}
					again = append(again, &cp)
				}
			}
			for _, q := range again {
				s.Steps = append(s.Steps, []*c03lib.Request{q})
			}
			if len(s.Steps) == 0 {
				continue
			}
			sessions = append(sessions, s)
			items = append(items, its)
		}
		i = j
	}
	ran := runSessions("gates", sessions)
	var out []*c03lib.Session
	nreq, bad, reported := 0, 0, 0
	perTr := map[string]int{} // reported divergences per transport (two each are enough to decide)
	panicked := map[string]int{}
	statuses := map[string]map[string]int{}
	var samples []map[string]any
	for si, s := range ran {
		if s.NotRun != "" {
			continue
		}
		if len(s.Panics) > 0 {
			reportPanics(s)
			continue
		}
		if clientErrs(s) {
			continue
		}
		byReq := map[int][]c03lib.Ev{}
		for _, ln := range s.Lines {
			var ev c03lib.Ev
			if json.Unmarshal(ln, &ev) == nil && ev.E == "H" {
				byReq[ev.R] = append(byReq[ev.R], ev)
			}
		}
		ok := true
		for m, it := range items[si] {
			g, q := it.g, s.Steps[m][0]
			nreq++
			c.AddEvals(1)
			plan := q.GatePlan()
			c.Class(fmt.Sprintf("gate-sweep/%s/%s/%s/%s", g.Fate, plan, g.Req.Cls, g.Tr))
			for _, gt := range q.Gates {
				if im := s.Cfg.Impl[gt.I-1]; im != "" {
					c.Class(fmt.Sprintf("real-gate/%s/%s/%s", im, gt.O, g.Tr))
				}
			}
			if q.Cls != g.Req.Cls || q.OpSel != g.Req.OpSel || q.VarCls != g.Req.VCls || q.Opt != g.Req.Opt ||
				(g.Fate == "accepted" && (jsonStr(q.Roots) != jsonStr(g.Req.Roots) || jsonStr(q.Rounds) != jsonStr(g.Req.Rounds))) {
				vlib.Infra("gate sweep: the request %q (opname %q) meant as %s is described %s/%s/%s/%s roots %s rounds %v", q.Query, q.OpName, jsonStr(g.Req),
					q.Cls, q.OpSel, q.VarCls, q.Opt, jsonStr(q.Roots), q.Rounds)
			}
			var hooks, cacheOps []c03lib.Ev
			for _, ev := range byReq[q.R] {
				if ev.K == "cget" || ev.K == "cadd" {
					cacheOps = append(cacheOps, ev)
				} else {
					ev.F = map[bool]string{true: "", false: ev.F}[ev.K == "resp"]
					hooks = append(hooks, ev)
				}
			}
			var gotC, wantC []string
			for _, ev := range cacheOps {
				gotC = append(gotC, ev.K+":"+ev.D)
			}
			for _, o := range g.GLog {
				wantC = append(wantC, o.Op+":"+o.D)
			}
			problem := ""
			switch {
			case evWord(hooks, false) != evWord(g.Log, false):
				problem = fmt.Sprintf("WHAT RAN: [%s]; the model prescribes [%s]", evWord(hooks, false), evWord(g.Log, false))
			case strings.Join(gotC, " ") != strings.Join(wantC, " "):
				problem = fmt.Sprintf("CACHE: the request performed [%s] on the query cache; the model prescribes [%s]", strings.Join(gotC, " "), strings.Join(wantC, " "))
			case evWord(hooks, true) != evWord(g.Log, true):
				problem = fmt.Sprintf("ANSWER: the client got [%s] (status %v); the model prescribes [%s]", evWord(hooks, true), q.Status, evWord(g.Log, true))
			}
			if g.Fate == "panicked" {
				panicked[g.Tr]++
				if statuses[g.Tr] == nil {
					statuses[g.Tr] = map[string]int{}
				}
				statuses[g.Tr][strings.Join(q.Status, ",")]++
				if problem == "" && len(samples) < 3 && (g.Tr == "ws" || g.Tr == "post" || g.Tr == "sse") && len(samples) == map[string]int{"post": 0, "sse": 1, "ws": 2}[g.Tr] {
					samples = append(samples, map[string]any{"gate_sweep": "request whose gate panics", "transport": g.Tr, "exts": g.Exts, "request": q.Query, "gates": q.Gates,
						"events": evWord(hooks, false), "cache": strings.Join(gotC, " "), "answers": q.Resps, "status": q.Status})
				}
			}
			if problem != "" {
				ok = false
				bad++
				if perTr[g.Tr] < 2 {
					perTr[g.Tr]++
					reported++
					c.Violate(fmt.Sprintf("gate-replay:%s:%s:%s", g.Fate, plan, g.Tr),
						fmt.Sprintf("a %s request (document class %s) with gate plan %s over transport %s - model verdict: %s.\n%s\nconfiguration: %s\nrequest: %q operationName %q variables %v",
							q.Kind, g.Req.Cls, jsonStr(q.Gates), g.Tr, g.Fate, problem, jsonStr(s.Cfg), q.Query, q.OpName, q.Vars), s)
				}
			}
		}
		if ok || reported <= 4 {
			// (a few of the diverging sessions too: the trace specification must say the same)
			out = append(out, s)
		}
	}
	for _, sm := range samples {
		c.Sample(sm)
	}
	for _, tr := range c03lib.Transports {
		if panicked[tr] == 0 {
			deferredInfra = append(deferredInfra, "gate sweep is vacuous: no request with a panicking gate was replayed over transport "+tr)
		}
	}
	c.Set("gate_sweep", map[string]any{"behaviours": len(behs), "replayed_requests": nreq, "sessions": len(out), "diverged": bad, "skipped_subscription_over_multipart_mixed": skipped,
		"panicking_gate_requests_by_transport": panicked, "status_of_recovered_panic_by_transport": statuses})
	fmt.Fprintf(os.Stderr, "[gates] %d TLC-generated (configuration, request, gate plan) behaviours; %d requests in %d sessions replayed over the real transports, %d diverged; requests with a panicking gate per transport %v; status of the recovered panic %v\n",
		len(behs), nreq, len(ran), bad, panicked, statuses)
	return out
}
