// C01: generated executors implement GraphQL execution semantics.
package main

import (
	"fmt"
	"math/rand"
	"os"

	"verifharness/vlib"
)

func main() {
	c := vlib.NewCheck("C01", "model_checking")
	thorough := vlib.Tier() == "thorough"
	vs := vlib.ExecVariants(thorough)
	bins, err := vlib.BuildProbes("exec", vs)
	if err != nil {
		vlib.Infra("build probes: %v", err)
	}
	n := 150
	if thorough {
		n = 1500
	}
	vlib.ExecConformance(c, "C01", bins, vs, rand.New(rand.NewSource(vlib.Seed())), n, vlib.ExecMode{Faults: true, Rogue: true, Sentinel: true, Devs: []vlib.DevStep{{Config: "GqlExecTraceDev.cfg", Key: vlib.LeafElemKey}}, DirFaults: true, Corpus: append(append(vlib.MergeCorpus("C01"), vlib.StressCorpus("C01", 24)...), vlib.SkipIncludeCorpus("C01")...),
		// every 4th scenario also over the real HTTP transports: the payloads on the wire must be the executor's
		Transports: []string{"tp:post", "tp:sse", "tp:mixed"}, TransportEvery: 4})
	// subscriptions: every event of the stream is completed like a query result of the field
	vlib.ExecConformance(c, "C01s", bins, vs, rand.New(rand.NewSource(vlib.Seed()+1)), n/4,
		vlib.ExecMode{Faults: true, Rogue: true, Sentinel: true, Devs: []vlib.DevStep{{Config: "GqlSubTraceDev.cfg", Key: vlib.LeafElemKey}}, DirFaults: true, Subs: true, PlansPer: 3,
			Module: "GqlSubTrace", Config: "GqlSubTrace.cfg", Lines: vlib.SubTraceLines,
			// subscriptions over server-sent events: one `next` event per response
			Transports: []string{"tp:sse"}, TransportEvery: 3})
	fmt.Fprintln(os.Stderr, "done")
	c.Finish()
}
