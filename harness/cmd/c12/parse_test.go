package main

import (
	"fmt"
	"testing"
)

func TestDechunkPrefixes(t *testing.T) {
	full := "3\r\n:\n\n\r\n8\r\n: ping\n\n\r\n1a\r\nabcdefghijklmnopqrstuvwxyz\r\n0\r\n\r\n"
	for i := 0; i <= len(full); i++ {
		_, _, st, d := dechunk([]byte(full[:i]))
		want := "short"
		if i == len(full) {
			want = "clean"
		}
		if st != want {
			t.Errorf("prefix %d (%q): %s %s", i, full[:i], st, d)
		}
	}
	for _, bad := range []string{"3\r\n:\n\nX\r\n", "zz\r\n", "3\r\n:\n\n\r\n0\r\n\r\nextra", "3\n:\n\n\r\n", "\r\n"} {
		if _, _, st, _ := dechunk([]byte(bad)); st != "broken" {
			t.Errorf("%q: %s", bad, st)
		}
	}
	fmt.Println("ok")
}

func TestTokSSE(t *testing.T) {
	ev := func(id, size int) string { return "event: next\ndata: {\"data\":" + dataJSON(id, size) + "}\n\n" }
	s := ":\n\n: ping\n\n: ping\n\n" + ev(1, 10) + ": ping\n\n" + ev(2, 30) + "event: complete\n\n"
	toks := tokSSE([]byte(s), []int{10, 30}, false, false)
	got := ""
	for _, k := range toks {
		got += fmt.Sprintf("%s%d ", k.K, k.ID)
	}
	if got != "pre0 ping0 next1 ping0 next2 complete0 " {
		t.Fatal(got)
	}
	for _, bad := range []string{":\n\nevent: next\ndata: {\"data\":{\"n\":1,\"pad\":\"1a1b: ping\n\n1c1d1e\"}}\n\n", ":\n\nevent: next\r\ndata: {}\n\n", ":\n\n:ping\n\n", ":\n\nevent: complete\n", ":\n\n" + ev(1, 11)} {
		ts := tokSSE([]byte(bad), []int{10}, false, false)
		found := false
		for _, k := range ts {
			found = found || k.K == "bad"
		}
		if !found {
			t.Errorf("%q not flagged: %v", bad, ts)
		}
	}
}

func TestTokMM(t *testing.T) {
	b := "--verif\r\nContent-Type: application/json\r\n\r\n{\"data\":" + dataJSON(0, 8) + ",\"hasNext\":true}\r\n--verif\r\nContent-Type: application/json\r\n\r\n" +
		"{\"incremental\":[{\"data\":" + dataJSON(1, 8) + ",\"label\":\"L1\",\"path\":[\"q\",1],\"hasNext\":true},{\"data\":" + dataJSON(2, 8) + ",\"label\":\"L2\",\"path\":[\"q\",2],\"hasNext\":false}],\"hasNext\":false}\r\n--verif--\r\n"
	toks := tokMM([]byte(b), "verif", 2, []int{8, 8, 8}, false)
	got := ""
	for _, k := range toks {
		got += fmt.Sprintf("%s%v%s ", k.K, k.IDs, k.HN)
	}
	if got != "bnd[]- hdr[]- init[0]t bnd[]- hdr[]- incr[1 2]f close[]- " {
		t.Fatal(got)
	}
	parts, closed, problem := mimeOpinion(`multipart/mixed;boundary="verif";deferSpec=20220824`, []byte(b))
	if parts != 2 || !closed || problem != "" {
		t.Fatal(parts, closed, problem)
	}
}

// The bare error object handler.Server's recover writes after a payload that
// could not be encoded: token errblob only as the unterminated tail of the
// body; the garbled event of a buffer that kept the residue of a failed
// serialization is `bad`; the generated-code oracle requires every payload's
// data byte for byte.
func TestErrBlobAndGenOracle(t *testing.T) {
	blob := `{"errors":[{"message":"internal system error"}],"data":null}`
	ev := func(id, size int) string { return "event: next\ndata: {\"data\":" + dataJSON(id, size) + "}\n\n" }
	ks := func(ts []Tok) string {
		s := ""
		for _, k := range ts {
			s += k.K + " "
		}
		return s
	}
	if got := ks(tokSSE([]byte(":\n\n"+ev(1, 10)+blob), []int{10, 10}, false, false)); got != "pre next errblob " {
		t.Fatal(got)
	}
	if got := ks(tokSSE([]byte(":\n\n"+ev(1, 10)+blob+"\n\n"), []int{10, 10}, false, false)); got != "pre next bad " {
		t.Fatal(got) // a terminated block holding the object is not what the recover path writes
	}
	if got := ks(tokSSE([]byte(":\n\nevent: next\ndata: "+ev(1, 10)+ev(2, 10)+"event: complete\n\n"), []int{10, 10}, false, false)); got != "pre bad next complete " {
		t.Fatal(got)
	}
	mm := "--verif\r\nContent-Type: application/json\r\n\r\n{\"data\":" + dataJSON(0, 8) + ",\"hasNext\":true}\r\n--verif\r\nContent-Type: application/json\r\n\r\n" + blob
	if got := ks(tokMM([]byte(mm), "verif", 2, []int{8, 8, 8}, false)); got != "bnd hdr init bnd hdr errblob " {
		t.Fatal(got)
	}
	if got := ks(tokMM([]byte(mm+"\r\n--verif--\r\n"), "verif", 2, []int{8, 8, 8}, false)); got != "bnd hdr init bnd hdr bad close " {
		t.Fatal(got)
	}
	g := &genCase{Expect: map[string]string{"init": `{"a":{"id":"a.id","g1":null,"g2":null}}`, "L1@a": `{"g1":"xx"}`, "L2@a": `{"g2":"yy"}`},
		ProducedKeys: []string{"init", "L2@a", "L1@a"}}
	part := func(items ...string) string {
		s := `{"incremental":[`
		for i, it := range items {
			if i > 0 {
				s += ","
			}
			s += it
		}
		return s + `],"hasNext":false}`
	}
	l2 := `{"data":{"g2":"yy"},"label":"L2","path":["a"],"hasNext":true}`
	l1 := `{"data":{"g1":"xx"},"label":"L1","path":["a"],"hasNext":false}`
	if tk, ok := g.matchMM(part(l2, l1)); !ok || fmt.Sprint(tk.IDs) != "[1 2]" || tk.HN != "f" {
		t.Fatal(tk, ok)
	}
	for _, bad := range []string{
		part(l2, `{"data":{"g2":"yy"},"label":"L1","path":["a"],"hasNext":false}`), // L1 delivered with L2's bytes
		part(l2, `{"data":{"g1":"xx"},"label":"L1","path":["a"],"hasNext":true}`),  // hasNext discipline
		part(l2, `{"data":{"g1":"xx"},"label":"L3","path":["a"],"hasNext":false}`), // a payload nobody produced
	} {
		if _, ok := g.matchMM(bad); ok {
			t.Errorf("accepted: %s", bad)
		}
	}
	if id, ok := g.matchSSE(`{"data":{"a":{"id":"a.id","g1":null,"g2":null}},"hasNext":true}`); !ok || id != 1 {
		t.Fatal(id, ok)
	}
}
