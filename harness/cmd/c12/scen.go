package main

import (
	"fmt"
	"math"
	"math/rand"
	"os"
	"strconv"
	"strings"
)

// sweep returns k intervals spread geometrically over [lo, hi] nanoseconds, jittered.
func sweep(r *rand.Rand, lo, hi float64, k int) []int64 {
	out := make([]int64, k)
	for i := range out {
		f := float64(i) / math.Max(1, float64(k-1))
		v := lo * math.Pow(hi/lo, f)
		v *= 0.8 + 0.4*r.Float64()
		if v < lo {
			v = lo
		}
		if v > hi {
			v = hi
		}
		out[i] = int64(v)
	}
	return out
}

var sizeChoices = []int{8, 8, 40, 200, 1900, 2100, 3000, 9000, 70000}

func pickSizes(r *rand.Rand, k int, big bool) []int {
	out := make([]int, k)
	for i := range out {
		out[i] = sizeChoices[r.Intn(len(sizeChoices))]
		if !big && out[i] > 3000 {
			out[i] = 200
		}
	}
	return out
}

// delays around a reference interval: zero (burst), a fraction, about one
// interval (the tick and the payload meet), a few intervals.
func pickDelays(r *rand.Rand, k int, ref int64) []int64 {
	if ref > 3_000_000 {
		ref = 3_000_000
	}
	if ref < 2_000 {
		ref = 2_000
	}
	out := make([]int64, k)
	mode := r.Intn(4)
	for i := range out {
		switch mode {
		case 0:
			out[i] = 0
		case 1:
			out[i] = int64(float64(ref) * (0.85 + 0.3*r.Float64()))
		case 2:
			out[i] = int64(float64(ref) * 3 * r.Float64())
		default:
			if r.Intn(2) == 0 {
				out[i] = 0
			} else {
				out[i] = int64(float64(ref) * (0.5 + r.Float64()))
			}
		}
	}
	return out
}

// scenarios enumerates the streams of one run. Everything random derives from seed.
func scenarios(seed int64, thorough bool) []*Scenario {
	r := rand.New(rand.NewSource(seed*7919 + 12))
	var out []*Scenario
	id := 0
	add := func(s *Scenario) {
		id++
		s.ID = fmt.Sprintf("s%d-%d", seed, id)
		if s.Sizes == nil {
			s.Sizes = []int{}
		}
		if s.DelaysNs == nil {
			s.DelaysNs = []int64{}
		}
		out = append(out, s)
	}
	// C12_STRESS=<n>: only n keep-alive streams of the shape that once left a keepAlive goroutine
	// behind (microsecond pings, a 70 KB event) - a debugging aid, not used by the registered commands
	if n, _ := strconv.Atoi(os.Getenv("C12_STRESS")); n > 0 {
		for i := 0; i < n; i++ {
			add(&Scenario{Class: "sse-keepalive", Kind: "sse", IntervalNs: 1_000 + int64(r.Intn(3_000)), N: 2,
				Sizes: []int{1900, 70000}, DelaysNs: []int64{0, 0}, CutAt: -1})
		}
		return out
	}
	rep := 1
	if thorough {
		rep = 8
	}

	// 1. SSE without keep-alive: the strict baseline, every payload count
	for k := 0; k < rep; k++ {
		for n := 0; n <= 4; n++ {
			add(&Scenario{Class: "sse-plain", Kind: "sse", N: n, Sizes: pickSizes(r, n, false), DelaysNs: make([]int64, n), CutAt: -1})
			add(&Scenario{Class: "sse-plain", Kind: "sse", N: n, Sizes: pickSizes(r, n, true), DelaysNs: pickDelays(r, n, 200_000), EndDelayNs: int64(r.Intn(300_000)), CutAt: -1})
		}
		add(&Scenario{Class: "sse-error-path", Kind: "sse", N: 1, ErrMode: true, CutAt: -1})
		add(&Scenario{Class: "sse-error-path", Kind: "sse", N: 1, ErrMode: true, IntervalNs: 1_000 + int64(r.Intn(100_000)), CutAt: -1})
	}
	// lock-step: a payload must arrive before the next one is produced
	for n := 1; n <= 3; n += 2 {
		d := make([]int64, n)
		for i := range d {
			d[i] = -1
		}
		add(&Scenario{Class: "sse-lockstep", Kind: "sse", N: n, Sizes: pickSizes(r, n, false), DelaysNs: d, EndDelayNs: -1, Gated: true, CutAt: -1})
		d = make([]int64, n+1)
		for i := range d {
			d[i] = -1
		}
		add(&Scenario{Class: "mm-lockstep", Kind: "mm", IntervalNs: 1_000_000, N: n, Sizes: pickSizes(r, n+1, false), DelaysNs: d, EndDelayNs: -1, Gated: true, CutAt: -1})
	}

	// Mechanism A: the gate writer forces the schedules of TLC's counterexamples
	for _, h := range []string{"next:1", "next:2", "next:3", "complete", "return"} {
		iv := int64(1_000_000 + r.Intn(4_000_000))
		add(&Scenario{Class: "gate-" + strings.SplitN(h, ":", 2)[0], Kind: "sse", IntervalNs: iv, N: 3, Sizes: pickSizes(r, 3, false),
			DelaysNs: []int64{iv / 4, iv / 4, iv / 4}, EndDelayNs: iv / 4, Hold: h, CutAt: -1})
	}
	add(&Scenario{Class: "gate-complete", Kind: "sse", IntervalNs: 2_000_000, N: 0, Hold: "complete", CutAt: -1})
	add(&Scenario{Class: "gate-return", Kind: "sse", IntervalNs: 2_000_000, N: 0, Hold: "return", CutAt: -1})

	// Mechanism A, slow-flush family (for designs that lock): the Flush after one write site stays
	// open for 4 ms while pings are due every few tens of microseconds, so a keep-alive tick is
	// certainly parked on the connection mutex when that critical section ends - for every write
	// site, `complete` included; for multipart the other flusher is parked behind the held Flush
	sf := 1
	if thorough {
		sf = 12
	}
	for k := 0; k < sf; k++ {
		for _, h := range []string{"flush:pre", "flush:next:1", "flush:next:2", "flush:complete"} {
			iv := int64(20_000 + r.Intn(40_000))
			add(&Scenario{Class: "gate-slowflush", Kind: "sse", IntervalNs: iv, N: 2, Sizes: pickSizes(r, 2, false),
				DelaysNs: []int64{int64(r.Intn(300_000)), int64(r.Intn(300_000))}, EndDelayNs: int64(r.Intn(200_000)), Hold: h, CutAt: -1})
		}
		// the decisive pairs, on ONE processor (see c12srv/gate.go): the slow flush of one section parks
		// keepAlive on mu for > 1 ms, the slow flush of the NEXT section lets it wake while mu is held
		// again, so sync.Mutex hands mu to keepAlive the moment that next section ends
		for _, pr := range []struct {
			n    int
			hold string
			err  bool
		}{{1, "flush:next:1,flush:complete", false}, {3, "flush:next:3,flush:complete", false}, {2, "flush:next:1,flush:next:2", false},
			{3, "flush:next:2,flush:next:3", false}, {1, "flush:next:1,flush:complete", true}} {
			add(&Scenario{Class: "gate-slowflush-1p", Kind: "sse", IntervalNs: int64(20_000 + r.Intn(40_000)), N: pr.n, Sizes: pickSizes(r, pr.n, false),
				DelaysNs: make([]int64, pr.n), Hold: pr.hold, ErrMode: pr.err, OneP: true, CutAt: -1})
		}
		add(&Scenario{Class: "gate-slowflush", Kind: "sse", IntervalNs: int64(20_000 + r.Intn(40_000)), N: 0, Hold: "flush:complete", CutAt: -1})
		add(&Scenario{Class: "gate-slowflush", Kind: "sse", IntervalNs: int64(20_000 + r.Intn(40_000)), N: 1, ErrMode: true, Hold: "flush:complete", CutAt: -1})
		for _, h := range []string{"flush:close", "flush:n:1", "flush:n:2"} {
			add(&Scenario{Class: "gate-slowflush-mm", Kind: "mm", IntervalNs: 1_000_000, N: 2, Sizes: pickSizes(r, 3, false),
				DelaysNs: []int64{0, int64(r.Intn(1_500_000)), int64(r.Intn(1_500_000))}, EndDelayNs: int64(r.Intn(1_500_000)), Hold: h, CutAt: -1})
		}
		add(&Scenario{Class: "gate-slowflush-mm", Kind: "mm", IntervalNs: 1_000_000, N: 0, Sizes: []int{40}, DelaysNs: []int64{0}, Hold: "flush:close", CutAt: -1})
	}

	// 2. SSE with keep-alive: interval sweep 1 microsecond .. 10 ms
	k := 45
	if thorough {
		k = 1500
	}
	for _, iv := range sweep(r, 1_000, 10_000_000, k) {
		n := r.Intn(5)
		add(&Scenario{Class: "sse-keepalive", Kind: "sse", IntervalNs: iv, N: n, Sizes: pickSizes(r, n, r.Intn(3) == 0),
			DelaysNs: pickDelays(r, n, iv), EndDelayNs: pickDelays(r, 1, iv)[0], CutAt: -1})
	}

	// 3. multipart/mixed: flush interval sweep (the transport raises anything below 1 ms to 1 ms)
	k = 60
	if thorough {
		k = 2000
	}
	for _, iv := range sweep(r, 1_000, 10_000_000, k) {
		n := r.Intn(5)
		eff := iv
		if eff < 1_000_000 {
			eff = 1_000_000
		}
		add(&Scenario{Class: "mm", Kind: "mm", IntervalNs: iv, N: n, Sizes: pickSizes(r, n+1, r.Intn(4) == 0),
			DelaysNs: pickDelays(r, n+1, eff), EndDelayNs: pickDelays(r, 1, eff)[0], CutAt: -1})
	}

	// 4. client disconnects after k bytes
	k = 10
	if thorough {
		k = 150
	}
	for i := 0; i < k; i++ {
		n := 1 + r.Intn(4)
		sz := pickSizes(r, n+1, false)
		total := 200
		for _, x := range sz {
			total += x + 90
		}
		iv := []int64{0, 5_000, 300_000, 2_000_000}[r.Intn(4)]
		sse := &Scenario{Class: "sse-disconnect", Kind: "sse", IntervalNs: iv, N: n, Sizes: sz[:n], DelaysNs: pickDelays(r, n, 400_000), CutAt: r.Intn(total)}
		mm := &Scenario{Class: "mm-disconnect", Kind: "mm", IntervalNs: 1_000_000, N: n, Sizes: sz, DelaysNs: pickDelays(r, n+1, 1_000_000), CutAt: r.Intn(total)}
		if i%3 == 0 {
			// the source is blocked for good when the client leaves: only the context can end the stream
			j := r.Intn(n)
			sse.DelaysNs[j] = -1
			sse.CutAt = 100 + r.Intn(60) // inside what the first flush (head + preamble) always sends
			mm.DelaysNs[1+r.Intn(n)] = -1
			mm.CutAt = 150 + r.Intn(120)
		}
		add(sse)
		add(mm)
	}

	// 5. SERVER-SIDE cancellation of the request context with the client still reading (round 4)
	for _, d := range deadlineScenarios(r, thorough) {
		add(d)
	}
	return out
}

// deadlineScenarios: the request context is cancelled by a middleware around the real handler.Server
// (context.WithCancel, or context.WithTimeout) at EVERY point k of the payload sequence - before the first
// payload, between payloads, after the last one - while the client stays connected and reads to EOF; the
// operation produces its remaining payloads afterwards (a few milliseconds later each, so that whatever the
// transport's helper goroutines do on ctx.Done() has happened). SSE with keep-alive intervals from
// microseconds to beyond the stream's duration and without keep-alive; multipart/mixed with flush intervals
// below and above the pauses (parts batched / alone).
func deadlineScenarios(r *rand.Rand, thorough bool) []*Scenario {
	var out []*Scenario
	reps := 1
	if thorough {
		reps = 10
	}
	mode := func(i int) (string, int64) {
		if i%2 == 0 {
			return "cancel", 0
		}
		return "timeout", int64(6_000_000 + r.Intn(6_000_000))
	}
	// pause after the cancellation before each remaining payload / the end
	after := func() int64 { return int64(3_000_000 + r.Intn(5_000_000)) }
	ix := 0
	for rep := 0; rep < reps; rep++ {
		ivs := []int64{int64(2_000 + r.Intn(3_000)), int64(20_000 + r.Intn(60_000)), int64(300_000 + r.Intn(500_000)), int64(2_000_000 + r.Intn(2_000_000)), 50_000_000, 0}
		for j, iv := range ivs {
			n := 2 + (j+rep)%2
			for k := 0; k <= n; k++ {
				d := make([]int64, n)
				for i := range d {
					if i >= k {
						d[i] = after()
					} else {
						d[i] = int64(r.Intn(400_000))
					}
				}
				cls := "sse-deadline"
				if iv == 0 {
					cls = "sse-deadline-noka"
				}
				m, ns := mode(ix)
				ix++
				out = append(out, &Scenario{Class: cls, Kind: "sse", IntervalNs: iv, N: n, Sizes: pickSizes(r, n, false), DelaysNs: d, EndDelayNs: after(),
					CancelMode: m, CancelAt: k, CancelNs: ns, CutAt: -1})
			}
		}
		for j, iv := range []int64{1_000_000, 12_000_000} {
			n := 2 - (j+rep)%2 // incremental payloads; total = n + 1
			for k := 0; k <= n+1; k++ {
				d := make([]int64, n+1)
				for i := range d {
					if i >= k {
						d[i] = after()
					} else if r.Intn(2) == 0 {
						d[i] = int64(r.Intn(2_500_000))
					}
				}
				m, ns := mode(ix)
				ix++
				out = append(out, &Scenario{Class: "mm-deadline", Kind: "mm", IntervalNs: iv, N: n, Sizes: pickSizes(r, n+1, false), DelaysNs: d, EndDelayNs: after(),
					CancelMode: m, CancelAt: k, CancelNs: ns, CutAt: -1})
			}
		}
	}
	return out
}
