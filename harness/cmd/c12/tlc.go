package main

import (
	"bytes"
	"encoding/json"
	"fmt"
	"regexp"
	"strings"
	"sync"
	"time"

	"verifharness/vlib"
)

// traceLines renders one observed stream for StreamTrace.tla.
func traceLines(s *Scenario) []map[string]any {
	b2s := func(b bool) string {
		if b {
			return "t"
		}
		return "f"
	}
	produced := len(s.Produced)
	if s.ErrMode {
		produced = 1 // the error response is the one payload of this stream
	}
	if s.Crashed {
		// the server died before it could be asked: assume the source did its part
		produced = s.N
		if s.Kind == "mm" {
			produced = s.N + 1
		}
	}
	pos := s.Pos
	if pos < 1 {
		pos = 1 // not part of a history: judged as the first request of a fresh handler
	}
	lines := []map[string]any{{"e": "Reset", "kind": s.Kind, "n": s.N, "ka": b2s(s.ka()), "disc": b2s(s.CutAt >= 0), "fail": s.FailAt, "pos": pos}}
	dl := -1
	if s.CancelMode != "" && s.CancelSeen >= 0 {
		dl = deadlinePos(s)
	}
	for i, t := range s.Toks {
		ids := t.IDs
		if ids == nil {
			ids = []int{}
		}
		if i == dl {
			lines = append(lines, map[string]any{"e": "Deadline", "k": "-", "at": s.CancelSeen})
		}
		lines = append(lines, map[string]any{"e": "Tok", "k": t.K, "id": t.ID, "ids": ids, "hn": t.HN, "rem": len(s.Toks) - i})
	}
	if dl >= len(s.Toks) {
		lines = append(lines, map[string]any{"e": "Deadline", "k": "-", "at": s.CancelSeen})
	}
	lines = append(lines, map[string]any{"e": "End", "eof": s.EOF, "produced": produced})
	return lines
}

// deadlinePos says before which token of the stream the Deadline line of its trace stands: the server-side
// cancellation happened inside the source's call number c + 1 (c = CancelSeen payloads produced before it).
// SSE writes and flushes an event before it asks the source again, so the line follows `next c` (`pre` when
// c = 0) directly - pings on either side of it are the model's business. multipart: a payload is on the wire
// only with the flush of its part, so the line stands before the part that carries the first payload id >= c
// (after the last payload: before the last part; ids count from 0 = the initial payload); the parts before
// it carry only payloads produced before the cancellation, and the model may flush them before or after it.
// len(Toks) = before the End line (the token looked for is not there: the trace is rejected on its merits).
func deadlinePos(s *Scenario) int {
	c := s.CancelSeen
	if s.Kind == "sse" {
		for i, t := range s.Toks {
			if (c == 0 && t.K == "pre") || (c > 0 && t.K == "next" && t.ID == c) {
				return i + 1
			}
		}
		return len(s.Toks)
	}
	target := c
	if target > s.N {
		target = s.N
	}
	start := 0
	for i, t := range s.Toks {
		if t.K == "hdr" && i > 1 {
			start = i
		}
		if t.K == "init" || t.K == "incr" {
			for _, id := range t.IDs {
				if id >= target {
					return start
				}
			}
		}
	}
	return len(s.Toks)
}

var reAccepted = regexp.MustCompile(`ACCEPTED:(\[[0-9,]*\])`)

type tlcStats struct {
	mu                  sync.Mutex
	distinct, generated int64
	runs                int
	distinctTraces      int
}

// accepted runs StreamTrace over all given streams (in parallel chunks, each
// one TLC process with one worker) and returns the set of streams whose trace
// the specification with the given constants admits.
func accepted(scs []*Scenario, lock, stop, atomic bool, tag string, st *tlcStats) map[*Scenario]bool {
	return acceptedX(scs, lock, stop, atomic, tag, st, nil)
}

// kaCloseOnDone selects the deviating design of round 4 in a trace configuration: keepAlive's ctx.Done
// branch marks the connection closed.
func kaCloseOnDone(cfg string) string {
	return strings.Replace(cfg, "\n  KACloseOnDone = FALSE", "\n  KACloseOnDone = TRUE", 1)
}

// acceptedX: accepted with a further edit of the configuration (a deviating design switch).
func acceptedX(scs []*Scenario, lock, stop, atomic bool, tag string, st *tlcStats, more func(string) string) map[*Scenario]bool {
	out := map[*Scenario]bool{}
	if len(scs) == 0 {
		return out
	}
	// identical traces (same scenario line, tokens and end line) are decided once
	type group struct {
		lines   []map[string]any
		members []*Scenario
	}
	var groups []*group
	index := map[string]*group{}
	for _, s := range scs {
		ls := traceLines(s)
		b, _ := json.Marshal(ls)
		g := index[string(b)]
		if g == nil {
			g = &group{lines: ls}
			index[string(b)] = g
			groups = append(groups, g)
		}
		g.members = append(g.members, s)
	}
	st.mu.Lock()
	st.distinctTraces += len(groups)
	st.mu.Unlock()
	const chunk = 250
	nchunks := (len(groups) + chunk - 1) / chunk
	var wg sync.WaitGroup
	var mu sync.Mutex
	sem := make(chan struct{}, 4)
	for ci := 0; ci < nchunks; ci++ {
		lo, hi := ci*chunk, (ci+1)*chunk
		if hi > len(groups) {
			hi = len(groups)
		}
		wg.Add(1)
		go func(ci int, part []*group) {
			defer wg.Done()
			sem <- struct{}{}
			defer func() { <-sem }()
			var buf bytes.Buffer
			line := 1
			for i, g := range part {
				ls := g.lines
				ls[0]["ix"] = i + 1
				ls[0]["nx"] = line + len(ls)
				line += len(ls)
				for _, l := range ls {
					b, _ := json.Marshal(l)
					buf.Write(b)
					buf.WriteByte('\n')
				}
			}
			res, err := vlib.RunTLC(vlib.TLCOpts{Module: "StreamTrace", Config: traceCfg(lock, stop, atomic), Workers: 1, DFS: true,
				Data: map[string][]byte{"trace.ndjson": buf.Bytes()},
				CfgEdit: func(cfg string) string {
					cfg = constEdit(lock, stop, atomic, true)(cfg)
					if more != nil {
						cfg = more(cfg)
					}
					return cfg
				},
				Scratch: vlib.Work("C12", fmt.Sprintf("tv-%s-%d", tag, ci)), Timeout: 25 * time.Minute})
			if err != nil {
				vlib.Infra("tlc: %v", err)
			}
			m := reAccepted.FindStringSubmatch(res.Output)
			if !res.OK || m == nil {
				vlib.Infra("StreamTrace run failed (%s chunk %d): %s\n%s", tag, ci, res.Violation, tailStr(res.Output, 2500))
			}
			var ids []int
			_ = json.Unmarshal([]byte(m[1]), &ids)
			st.mu.Lock()
			st.distinct += res.Distinct
			st.generated += res.Generated
			st.runs++
			st.mu.Unlock()
			mu.Lock()
			for _, ix := range ids {
				if ix >= 1 && ix <= len(part) {
					for _, s := range part[ix-1].members {
						out[s] = true
					}
				}
			}
			mu.Unlock()
		}(ci, groups[lo:hi])
	}
	wg.Wait()
	return out
}

var (
	reLock = regexp.MustCompile(`(?m)^  LockWrites = \w+`)
	reStop = regexp.MustCompile(`(?m)^  StopKA = \w+`)
	reSkip = regexp.MustCompile(`(?m)^  AllowSkip = \w+`)
	reAtom = regexp.MustCompile(`(?m)^  CloseAtomic = \w+`)
)

// traceCfg names the configuration file: the strict one is the property,
// StreamTraceDev.cfg the deviation-tolerant one (its two constants are also
// set one at a time to tell the two deviations apart).
func traceCfg(lock, stop, atomic bool) string {
	if lock && stop && atomic {
		return "StreamTrace.cfg"
	}
	return "StreamTraceDev.cfg"
}

func constEdit(lock, stop, atomic, skip bool) func(string) string {
	tf := func(b bool) string {
		if b {
			return "TRUE"
		}
		return "FALSE"
	}
	return func(cfg string) string {
		cfg = reLock.ReplaceAllString(cfg, "  LockWrites = "+tf(lock))
		cfg = reStop.ReplaceAllString(cfg, "  StopKA = "+tf(stop))
		cfg = reSkip.ReplaceAllString(cfg, "  AllowSkip = "+tf(skip))
		cfg = reAtom.ReplaceAllString(cfg, "  CloseAtomic = "+tf(atomic))
		return cfg
	}
}

// rejectedAt validates ONE stream strictly without the skip action and
// returns the first line of its trace the specification cannot explain.
func rejectedAt(s *Scenario, tag string, st *tlcStats) (int, string) {
	ls := traceLines(s)
	ls[0]["ix"], ls[0]["nx"] = 1, len(ls)+1
	var buf bytes.Buffer
	var txt []string
	for _, l := range ls {
		b, _ := json.Marshal(l)
		buf.Write(b)
		buf.WriteByte('\n')
		txt = append(txt, string(b))
	}
	res, err := vlib.RunTLC(vlib.TLCOpts{Module: "StreamTrace", Config: "StreamTrace.cfg", Workers: 1, DFS: true,
		Data: map[string][]byte{"trace.ndjson": buf.Bytes()}, CfgEdit: constEdit(true, true, true, false),
		Scratch: vlib.Work("C12", "diag-"+tag), Timeout: 10 * time.Minute})
	if err != nil {
		vlib.Infra("tlc: %v", err)
	}
	st.mu.Lock()
	st.distinct += res.Distinct
	st.generated += res.Generated
	st.runs++
	st.mu.Unlock()
	if res.RejectedAt < 1 || res.RejectedAt > len(txt) {
		return 0, ""
	}
	return res.RejectedAt, txt[res.RejectedAt-1]
}

func tailStr(s string, n int) string {
	if len(s) > n {
		return s[len(s)-n:]
	}
	return s
}

var reState = regexp.MustCompile(`(?m)^State \d+: <(\w+) line`)

// counterexample extracts the action sequence of the error trace TLC printed.
func counterexample(out string) []string {
	var acts []string
	for _, m := range reState.FindAllStringSubmatch(out, -1) {
		acts = append(acts, m[1])
	}
	return acts
}

// acceptedShared decides whole histories (the requests one server process
// served, in order) against the DEVIATING design SharedBuf = TRUE of
// Stream.tla - everything else strict: a request that follows a failed
// serialization on the same handler may carry an event assembled on its
// residue. Only used to NAME the deviation of streams the strict
// configuration rejected. Histories are written in order, nothing is
// deduplicated (what a request may look like depends on its predecessors).
func acceptedShared(hists [][]*Scenario, st *tlcStats) map[*Scenario]bool {
	out := map[*Scenario]bool{}
	var flat []*Scenario
	var buf bytes.Buffer
	line := 1
	for _, h := range hists {
		for _, s := range h {
			if s.EOF == "" {
				continue
			}
			ls := traceLines(s)
			flat = append(flat, s)
			ls[0]["ix"] = len(flat)
			ls[0]["nx"] = line + len(ls)
			line += len(ls)
			for _, l := range ls {
				b, _ := json.Marshal(l)
				buf.Write(b)
				buf.WriteByte('\n')
			}
		}
	}
	if len(flat) == 0 {
		return out
	}
	res, err := vlib.RunTLC(vlib.TLCOpts{Module: "StreamTrace", Config: "StreamTrace.cfg", Workers: 1, DFS: true,
		Data: map[string][]byte{"trace.ndjson": buf.Bytes()},
		CfgEdit: func(cfg string) string {
			return strings.Replace(constEdit(true, true, true, true)(cfg), "\n  SharedBuf = FALSE", "\n  SharedBuf = TRUE", 1)
		},
		Scratch: vlib.Work("C12", "tv-sharedbuf"), Timeout: 25 * time.Minute})
	if err != nil {
		vlib.Infra("tlc: %v", err)
	}
	m := reAccepted.FindStringSubmatch(res.Output)
	if !res.OK || m == nil {
		vlib.Infra("StreamTrace run failed (sharedbuf): %s\n%s", res.Violation, tailStr(res.Output, 2500))
	}
	var ids []int
	_ = json.Unmarshal([]byte(m[1]), &ids)
	st.mu.Lock()
	st.distinct += res.Distinct
	st.generated += res.Generated
	st.runs++
	st.mu.Unlock()
	for _, ix := range ids {
		if ix >= 1 && ix <= len(flat) {
			out[flat[ix-1]] = true
		}
	}
	return out
}
