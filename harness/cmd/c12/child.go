package main

// The server side runs in a child process built with the race detector
// (harness/c12srv). One stream is in flight per child at any time, so a
// crash, a race report or a surviving goroutine is attributed exactly.

import (
	"bufio"
	"bytes"
	"encoding/json"
	"fmt"
	"io"
	"net"
	"net/http"
	"net/url"
	"os"
	"os/exec"
	"path/filepath"
	"strings"
	"sync"
	"time"

	"verifharness/vlib"
)

type child struct {
	name    string
	bin     string
	dir     string // race logs, stderr
	cmd     *exec.Cmd
	stdin   io.WriteCloser
	addr    string
	stderr  *lockedBuf
	exited  chan struct{}
	starts  int
	crashes []string      // stderr of each crash
	leaked  int           // transport goroutines known to have been left behind in this incarnation
	leaks   int           // number of confirmed leaks (after two the long waits are dropped)
	env     []string      // extra environment (GOMAXPROCS=1 for the one-processor gate scenarios)
	grace   time.Duration // how long to wait for the process to die after a stream (0 = 150 ms)
	gorace  string        // further GORACE options
}

type lockedBuf struct {
	mu sync.Mutex
	b  bytes.Buffer
}

func (l *lockedBuf) Write(p []byte) (int, error) {
	l.mu.Lock()
	defer l.mu.Unlock()
	if l.b.Len() < 1<<20 {
		l.b.Write(p)
	}
	return len(p), nil
}

func (l *lockedBuf) String() string { l.mu.Lock(); defer l.mu.Unlock(); return l.b.String() }

func buildServer() string {
	bin := vlib.Work("bin", "c12srv")
	_ = os.MkdirAll(filepath.Dir(bin), 0o755)
	out, err := vlib.RunCmd(vlib.Harness(), vlib.GoEnv(), 15*time.Minute, "go", "build", "-race", "-o", bin, "./c12srv")
	if err != nil {
		vlib.Infra("cannot build the race-enabled server (does %s still compile?): %v\n%s", vlib.Repo(), err, out)
	}
	return bin
}

func newChild(name, bin string) *child {
	c := &child{name: name, bin: bin, dir: vlib.Work("C12", "child-"+name)}
	_ = os.RemoveAll(c.dir)
	_ = os.MkdirAll(c.dir, 0o755)
	return c
}

func (c *child) alive() bool {
	if c.cmd == nil {
		return false
	}
	select {
	case <-c.exited:
		return false
	default:
		return true
	}
}

func (c *child) start() {
	c.starts++
	c.leaked = 0
	cmd := exec.Command(c.bin)
	cmd.Env = append(append(os.Environ(), "GORACE=halt_on_error=0 log_path="+filepath.Join(c.dir, "race")+" "+c.gorace), c.env...)
	stdin, _ := cmd.StdinPipe()
	stdout, _ := cmd.StdoutPipe()
	c.stderr = &lockedBuf{}
	cmd.Stderr = c.stderr
	if err := cmd.Start(); err != nil {
		vlib.Infra("start server child: %v", err)
	}
	c.cmd, c.stdin, c.exited = cmd, stdin, make(chan struct{})
	br := bufio.NewReader(stdout)
	lineCh := make(chan string, 1)
	go func() {
		ln, _ := br.ReadString('\n')
		lineCh <- ln
		_, _ = io.Copy(io.Discard, br)
	}()
	ex := c.exited
	go func() { _ = cmd.Wait(); close(ex) }()
	select {
	case ln := <-lineCh:
		if !strings.HasPrefix(ln, "LISTEN ") {
			vlib.Infra("server child did not announce its address: %q %s", ln, c.stderr.String())
		}
		c.addr = strings.TrimSpace(strings.TrimPrefix(ln, "LISTEN "))
	case <-time.After(60 * time.Second):
		vlib.Infra("server child did not start within 60s")
	}
}

func (c *child) ensure() {
	if !c.alive() {
		c.start()
	}
}

func (c *child) stop() {
	if c.cmd == nil {
		return
	}
	if c.alive() {
		_ = c.stdin.Close()
		select {
		case <-c.exited:
		case <-time.After(10 * time.Second):
			_ = c.cmd.Process.Kill()
			<-c.exited
		}
	}
	c.cmd = nil
}

// died reports (after a short grace period) whether the child has exited by
// itself, and records its stderr.
func (c *child) died(grace time.Duration) (bool, string) {
	if c.cmd == nil {
		return false, ""
	}
	select {
	case <-c.exited:
	case <-time.After(grace):
		return false, ""
	}
	se := c.stderr.String()
	c.crashes = append(c.crashes, se)
	c.cmd = nil
	return true, se
}

var ctl = &http.Client{Timeout: 20 * time.Second, Transport: &http.Transport{DisableKeepAlives: true}}

type srvState struct {
	Active   int      `json:"active"`
	Found    bool     `json:"found"`
	Entered  bool     `json:"entered"`
	Returned bool     `json:"returned"`
	Produced []int    `json:"produced"`
	TG       int      `json:"tg"`
	Which    string   `json:"tg_which"`
	Gate     *gateObs `json:"gate"`
	Stacks   string   `json:"tg_stacks"`
	// server-side cancellation: the source call in which the request context was first done (-1 = never)
	CancelSeen int `json:"cancel_seen"`
}

// gateObs is what the gate writer of c12srv/gate.go saw (Mechanism A).
type gateObs struct {
	Overlaps    []string `json:"overlaps"`
	AfterReturn []string `json:"after_return"`
	AfterFinal  []string `json:"after_final"`
	AfterHold   []string `json:"after_hold"`
	Held        bool     `json:"held"`
	Met         bool     `json:"met"`
}

func (c *child) state(id string) (*srvState, error) { return c.stateX(id, "") }

func (c *child) stateX(id, extra string) (*srvState, error) {
	resp, err := ctl.Get("http://" + c.addr + "/ctl/state?id=" + url.QueryEscape(id) + extra)
	if err != nil {
		return nil, err
	}
	defer resp.Body.Close()
	var s srvState
	if err := json.NewDecoder(resp.Body).Decode(&s); err != nil {
		return nil, err
	}
	return &s, nil
}

func (c *child) release(id string) {
	resp, err := ctl.Post("http://"+c.addr+"/ctl/release?id="+url.QueryEscape(id), "text/plain", nil)
	if err == nil {
		resp.Body.Close()
	}
}

func (c *child) forget(id string) {
	resp, err := ctl.Get("http://" + c.addr + "/ctl/forget?id=" + url.QueryEscape(id))
	if err == nil {
		resp.Body.Close()
	}
}

// raceReports returns the race detector's reports written so far by all
// incarnations of this child.
func (c *child) raceReports() []string {
	files, _ := filepath.Glob(filepath.Join(c.dir, "race.*"))
	var out []string
	for _, f := range files {
		b, err := os.ReadFile(f)
		if err != nil {
			continue
		}
		for _, blk := range strings.Split(string(b), "==================") {
			if strings.Contains(blk, "WARNING: DATA RACE") {
				out = append(out, strings.TrimSpace(blk))
			}
		}
	}
	return out
}

// Scenario is one stream: configuration, production schedule, what the
// client did, and everything that was observed.
type Scenario struct {
	ID         string  `json:"id"`
	Class      string  `json:"class"`
	Kind       string  `json:"kind"` // sse | mm
	IntervalNs int64   `json:"interval_ns"`
	N          int     `json:"n"`
	Sizes      []int   `json:"sizes"`
	DelaysNs   []int64 `json:"delays_ns"`
	EndDelayNs int64   `json:"end_delay_ns"`
	CutAt      int     `json:"cut_at"`        // >= 0: the client closes the connection after this many response bytes
	ErrMode    bool    `json:"err_mode"`      // invalid document: the stream carries one errors-only payload
	Gated      bool    `json:"gated"`         // delays of -1 are released by the driver once the previous payload arrived
	Hold       string  `json:"hold"`          // Mechanism A: which call(s) the gate writer holds open ("" = plain endpoint)
	OneP       bool    `json:"one_processor"` // run in a server child with GOMAXPROCS=1
	// histories (phase H): FailAt > 0 = the FailAt-th payload of this stream cannot be serialized
	// (FailMode raw: Response.Data is not JSON | ext: an extension value's MarshalJSON errors);
	// Hist/Pos: the Pos-th request served by the same server process (handler) in history Hist
	FailAt   int    `json:"fail_at"`
	FailMode string `json:"fail_mode,omitempty"`
	Hist     string `json:"hist,omitempty"`
	Pos      int    `json:"pos"`
	Server   string `json:"server,omitempty"` // which kind of child served it (race | plain-1p)
	// SERVER-SIDE cancellation of the request context, the client stays connected and reads to EOF (round 4):
	// CancelMode cancel | timeout = context.WithCancel / WithTimeout(CancelNs) middleware around the real
	// handler.Server; the context ends inside the source's call number CancelAt + 1 (after CancelAt payloads);
	// the source then produces its remaining payloads regardless. CancelSeen = what the server observed.
	CancelMode string `json:"cancel_mode,omitempty"`
	CancelAt   int    `json:"cancel_at"`
	CancelNs   int64  `json:"cancel_ns,omitempty"`
	CancelSeen int    `json:"cancel_seen"`
	// set only in the replay object of a violation: all requests of the history, in order
	HistSteps []*Scenario `json:"history_steps,omitempty"`
	// phase G (generated code): the operation, its plan and gate script, and what was expected
	Gen *genCase `json:"gen,omitempty"`

	Status    int      `json:"status"`
	CT        string   `json:"content_type"`
	Toks      []Tok    `json:"tokens"`
	EOF       string   `json:"eof"`
	Detail    string   `json:"detail,omitempty"`
	Produced  []int    `json:"produced"`
	Returned  bool     `json:"handler_returned"`
	Crashed   bool     `json:"server_crashed"`
	Stderr    string   `json:"server_stderr,omitempty"`
	RawHead   string   `json:"raw_excerpt,omitempty"`
	RawLen    int      `json:"raw_len"`
	Lingering string   `json:"lingering,omitempty"`
	Direct    []string `json:"direct_findings,omitempty"` // violations decided without TLC: key|detail
	ReadErr   string   `json:"read_error,omitempty"`
	WallMs    float64  `json:"wall_ms"`
	Gate      *gateObs `json:"gate,omitempty"`
	Verdict   string   `json:"verdict,omitempty"` // strict | late-ping | splice | late-ping+splice | unexplained
}

func (s *Scenario) ka() bool { return s.Kind == "sse" && s.IntervalNs > 0 }

func (s *Scenario) direct(key, detail string) { s.Direct = append(s.Direct, key+"|"+detail) }

const mmBoundary = "verif"

// run executes the scenario against the child and fills in the observations.
func (c *child) run(s *Scenario) {
	t0 := time.Now()
	c.ensure()
	s.Toks, s.Produced = []Tok{}, []int{}
	type wire struct {
		ID         string  `json:"id"`
		N          int     `json:"n"`
		Sizes      []int   `json:"sizes"`
		DelaysNs   []int64 `json:"delays_ns"`
		EndDelayNs int64   `json:"end_delay_ns"`
		Hold       string  `json:"hold"`
		FailAt     int     `json:"fail_at"`
		FailMode   string  `json:"fail_mode"`
		CancelMode string  `json:"cancel_mode"`
		CancelAt   int     `json:"cancel_at"`
		CancelNs   int64   `json:"cancel_ns"`
	}
	s.CancelSeen = -1
	sj, _ := json.Marshal(wire{s.ID, s.N, s.Sizes, s.DelaysNs, s.EndDelayNs, s.Hold, s.FailAt, s.FailMode, s.CancelMode, s.CancelAt, s.CancelNs})
	ep := "g"
	if s.Hold != "" {
		ep = "h"
	}
	q, acc := `{"query":"subscription { s }"}`, "text/event-stream"
	if s.Kind == "mm" {
		q, acc = `{"query":"query { q }"}`, "multipart/mixed"
	}
	if s.ErrMode {
		q = `{"query":"subscription { nosuchfield }"}`
	}
	conn, err := net.DialTimeout("tcp", c.addr, 10*time.Second)
	if err != nil {
		if d, se := c.died(2 * time.Second); d {
			s.Crashed, s.Stderr = true, se
			return
		}
		vlib.Infra("cannot connect to the server child: %v", err)
	}
	defer conn.Close()
	fmt.Fprintf(conn, "POST /"+ep+"/%s/%d HTTP/1.1\r\nHost: c12\r\nConnection: close\r\nAccept: %s\r\nContent-Type: application/json\r\nX-Verif-Scn: %s\r\nContent-Length: %d\r\n\r\n%s",
		s.Kind, s.IntervalNs, acc, sj, len(q), q)
	_ = conn.SetReadDeadline(time.Now().Add(60 * time.Second))

	var raw []byte
	buf := make([]byte, 64<<10)
	// lock-step mode: every payload (and the end) waits for a gate that the
	// driver opens only when everything released before has ARRIVED
	gates := s.N + 1
	if s.Kind == "mm" {
		gates = s.N + 2
	}
	released, timeouts, gateWait := 0, 0, 15*time.Second
	if s.Gated {
		c.release(s.ID)
		released = 1
	}
	for {
		if s.CutAt >= 0 && len(raw) >= s.CutAt {
			raw = raw[:s.CutAt]
			break
		}
		if s.Gated {
			_ = conn.SetReadDeadline(time.Now().Add(gateWait))
		}
		n, err := conn.Read(buf)
		raw = append(raw, buf[:n]...)
		if n > 0 && timeouts < 2 {
			timeouts, gateWait = 0, 15*time.Second
		}
		if s.Gated {
			// one `"n":` per payload on the wire (the filler holds no quote)
			seen := bytes.Count(raw, []byte("\"n\":"))
			for released <= seen && released < gates {
				c.release(s.ID)
				released++
			}
		}
		if err != nil {
			if ne, ok := err.(net.Error); ok && ne.Timeout() && s.Gated && timeouts < 2 {
				// a produced payload has not arrived: look again, much longer, before concluding
				timeouts++
				gateWait = 45 * time.Second
				if timeouts == 2 {
					s.direct(s.Kind+":payload-held-back", fmt.Sprintf("payload %d was produced but had not reached the client 60 s later (it is only sent together with a later write); bytes so far: %q", released, excerpt(raw, 300)))
					for ; released < gates; released++ {
						c.release(s.ID)
					}
				}
				continue
			}
			if err != io.EOF {
				s.ReadErr = err.Error()
			}
			break
		}
	}
	if s.CutAt >= 0 {
		conn.Close()
	}
	s.RawLen = len(raw)
	s.RawHead = excerpt(raw, 600)

	// did the server survive?
	grace := 150 * time.Millisecond
	if c.grace > 0 {
		grace = c.grace
	}
	if d, se := c.died(grace); d {
		s.Crashed, s.Stderr = true, se
	}

	// server-side observations; the handler must end (poll, then confirm)
	if !s.Crashed {
		first, second := 15*time.Second, 45*time.Second
		if c.leaks >= 2 {
			// this child keeps leaving goroutines behind (already reported twice after the
			// full waits): do not spend a minute on every further stream
			first, second = 3*time.Second, 0
		}
		st := c.await(s, first)
		if st != nil && (!st.Returned || st.TG > c.leaked) && second > 0 {
			st = c.await(s, second) // second, longer look before anything is concluded
		}
		if st == nil {
			if d, se := c.died(2 * time.Second); d {
				s.Crashed, s.Stderr = true, se
			} else {
				vlib.Infra("server child does not answer /ctl/state")
			}
		} else {
			s.Produced, s.Returned = st.Produced, st.Returned
			if st.Found && s.CancelMode != "" {
				s.CancelSeen = st.CancelSeen
			}
			if s.Produced == nil {
				s.Produced = []int{}
			}
			if st.Entered && !st.Returned {
				s.direct(s.Kind+":handler-did-not-return", fmt.Sprintf("60 s after the client finished reading (cut_at=%d) the transport's Do has not returned; goroutines: %s", s.CutAt, st.Which))
			} else if st.TG > c.leaked {
				s.Lingering = st.Which
				stacks := ""
				if sx, err := c.stateX(s.ID, "&stacks=1"); err == nil {
					stacks = sx.Stacks
				}
				if c.leaks < 2 {
					key := s.Kind + ":goroutine-left-behind"
					if s.ka() && strings.Contains(stacks, "(*sseConnection).keepAlive") && strings.Contains(stacks, "(*sseConnection).flush") && strings.Contains(stacks, "sync.(*Mutex).Lock") {
						// keepAlive parked on sseConnection.mu for good: the handler goroutine left it locked
						key = keyStuck
					}
					s.direct(key, fmt.Sprintf("60 s after the handler returned %d transport goroutine(s) are still alive: %s\n%s", st.TG, st.Which, stacks))
				}
				c.leaked = st.TG
				c.leaks++
			}
			s.Gate = st.Gate
			c.forget(s.ID)
		}
	}

	s.tokenise(raw, c.dir)
	s.WallMs = float64(time.Since(t0).Microseconds()) / 1000
}

// await polls the server until the scenario's handler has returned and no
// transport goroutine is left, or the time is up; nil = no answer at all.
func (c *child) await(s *Scenario, total time.Duration) *srvState {
	deadline := time.Now().Add(total)
	var last *srvState
	sleep := 2 * time.Millisecond
	for {
		st, err := c.state(s.ID)
		if err == nil {
			last = st
			if st.Returned && st.TG <= c.leaked {
				return st
			}
			// a client that left at once may never have been served at all
			if s.CutAt >= 0 && !st.Entered && st.TG <= c.leaked && time.Since(deadline.Add(-total)) > time.Second {
				return st
			}
		} else if !c.alive() {
			return nil
		}
		if time.Now().After(deadline) {
			return last
		}
		time.Sleep(sleep)
		if sleep < 200*time.Millisecond {
			sleep *= 2
		}
	}
}

// mimeCheck compares the strict tokeniser's view of a complete multipart
// body with mime/multipart's.
func (s *Scenario) mimeCheck(data []byte) {
	parts, closed, problem := mimeOpinion(s.CT, data)
	mine, bad := 0, false
	for _, t := range s.Toks {
		if t.K == "init" || t.K == "incr" {
			mine++
		}
		if t.K == "bad" {
			bad = true
		}
	}
	if bad {
		return // reported through the trace
	}
	if problem != "" {
		s.direct("mm:mime-multipart-rejects-body", problem)
	} else if !closed || parts != mine {
		s.direct("mm:mime-multipart-disagrees", fmt.Sprintf("mime/multipart sees %d parts (closed=%v), the strict tokeniser %d", parts, closed, mine))
	}
}

// tokenise turns the raw bytes read from the connection into the stream's
// tokens and end marker (anything irregular is kept under dir).
func (s *Scenario) tokenise(raw []byte, dir string) {
	status, hdr, body, ok := splitHead(raw)
	s.Status, s.CT = status, hdr["content-type"]
	cut := s.CutAt >= 0
	switch {
	case !ok:
		if cut {
			s.EOF = "cut"
		} else {
			s.EOF = "broken"
			s.Detail = "no complete response head"
		}
	case hdr["transfer-encoding"] != "chunked":
		s.EOF = "broken"
		s.Detail = "response is not chunked: " + fmt.Sprint(hdr)
		if cut {
			s.EOF = "cut"
		}
	default:
		data, _, state, detail := dechunk(body)
		s.Detail = detail
		switch {
		case cut && state != "broken":
			s.EOF = "cut"
		case state == "clean":
			s.EOF = "clean"
		default:
			s.EOF = "broken"
			if state == "short" {
				s.Detail = "connection ended before the terminating chunk"
			}
		}
		switch {
		case s.Gen != nil && s.Kind == "sse":
			s.Toks = tokSSEWith(data, cut || state != "clean", s.Gen.matchSSE)
		case s.Gen != nil:
			s.Toks = tokMMWith(data, mmBoundary, cut || state != "clean", s.Gen.matchMM)
		case s.Kind == "sse":
			s.Toks = tokSSE(data, s.Sizes, cut || state != "clean", s.ErrMode)
		default:
			s.Toks = tokMM(data, mmBoundary, s.N, s.Sizes, cut || state != "clean")
		}
		// (a stream whose payload cannot be encoded is, as the code serves it today, not a
		// complete multipart body: Stream.tla says what it is, mime/multipart is not asked)
		if s.Kind == "mm" && s.EOF == "clean" && s.FailAt == 0 {
			s.mimeCheck(data)
		}
		if s.EOF == "broken" && state == "broken" {
			// whatever followed the corruption is unusable
			if n := len(s.Toks); n == 0 || s.Toks[n-1].K != "bad" {
				t := tok("bad")
				t.Raw = detail
				s.Toks = append(s.Toks, t)
			}
		}
	}
	if s.EOF == "broken" || len(s.Direct) > 0 {
		// keep the bytes of anything irregular
		_ = os.WriteFile(filepath.Join(dir, "raw-"+s.ID+".bin"), raw, 0o644)
	}
	if ok && !cut {
		want := "text/event-stream"
		if s.Kind == "mm" {
			want = `multipart/mixed;boundary="` + mmBoundary + `";deferSpec=20220824`
		}
		if s.Status != 200 || s.CT != want {
			s.direct(s.Kind+":status-or-content-type", fmt.Sprintf("status %d Content-Type %q (want 200 %q)", s.Status, s.CT, want))
		}
	}
}
