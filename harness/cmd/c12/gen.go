package main

// Phase G: `@defer` queries served by GENERATED code (the "exec" probe,
// regenerated from the templates of the tree under test) through the real
// transport.MultipartMixed / transport.SSE behind a real net/http server
// (probe command "c12", harness/ur/c12_cmd.go). The resolvers of the deferred
// groups are gated by the in-probe scheduler, so that
//
//	burst-all         the initial payload and every deferred group are pending in ONE flush (Done's),
//	burst-after-init  the initial payload goes out with a tick, then all n groups complete within one
//	                  flush interval,
//	burst-mid         two groups complete within one interval and are flushed by the TICKER goroutine
//	                  while a third is still outstanding,
//	spaced            every payload is alone in its flush interval,
//
// with group payloads of equal length, shrinking, growing and beyond 64 bytes,
// in release order and reversed. The raw bytes go through the same strict
// tokenisers and the same StreamTrace validation as every other stream of this
// check; a payload token requires the part's JSON to carry, byte for byte, the
// data the plan prescribes for that label/path (the harness's own rendering),
// the hasNext discipline of the executor, and nothing else.

import (
	"encoding/base64"
	"encoding/json"
	"fmt"
	"math/rand"
	"os"
	"path/filepath"
	"strconv"
	"strings"
	"sync"
	"time"

	"verifharness/ur"
	"verifharness/vlib"
)

type genCase struct {
	Variant   string                `json:"variant"`
	Query     string                `json:"query"`
	Plan      map[string]ur.Outcome `json:"plan"`
	Order     []string              `json:"order"`
	Transport string                `json:"transport"` // mixed | sse
	Shape     string                `json:"shape"`     // schedule family
	Lens      string                `json:"lens"`      // eq | dec | inc | big
	// Expect: payload key ("init" | "<label>@<path>") -> the JSON of its data
	Expect map[string]string `json:"expect"`
	// filled in from the probe's answer
	ProducedKeys []string `json:"produced_keys"`
	Notes        []string `json:"notes,omitempty"`
	Hung         bool     `json:"hung,omitempty"`
	Leaked       int      `json:"leaked,omitempty"`
	LeakStack    string   `json:"leak_stack,omitempty"`
}

// idOf: the position of payload key in production order (0 = the initial payload), as recorded
// by the response middleware inside the probe.
func (g *genCase) idOf(key string) (int, bool) {
	for i, k := range g.ProducedKeys {
		if k == key {
			return i, true
		}
	}
	return 0, false
}

type genPayload struct {
	Errors     json.RawMessage `json:"errors"`
	Data       json.RawMessage `json:"data"`
	Label      string          `json:"label"`
	Path       []any           `json:"path"`
	HasNext    *bool           `json:"hasNext"`
	Extensions json.RawMessage `json:"extensions"`
}

func pathKey(p []any) string {
	var parts []string
	for _, e := range p {
		switch v := e.(type) {
		case string:
			parts = append(parts, v)
		case float64:
			parts = append(parts, strconv.Itoa(int(v)))
		default:
			parts = append(parts, "?")
		}
	}
	return strings.Join(parts, ".")
}

// payloadID identifies one GraphQL payload object on the wire: it must be exactly one of the
// payloads the executor yielded, with the data the plan prescribes and hasNext = "more to come".
func (g *genCase) payloadID(raw []byte) (int, bool) {
	var p genPayload
	if json.Unmarshal(raw, &p) != nil || p.Errors != nil || p.Extensions != nil || p.HasNext == nil {
		return 0, false
	}
	key := "init"
	if p.Path != nil || p.Label != "" {
		key = p.Label + "@" + pathKey(p.Path)
	}
	id, ok := g.idOf(key)
	want, known := g.Expect[key]
	if !ok || !known || string(p.Data) != want {
		return 0, false
	}
	if *p.HasNext != (id < len(g.ProducedKeys)-1) {
		return 0, false
	}
	return id, true
}

// matchSSE: over SSE every payload is one `next` event; StreamTrace numbers them 1, 2, ...
func (g *genCase) matchSSE(js string) (int, bool) {
	if !json.Valid([]byte(js)) {
		return 0, false
	}
	id, ok := g.payloadID([]byte(js))
	return id + 1, ok
}

// matchMM: the JSON line of one multipart part.
func (g *genCase) matchMM(ln string) (Tok, bool) {
	if !json.Valid([]byte(ln)) {
		return Tok{}, false
	}
	hn := func(b bool) string {
		if b {
			return "t"
		}
		return "f"
	}
	var probe map[string]json.RawMessage
	if json.Unmarshal([]byte(ln), &probe) != nil {
		return Tok{}, false
	}
	if inc, ok := probe["incremental"]; ok {
		var items []json.RawMessage
		var outer struct {
			HasNext *bool `json:"hasNext"`
		}
		if json.Unmarshal(inc, &items) != nil || json.Unmarshal([]byte(ln), &outer) != nil || outer.HasNext == nil || len(probe) != 2 {
			return Tok{}, false
		}
		t := tok("incr")
		t.HN = hn(*outer.HasNext)
		for _, it := range items {
			id, ok := g.payloadID(it)
			if !ok || id == 0 {
				return Tok{}, false
			}
			t.IDs = append(t.IDs, id)
		}
		return t, true
	}
	id, ok := g.payloadID([]byte(ln))
	if !ok || id != 0 {
		return Tok{}, false
	}
	var first struct {
		HasNext *bool `json:"hasNext"`
	}
	_ = json.Unmarshal([]byte(ln), &first)
	t := tok("init")
	t.IDs = []int{0}
	t.HN = hn(*first.HasNext)
	return t, true
}

func jstr(s string) string { b, _ := json.Marshal(s); return string(b) }

// genScenarios enumerates the streams of phase G for one probe variant.
func genScenarios(seed int64, thorough bool, variant string) []*Scenario {
	r := rand.New(rand.NewSource(seed*15485863 + 5))
	var out []*Scenario
	nid := 0
	word := func(tag string, n int) string {
		var sb strings.Builder
		for i := 0; sb.Len() < n; i++ {
			sb.WriteString(tag)
			sb.WriteByte("abcdefghijklmnopqrstuvwxyz"[(i+r.Intn(3))%26])
		}
		return sb.String()[:n]
	}
	// lengths of the n groups' string values
	lens := func(kind string, n int) []int {
		l := make([]int, n)
		for i := range l {
			switch kind {
			case "eq":
				l[i] = 12
			case "dec":
				l[i] = 40 - 15*i
			case "inc":
				l[i] = 4 + 9*i
			case "big":
				l[i] = []int{10, 90, 10, 200}[i%4]
			}
			if l[i] < 2 {
				l[i] = 2
			}
		}
		return l
	}
	add := func(transport, shape, lk string, n int, list, reversed bool, dIv, pause int64, kaNs int64) {
		nid++
		g := &genCase{Variant: variant, Transport: transport, Shape: shape, Lens: lk, Plan: map[string]ur.Outcome{}, Expect: map[string]string{}}
		ls := lens(lk, n)
		var gates []string
		var q strings.Builder
		if list {
			// one deferred fragment on the elements of a list: n groups with the SAME label and different paths
			g.Plan["as"] = ur.Outcome{K: "list", N: n}
			q.WriteString(`{ as { id ... @defer(label: "L") { g: s } } }`)
			var ids []string
			for i := 0; i < n; i++ {
				v := word(strconv.Itoa(i+1), ls[i])
				vp := fmt.Sprintf("as.%d.g", i)
				g.Plan[vp] = ur.Outcome{K: "val", V: v}
				g.Expect[fmt.Sprintf("L@as.%d", i)] = `{"g":` + jstr(v) + `}`
				gates = append(gates, vp)
				ids = append(ids, fmt.Sprintf(`{"id":"as.%d.id","g":null}`, i)) // a deferred field is null in the payload that announces it
			}
			g.Expect["init"] = `{"as":[` + strings.Join(ids, ",") + `]}`
			gates = append([]string{"as"}, gates...)
		} else {
			q.WriteString(`{ a { id`)
			initial := `{"a":{"id":"a.id"`
			for i := 1; i <= n; i++ {
				initial += fmt.Sprintf(`,"g%d":null`, i)
				fmt.Fprintf(&q, ` ... @defer(label: "L%d") { g%d: s }`, i, i)
				v := word(strconv.Itoa(i), ls[i-1])
				vp := fmt.Sprintf("a.g%d", i)
				g.Plan[vp] = ur.Outcome{K: "val", V: v}
				g.Expect[fmt.Sprintf("L%d@a", i)] = fmt.Sprintf(`{"g%d":%s}`, i, jstr(v))
				gates = append(gates, vp)
			}
			q.WriteString(` } }`)
			g.Expect["init"] = initial + `}}`
			gates = append([]string{"a"}, gates...)
		}
		g.Query = q.String()
		grp := gates[1:]
		if reversed {
			rv := make([]string, len(grp))
			for i := range grp {
				rv[len(grp)-1-i] = grp[i]
			}
			grp = rv
		}
		p := "~" + strconv.FormatInt(pause/1_000_000, 10)
		order := []string{gates[0]}
		switch shape {
		case "burst-all":
			order = append(order, grp...)
		case "burst-after-init":
			order = append(append(order, p), grp...)
		case "burst-mid":
			order = append(append(order, p), grp[:2]...)
			order = append(append(order, p), grp[2:]...)
		case "spaced":
			for _, k := range grp {
				order = append(order, p, k)
			}
		}
		g.Order = order
		s := &Scenario{ID: fmt.Sprintf("g%d-%s-%d", seed, variant, nid), Class: "gen-defer-" + shape, CutAt: -1, Sizes: []int{}, DelaysNs: []int64{}, Gen: g, Pos: 1}
		if transport == "sse" {
			s.Kind, s.N, s.IntervalNs = "sse", n+1, kaNs
		} else {
			s.Kind, s.N, s.IntervalNs = "mm", n, dIv
		}
		out = append(out, s)
	}
	reps := 1
	if thorough {
		reps = 5
	}
	for rep := 0; rep < reps; rep++ {
		for _, lk := range []string{"eq", "dec", "inc", "big"} {
			rv := (rep+len(lk))%2 == 1
			// multipart: a flush interval nothing but Done can end (burst-all), one of 25 ms with pauses of 40 ms
			// (bursts within an interval), one of 4 ms with pauses of 11 ms (every payload alone)
			add("mixed", "burst-all", lk, 2+r.Intn(3), false, rv, 2_000_000_000, 0, 0)
			add("mixed", "burst-after-init", lk, 2+r.Intn(3), false, !rv, 25_000_000, 40_000_000, 0)
			add("mixed", "burst-mid", lk, 3+r.Intn(2), false, rv, 25_000_000, 40_000_000, 0)
			add("mixed", "spaced", lk, 2+r.Intn(2), false, !rv, 4_000_000, 11_000_000, 0)
			add("sse", "burst-all", lk, 2+r.Intn(3), false, rv, 0, 0, 0)
			add("sse", "spaced", lk, 2+r.Intn(2), false, !rv, 0, 6_000_000, []int64{0, 1_500_000}[rep%2])
		}
		add("mixed", "burst-all", "eq", 3, true, false, 2_000_000_000, 0, 0)
		add("mixed", "burst-mid", "dec", 3, true, true, 25_000_000, 40_000_000, 0)
		add("mixed", "burst-after-init", "inc", 4, true, false, 25_000_000, 40_000_000, 0)
		add("sse", "burst-all", "eq", 3, true, true, 0, 0, 700_000)
	}
	return out
}

// genRun executes the scenarios of one variant on one probe process. A probe that dies takes exactly
// the stream in flight with it (and is restarted).
func genRun(bin string, scs []*Scenario, env []string) {
	dir := vlib.Work("C12", "gen")
	_ = os.MkdirAll(dir, 0o755)
	p, err := vlib.StartProc(bin, env)
	if err != nil {
		vlib.Infra("start probe %s: %v", bin, err)
	}
	defer p.Close()
	for _, s := range scs {
		genOne(p, s, dir)
		// absence-of-progress verdicts (a handler that does not return, goroutines that stay) are only
		// believed when a second, patient run shows them again
		if g := s.Gen; !s.Crashed && (g.Hung || g.Leaked > 0 || s.ReadErr != "") {
			first, firstErr := *g, s.ReadErr
			if err := p.Restart(); err != nil { // whatever is still running in there must not touch the second run
				vlib.Infra("restart probe: %v", err)
			}
			genOne(p, s, dir)
			if g := s.Gen; !s.Crashed && (g.Hung || g.Leaked > 0 || s.ReadErr != "") {
				_ = p.Restart()
				s.direct("gen-defer:"+s.Kind+":stream-handler-or-goroutines-do-not-end", fmt.Sprintf("twice: read error %q hung=%v leaked=%d (first run: read error %q hung=%v leaked=%d)\n%s",
					s.ReadErr, g.Hung, g.Leaked, firstErr, first.Hung, first.Leaked, g.LeakStack))
			}
		}
	}
}

func genOne(p *vlib.Proc, s *Scenario, dir string) {
	t0 := time.Now()
	g := s.Gen
	s.Toks, s.Produced, s.Direct, s.EOF, s.Crashed, s.Stderr = []Tok{}, []int{}, nil, "", false, ""
	g.Hung, g.Leaked, g.LeakStack = false, 0, ""
	if p.Died {
		if err := p.Restart(); err != nil {
			vlib.Infra("restart probe: %v", err)
		}
	}
	cmd := ur.C12Cmd{Cmd: "c12", ID: s.ID, Query: g.Query, Plan: g.Plan, Sched: "order", Order: g.Order, Transport: g.Transport,
		Boundary: mmBoundary, TimeoutMs: 30_000}
	if s.Kind == "mm" {
		cmd.DeliveryNs = s.IntervalNs
	} else {
		cmd.KeepAliveNs = s.IntervalNs
	}
	var res ur.C12Res
	err := p.Send(cmd)
	if err == nil {
		err = p.Recv(&res, 100*time.Second)
	}
	if err != nil {
		if !p.Died || strings.Contains(err.Error(), "probe timeout") {
			p.Kill()
			vlib.Infra("probe does not answer (%v) on %s", err, s.ID)
		}
		s.Crashed, s.Stderr = true, p.Stderr
		s.WallMs = float64(time.Since(t0).Microseconds()) / 1000
		return
	}
	if res.Err != "" {
		vlib.Infra("probe command c12 failed on %s: %s", s.ID, res.Err)
	}
	g.ProducedKeys, g.Notes, g.Hung, g.Leaked, g.LeakStack = res.Produced, res.Notes, res.Hung, res.Leaked, res.LeakStack
	for i := range res.Produced {
		if s.Kind == "sse" {
			s.Produced = append(s.Produced, i+1)
		} else {
			s.Produced = append(s.Produced, i)
		}
	}
	s.Returned = !res.Hung
	s.ReadErr = res.ReadErr
	raw, _ := base64.StdEncoding.DecodeString(res.Wire)
	s.RawLen = len(raw)
	s.RawHead = excerpt(raw, 900)
	s.tokenise(raw, dir)
	s.WallMs = float64(time.Since(t0).Microseconds()) / 1000
}

// genVariants: two generator layouts (single file = generated!.gotpl; follow-schema = root_.gotpl, with
// function syntax, a worker limit and renamed root types); thorough adds a race-enabled build.
func genVariants(thorough bool) []vlib.Variant {
	vs := []vlib.Variant{{Name: "v0"}, {Name: "v1", FollowSchema: true, FuncSyntax: true, WorkerLimit: 2, CustomRoots: true}}
	if thorough {
		vs = append(vs, vlib.Variant{Name: "v0", Race: true})
	}
	return vs
}

func genBuild(vs []vlib.Variant) map[string]string {
	bins, err := vlib.BuildProbes("exec", vs)
	if err != nil {
		vlib.Infra("build the generated probe servers (does the generator of %s still work?): %v", vlib.Repo(), err)
	}
	return bins
}

// genPhase runs phase G, the variants side by side; returns the streams and the directories holding
// the race detector's logs of race-enabled variants.
func genPhase(bins map[string]string, vs []vlib.Variant, thorough bool) ([]*Scenario, []string) {
	var all []*Scenario
	var raceDirs []string
	var wg sync.WaitGroup
	for _, v := range vs {
		scs := genScenarios(vlib.Seed(), thorough, v.ID())
		all = append(all, scs...)
		var env []string
		if v.Race {
			d := vlib.Work("C12", "gen-race-"+v.ID())
			_ = os.RemoveAll(d)
			_ = os.MkdirAll(d, 0o755)
			env = []string{"GORACE=halt_on_error=0 log_path=" + filepath.Join(d, "race")}
			raceDirs = append(raceDirs, d)
		}
		wg.Add(1)
		go func(bin string, scs []*Scenario, env []string) {
			defer wg.Done()
			genRun(bin, scs, env)
		}(bins[v.ID()], scs, env)
	}
	wg.Wait()
	return all, raceDirs
}

// genRaces reports what the race detector saw in the race-enabled probe (thorough tier).
func genRaces(c *vlib.Check, dirs []string) {
	n := 0
	seen := map[string]bool{}
	for _, d := range dirs {
		k := &child{dir: d}
		for _, rpt := range k.raceReports() {
			n++
			_, what := classifyRace(rpt)
			if seen[what] {
				continue
			}
			seen[what] = true
			c.Violate("gen-defer:race{"+what+"}", "race detector, @defer query served by generated code over the real transports: "+what+"\n"+tailHead(rpt, 2600), map[string]any{"race_report": rpt})
		}
	}
	c.Set("phase_G_race_reports", n)
}

// genReplay serves one recorded stream of phase G again, reps times, on the probe of its variant.
func genReplay(bins map[string]string, vs []vlib.Variant, rec *Scenario, reps int) ([]*Scenario, []string) {
	var scs []*Scenario
	for i := 0; i < reps; i++ {
		s := *rec
		g := *rec.Gen
		s.Gen = &g
		s.ID = fmt.Sprintf("replay-g%d", i)
		s.Verdict = ""
		scs = append(scs, &s)
	}
	var dirs []string
	for _, v := range vs {
		var env []string
		if v.Race {
			d := vlib.Work("C12", "gen-race-"+v.ID())
			_ = os.RemoveAll(d)
			_ = os.MkdirAll(d, 0o755)
			env = []string{"GORACE=halt_on_error=0 log_path=" + filepath.Join(d, "race")}
			dirs = append(dirs, d)
		}
		genRun(bins[v.ID()], scs, env)
	}
	return scs, dirs
}
