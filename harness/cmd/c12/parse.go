package main

// Independent, strict tokenisers for what a client reads from the wire:
// HTTP/1.1 response head, chunked transfer coding, the SSE event stream and
// the multipart/mixed body.  Nothing here uses gqlgen code.  mime/multipart is
// used as a second opinion on the multipart body.

import (
	"bytes"
	"encoding/json"
	"fmt"
	"io"
	"mime"
	"mime/multipart"
	"strconv"
	"strings"
)

// Tok is one token of a stream as StreamTrace.tla reads it.
type Tok struct {
	K   string `json:"k"`
	ID  int    `json:"id"`
	IDs []int  `json:"ids"`
	HN  string `json:"hn"`
	Raw string `json:"raw,omitempty"` // excerpt for diagnostics (bad tokens)
}

func tok(k string) Tok { return Tok{K: k, IDs: []int{}, HN: "-"} }

// splitHead separates the response head from the body. ok=false when the head is incomplete.
func splitHead(raw []byte) (status int, hdr map[string]string, body []byte, ok bool) {
	i := bytes.Index(raw, []byte("\r\n\r\n"))
	if i < 0 {
		return 0, nil, nil, false
	}
	lines := strings.Split(string(raw[:i]), "\r\n")
	f := strings.SplitN(lines[0], " ", 3)
	if len(f) < 2 || !strings.HasPrefix(f[0], "HTTP/1.") {
		return 0, nil, nil, false
	}
	status, _ = strconv.Atoi(f[1])
	hdr = map[string]string{}
	for _, ln := range lines[1:] {
		kv := strings.SplitN(ln, ":", 2)
		if len(kv) == 2 {
			hdr[strings.ToLower(strings.TrimSpace(kv[0]))] = strings.TrimSpace(kv[1])
		}
	}
	return status, hdr, raw[i+4:], true
}

// dechunk decodes a chunked body strictly.
//
//	state "clean":  ended with the terminating chunk and nothing after it
//	state "short":  well-formed so far, but the input ends before the terminating chunk
//	state "broken": the framing itself is malformed (detail says where)
func dechunk(b []byte) (data []byte, nchunks int, state, detail string) {
	p := 0
	for {
		j := bytes.Index(b[p:], []byte("\r\n"))
		if j < 0 {
			// the input may end inside the size line (even between its CR and LF)
			if rest := bytes.TrimSuffix(b[p:], []byte("\r")); !isHexPrefix(rest) || len(rest) > 8 {
				return data, nchunks, "broken", fmt.Sprintf("chunk size line malformed at body offset %d: %q", p, excerpt(b[p:], 60))
			}
			return data, nchunks, "short", ""
		}
		szs := string(b[p : p+j])
		if szs == "" || len(szs) > 8 || !isHexPrefix([]byte(szs)) {
			return data, nchunks, "broken", fmt.Sprintf("chunk size line malformed at body offset %d: %q", p, excerpt(b[p:], 60))
		}
		sz, _ := strconv.ParseInt(szs, 16, 64)
		p += j + 2
		if sz == 0 {
			switch {
			case len(b[p:]) < 2 && bytes.HasPrefix([]byte("\r\n"), b[p:]):
				return data, nchunks, "short", ""
			case bytes.Equal(b[p:], []byte("\r\n")):
				return data, nchunks, "clean", ""
			default:
				return data, nchunks, "broken", fmt.Sprintf("bytes after the terminating chunk: %q", excerpt(b[p:], 60))
			}
		}
		if int64(len(b)-p) < sz {
			data = append(data, b[p:]...)
			return data, nchunks, "short", ""
		}
		data = append(data, b[p:p+int(sz)]...)
		p += int(sz)
		nchunks++
		if len(b)-p < 2 {
			if bytes.HasPrefix([]byte("\r\n"), b[p:]) {
				return data, nchunks, "short", ""
			}
			return data, nchunks, "broken", fmt.Sprintf("chunk of %d bytes not followed by CRLF at body offset %d", sz, p)
		}
		if b[p] != '\r' || b[p+1] != '\n' {
			return data, nchunks, "broken", fmt.Sprintf("chunk of %d bytes not followed by CRLF at body offset %d: %q", sz, p, excerpt(b[p:], 40))
		}
		p += 2
	}
}

func isHexPrefix(b []byte) bool {
	for _, c := range b {
		if !(c >= '0' && c <= '9' || c >= 'a' && c <= 'f' || c >= 'A' && c <= 'F') {
			return false
		}
	}
	return true
}

func excerpt(b []byte, n int) string {
	if len(b) > n {
		return string(b[:n]) + "..."
	}
	return string(b)
}

// pad is the harness's own definition of the filler the scenario asks the
// server-side payload source to produce (c12srv has its own copy).
func pad(id, size int) string {
	var sb strings.Builder
	for i := 0; sb.Len() < size; i++ {
		sb.WriteString(strconv.Itoa(id))
		sb.WriteByte("abcdefghijklmnopqrstuvwxyz"[i%26])
	}
	return sb.String()[:size]
}

func dataJSON(id, size int) string {
	return fmt.Sprintf(`{"n":%d,"pad":"%s"}`, id, pad(id, size))
}

// tokSSE tokenises an event stream strictly: blocks end with a blank line;
// a block is exactly ":" (the preamble), ": ping", "event: complete", or
// "event: next" + one data line holding the JSON of one of the scenario's
// payloads byte for byte. Anything else is `bad`; bytes after the last
// blank line are `bad` too unless the harness cut the stream itself.
// errMode: the single expected payload is an errors-only GraphQL response.
func tokSSE(data []byte, sizes []int, cut, errMode bool) []Tok {
	return tokSSEWith(data, cut, func(js string) (int, bool) { return matchSSEPayload(js, sizes, errMode) })
}

// isErrBlob recognises what handler.Server.ServeHTTP writes when it recovers a
// panic of the transport (a payload that cannot be encoded): a bare GraphQL
// error object - `{"errors":[{"message":...}],"data":null}` - and nothing else.
func isErrBlob(b string) bool {
	if !json.Valid([]byte(b)) {
		return false
	}
	var r map[string]json.RawMessage
	if json.Unmarshal([]byte(b), &r) != nil || len(r) != 2 || string(r["data"]) != "null" {
		return false
	}
	var errs []struct {
		Message string `json:"message"`
	}
	return json.Unmarshal(r["errors"], &errs) == nil && len(errs) == 1 && errs[0].Message != ""
}

// tokSSEWith is tokSSE with the payload oracle as a parameter: match says
// which of the stream's payloads (1, 2, ...) the JSON of a `next` event is.
// The bytes after the last blank line may be exactly the error object of a
// recovered panic (token errblob).
func tokSSEWith(data []byte, cut bool, match func(js string) (int, bool)) []Tok {
	var out []Tok
	add := func(t Tok) {
		if n := len(out); n > 0 && out[n-1].K == t.K && (t.K == "ping" || t.K == "bad") {
			return // runs of pings / of unparseable blocks are one token
		}
		out = append(out, t)
	}
	p := 0
	for p < len(data) {
		j := bytes.Index(data[p:], []byte("\n\n"))
		if j < 0 {
			if isErrBlob(string(data[p:])) {
				add(tok("errblob"))
			} else if !cut {
				t := tok("bad")
				t.Raw = "unterminated: " + excerpt(data[p:], 120)
				add(t)
			}
			break
		}
		blk := string(data[p : p+j])
		p += j + 2
		switch {
		case blk == ":":
			add(tok("pre"))
		case blk == ": ping":
			add(tok("ping"))
		case blk == "event: complete":
			add(tok("complete"))
		case strings.HasPrefix(blk, "event: next\ndata: ") && !strings.Contains(blk[len("event: next\ndata: "):], "\n"):
			js := blk[len("event: next\ndata: "):]
			id, ok := match(js)
			if ok {
				t := tok("next")
				t.ID = id
				add(t)
			} else {
				t := tok("bad")
				t.Raw = "next event with a payload nobody produced: " + excerpt([]byte(js), 160)
				add(t)
			}
		default:
			t := tok("bad")
			t.Raw = excerpt([]byte(blk), 160)
			add(t)
		}
	}
	return out
}

func matchSSEPayload(js string, sizes []int, errMode bool) (int, bool) {
	if !json.Valid([]byte(js)) {
		return 0, false
	}
	if errMode {
		var r struct {
			Errors []struct {
				Message string `json:"message"`
			} `json:"errors"`
			Data json.RawMessage `json:"data"`
		}
		if json.Unmarshal([]byte(js), &r) == nil && len(r.Errors) > 0 && (r.Data == nil || string(r.Data) == "null") {
			return 1, true
		}
		return 0, false
	}
	var r struct {
		Data struct {
			N *int `json:"n"`
		} `json:"data"`
	}
	if json.Unmarshal([]byte(js), &r) != nil || r.Data.N == nil {
		return 0, false
	}
	id := *r.Data.N
	if id < 1 || id > len(sizes) {
		return 0, false
	}
	return id, js == `{"data":`+dataJSON(id, sizes[id-1])+`}`
}

// tokMM tokenises a multipart/mixed body strictly, line by line (the JSON
// the transport writes never contains a raw CR or LF): delimiter line,
// header block (exactly Content-Type: application/json + blank line), JSON
// line of the initial payload / of an incremental batch, closing delimiter.
func tokMM(data []byte, boundary string, n int, sizes []int, cut bool) []Tok {
	return tokMMWith(data, boundary, cut, func(ln string) (Tok, bool) { return matchMMPayload(ln, n, sizes) })
}

// tokMMWith is tokMM with the payload oracle as a parameter: match turns the
// JSON line of a part into an init / incr token (ids = which payloads). An
// unterminated last line may be exactly the error object of a recovered
// panic (token errblob).
func tokMMWith(data []byte, boundary string, cut bool, match func(ln string) (Tok, bool)) []Tok {
	var out []Tok
	add := func(t Tok) {
		if m := len(out); m > 0 && out[m-1].K == "bad" && t.K == "bad" {
			return
		}
		out = append(out, t)
	}
	lines := strings.Split(string(data), "\r\n")
	// the body ends with CRLF: the last element is "" - or an unterminated line
	last := lines[len(lines)-1]
	lines = lines[:len(lines)-1]
	for i := 0; i < len(lines); i++ {
		ln := lines[i]
		switch {
		case ln == "--"+boundary:
			add(tok("bnd"))
		case ln == "--"+boundary+"--":
			add(tok("close"))
		case ln == "Content-Type: application/json":
			if i+1 < len(lines) && lines[i+1] == "" {
				add(tok("hdr"))
				i++
			} else if i+1 >= len(lines) && cut {
				// header block cut in the middle
			} else {
				t := tok("bad")
				t.Raw = "header line not followed by a blank line: " + excerpt([]byte(ln), 80)
				add(t)
			}
		default:
			if t, ok := match(ln); ok {
				add(t)
			} else {
				t := tok("bad")
				t.Raw = excerpt([]byte(ln), 200)
				add(t)
			}
		}
	}
	if isErrBlob(last) {
		add(tok("errblob"))
	} else if last != "" && !cut {
		t := tok("bad")
		t.Raw = "unterminated: " + excerpt([]byte(last), 120)
		add(t)
	}
	return out
}

type mmItem struct {
	Data    json.RawMessage `json:"data"`
	Label   string          `json:"label"`
	Path    []any           `json:"path"`
	HasNext *bool           `json:"hasNext"`
}

func matchMMPayload(ln string, n int, sizes []int) (Tok, bool) {
	if !json.Valid([]byte(ln)) {
		return Tok{}, false
	}
	size := func(id int) int {
		if id < len(sizes) {
			return sizes[id]
		}
		return 8
	}
	hn := func(b bool) string {
		if b {
			return "t"
		}
		return "f"
	}
	var probe map[string]json.RawMessage
	if json.Unmarshal([]byte(ln), &probe) != nil {
		return Tok{}, false
	}
	if inc, ok := probe["incremental"]; ok {
		var items []mmItem
		var outer struct {
			HasNext *bool `json:"hasNext"`
		}
		if json.Unmarshal(inc, &items) != nil || json.Unmarshal([]byte(ln), &outer) != nil || outer.HasNext == nil || len(probe) != 2 {
			return Tok{}, false
		}
		t := tok("incr")
		t.HN = hn(*outer.HasNext)
		for _, it := range items {
			var d struct {
				N *int `json:"n"`
			}
			if json.Unmarshal(it.Data, &d) != nil || d.N == nil {
				return Tok{}, false
			}
			id := *d.N
			if id < 1 || string(it.Data) != dataJSON(id, size(id)) || it.Label != "L"+strconv.Itoa(id) ||
				len(it.Path) != 2 || it.Path[0] != "q" || it.Path[1] != float64(id) ||
				it.HasNext == nil || *it.HasNext != (id < n) {
				return Tok{}, false
			}
			t.IDs = append(t.IDs, id)
		}
		return t, true
	}
	var first struct {
		Data    json.RawMessage `json:"data"`
		HasNext *bool           `json:"hasNext"`
	}
	if json.Unmarshal([]byte(ln), &first) != nil || first.HasNext == nil || len(probe) != 2 || string(first.Data) != dataJSON(0, size(0)) {
		return Tok{}, false
	}
	t := tok("init")
	t.IDs = []int{0}
	t.HN = hn(*first.HasNext)
	return t, true
}

// mimeOpinion parses the same body with mime/multipart: number of parts,
// whether every part is application/json holding valid JSON, and whether the
// closing delimiter was found.
func mimeOpinion(contentType string, data []byte) (parts int, closed bool, problem string) {
	mt, params, err := mime.ParseMediaType(contentType)
	if err != nil || mt != "multipart/mixed" || params["boundary"] == "" {
		return 0, false, "Content-Type is not multipart/mixed with a boundary: " + contentType
	}
	mr := multipart.NewReader(bytes.NewReader(data), params["boundary"])
	for {
		p, err := mr.NextPart()
		if err == io.EOF {
			return parts, true, ""
		}
		if err != nil {
			return parts, false, "mime/multipart: " + err.Error()
		}
		body, err := io.ReadAll(p)
		if err != nil {
			return parts, false, "mime/multipart part body: " + err.Error()
		}
		if ct := p.Header.Get("Content-Type"); ct != "application/json" {
			return parts, false, "part Content-Type " + ct
		}
		if !json.Valid(body) {
			return parts, false, "part body is not valid JSON: " + excerpt(body, 120)
		}
		parts++
	}
}
