package main

// Phase H: HISTORIES of streamed requests on one handler.
//
// A history is a sequence of requests served one after the other by the SAME
// server process (fresh for every history: position 1 = a fresh handler). The
// first request, A, yields a payload whose serialization fails at position k -
// Response.Data that is not JSON (mode raw) or an extension value whose
// MarshalJSON errors (mode ext) - for every k, over SSE (with and without
// keep-alive pings) and multipart/mixed; the requests after it, B1 B2 ..., are
// ordinary streams of both transports. Stream.tla says what A's stream is as
// the code serves it today (SSE: MEncodeFail .. MBlobEnd; multipart since
// a4760cc: Add panics on the handler goroutine, the deferred Done flushes what
// is pending, then the recovered panic's error object) and - the property -
// that every later request is a behaviour of a FRESH handler:
// StreamTrace's Reset line of a later request keeps only what Stream says a
// handler keeps between requests, which is nothing.
//
// Two kinds of server child: the race-enabled one with all processors, and a
// plain build confined to ONE processor (GOMAXPROCS=1), where whatever one
// request leaves in per-P caches (sync.Pool) is what the next request finds -
// deterministically (the race build drops pooled objects at random).

import (
	"fmt"
	"math/rand"
	"os"
	"path/filepath"
	"sync"
	"time"

	"verifharness/vlib"
)

const (
	keyMMCrash   = "mm:server-crash-unencodable-payload-in-ticker-flush"
	keyHistStale = "history:later-request-carries-residue-of-failed-serialization"
)

type history struct {
	ID    string
	Steps []*Scenario
	// TickerFlush: A is shaped so that - were the payload encoded in flush, as before a4760cc - the
	// aggregator's TICKER goroutine would meet the payload that cannot be encoded (process death);
	// the other multipart shapes would leave it to Done's flush on the handler goroutine
	TickerFlush bool
}

var (
	plainOnce sync.Once
	plainBin  string
)

// plainServer builds the plain (not race-enabled) server once per run.
func plainServer() string {
	plainOnce.Do(func() { plainBin = buildPlainServer() })
	return plainBin
}

func buildPlainServer() string {
	bin := vlib.Work("bin", "c12srv-plain")
	_ = os.MkdirAll(filepath.Dir(bin), 0o755)
	out, err := vlib.RunCmd(vlib.Harness(), vlib.GoEnv(), 15*time.Minute, "go", "build", "-o", bin, "./c12srv")
	if err != nil {
		vlib.Infra("cannot build the server (does %s still compile?): %v\n%s", vlib.Repo(), err, out)
	}
	return bin
}

// histories enumerates the histories of one run; tag distinguishes the two server kinds.
func histories(seed int64, thorough bool, tag string) []*history {
	r := rand.New(rand.NewSource(seed*104729 + 77))
	var out []*history
	reps := 1
	if thorough {
		reps = 6
	}
	nid := 0
	mk := func(h *history, s *Scenario) {
		nid++
		s.ID = fmt.Sprintf("h%s%d-%d", tag, seed, nid)
		s.Hist = h.ID
		s.CutAt = -1
		if s.Sizes == nil {
			s.Sizes = []int{}
		}
		if s.DelaysNs == nil {
			s.DelaysNs = []int64{}
		}
		h.Steps = append(h.Steps, s)
	}
	// the ordinary requests that follow A: both transports, event / batch shapes that differ
	later := func(h *history, mmIv int64) {
		n1, n2 := 1+r.Intn(3), 1+r.Intn(2)
		mk(h, &Scenario{Class: "hist-later", Kind: "sse", N: n1, Sizes: pickSizes(r, n1, false), DelaysNs: make([]int64, n1)})
		mk(h, &Scenario{Class: "hist-later", Kind: "mm", IntervalNs: mmIv, N: n2, Sizes: pickSizes(r, n2+1, false), DelaysNs: make([]int64, n2+1)})
		mk(h, &Scenario{Class: "hist-later", Kind: "sse", IntervalNs: int64(100_000 + r.Intn(400_000)), N: 2, Sizes: pickSizes(r, 2, false),
			DelaysNs: []int64{int64(r.Intn(600_000)), int64(r.Intn(600_000))}})
	}
	hn := 0
	newH := func(what string) *history {
		hn++
		h := &history{ID: fmt.Sprintf("H%s%d-%d-%s", tag, seed, hn, what)}
		out = append(out, h)
		return h
	}
	for rep := 0; rep < reps; rep++ {
		for _, mode := range []string{"raw", "ext"} {
			// SSE: n = 3, the k-th payload cannot be encoded, k = 1..3; without and with keep-alive pings
			for k := 1; k <= 3; k++ {
				iv := int64(0)
				if (k+rep)%2 == 0 {
					iv = int64(150_000 + r.Intn(300_000))
				}
				h := newH(fmt.Sprintf("sse-fail%d-%s", k, mode))
				mk(h, &Scenario{Class: "hist-fail", Kind: "sse", IntervalNs: iv, N: 3, Sizes: pickSizes(r, 3, false),
					DelaysNs: []int64{int64(r.Intn(400_000)), int64(r.Intn(400_000)), int64(r.Intn(400_000))}, FailAt: k, FailMode: mode})
				later(h, 1_000_000)
			}
			// multipart: n = 2 incremental payloads, position k = 1 (the initial payload) .. 3. The payloads
			// before position k are spaced (the ticker flushes them, each part alone or batched); the
			// payload at position k follows a flush interval later (before a4760cc: from position k on
			// everything at once and the source ends, so that Done's flush met the payload).
			const mmIv = 20_000_000
			for k := 1; k <= 3; k++ {
				d := make([]int64, 3)
				for i := 0; i < k-1; i++ {
					d[i] = []int64{0, mmIv + mmIv/4}[r.Intn(2)]
				}
				if k > 1 {
					d[k-1] = mmIv + mmIv/4 // what came before has been flushed
				}
				h := newH(fmt.Sprintf("mm-fail%d-%s", k, mode))
				mk(h, &Scenario{Class: "hist-fail", Kind: "mm", IntervalNs: mmIv, N: 2, Sizes: pickSizes(r, 3, false), DelaysNs: d, FailAt: k, FailMode: mode})
				later(h, mmIv)
			}
		}
		// multipart with a 1 ms flush interval, everything up to position k at once, and a source that would pause
		// for several intervals right after the payload that cannot be encoded (before a4760cc: the TICKER
		// goroutine's flush met it - the regression this shape is kept for; now Add fails before the pause)
		for _, k := range []int{1, 2, 3} {
			d := make([]int64, 3)
			if k < 3 {
				d[k] = 8_000_000
			}
			h := newH(fmt.Sprintf("mm-fail%d-tickerflush", k))
			h.TickerFlush = true
			mk(h, &Scenario{Class: "hist-fail-tickerflush", Kind: "mm", IntervalNs: 1_000_000, N: 2, Sizes: pickSizes(r, 3, false), DelaysNs: d,
				FailAt: k, FailMode: []string{"raw", "ext"}[(k+rep)%2]})
			later(h, 1_000_000)
		}
	}
	return out
}

// runHistories serves the histories one after the other on one child; every history starts with a
// fresh server process. Pos is the number of the request on the process that served it (a process
// that died is replaced: the next request is again a first one).
func runHistories(k *child, hs []*history, server string) {
	// a stream that ended with its terminating chunk was served by a live process; one that dies later
	// (a goroutine of the transport outliving the handler) is noticed before the next request at the latest
	k.grace = 20 * time.Millisecond
	for _, h := range hs {
		k.stop()
		pos := 1
		var prev *Scenario
		for _, s := range h.Steps {
			if prev != nil && !prev.Crashed {
				if d, se := k.died(2 * time.Millisecond); d {
					prev.Crashed, prev.Stderr = true, se
					pos = 1
				}
			}
			prev = s
			s.Pos, s.Server = pos, server
			starts := k.starts
			k.run(s)
			if k.starts > starts+1 || (k.starts == starts+1 && pos > 1) {
				// the process was replaced before this request was served (it had died unnoticed)
				s.Pos = 1
				pos = 1
			}
			if s.Crashed {
				pos = 1
			} else {
				pos++
			}
		}
		if prev != nil && !prev.Crashed {
			if d, se := k.died(60 * time.Millisecond); d {
				prev.Crashed, prev.Stderr = true, se
			}
		}
	}
	k.stop()
}
