// C12: streamed HTTP responses (SSE, multipart/mixed) are well-framed under any timing.
//
//  1. TLC checks spec/Stream.tla: the repaired design (all invariants +
//     liveness, payload counts 0..MaxN x all interleavings of producer, ticks,
//     flushes, client disconnects), and the model of the pinned sse.go, for
//     which it must produce the counterexamples of DESIGN section 7 #8 / #16.
//  2. (B) A race-enabled child process runs the REAL handler.Server with the
//     real transport.SSE / transport.MultipartMixed over net/http; payload
//     production follows seeded schedules, keep-alive / flush intervals sweep
//     1 microsecond .. 10 ms, clients disconnect after k bytes. The raw bytes
//     are tokenised by the strict parsers of parse.go (and mime/multipart)
//     and TLC decides whether each token sequence is a behaviour of
//     StreamTrace (strict = the property; then the deviation-tolerant
//     configurations, to name a known deviation and keep checking the rest).
//     Race detector reports, server crashes, handlers or goroutines that do
//     not end are observed directly.
//  3. (A) The schedules of TLC's counterexamples (tick while an event is being
//     written; tick as the handler returns) are aimed at statistically.
//  4. (H, hist.go) Histories of requests on one handler: a request whose k-th
//     payload cannot be serialized, then ordinary requests - each of them must be
//     a behaviour of a FRESH handler (Stream.tla: NextRequest / carry).
//  5. (G, gen.go) `@defer` queries served by GENERATED code over the real
//     multipart/mixed and SSE transports, deferred groups gated so that several
//     payloads are pending in one aggregator flush, or each alone in its own.
package main

import (
	"encoding/json"
	"fmt"
	"os"
	"regexp"
	"sort"
	"strings"
	"sync"
	"time"

	"verifharness/vlib"
)

const (
	keyRaceWrite  = "sse:keepalive-write-concurrent-with-handler-write"
	keySplice     = "sse:ping-spliced-into-stream"
	keyLatePing   = "sse:ping-after-complete"
	keyRaceFinish = "sse:keepalive-uses-responsewriter-after-handler-returned"
	keyCrash      = "sse:server-crash-keepalive-write-after-handler-returned"
	keyStuck      = "sse:keepalive-goroutine-parked-on-mutex-forever"
	// round 4: payloads produced after a server-side cancellation of the request context / `complete` not delivered
	keyDropAfterCancel = "sse:payloads-or-complete-dropped-after-server-side-cancel"
	maxDiagnosed       = 6
)

var (
	t00  = time.Now()
	laps = map[string]float64{}
)

// lap notes when a phase of the run ended (seconds since start).
func lap(name string) {
	laps[name] = float64(int(time.Since(t00).Seconds()*10)) / 10
	fmt.Fprintf(os.Stderr, "C12: %-28s done at %6.1fs\n", name, time.Since(t00).Seconds())
}

func main() {
	c := vlib.NewCheck("C12", "model_checking")
	thorough := vlib.Tier() == "thorough"
	st := &tlcStats{}

	replay, stress := os.Getenv("VERIF_REPLAY") != "", os.Getenv("C12_STRESS") != ""
	var scs, rGen []*Scenario
	var rHist []*Scenario
	if replay {
		scs, rHist, rGen = replayScenarios(os.Getenv("VERIF_REPLAY"))
	}
	doHist := !stress && (!replay || len(rHist) > 0)
	doGen := !stress && (!replay || len(rGen) > 0)

	// the generated probe servers of phase G are built while TLC runs
	type built struct {
		bins map[string]string
		vs   []vlib.Variant
	}
	genBuilt := make(chan built, 1)
	if doGen {
		go func() {
			vs := genVariants(thorough)
			if replay {
				// only the layout the recorded stream was served by
				var one []vlib.Variant
				for _, v := range genVariants(true) {
					if v.ID() == rGen[0].Gen.Variant {
						one = append(one, v)
					}
				}
				vs = one
			}
			bins := genBuild(vs)
			fmt.Fprintf(os.Stderr, "C12: %-28s done at %6.1fs\n", "build of generated probes", time.Since(t00).Seconds())
			genBuilt <- built{bins, vs}
		}()
	}

	cex := modelChecks(c, thorough)
	lap("model checks")
	selfTest(st)
	lap("trace self-test")

	bin := buildServer()
	lap("build of c12srv (race)")
	if !replay {
		scs = scenarios(vlib.Seed(), thorough)
	}

	// (B) the sweep: a few children side by side, one stream per child at a
	// time. Streams with keep-alive pings get children of their own, so that
	// nothing the keepAlive goroutine does after its handler returned (known
	// deviation) can touch a stream of the strictly judged classes.
	var kids []*child
	var wg sync.WaitGroup
	pool := func(name string, n int, part []*Scenario, env ...string) {
		ch := make(chan *Scenario, len(part))
		for _, s := range part {
			ch <- s
		}
		close(ch)
		for i := 0; i < n; i++ {
			k := newChild(fmt.Sprintf("%s%d", name, i), bin)
			k.env = env
			kids = append(kids, k)
			wg.Add(1)
			go func() {
				defer wg.Done()
				for s := range ch {
					k.run(s)
				}
				k.stop()
			}()
		}
	}
	// (H) histories run beside the sweeps, on two children of their own: the race-enabled server with all
	// processors and a plain build on ONE processor
	var hists []*history
	var hkids []*child
	histDone := make(chan struct{})
	if doHist {
		go func() {
			defer close(histDone)
			plain := plainServer()
			var hr, hp []*history
			if replay {
				hr, hp = replayHistories(rHist, "r", 8), replayHistories(rHist, "p", 8)
			} else {
				hr, hp = histories(vlib.Seed(), thorough, "r"), histories(vlib.Seed(), thorough, "p")
			}
			kr, kp := newChild("hist-race", bin), newChild("hist-plain1p", plain)
			kp.env = []string{"GOMAXPROCS=1"}
			// a fresh process per history: do not let the race runtime sleep a second at every exit (all
			// streams of the history are over and the transport's goroutines have ended - run() waits for that)
			kr.gorace = "atexit_sleep_ms=30"
			hkids = []*child{kr, kp}
			var hw sync.WaitGroup
			hw.Add(2)
			go func() { defer hw.Done(); runHistories(kr, hr, "race") }()
			go func() { defer hw.Done(); runHistories(kp, hp, "plain-1p") }()
			hw.Wait()
			hists = append(hr, hp...)
			fmt.Fprintf(os.Stderr, "C12: %-28s done at %6.1fs\n", "phase H (histories)", time.Since(t00).Seconds())
		}()
	} else {
		close(histDone)
	}
	var withKA, others, oneP []*Scenario
	for _, s := range scs {
		if s.OneP {
			oneP = append(oneP, s)
		} else if s.ka() {
			withKA = append(withKA, s)
		} else {
			others = append(others, s)
		}
	}
	// (D) server-side cancellation: the same scenarios once more on a PLAIN build confined to one processor
	// (the race-enabled children of the pools serve the originals)
	var dlPlain []*Scenario
	var dlKid *child
	dlDone := make(chan struct{})
	go func() {
		defer close(dlDone)
		for _, s := range scs {
			if s.CancelMode != "" && !replay {
				cp := *s
				cp.ID, cp.Server = s.ID+"p", "plain-1p"
				dlPlain = append(dlPlain, &cp)
			}
		}
		if len(dlPlain) == 0 {
			return
		}
		dlKid = newChild("deadline-plain1p", plainServer())
		dlKid.env = []string{"GOMAXPROCS=1"}
		for _, s := range dlPlain {
			dlKid.run(s)
		}
		dlKid.stop()
	}()
	pool("ka", 2, withKA)
	pool("st", 2, others)
	wg.Wait()
	<-dlDone
	if dlKid != nil {
		kids = append(kids, dlKid)
	}
	scs = append(scs, dlPlain...)
	// the one-processor gate scenarios run alone: their point is who gets the processor when
	if len(oneP) > 0 {
		pool("p1", 1, oneP, "GOMAXPROCS=1")
		wg.Wait()
	}
	lap("sweeps and gate scenarios")

	// (A) aim at the counterexample schedules
	if !replay {
		more, k := targeted(c, bin, cex, thorough)
		scs = append(scs, more...)
		kids = append(kids, k...)
		lap("targeted replay")
	}

	<-histDone
	kids = append(kids, hkids...)
	for _, h := range hists {
		scs = append(scs, h.Steps...)
	}
	lap("phase H joined")
	if doGen {
		// (G) generated code over the real transports
		b := <-genBuilt
		var gs []*Scenario
		var gdirs []string
		if replay {
			gs, gdirs = genReplay(b.bins, b.vs, rGen[0], 12)
		} else {
			gs, gdirs = genPhase(b.bins, b.vs, thorough)
		}
		scs = append(scs, gs...)
		genRaces(c, gdirs)
		lap("phase G (generated @defer)")
	}

	judge(c, scs, kids, hists, st)
	lap("judging (TLC trace validation)")
	c.Set("phase_end_s", laps)
	c.AddStates(st.distinct, st.generated)
	c.Set("tlc_trace_runs", st.runs)
	c.Set("distinct_traces_decided_by_tlc", st.distinctTraces)
	c.Set("rule", "exhaustive TLC check of Stream.tla (payload counts x position of a payload that cannot be serialized x interleavings of source, writer, keep-alive ticks, flush ticks, finishRequest, client disconnect; histories of two requests on one handler); "+
		"conformance: one case = one real streamed response (transport, keep-alive/flush interval on a seeded geometric sweep 1us..10ms, payload count 0..4, payload sizes 8B..70KB, seeded production delays, optional client cut after k bytes); "+
		"phase H: one case = one request of a history served by one server process (first request: payload k of n cannot be serialized, k = every position, Data not JSON / extension not marshallable, SSE with and without keep-alive and multipart; then ordinary requests of both transports), on a race-enabled server and on a plain one confined to one processor; "+
		"server-side cancellation: one case = one SSE (keep-alive 2us..50ms and off) or multipart stream whose request context a middleware around handler.Server cancels (context.WithCancel / WithTimeout) inside the source's call k+1, k = every point of the payload sequence, client reading to EOF, the remaining payloads produced afterwards, on a race-enabled server and on a plain one confined to one processor; "+
		"phase G: one case = one @defer query served by generated code (2 generator layouts) over the real multipart/mixed or SSE transport, deferred groups gated into one flush interval or one interval each, payload lengths equal/shrinking/growing/beyond 64 bytes; "+
		"a class = (scenario class, transport, payload count, interval decade, cut or not, failing position, position in history, token shape: pings seen / batch sizes)")
	c.Assume("the Go race detector reports an unsynchronised access pair when both accesses execute in the observed run (no false positives)")
	c.Assume("net/http writes the bytes handed to ResponseWriter.Write in call order for a single writer; chunk boundaries are not part of the property")
	c.Assume("sweeps, gate replays and histories: payload JSON comes from a hand-written ExecutableSchema; phase G: from the code the tree's generator produces for harness/probes/exec (two layouts), resolvers plan-driven (harness/ur)")
	c.Assume("server-side cancellation: the point of the cancellation is the source call in which the operation first finds its context done (logged by the server child); a deadline that fired earlier than that call is modelled as firing there")
	c.Assume("a request whose payload cannot be serialized is served as the code serves it today (no `complete` / no closing boundary, a bare error object): Stream.tla models it (MEncodeFail, FlushOutFail, MBlob) instead of judging it")
	c.Finish()
}

// ---------------------------------------------------------------- model checks

type cexSet map[string][]string // invariant -> action sequence of TLC's counterexample

func modelChecks(c *vlib.Check, thorough bool) cexSet {
	maxN, maxTicks := 3, 2
	if thorough {
		maxN, maxTicks = 4, 4
	}
	edit := func(cfg string) string {
		cfg = strings.Replace(cfg, "MaxN = 3", fmt.Sprintf("MaxN = %d", maxN), 1)
		cfg = strings.Replace(cfg, "MaxTicks = 2", fmt.Sprintf("MaxTicks = %d", maxTicks), 1)
		return cfg
	}
	res, err := vlib.RunTLC(vlib.TLCOpts{Module: "Stream", Config: "MC_Stream.cfg", Workers: 4, CfgEdit: edit, Coverage: thorough,
		Scratch: vlib.Work("C12", "mc"), Timeout: 15 * time.Minute})
	if err != nil {
		vlib.Infra("tlc: %v", err)
	}
	if !res.OK {
		vlib.Infra("Stream.tla (repaired design) fails its own model check - a specification error, not a verdict on the code:\n%s", res.Violation)
	}
	c.AddStates(res.Distinct, res.Generated)
	c.Set("mc_repaired", map[string]any{"MaxN": maxN, "MaxTicks": maxTicks, "distinct": res.Distinct, "generated": res.Generated, "depth": res.Depth, "wall_s": res.WallS})
	if thorough {
		var zero []string
		for _, a := range []string{"MWriteBegin", "MWriteEnd", "MFlushBegin", "MFlushEnd", "MStartKA", "MRecv", "MRecvNil", "MReset", "MClose", "Tick",
			"MEncodeFail", "MPanicClose", "MPFlushBegin", "MPFlushEnd", "MBlobBegin", "MBlobEnd",
			"KPingBegin", "KPingEnd", "KFlushBegin", "KFlushEnd", "KStop", "ServerCancel", "FinBegin", "FinEnd", "Disconnect", "Deadline",
			"MMRecvAdd", "MMRecvNil", "MMDoneSig", "MMDoneFlush", "MMTick", "MMFlushTick", "MMTickerStop"} {
			if res.ActionCount[a] == 0 {
				zero = append(zero, a)
			}
		}
		if len(zero) > 0 {
			vlib.Infra("vacuous model check: actions never taken: %v", zero)
		}
	}

	// The small runs - deviating designs TLC must refute, and what must still hold in them - go side by
	// side, one worker each, at most four at a time.
	out := cexSet{}
	var omu sync.Mutex
	type job struct {
		name, cfg string
		edit      func(string) string
		mustFail  string // the invariant TLC must report as violated ("" = the run must pass)
		what      string // for the message when the expectation is not met
		cexKey    string
		cover     bool
		after     func(r *vlib.TLCResult)
	}
	reInv := regexp.MustCompile(`(?m)^INVARIANTS .*$`)
	hedit := func(cfg string) string {
		if thorough {
			cfg = strings.Replace(cfg, "\n  MaxN = 2", "\n  MaxN = 3", 1)
			cfg = strings.Replace(cfg, "\n  FailSet = {0, 1, 2, 3}", "\n  FailSet = {0, 1, 2, 3, 4}", 1)
		}
		return cfg
	}
	var jobs []job
	// the pinned sse.go: TLC must find each counterexample
	for _, inv := range []string{"NoRace", "NoSplice", "CompleteLast", "NoUseAfterFinish"} {
		inv := inv
		jobs = append(jobs, job{name: "mc-cur-" + inv, cfg: "MC_Stream_cur.cfg", mustFail: inv, cexKey: inv,
			edit: func(cfg string) string { return strings.Replace(cfg, "INVARIANT NoSplice", "INVARIANT "+inv, 1) },
			what: "the model of the pinned sse.go (LockWrites = StopKA = FALSE)"})
	}
	// holding mu around write + flush alone removes the splice (stopping the keep-alive
	// writer WITHOUT the lock does not remove the use-after-finish: a ping begun before
	// `complete` still flushes after net/http finished the request - TLC shows it -
	// so the repair needs both)
	jobs = append(jobs, job{name: "mc-half-NoSplice", cfg: "MC_Stream_cur.cfg", what: "the half-repaired model (LockWrites only), NoSplice",
		edit: func(cfg string) string {
			return strings.Replace(cfg, "LockWrites = FALSE", "LockWrites = TRUE", 1)
		}})
	// the half-repaired design (complete and closed in two critical sections): CompleteLast must be
	// refuted, everything else must hold - the model tells the three designs apart
	jobs = append(jobs, job{name: "mc-split-CompleteLast", cfg: "MC_Stream_split.cfg", mustFail: "CompleteLast", cexKey: "CompleteLast(split-close)",
		what: "the split-close design (CloseAtomic = FALSE)"})
	jobs = append(jobs, job{name: "mc-split-rest", cfg: "MC_Stream_split.cfg", what: "the split-close design, everything but CompleteLast",
		edit: func(cfg string) string {
			return strings.Replace(cfg, "INVARIANT CompleteLast", "INVARIANTS TypeOK NoRace NoSplice NoUseAfterFinish InOrder PreFirst SseFailed NoGarbage", 1)
		}})
	// multipart, one payload cannot be encoded. As the code is since a4760cc (encoded in Add, Done waits for the
	// ticker goroutine) everything holds, NoCrash and MmTickerStoppedAtReturn included. Regression of the SPEC: the
	// design before (encoded only in flush) must still be refuted on exactly those two, the rest must hold.
	pinnedMM := func(inv string) func(string) string {
		return func(cfg string) string {
			cfg = strings.Replace(cfg, "\n  MmEncodeInAdd = TRUE", "\n  MmEncodeInAdd = FALSE", 1)
			return reInv.ReplaceAllString(cfg, inv)
		}
	}
	jobs = append(jobs, job{name: "mc-mmfail", cfg: "MC_Stream_mmfail.cfg", what: "multipart as the code is (a4760cc) with a payload that cannot be encoded"})
	jobs = append(jobs, job{name: "mc-mmfail-old-NoCrash", cfg: "MC_Stream_mmfail.cfg", mustFail: "NoCrash", cexKey: "NoCrash(multipart before a4760cc, payload that cannot be encoded)",
		edit: pinnedMM("INVARIANT NoCrash"), what: "multipart before a4760cc (MmEncodeInAdd = FALSE)"})
	jobs = append(jobs, job{name: "mc-mmfail-old-TickerStopped", cfg: "MC_Stream_mmfail.cfg", mustFail: "MmTickerStoppedAtReturn", cexKey: "MmTickerStoppedAtReturn(multipart before a4760cc)",
		edit: pinnedMM("INVARIANT MmTickerStoppedAtReturn"), what: "multipart before a4760cc (MmEncodeInAdd = FALSE)"})
	jobs = append(jobs, job{name: "mc-mmfail-old-rest", cfg: "MC_Stream_mmfail.cfg", what: "multipart before a4760cc, everything but NoCrash / MmTickerStoppedAtReturn",
		edit: pinnedMM("INVARIANTS TypeOK MmFramed MmOrder MmNoEmpty MmComplete MmFailed NoGarbage")})
	// HISTORIES: two requests on one handler. The code as it is shares nothing between requests: every
	// per-stream invariant holds in every request + NoGarbage. The deviating design SharedBuf must be refuted.
	jobs = append(jobs, job{name: "mc-hist", cfg: "MC_StreamHist.cfg", edit: hedit, cover: thorough, what: "Stream.tla, histories of two requests, the code as it is",
		after: func(hh *vlib.TLCResult) {
			if thorough && hh.ActionCount["NextRequest"] == 0 {
				vlib.Infra("vacuous model check: NextRequest never taken in MC_StreamHist.cfg")
			}
			c.Set("mc_histories", map[string]any{"requests": 2, "distinct": hh.Distinct, "generated": hh.Generated, "depth": hh.Depth, "wall_s": hh.WallS})
		}})
	jobs = append(jobs, job{name: "mc-hist-shared", cfg: "MC_StreamHist.cfg", mustFail: "NoGarbage", cexKey: "NoGarbage(shared scratch buffer)",
		what: "the design with serialization scratch shared between requests (SharedBuf = TRUE)",
		edit: func(cfg string) string {
			cfg = strings.Replace(cfg, "\n  SharedBuf = FALSE", "\n  SharedBuf = TRUE", 1)
			return reInv.ReplaceAllString(cfg, "INVARIANT NoGarbage")
		}})
	// SERVER-SIDE cancellation (round 4): the deviating design in which keepAlive's ctx.Done branch marks the
	// connection closed must lose payloads / `complete` (SseComplete refuted) and nothing else; without
	// keep-alive pings the goroutine does not exist and the switch changes nothing
	kaRest := "INVARIANTS TypeOK NoRace NoUseAfterFinish NoSplice PreFirst InOrder CompleteLast PingsOnlyIfConfigured NoGarbage"
	jobs = append(jobs, job{name: "mc-kaclose-SseComplete", cfg: "MC_Stream_kaclose.cfg", mustFail: "SseComplete", cexKey: "SseComplete(keepAlive closes the connection on ctx.Done, server-side cancellation)",
		what: "the design in which keepAlive closes the connection on ctx.Done (KACloseOnDone = TRUE)"})
	jobs = append(jobs, job{name: "mc-kaclose-rest", cfg: "MC_Stream_kaclose.cfg", what: "the KACloseOnDone design, everything but SseComplete",
		edit: func(cfg string) string { return strings.Replace(cfg, "INVARIANT SseComplete", kaRest, 1) }})
	jobs = append(jobs, job{name: "mc-kaclose-noka", cfg: "MC_Stream_kaclose.cfg", what: "the KACloseOnDone design without keep-alive pings (no keepAlive goroutine)",
		edit: func(cfg string) string {
			return strings.Replace(strings.Replace(cfg, "\n  KASet = {TRUE}", "\n  KASet = {FALSE}", 1), "INVARIANT SseComplete", kaRest+" SseComplete", 1)
		}})
	sem := make(chan struct{}, 4)
	var jw sync.WaitGroup
	for _, j := range jobs {
		j := j
		jw.Add(1)
		go func() {
			defer jw.Done()
			sem <- struct{}{}
			defer func() { <-sem }()
			r, err := vlib.RunTLC(vlib.TLCOpts{Module: "Stream", Config: j.cfg, Workers: 1, CfgEdit: j.edit, Coverage: j.cover,
				Scratch: vlib.Work("C12", j.name), Timeout: 15 * time.Minute})
			if err != nil {
				vlib.Infra("tlc (%s): %v", j.name, err)
			}
			if j.mustFail != "" {
				if r.OK || !strings.Contains(r.Output, "Invariant "+j.mustFail+" is violated") {
					vlib.Infra("specification regression: %s no longer violates %s:\n%s", j.what, j.mustFail, tailStr(r.Output, 1500))
				}
				omu.Lock()
				out[j.cexKey] = counterexample(r.Output)
				omu.Unlock()
			} else if !r.OK {
				vlib.Infra("specification regression: %s fails its model check (a specification error, not a verdict on the code):\n%s", j.what, r.Violation)
			}
			c.AddStates(r.Distinct, r.Generated)
			if j.after != nil {
				j.after(r)
			}
		}()
	}
	jw.Wait()
	c.Set("tlc_counterexamples_deviating_designs", out)
	return out
}

// selfTest demonstrates the binding of StreamTrace: hand-made correct traces
// must be accepted and each corruption of them rejected by the strict
// configuration (else the trace specification decides nothing).
func selfTest(st *tlcStats) {
	T := func(k string, id int, ids []int, hn string) Tok {
		if ids == nil {
			ids = []int{}
		}
		return Tok{K: k, ID: id, IDs: ids, HN: hn}
	}
	mk := func(kind string, n int, ka bool, eof string, produced int, toks ...Tok) *Scenario {
		s := &Scenario{Kind: kind, N: n, CutAt: -1, Toks: toks, EOF: eof}
		if ka {
			s.IntervalNs = 1000
		}
		for i := 0; i < produced; i++ {
			s.Produced = append(s.Produced, i)
		}
		return s
	}
	pre, ping, cpl := T("pre", 0, nil, "-"), T("ping", 0, nil, "-"), T("complete", 0, nil, "-")
	nx := func(i int) Tok { return T("next", i, nil, "-") }
	bnd, hdr, cls := T("bnd", 0, nil, "-"), T("hdr", 0, nil, "-"), T("close", 0, nil, "-")
	ini := func(hn string) Tok { return T("init", 0, []int{0}, hn) }
	inc := func(hn string, ids ...int) Tok { return T("incr", 0, ids, hn) }
	good := []*Scenario{
		mk("sse", 2, true, "clean", 2, pre, ping, nx(1), nx(2), ping, cpl),
		mk("sse", 0, false, "clean", 0, pre, cpl),
		mk("mm", 2, false, "clean", 3, bnd, hdr, ini("t"), bnd, hdr, inc("f", 1, 2), cls),
		mk("mm", 2, false, "clean", 3, bnd, hdr, ini("t"), bnd, hdr, inc("t", 1), bnd, hdr, inc("f", 2), cls),
		mk("mm", 0, false, "clean", 1, bnd, hdr, ini("f"), cls),
	}
	bad := []*Scenario{
		mk("sse", 2, true, "clean", 2, pre, nx(2), nx(1), cpl),                                             // order
		mk("sse", 2, true, "clean", 2, pre, nx(1), nx(1), nx(2), cpl),                                      // duplicate
		mk("sse", 2, true, "clean", 2, pre, nx(1), cpl),                                                    // lost payload
		mk("sse", 1, true, "clean", 1, pre, nx(1)),                                                         // no complete
		mk("sse", 1, true, "clean", 1, pre, nx(1), cpl, ping),                                              // ping after complete
		mk("sse", 1, true, "clean", 1, pre, nx(1), cpl, cpl),                                               // two completes
		mk("sse", 1, true, "clean", 1, pre, T("bad", 0, nil, "-"), cpl),                                    // spliced
		mk("sse", 1, false, "clean", 1, pre, ping, nx(1), cpl),                                             // ping without keep-alive
		mk("sse", 1, true, "clean", 1, nx(1), cpl),                                                         // no preamble
		mk("mm", 1, false, "clean", 2, bnd, hdr, ini("t"), bnd, hdr, inc("f", 1)),                          // no closing boundary
		mk("mm", 1, false, "clean", 2, bnd, hdr, ini("t"), bnd, hdr, inc("f", 1), cls, cls),                // two closing boundaries
		mk("mm", 1, false, "clean", 2, bnd, hdr, ini("f"), bnd, hdr, inc("f", 1), cls),                     // hasNext:false on a non-last part
		mk("mm", 2, false, "clean", 3, bnd, hdr, ini("t"), bnd, hdr, inc("f", 2), cls),                     // payload lost
		mk("mm", 2, false, "clean", 3, bnd, hdr, ini("t"), bnd, hdr, inc("f", 2, 1), cls),                  // reordered
		mk("mm", 1, false, "clean", 2, bnd, hdr, ini("t"), bnd, hdr, inc("t", 1), cls),                     // hasNext:true before the closing boundary
		mk("mm", 1, false, "clean", 2, bnd, hdr, ini("t"), bnd, hdr, inc("t"), bnd, hdr, inc("f", 1), cls), // empty incremental part
		mk("mm", 0, false, "clean", 1, bnd, hdr, ini("f")),                                                 // closing boundary omitted without deferred payloads
	}
	// a payload that cannot be serialized (fail = position), requests of a history (pos)
	blob := T("errblob", 0, nil, "-")
	fl := func(s *Scenario, fail, pos int) *Scenario { s.FailAt, s.Pos = fail, pos; return s }
	good = append(good,
		fl(mk("sse", 3, false, "clean", 2, pre, nx(1), blob), 2, 1),
		fl(mk("sse", 3, true, "clean", 1, pre, ping, blob), 1, 1),
		// multipart (a4760cc): Add panics on the handler goroutine, what is pending goes out with an ordinary boundary, then the error object
		fl(mk("mm", 2, false, "clean", 1, blob), 1, 1),                          // the initial payload: nothing was pending
		fl(mk("mm", 2, false, "clean", 2, bnd, hdr, ini("t"), bnd, blob), 2, 1), // the initial payload flushed by a tick or by Done
		fl(mk("mm", 2, false, "clean", 3, bnd, hdr, ini("t"), bnd, hdr, inc("t", 1), bnd, blob), 3, 1),
		fl(mk("sse", 2, false, "clean", 2, pre, nx(1), nx(2), cpl), 0, 2), // a later request of a history
	)
	bad = append(bad,
		fl(mk("sse", 3, false, "clean", 2, pre, nx(1), blob), 0, 1),                                 // an error object nobody asked for
		fl(mk("sse", 3, false, "clean", 2, pre, nx(1), nx(2), blob), 2, 1),                          // the payload that cannot be encoded was delivered
		fl(mk("sse", 3, false, "clean", 2, pre, nx(1), blob, cpl), 2, 1),                            // something after the error object
		fl(mk("sse", 3, false, "clean", 2, pre, blob), 2, 1),                                        // an earlier payload lost
		fl(mk("sse", 2, false, "clean", 2, pre, T("bad", 0, nil, "-"), nx(2), cpl), 0, 2),           // a later request with a garbled event
		fl(mk("mm", 2, false, "clean", 3, bnd, hdr, ini("t"), bnd, hdr, inc("f", 1, 2), cls), 2, 1), // delivered although it cannot be encoded
		fl(mk("mm", 2, false, "clean", 2, bnd, hdr, ini("t"), bnd, blob, cls), 2, 1),
		// the design before a4760cc (encoded inside flush: the part header is already out when it fails; the handler went on asking for payloads)
		fl(mk("mm", 2, false, "clean", 3, bnd, hdr, blob), 1, 1),
		fl(mk("mm", 2, false, "clean", 3, bnd, hdr, ini("t"), bnd, hdr, blob), 2, 1),
		fl(mk("mm", 2, false, "clean", 3, bnd, hdr, ini("t"), bnd, blob), 2, 1), // the source was asked for a payload after the one that cannot be encoded
	)
	// server-side cancellation of the request context (Deadline line; CancelSeen = payloads produced before it)
	dl := func(s *Scenario, at int) *Scenario {
		s.CancelMode, s.CancelAt, s.CancelSeen = "cancel", at, at
		return s
	}
	good = append(good,
		dl(mk("sse", 2, true, "clean", 2, pre, nx(1), ping, nx(2), cpl), 1),                                          // payload 2 produced after the cancellation: delivered, then complete
		dl(mk("sse", 2, true, "clean", 2, pre, ping, nx(1), nx(2), cpl), 0),                                          // cancelled before the first payload
		dl(mk("sse", 2, false, "clean", 2, pre, nx(1), nx(2), cpl), 2),                                               // after the last one: complete still follows
		dl(mk("sse", 2, true, "clean", 1, pre, nx(1), cpl), 1),                                                       // the source itself ended on the cancelled context: complete
		dl(mk("mm", 2, false, "clean", 3, bnd, hdr, ini("t"), bnd, hdr, inc("f", 1, 2), cls), 1),                     // multipart: batch produced after it
		dl(mk("mm", 2, false, "clean", 3, bnd, hdr, ini("t"), bnd, hdr, inc("t", 1), bnd, hdr, inc("f", 2), cls), 3), // after the last payload
		dl(mk("mm", 1, false, "clean", 2, bnd, hdr, ini("t"), bnd, hdr, inc("f", 1), cls), 0),
	)
	kaLost := dl(mk("sse", 2, true, "clean", 2, pre, nx(1)), 1) // what the KACloseOnDone design puts on the wire
	bad = append(bad,
		kaLost, // payload 2 and complete lost after the cancellation
		dl(mk("sse", 2, true, "clean", 2, pre, nx(1), nx(2)), 1),  // complete lost
		dl(mk("sse", 2, true, "clean", 2, pre, nx(1), cpl), 1),    // payload 2 (produced) lost
		dl(mk("sse", 2, false, "clean", 2, pre, nx(1), nx(2)), 2), // cancelled after the last payload: no complete
		dl(mk("sse", 2, true, "clean", 2, pre, nx(1), nx(2), cpl), 2).also(func(s *Scenario) { s.CancelSeen = 1; s.Toks = []Tok{pre, nx(2), nx(1), cpl} }), // order
		dl(mk("mm", 2, false, "clean", 3, bnd, hdr, ini("t"), bnd), 1),                                                                                     // multipart: what was produced after it is missing
		mk("sse", 2, true, "clean", 1, pre, nx(1), cpl),                                                                                                    // an early end WITHOUT a logged cancellation
	)
	if a := acceptedX([]*Scenario{kaLost, good[0]}, true, true, true, "selftest-kaclose", st, kaCloseOnDone); !a[kaLost] {
		vlib.Infra("StreamTrace self-test (KACloseOnDone): the stream that loses what follows a server-side cancellation is not a behaviour of the deviating design")
	}
	// the deviating design SharedBuf must explain exactly the garbled event of a request that FOLLOWS a failed one
	hA := fl(mk("sse", 3, false, "clean", 1, pre, blob), 1, 1)
	hB := fl(mk("sse", 2, false, "clean", 2, pre, T("bad", 0, nil, "-"), nx(2), cpl), 0, 2)
	hC := fl(mk("sse", 2, false, "clean", 2, pre, nx(1), nx(2), cpl), 0, 1)
	hD := fl(mk("sse", 2, false, "clean", 2, pre, T("bad", 0, nil, "-"), nx(2), cpl), 0, 2)
	sh := acceptedShared([][]*Scenario{{hA, hB}, {hC, hD}}, st)
	if !sh[hA] || !sh[hB] || !sh[hC] || sh[hD] {
		vlib.Infra("StreamTrace self-test (SharedBuf): accepted = A %v, B-after-failed-A %v (want true), C %v, D-after-ordinary-C %v (want false)", sh[hA], sh[hB], sh[hC], sh[hD])
	}
	all := append(append([]*Scenario{}, good...), bad...)
	acc := accepted(all, true, true, true, "selftest", st)
	for i, s := range good {
		if !acc[s] {
			vlib.Infra("StreamTrace self-test: well-formed trace %d rejected", i)
		}
	}
	for i, s := range bad {
		if acc[s] {
			vlib.Infra("StreamTrace self-test: corrupted trace %d accepted - the trace specification is too weak", i)
		}
	}
}

// replayScenarios reads the scenario a violation recorded: a plain stream (25 repetitions on the
// sweep's children), a request of a history (the whole history is served again, see
// replayHistories), or a stream of phase G (genReplay).
func replayScenarios(path string) (plain, hist, gen []*Scenario) {
	b, err := os.ReadFile(path)
	if err != nil {
		vlib.Infra("replay: %v", err)
	}
	var rec struct {
		Scenario Scenario `json:"scenario"`
	}
	if err := json.Unmarshal(b, &rec); err != nil || rec.Scenario.Kind == "" {
		vlib.Infra("replay: %s holds no scenario (%v)", path, err)
	}
	if rec.Scenario.Gen != nil {
		s := rec.Scenario
		return nil, nil, []*Scenario{&s}
	}
	if rec.Scenario.Hist != "" {
		steps := rec.Scenario.HistSteps
		if len(steps) == 0 {
			s := rec.Scenario
			steps = []*Scenario{&s}
		}
		return nil, steps, nil
	}
	var out []*Scenario
	for i := 0; i < 25; i++ {
		s := rec.Scenario
		s.ID = fmt.Sprintf("replay-%d", i)
		s.Direct, s.Toks, s.Produced = nil, nil, nil
		s.Crashed, s.Stderr = false, ""
		out = append(out, &s)
	}
	return out, nil, nil
}

// replayHistories: the recorded history, reps times.
func replayHistories(steps []*Scenario, tag string, reps int) []*history {
	var out []*history
	for i := 0; i < reps; i++ {
		h := &history{ID: fmt.Sprintf("replay-%s%d", tag, i)}
		for j, st := range steps {
			s := *st
			s.ID = fmt.Sprintf("replay-%s%d-%d", tag, i, j)
			s.Hist = h.ID
			s.HistSteps, s.Direct, s.Toks, s.Produced, s.Gate = nil, nil, nil, nil, nil
			s.Crashed, s.Stderr, s.Verdict, s.EOF = false, "", "", ""
			h.Steps = append(h.Steps, &s)
		}
		out = append(out, h)
	}
	return out
}

// ------------------------------------------------------------------- judging

func decade(ns int64) string {
	switch {
	case ns <= 0:
		return "off"
	case ns < 10_000:
		return "1us"
	case ns < 100_000:
		return "10us"
	case ns < 1_000_000:
		return "100us"
	case ns < 10_000_000:
		return "1ms"
	}
	return "10ms"
}

func shape(s *Scenario) string {
	var parts []string
	pings := 0
	for _, t := range s.Toks {
		switch t.K {
		case "ping":
			pings++
		case "incr":
			parts = append(parts, fmt.Sprint(len(t.IDs)))
		}
	}
	if s.Kind == "sse" {
		return fmt.Sprintf("pingruns=%d", min(pings, 3))
	}
	return "batches=" + strings.Join(parts, "+")
}

func summary(s *Scenario) map[string]any {
	var ks []string
	for _, t := range s.Toks {
		switch t.K {
		case "next":
			ks = append(ks, fmt.Sprintf("next%d", t.ID))
		case "incr", "init":
			ks = append(ks, fmt.Sprintf("%s%v/%s", t.K, t.IDs, t.HN))
		default:
			ks = append(ks, t.K)
		}
	}
	m := map[string]any{"id": s.ID, "class": s.Class, "kind": s.Kind, "interval_ns": s.IntervalNs, "n": s.N, "sizes": s.Sizes,
		"delays_ns": s.DelaysNs, "cut_at": s.CutAt, "tokens": strings.Join(ks, " "), "eof": s.EOF}
	if s.CancelMode != "" {
		m["cancel_mode"], m["cancel_at"], m["cancel_ns"], m["cancel_seen"], m["server"], m["produced"] = s.CancelMode, s.CancelAt, s.CancelNs, s.CancelSeen, s.Server, s.Produced
	}
	if s.Hist != "" {
		m["history"], m["pos"], m["fail_at"], m["fail_mode"], m["server"] = s.Hist, s.Pos, s.FailAt, s.FailMode, s.Server
	}
	if g := s.Gen; g != nil {
		m["variant"], m["query"], m["order"], m["transport"], m["lens"], m["produced"] = g.Variant, g.Query, g.Order, g.Transport, g.Lens, g.ProducedKeys
		if len(g.Notes) > 0 {
			m["notes"] = g.Notes
		}
	}
	return m
}

func describe(s *Scenario) string {
	b, _ := json.Marshal(summary(s))
	d := string(b)
	for _, t := range s.Toks {
		if t.K == "bad" {
			d += "\n  unparseable: " + t.Raw
		}
	}
	if s.Detail != "" {
		d += "\n  " + s.Detail
	}
	return d
}

func judge(c *vlib.Check, scs []*Scenario, kids []*child, hists []*history, st *tlcStats) {
	// the replay object of a violation: the stream; for a request of a history, the whole history
	ro := func(s *Scenario) any {
		if s.Hist != "" {
			return withHistory(s, hists)
		}
		return s
	}
	byClass := map[string]int{}
	var live []*Scenario
	var gates []map[string]any
	crashes, handoffs, onePs, mmCrashes := 0, 0, 0, 0
	var unreached []string // gate scenarios that did not get to their gate: an infrastructure problem - unless the code is broken
	for _, s := range scs {
		c.AddEvals(1)
		byClass[s.Class]++
		cls := fmt.Sprintf("%s|%s|n%d|%s|cut=%v|%s", s.Class, s.Kind, s.N, decade(s.IntervalNs), s.CutAt >= 0, shape(s))
		if s.Hist != "" {
			cls += fmt.Sprintf("|fail=%d%s|pos=%d|%s", s.FailAt, s.FailMode, s.Pos, s.Server)
		}
		if s.Gen != nil {
			cls += "|" + s.Gen.Variant + "|" + s.Gen.Lens
		}
		if s.CancelMode != "" {
			cls += fmt.Sprintf("|ctx-%s@%d(seen %d)|%s", s.CancelMode, s.CancelAt, s.CancelSeen, s.Server)
		}
		c.Class(cls)
		for _, d := range s.Direct {
			kv := strings.SplitN(d, "|", 2)
			c.Violate(kv[0], kv[1]+"\n"+describe(s), ro(s))
		}
		if g := s.Gate; s.Hold != "" && g != nil {
			gates = append(gates, map[string]any{"hold": s.Hold, "interval_ns": s.IntervalNs, "held": g.Held, "other_write_entered_while_held": g.Met,
				"overlaps": g.Overlaps, "after_return": g.AfterReturn, "after_final": g.AfterFinal, "after_hold": g.AfterHold, "kind": s.Kind, "one_processor": s.OneP})
			var ov []string
			for _, o := range g.Overlaps {
				if strings.Contains(o, "ping") {
					ov = append(ov, o)
				}
			}
			if len(ov) > 0 {
				c.Violate(keyRaceWrite, fmt.Sprintf("gate writer (hold=%s): while one goroutine's call on the ResponseWriter was in progress another one entered (in progress|entering): %v - TLC's counterexample to NoRace / NoSplice replayed deterministically\n%s", s.Hold, ov, describe(s)), ro(s))
			}
			if len(g.AfterFinal) > 0 {
				if s.Kind == "sse" {
					c.Violate(keyLatePing, fmt.Sprintf("gate writer (hold=%s): after the Write of `event: complete` had entered, further Write calls arrived: %v\n%s", s.Hold, g.AfterFinal, describe(s)), ro(s))
				} else {
					c.Violate("mm:write-after-closing-boundary", fmt.Sprintf("gate writer (hold=%s): after the Write of the closing delimiter had entered, further Write calls arrived: %v\n%s", s.Hold, g.AfterFinal, describe(s)), ro(s))
				}
			}
			if len(g.AfterReturn) > 0 && s.Kind == "mm" {
				c.Violate("mm:responsewriter-used-after-handler-returned", fmt.Sprintf("gate writer (hold=%s): after transport.MultipartMixed.Do had returned the ResponseWriter was still used: %v\n%s", s.Hold, g.AfterReturn, describe(s)), ro(s))
			} else if len(g.AfterReturn) > 0 {
				c.Violate(keyRaceFinish, fmt.Sprintf("gate writer (hold=%s): after transport.SSE.Do had returned the ResponseWriter was still used: %v - TLC's counterexample to CompleteLast / NoUseAfterFinish replayed deterministically\n%s", s.Hold, g.AfterReturn, describe(s)), ro(s))
			}
			if s.OneP && !strings.HasSuffix(s.Hold, "flush:complete") && len(g.AfterHold) > 0 && strings.HasPrefix(g.AfterHold[len(g.AfterHold)-1], "ping@") {
				handoffs++ // the parked keepAlive was handed mu the moment the second slow section ended
			}
			if s.OneP {
				onePs++
			}
			if s.Hold != "return" && !g.Held && !s.Crashed {
				unreached = append(unreached, fmt.Sprintf("gate scenario %s never reached the call it was to hold (%s)", s.ID, s.Hold))
			}
		} else if s.Hold != "" && !s.Crashed {
			unreached = append(unreached, fmt.Sprintf("gate scenario %s returned no gate observation", s.ID))
		}
		if s.Crashed {
			crashes++
			se := s.Stderr
			if strings.Contains(se, "panic:") && strings.Contains(se, "(*sseConnection).keepAlive") && s.ka() {
				c.Violate(keyCrash, "the server process died: panic on the sseConnection.keepAlive goroutine, which used the ResponseWriter after net/http had finished the request\n"+describe(s)+"\n"+tailStr(se, 1800), ro(s))
			} else if s.Gen == nil && s.Kind == "mm" && s.FailAt > 0 && strings.Contains(se, "panic:") && strings.Contains(se, "newMultipartResponseAggregator.func1") {
				// Stream.tla: MMFlushTick with FailIn -> crashed. NoCrash holds for the code since a4760cc (a payload is encoded
				// in Add, on the handler goroutine); this is the design before it (MC_Stream_mmfail.cfg, MmEncodeInAdd = FALSE) - a regression
				mmCrashes++
				c.Violate(keyMMCrash, fmt.Sprintf("the server process died: payload %d of a multipart/mixed response cannot be serialized (%s) and the panic is on the aggregator's TICKER goroutine, which nobody recovers (a payload must be encoded on the handler goroutine, where handler.Server recovers the panic: a4760cc)\n", s.FailAt, s.FailMode)+describe(s)+"\n"+tailStr(se, 1800), ro(s))
				continue // a dead process' stream is not validated (Stream.tla: crashed)
			} else if s.Gen != nil {
				c.Violate("gen-defer:server-crash{"+s.Kind+"}", "the server process died while serving a @defer query from generated code\n"+describe(s)+"\n"+tailStr(se, 2400), ro(s))
			} else {
				c.Violate("server-crash{"+s.Kind+"}", "the server process died while serving\n"+describe(s)+"\n"+tailStr(se, 1800), ro(s))
			}
		}
		if s.EOF == "" {
			continue // never got to the wire (server was already dead)
		}
		live = append(live, s)
	}
	c.Set("streams_by_class", byClass)
	c.Set("server_crashes", crashes)
	c.Set("server_crashes_unencodable_payload_in_ticker_flush", mmCrashes)
	c.Set("gate_replays", gates)
	c.Set("one_processor_handoffs_demonstrated", handoffs)

	// TLC: strict first, then the deviation-tolerant configurations
	strict := accepted(live, true, true, true, "strict", st)
	var rej []*Scenario
	okByClass := map[string]int{}
	pings, batches, cuts := 0, 0, 0
	// server-side cancellation: strictly accepted streams by (class, server kind, point of the cancellation), and how
	// many payloads / `complete`s / closing boundaries arrived that were produced AFTER the context was done
	dlAcc := map[string]int{}
	dlStreams, dlLate, dlEnds, dlPingsAfter := 0, 0, 0, 0
	for _, s := range live {
		if s.CancelMode != "" {
			dlStreams++
		}
		if strict[s] && s.CancelMode != "" && s.CancelSeen >= 0 {
			total := s.N
			if s.Kind == "mm" {
				total = s.N + 1
			}
			pos := "between-payloads"
			if s.CancelSeen == 0 {
				pos = "before-first-payload"
			} else if s.CancelSeen >= total {
				pos = "after-last-payload"
			}
			sv := s.Server
			if sv == "" {
				sv = "race"
			}
			dlAcc[s.Class+"|"+sv+"|"+pos]++
			if s.EOF == "clean" {
				dlLate += total - s.CancelSeen
				dlEnds++
			}
			for i, t := range s.Toks {
				if t.K == "ping" && i >= deadlinePos(s) {
					dlPingsAfter++
				}
			}
		}
		if strict[s] {
			okByClass[s.Class]++
			s.Verdict = "strict"
			for _, t := range s.Toks {
				if t.K == "ping" {
					pings++
				}
				if t.K == "incr" && len(t.IDs) >= 2 {
					batches++
				}
			}
			if s.CutAt >= 0 {
				cuts++
			}
			if okByClass[s.Class] == 2 {
				c.Sample(summary(s))
			}
		} else {
			rej = append(rej, s)
		}
	}
	c.AddTraces(int64(len(live) - len(rej)))
	c.Set("strictly_accepted_by_class", okByClass)
	c.Set("strict_rejected", len(rej))
	c.Set("nonvacuity", map[string]int{"ping_runs_in_accepted_streams": pings, "incremental_batches_of_2_or_more": batches, "cut_streams_accepted": cuts,
		"server_side_cancel_streams": dlStreams, "payloads_delivered_that_were_produced_after_server_side_cancel": dlLate,
		"complete_or_closing_boundary_delivered_after_server_side_cancel": dlEnds, "ping_runs_after_server_side_cancel": dlPingsAfter})
	c.Set("server_side_cancel_accepted_by_class_server_point", dlAcc)

	stage := func(in []*Scenario, lock, stop, atomic bool, tag string, keys ...string) []*Scenario {
		acc := accepted(in, lock, stop, atomic, tag, st)
		var rest []*Scenario
		n := 0
		for _, s := range in {
			if acc[s] {
				n++
				s.Verdict = tag
				for _, k := range keys {
					c.Violate(k, "the token sequence is a behaviour of a DEVIATING design of Stream.tla only (LockWrites="+fmt.Sprint(lock)+", StopKA="+fmt.Sprint(stop)+", CloseAtomic="+fmt.Sprint(atomic)+"), not of the property\n"+describe(s), ro(s))
				}
			} else {
				rest = append(rest, s)
			}
		}
		c.AddTraces(int64(n))
		c.Set("explained_only_by_"+tag, n)
		return rest
	}
	// histories: a rejected request that FOLLOWS a failed serialization on the same server process - is it a
	// behaviour of the deviating design SharedBuf (an event assembled on the residue of the failed one)?
	rej = judgeHistories(c, hists, strict, rej, st)
	// (locked, stopped, but `complete` and `closed` in two critical sections) - a ping parked on mu lands after `complete`
	// (round 4) a stream whose request context was cancelled server-side: is it a behaviour of the design in which
	// keepAlive's ctx.Done branch closes the connection (events after the cancellation dropped, no `complete`)?
	{
		var dl, other []*Scenario
		for _, s := range rej {
			if s.CancelMode != "" && s.CancelSeen >= 0 && s.Kind == "sse" {
				dl = append(dl, s)
			} else {
				other = append(other, s)
			}
		}
		acc := acceptedX(dl, true, true, true, "kaclose", st, kaCloseOnDone)
		n := 0
		for _, s := range dl {
			if acc[s] {
				n++
				s.Verdict = "keepalive-closes-on-ctx-done"
				c.Violate(keyDropAfterCancel, fmt.Sprintf("the request context was cancelled SERVER-SIDE (%s middleware around handler.Server, inside the source's call %d) while the client stayed connected and read to EOF; the operation produced %d payload(s) in all, but what it produced after the cancellation is not on the wire and/or `event: complete` is missing. The token sequence is a behaviour of the DEVIATING design KACloseOnDone = TRUE of Stream.tla only (keepAlive's ctx.Done branch marks the connection closed: c.write drops every later event), not of the property\n", s.CancelMode, s.CancelSeen+1, len(s.Produced))+describe(s), ro(s))
			} else {
				other = append(other, s)
			}
		}
		c.AddTraces(int64(n))
		c.Set("explained_only_by_keepalive-closes-on-ctx-done", n)
		rej = other
	}
	rest := stage(rej, true, true, false, "late-ping-before-close", keyLatePing)
	rest = stage(rest, true, false, true, "late-ping", keyLatePing)
	rest = stage(rest, false, true, true, "splice", keySplice)
	rest = stage(rest, false, false, true, "late-ping+splice", keyLatePing, keySplice)
	sort.Slice(rest, func(i, j int) bool { return len(rest[i].Toks) < len(rest[j].Toks) })
	for i, s := range rest {
		s.Verdict = "unexplained"
		where := ""
		tk := "?"
		if i < maxDiagnosed {
			ln, txt := rejectedAt(s, fmt.Sprint(i), st)
			where = fmt.Sprintf("first unexplained trace line %d: %s\n", ln, txt)
			var l struct {
				E, K, Eof string
			}
			_ = json.Unmarshal([]byte(txt), &l)
			tk = l.E
			if l.K != "" {
				tk = l.K
			}
			if l.Eof != "" {
				tk = "End:" + l.Eof
			}
		}
		c.Violate(fmt.Sprintf("%s:stream-not-a-behaviour-of-spec{at=%s}", s.Kind, tk),
			"StreamTrace admits the observed byte stream under no configuration (not even with the known deviations)\n"+where+describe(s), s)
	}

	// everything observed, for the notes and for debugging
	if f, err := os.Create(vlib.Work("C12", "streams.ndjson")); err == nil {
		for _, s := range scs {
			b, _ := json.Marshal(s)
			f.Write(append(b, '\n'))
		}
		f.Close()
	}

	// the race detector
	seen := map[string]bool{}
	nrace := 0
	for _, k := range kids {
		for _, rpt := range k.raceReports() {
			nrace++
			key, what := classifyRace(rpt)
			if seen[key+what] {
				continue
			}
			seen[key+what] = true
			c.Violate(key, "race detector: "+what+"\n"+tailHead(rpt, 2600), map[string]any{"race_report": rpt})
		}
	}
	c.Set("race_reports", nrace)

	// (decided only now, when every verdict of the run is known: a broken tree may well be the reason)
	if onePs > 0 && handoffs == 0 && c.Violations() == 0 {
		vlib.Infra("vacuous: in none of the one-processor slow-flush pairs was the parked keepAlive goroutine handed the mutex at the end of the second section (after_hold shows no immediate ping) - the forced schedule did not happen")
	}
	// a gate that was never reached decides nothing; when the run found violations it is most likely their
	// consequence (the call the gate waits for is no longer made) and must not turn the verdict into exit 2
	if len(unreached) > 0 {
		c.Set("gate_scenarios_not_reached", unreached)
		if c.Violations() == 0 {
			vlib.Infra("%s", strings.Join(unreached, "; "))
		}
	}
	phaseEvidence(c, scs, hists)
	// non-vacuity of the run itself
	if os.Getenv("VERIF_REPLAY") == "" && c.Violations() == 0 {
		if okByClass["sse-plain"] == 0 || okByClass["mm"] == 0 {
			vlib.Infra("vacuous run: no sse-plain / mm stream was accepted strictly (%v)", okByClass)
		}
		if batches == 0 || cuts == 0 {
			vlib.Infra("vacuous run: batches=%d cut streams=%d", batches, cuts)
		}
		// the new dimension: every point of the cancellation, on both server kinds, SSE with pings and multipart
		if os.Getenv("C12_STRESS") == "" {
			for _, cl := range []string{"sse-deadline", "sse-deadline-noka", "mm-deadline"} {
				for _, sv := range []string{"race", "plain-1p"} {
					for _, pos := range []string{"before-first-payload", "between-payloads", "after-last-payload"} {
						if dlAcc[cl+"|"+sv+"|"+pos] == 0 {
							vlib.Infra("vacuous run: no %s stream on the %s server with the request context cancelled server-side %s was accepted (%v)", cl, sv, pos, dlAcc)
						}
					}
				}
			}
			if dlLate == 0 || dlEnds == 0 {
				vlib.Infra("vacuous run: payloads produced after a server-side cancellation and delivered: %d, streams completed after one: %d", dlLate, dlEnds)
			}
		}
	}
}

func tailHead(s string, n int) string {
	if len(s) > n {
		return s[:n] + "\n..."
	}
	return s
}

// classifyRace names the two accesses of a race report by the gqlgen /
// net/http functions on their stacks (the "created at" stacks are ignored).
func classifyRace(rpt string) (key, what string) {
	secs := strings.Split(rpt, "\n\n")
	var stacks []string
	for _, sec := range secs {
		t := strings.TrimSpace(sec)
		if strings.HasPrefix(t, "WARNING: DATA RACE") {
			t = strings.TrimSpace(strings.TrimPrefix(t, "WARNING: DATA RACE"))
		}
		if strings.HasPrefix(t, "Read at") || strings.HasPrefix(t, "Write at") || strings.HasPrefix(t, "Previous read at") || strings.HasPrefix(t, "Previous write at") ||
			strings.HasPrefix(t, "Atomic") || strings.HasPrefix(t, "Previous atomic") {
			stacks = append(stacks, t)
		}
	}
	side := func(st string) string {
		switch {
		case strings.Contains(st, "(*sseConnection).keepAlive"):
			return "sse.keepAlive"
		case strings.Contains(st, "transport.SSE.Do"):
			return "SSE.Do"
		case strings.Contains(st, "newMultipartResponseAggregator.func1"):
			return "mm.ticker"
		case strings.Contains(st, "transport.MultipartMixed.Do"):
			return "MultipartMixed.Do"
		case strings.Contains(st, "net/http.(*conn).serve"):
			return "net/http.conn.serve"
		}
		for _, ln := range strings.Split(st, "\n")[1:] {
			if f := strings.TrimSpace(ln); f != "" && !strings.HasPrefix(f, "/") {
				return f
			}
		}
		return "?"
	}
	var sides []string
	for _, s := range stacks {
		sides = append(sides, side(s))
	}
	sort.Strings(sides)
	what = strings.Join(sides, " vs ")
	ka, do := false, false
	for _, s := range sides {
		ka = ka || s == "sse.keepAlive"
		do = do || s == "SSE.Do"
	}
	switch {
	case ka && do:
		return keyRaceWrite, what
	case ka:
		// the other side is net/http finishing the request, or whoever got the recycled bufio.Writer
		return keyRaceFinish, what
	}
	tk, srv := false, false
	for _, s := range sides {
		tk = tk || s == "mm.ticker"
		srv = srv || s == "net/http.conn.serve"
	}
	if tk && srv {
		// the aggregator's ticker goroutine used the ResponseWriter while / after net/http finished the request: since
		// a4760cc Done waits for that goroutine to exit (Stream.tla: MmTickerStoppedAtReturn) - the design before it
		return keyMMCrash, what + " (the aggregator's ticker goroutine writes after the handler returned)"
	}
	return "race{" + what + "}", what
}

// ------------------------------------------------------- (A) targeted replay

// targeted aims the real code at the schedules of TLC's counterexamples for
// the pinned sse.go. Without a hook inside sse.go the overlap can only be
// approached by timing: the in-process source returns the next payload (or
// ends the stream) one keep-alive interval after the previous return, minus a
// swept offset, so that the ticker fires while the event / `complete` is being
// written. Counts how many streams it takes until each symptom first shows.
func targeted(c *vlib.Check, bin string, cex cexSet, thorough bool) ([]*Scenario, []*child) {
	iters := 12
	if thorough {
		iters = 120
	}
	T := int64(2_000_000) // a keep-alive interval of 2 ms
	var all []*Scenario
	var kids []*child
	result := map[string]any{}
	type tally struct{ First, Streams int }
	note := func(m map[string]*tally, k string, it int) {
		if m[k] == nil {
			m[k] = &tally{First: it}
		}
		m[k].Streams++
	}

	// schedule 1 (NoRace / NoSplice): ... MRecv, MWriteBegin(next), Tick, KPingBegin
	k1 := newChild("a-splice", bin)
	kids = append(kids, k1)
	m1 := map[string]*tally{}
	nrep := 0
	for it := 1; it <= iters; it++ {
		eps := int64(-300_000 + (it*37)%900*1000) // the payload is released -300us .. +600us around the tick
		s := &Scenario{ID: fmt.Sprintf("a1-%d-%d", vlib.Seed(), it), Class: "replay-tick-during-event", Kind: "sse", IntervalNs: T, N: 3,
			Sizes: []int{70000, 70000, 70000}, DelaysNs: []int64{T - eps, T - eps, T - eps}, EndDelayNs: 10_000, CutAt: -1}
		k1.run(s)
		all = append(all, s)
		if reps := k1.raceReports(); len(reps) > nrep {
			for _, rpt := range reps[nrep:] {
				if key, _ := classifyRace(rpt); key == keyRaceWrite {
					note(m1, "race-report(keepAlive vs SSE.Do)", it)
					break
				}
			}
			nrep = len(reps)
		}
		if s.EOF == "broken" {
			note(m1, "stream-corrupt-or-truncated", it)
		} else {
			for _, t := range s.Toks {
				if t.K == "bad" {
					note(m1, "stream-corrupt-or-truncated", it)
					break
				}
			}
		}
	}
	k1.stop()
	result["tick-during-event"] = map[string]any{"tlc_schedule": cex["NoSplice"], "interval_ns": T, "payload_bytes": 70000, "streams": iters, "observed": m1}

	// schedule 2 (CompleteLast / NoUseAfterFinish): ... MWriteEnd(complete), flush, return, Tick, ServerCancel, FinBegin, KPingBegin
	k2 := newChild("a-late", bin)
	kids = append(kids, k2)
	m2 := map[string]*tally{}
	nrep = 0
	for it := 1; it <= iters; it++ {
		eps := int64(-200_000 + (it*53)%600*1000)
		s := &Scenario{ID: fmt.Sprintf("a2-%d-%d", vlib.Seed(), it), Class: "replay-tick-at-return", Kind: "sse", IntervalNs: T, N: 1,
			Sizes: []int{40}, DelaysNs: []int64{100_000}, EndDelayNs: T - eps, CutAt: -1}
		k2.run(s)
		all = append(all, s)
		seenC := false
		for _, t := range s.Toks {
			if t.K == "ping" && seenC {
				note(m2, "ping-after-complete", it)
				break
			}
			if t.K == "complete" {
				seenC = true
			}
		}
		if s.Crashed {
			note(m2, "server-crash", it)
		}
		if reps := k2.raceReports(); len(reps) > nrep {
			for _, rpt := range reps[nrep:] {
				if key, _ := classifyRace(rpt); key == keyRaceFinish {
					note(m2, "race-report(keepAlive vs net/http after return)", it)
					break
				}
			}
			nrep = len(reps)
		}
	}
	k2.stop()
	result["tick-at-return"] = map[string]any{"tlc_schedule": cex["NoUseAfterFinish"], "interval_ns": T, "streams": iters, "observed": m2}
	c.Set("targeted_replay", result)
	return all, kids
}

// judgeHistories names the deviation of strictly rejected requests that follow a failed serialization
// on the same server process: TLC decides the whole history against Stream's SharedBuf design. Returns
// the rejected streams it could not explain that way.
func judgeHistories(c *vlib.Check, hists []*history, strict map[*Scenario]bool, rej []*Scenario, st *tlcStats) []*Scenario {
	isRej := map[*Scenario]bool{}
	for _, s := range rej {
		isRej[s] = true
	}
	var suspects [][]*Scenario
	for _, h := range hists {
		failedBefore, hit := false, false
		for _, s := range h.Steps {
			if isRej[s] && s.Pos > 1 && failedBefore {
				hit = true
			}
			if s.FailAt > 0 && !s.Crashed {
				failedBefore = true
			}
			if s.Crashed {
				failedBefore = false
			}
		}
		if hit {
			suspects = append(suspects, h.Steps)
		}
	}
	if len(suspects) == 0 {
		c.Set("explained_only_by_shared-buffer-residue", 0)
		return rej
	}
	acc := acceptedShared(suspects, st)
	var rest []*Scenario
	n := 0
	for _, s := range rej {
		if s.Hist != "" && s.Pos > 1 && acc[s] {
			n++
			s.Verdict = "shared-buffer-residue"
			var before []string
			for _, h := range hists {
				if h.ID == s.Hist {
					for _, p := range h.Steps {
						if p == s {
							break
						}
						b, _ := json.Marshal(summary(p))
						before = append(before, string(b))
					}
				}
			}
			c.Violate(keyHistStale, "a request served AFTER a request whose payload could not be serialized, by the same server process, is not the stream a fresh handler produces: its token sequence is a behaviour of the DEVIATING design SharedBuf = TRUE of Stream.tla only (an event assembled on what the failed serialization left in memory the handler shares between requests)\n"+
				describe(s)+"\n  earlier requests of this history:\n    "+strings.Join(before, "\n    "), withHistory(s, hists))
		} else {
			rest = append(rest, s)
		}
	}
	c.AddTraces(int64(n))
	c.Set("explained_only_by_shared-buffer-residue", n)
	return rest
}

// phaseEvidence describes phases H and G in the evidence and checks that they exercised what they are for.
func phaseEvidence(c *vlib.Check, scs []*Scenario, hists []*history) {
	if len(hists) == 0 {
		return
	}
	type hstat struct {
		Histories, FailServedSSE, FailServedMM, FailCrashed, LaterStrict, LaterRejected int
	}
	hs := map[string]*hstat{}
	for _, h := range hists {
		sv := "?"
		if len(h.Steps) > 0 {
			sv = h.Steps[0].Server
		}
		if hs[sv] == nil {
			hs[sv] = &hstat{}
		}
		x := hs[sv]
		x.Histories++
		failed := false
		for _, s := range h.Steps {
			blob := len(s.Toks) > 0 && s.Toks[len(s.Toks)-1].K == "errblob"
			switch {
			case s.FailAt > 0 && s.Crashed:
				x.FailCrashed++
				failed = false
			case s.FailAt > 0 && s.Verdict == "strict" && blob:
				failed = true
				if s.Kind == "sse" {
					x.FailServedSSE++
				} else {
					x.FailServedMM++
				}
			case s.FailAt == 0 && failed && s.Pos > 1 && s.Verdict == "strict":
				x.LaterStrict++
			case s.FailAt == 0 && failed && s.Pos > 1 && s.EOF != "":
				x.LaterRejected++
			}
		}
	}
	c.Set("phase_H_histories", hs)
	type gstat struct {
		Streams, Strict, BatchesOf2OrMore, AllAlone, InitialBatchedWithIncremental, Crashed int
	}
	gs := map[string]*gstat{}
	for _, s := range scs {
		g := s.Gen
		if g == nil {
			continue
		}
		k := g.Variant + "/" + g.Transport + "/" + g.Shape
		if gs[k] == nil {
			gs[k] = &gstat{}
		}
		x := gs[k]
		x.Streams++
		if s.Crashed {
			x.Crashed++
		}
		if s.Verdict != "strict" {
			continue
		}
		x.Strict++
		if s.Kind != "mm" {
			continue
		}
		multi, alone, parts := false, true, 0
		for i, t := range s.Toks {
			if t.K == "incr" {
				parts++
				if len(t.IDs) >= 2 {
					multi, alone = true, false
				}
				// `bnd hdr init bnd hdr incr`: written by ONE flush iff no flush ended in between - not
				// observable from the tokens; count the shape in which Done flushed everything (burst-all)
				if i == 5 && g.Shape == "burst-all" {
					x.InitialBatchedWithIncremental++
				}
			}
		}
		if multi {
			x.BatchesOf2OrMore++
		}
		if alone && parts >= 2 {
			x.AllAlone++
		}
	}
	c.Set("phase_G_generated_defer", gs)
	if os.Getenv("VERIF_REPLAY") != "" || c.Violations() > 0 {
		return
	}
	for sv, x := range hs {
		if x.FailServedSSE == 0 || x.FailServedMM == 0 || x.LaterStrict == 0 {
			vlib.Infra("vacuous phase H on the %s server: %+v (no request with an unserializable payload was served and followed by accepted requests)", sv, *x)
		}
	}
	burst, alone := 0, 0
	for k, x := range gs {
		if strings.Contains(k, "/mixed/") {
			burst += x.BatchesOf2OrMore
			alone += x.AllAlone
		}
		if x.Strict == 0 {
			vlib.Infra("vacuous phase G: no stream of %s was accepted", k)
		}
	}
	if burst == 0 || alone == 0 {
		vlib.Infra("vacuous phase G: multipart streams with a batch of >= 2 incremental payloads: %d, with every payload alone in its part: %d", burst, alone)
	}
}

// withHistory is the replay object of a violation observed on a request of a history: the request and
// all requests of its history (the driver's --replay serves the whole history again).
func withHistory(s *Scenario, hists []*history) *Scenario {
	cp := *s
	for _, h := range hists {
		if h.ID == s.Hist {
			for _, p := range h.Steps {
				q := *p
				q.HistSteps, q.Stderr, q.RawHead = nil, "", ""
				cp.HistSteps = append(cp.HistSteps, &q)
			}
		}
	}
	return &cp
}

// also applies f to s (self-test helper).
func (s *Scenario) also(f func(*Scenario)) *Scenario { f(s); return s }
