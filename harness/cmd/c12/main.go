// C12: streamed HTTP responses (SSE, multipart/mixed) are well-framed under any timing.
//
//  1. TLC checks spec/Stream.tla: the repaired design (all invariants +
//     liveness, payload counts 0..MaxN x all interleavings of producer, ticks,
//     flushes, client disconnects), and the model of the pinned sse.go, for
//     which it must produce the counterexamples of DESIGN section 7 #8 / #16.
//  2. (B) A race-enabled child process runs the REAL handler.Server with the
//     real transport.SSE / transport.MultipartMixed over net/http; payload
//     production follows seeded schedules, keep-alive / flush intervals sweep
//     1 microsecond .. 10 ms, clients disconnect after k bytes. The raw bytes
//     are tokenised by the strict parsers of parse.go (and mime/multipart)
//     and TLC decides whether each token sequence is a behaviour of
//     StreamTrace (strict = the property; then the deviation-tolerant
//     configurations, to name a known deviation and keep checking the rest).
//     Race detector reports, server crashes, handlers or goroutines that do
//     not end are observed directly.
//  3. (A) The schedules of TLC's counterexamples (tick while an event is being
//     written; tick as the handler returns) are aimed at statistically.
package main

import (
	"encoding/json"
	"fmt"
	"os"
	"sort"
	"strings"
	"sync"
	"time"

	"verifharness/vlib"
)

const (
	keyRaceWrite  = "sse:keepalive-write-concurrent-with-handler-write"
	keySplice     = "sse:ping-spliced-into-stream"
	keyLatePing   = "sse:ping-after-complete"
	keyRaceFinish = "sse:keepalive-uses-responsewriter-after-handler-returned"
	keyCrash      = "sse:server-crash-keepalive-write-after-handler-returned"
	keyStuck      = "sse:keepalive-goroutine-parked-on-mutex-forever"
	maxDiagnosed  = 6
)

func main() {
	c := vlib.NewCheck("C12", "model_checking")
	thorough := vlib.Tier() == "thorough"
	st := &tlcStats{}

	cex := modelChecks(c, thorough)
	selfTest(st)

	bin := buildServer()
	var scs []*Scenario
	if rp := os.Getenv("VERIF_REPLAY"); rp != "" {
		scs = replayScenarios(rp)
	} else {
		scs = scenarios(vlib.Seed(), thorough)
	}

	// (B) the sweep: a few children side by side, one stream per child at a
	// time. Streams with keep-alive pings get children of their own, so that
	// nothing the keepAlive goroutine does after its handler returned (known
	// deviation) can touch a stream of the strictly judged classes.
	var kids []*child
	var wg sync.WaitGroup
	pool := func(name string, n int, part []*Scenario, env ...string) {
		ch := make(chan *Scenario, len(part))
		for _, s := range part {
			ch <- s
		}
		close(ch)
		for i := 0; i < n; i++ {
			k := newChild(fmt.Sprintf("%s%d", name, i), bin)
			k.env = env
			kids = append(kids, k)
			wg.Add(1)
			go func() {
				defer wg.Done()
				for s := range ch {
					k.run(s)
				}
				k.stop()
			}()
		}
	}
	var withKA, others, oneP []*Scenario
	for _, s := range scs {
		if s.OneP {
			oneP = append(oneP, s)
		} else if s.ka() {
			withKA = append(withKA, s)
		} else {
			others = append(others, s)
		}
	}
	pool("ka", 2, withKA)
	pool("st", 2, others)
	wg.Wait()
	// the one-processor gate scenarios run alone: their point is who gets the processor when
	if len(oneP) > 0 {
		pool("p1", 1, oneP, "GOMAXPROCS=1")
		wg.Wait()
	}

	// (A) aim at the counterexample schedules
	if os.Getenv("VERIF_REPLAY") == "" {
		more, k := targeted(c, bin, cex, thorough)
		scs = append(scs, more...)
		kids = append(kids, k...)
	}

	judge(c, scs, kids, st)
	c.AddStates(st.distinct, st.generated)
	c.Set("tlc_trace_runs", st.runs)
	c.Set("distinct_traces_decided_by_tlc", st.distinctTraces)
	c.Set("rule", "exhaustive TLC check of Stream.tla (payload counts x interleavings of source, writer, keep-alive ticks, flush ticks, finishRequest, client disconnect); "+
		"conformance: one case = one real streamed response (transport, keep-alive/flush interval on a seeded geometric sweep 1us..10ms, payload count 0..4, payload sizes 8B..70KB, seeded production delays, optional client cut after k bytes); "+
		"a class = (scenario class, transport, payload count, interval decade, cut or not, token shape: pings seen / batch sizes)")
	c.Assume("the Go race detector reports an unsynchronised access pair when both accesses execute in the observed run (no false positives)")
	c.Assume("net/http writes the bytes handed to ResponseWriter.Write in call order for a single writer; chunk boundaries are not part of the property")
	c.Assume("payload JSON is produced by a hand-written ExecutableSchema (no code generation): C12 is about framing, not about executor output")
	c.Finish()
}

// ---------------------------------------------------------------- model checks

type cexSet map[string][]string // invariant -> action sequence of TLC's counterexample

func modelChecks(c *vlib.Check, thorough bool) cexSet {
	maxN, maxTicks := 3, 2
	if thorough {
		maxN, maxTicks = 4, 4
	}
	edit := func(cfg string) string {
		cfg = strings.Replace(cfg, "MaxN = 3", fmt.Sprintf("MaxN = %d", maxN), 1)
		cfg = strings.Replace(cfg, "MaxTicks = 2", fmt.Sprintf("MaxTicks = %d", maxTicks), 1)
		return cfg
	}
	res, err := vlib.RunTLC(vlib.TLCOpts{Module: "Stream", Config: "MC_Stream.cfg", Workers: 4, CfgEdit: edit, Coverage: thorough,
		Scratch: vlib.Work("C12", "mc"), Timeout: 15 * time.Minute})
	if err != nil {
		vlib.Infra("tlc: %v", err)
	}
	if !res.OK {
		vlib.Infra("Stream.tla (repaired design) fails its own model check - a specification error, not a verdict on the code:\n%s", res.Violation)
	}
	c.AddStates(res.Distinct, res.Generated)
	c.Set("mc_repaired", map[string]any{"MaxN": maxN, "MaxTicks": maxTicks, "distinct": res.Distinct, "generated": res.Generated, "depth": res.Depth, "wall_s": res.WallS})
	if thorough {
		var zero []string
		for _, a := range []string{"MWriteBegin", "MWriteEnd", "MFlushBegin", "MFlushEnd", "MStartKA", "MRecv", "MRecvNil", "MReset", "MClose", "Tick",
			"KPingBegin", "KPingEnd", "KFlushBegin", "KFlushEnd", "KStop", "ServerCancel", "FinBegin", "FinEnd", "Disconnect",
			"MMRecvAdd", "MMRecvNil", "MMDoneSig", "MMDoneFlush", "MMTick", "MMFlushTick", "MMTickerStop"} {
			if res.ActionCount[a] == 0 {
				zero = append(zero, a)
			}
		}
		if len(zero) > 0 {
			vlib.Infra("vacuous model check: actions never taken: %v", zero)
		}
	}

	// the pinned sse.go: TLC must find each counterexample
	out := cexSet{}
	for _, inv := range []string{"NoRace", "NoSplice", "CompleteLast", "NoUseAfterFinish"} {
		inv := inv
		r, err := vlib.RunTLC(vlib.TLCOpts{Module: "Stream", Config: "MC_Stream_cur.cfg", Workers: 1,
			CfgEdit: func(cfg string) string { return strings.Replace(cfg, "INVARIANT NoSplice", "INVARIANT "+inv, 1) },
			Scratch: vlib.Work("C12", "mc-cur-"+inv), Timeout: 10 * time.Minute})
		if err != nil {
			vlib.Infra("tlc: %v", err)
		}
		if r.OK || !strings.Contains(r.Output, "Invariant "+inv+" is violated") {
			vlib.Infra("specification regression: the model of the pinned sse.go (LockWrites = StopKA = FALSE) no longer violates %s:\n%s", inv, tailStr(r.Output, 1500))
		}
		out[inv] = counterexample(r.Output)
		c.AddStates(r.Distinct, r.Generated)
	}
	// holding mu around write + flush alone removes the splice (stopping the keep-alive
	// writer WITHOUT the lock does not remove the use-after-finish: a ping begun before
	// `complete` still flushes after net/http finished the request - TLC shows it -
	// so the repair needs both)
	for _, h := range []struct {
		lock, stop bool
		inv        string
	}{{true, false, "NoSplice"}} {
		h := h
		r, err := vlib.RunTLC(vlib.TLCOpts{Module: "Stream", Config: "MC_Stream_cur.cfg", Workers: 2,
			CfgEdit: func(cfg string) string {
				cfg = strings.Replace(cfg, "INVARIANT NoSplice", "INVARIANT "+h.inv, 1)
				if h.lock {
					cfg = strings.Replace(cfg, "LockWrites = FALSE", "LockWrites = TRUE", 1)
				}
				if h.stop {
					cfg = strings.Replace(cfg, "StopKA = FALSE", "StopKA = TRUE", 1)
				}
				return cfg
			},
			Scratch: vlib.Work("C12", "mc-half-"+h.inv), Timeout: 10 * time.Minute})
		if err != nil {
			vlib.Infra("tlc: %v", err)
		}
		if !r.OK {
			vlib.Infra("specification regression: half-repaired model (LockWrites=%v StopKA=%v) violates %s:\n%s", h.lock, h.stop, h.inv, r.Violation)
		}
		c.AddStates(r.Distinct, r.Generated)
	}
	// the half-repaired design (complete and closed in two critical sections): CompleteLast must be
	// refuted, everything else must hold - the model tells the three designs apart
	sp, err := vlib.RunTLC(vlib.TLCOpts{Module: "Stream", Config: "MC_Stream_split.cfg", Workers: 1,
		Scratch: vlib.Work("C12", "mc-split-CompleteLast"), Timeout: 10 * time.Minute})
	if err != nil {
		vlib.Infra("tlc: %v", err)
	}
	if sp.OK || !strings.Contains(sp.Output, "Invariant CompleteLast is violated") {
		vlib.Infra("specification regression: the split-close design (CloseAtomic = FALSE) no longer violates CompleteLast:\n%s", tailStr(sp.Output, 1500))
	}
	out["CompleteLast(split-close)"] = counterexample(sp.Output)
	c.AddStates(sp.Distinct, sp.Generated)
	so, err := vlib.RunTLC(vlib.TLCOpts{Module: "Stream", Config: "MC_Stream_split.cfg", Workers: 2,
		CfgEdit: func(cfg string) string {
			return strings.Replace(cfg, "INVARIANT CompleteLast", "INVARIANTS TypeOK NoRace NoSplice NoUseAfterFinish InOrder PreFirst", 1)
		},
		Scratch: vlib.Work("C12", "mc-split-rest"), Timeout: 10 * time.Minute})
	if err != nil {
		vlib.Infra("tlc: %v", err)
	}
	if !so.OK {
		vlib.Infra("specification regression: the split-close design violates more than CompleteLast:\n%s", so.Violation)
	}
	c.AddStates(so.Distinct, so.Generated)
	c.Set("tlc_counterexamples_deviating_designs", out)
	return out
}

// selfTest demonstrates the binding of StreamTrace: hand-made correct traces
// must be accepted and each corruption of them rejected by the strict
// configuration (else the trace specification decides nothing).
func selfTest(st *tlcStats) {
	T := func(k string, id int, ids []int, hn string) Tok {
		if ids == nil {
			ids = []int{}
		}
		return Tok{K: k, ID: id, IDs: ids, HN: hn}
	}
	mk := func(kind string, n int, ka bool, eof string, produced int, toks ...Tok) *Scenario {
		s := &Scenario{Kind: kind, N: n, CutAt: -1, Toks: toks, EOF: eof}
		if ka {
			s.IntervalNs = 1000
		}
		for i := 0; i < produced; i++ {
			s.Produced = append(s.Produced, i)
		}
		return s
	}
	pre, ping, cpl := T("pre", 0, nil, "-"), T("ping", 0, nil, "-"), T("complete", 0, nil, "-")
	nx := func(i int) Tok { return T("next", i, nil, "-") }
	bnd, hdr, cls := T("bnd", 0, nil, "-"), T("hdr", 0, nil, "-"), T("close", 0, nil, "-")
	ini := func(hn string) Tok { return T("init", 0, []int{0}, hn) }
	inc := func(hn string, ids ...int) Tok { return T("incr", 0, ids, hn) }
	good := []*Scenario{
		mk("sse", 2, true, "clean", 2, pre, ping, nx(1), nx(2), ping, cpl),
		mk("sse", 0, false, "clean", 0, pre, cpl),
		mk("mm", 2, false, "clean", 3, bnd, hdr, ini("t"), bnd, hdr, inc("f", 1, 2), cls),
		mk("mm", 2, false, "clean", 3, bnd, hdr, ini("t"), bnd, hdr, inc("t", 1), bnd, hdr, inc("f", 2), cls),
		mk("mm", 0, false, "clean", 1, bnd, hdr, ini("f"), cls),
	}
	bad := []*Scenario{
		mk("sse", 2, true, "clean", 2, pre, nx(2), nx(1), cpl),                                             // order
		mk("sse", 2, true, "clean", 2, pre, nx(1), nx(1), nx(2), cpl),                                      // duplicate
		mk("sse", 2, true, "clean", 2, pre, nx(1), cpl),                                                    // lost payload
		mk("sse", 1, true, "clean", 1, pre, nx(1)),                                                         // no complete
		mk("sse", 1, true, "clean", 1, pre, nx(1), cpl, ping),                                              // ping after complete
		mk("sse", 1, true, "clean", 1, pre, nx(1), cpl, cpl),                                               // two completes
		mk("sse", 1, true, "clean", 1, pre, T("bad", 0, nil, "-"), cpl),                                    // spliced
		mk("sse", 1, false, "clean", 1, pre, ping, nx(1), cpl),                                             // ping without keep-alive
		mk("sse", 1, true, "clean", 1, nx(1), cpl),                                                         // no preamble
		mk("mm", 1, false, "clean", 2, bnd, hdr, ini("t"), bnd, hdr, inc("f", 1)),                          // no closing boundary
		mk("mm", 1, false, "clean", 2, bnd, hdr, ini("t"), bnd, hdr, inc("f", 1), cls, cls),                // two closing boundaries
		mk("mm", 1, false, "clean", 2, bnd, hdr, ini("f"), bnd, hdr, inc("f", 1), cls),                     // hasNext:false on a non-last part
		mk("mm", 2, false, "clean", 3, bnd, hdr, ini("t"), bnd, hdr, inc("f", 2), cls),                     // payload lost
		mk("mm", 2, false, "clean", 3, bnd, hdr, ini("t"), bnd, hdr, inc("f", 2, 1), cls),                  // reordered
		mk("mm", 1, false, "clean", 2, bnd, hdr, ini("t"), bnd, hdr, inc("t", 1), cls),                     // hasNext:true before the closing boundary
		mk("mm", 1, false, "clean", 2, bnd, hdr, ini("t"), bnd, hdr, inc("t"), bnd, hdr, inc("f", 1), cls), // empty incremental part
		mk("mm", 0, false, "clean", 1, bnd, hdr, ini("f")),                                                 // closing boundary omitted without deferred payloads
	}
	all := append(append([]*Scenario{}, good...), bad...)
	acc := accepted(all, true, true, true, "selftest", st)
	for i, s := range good {
		if !acc[s] {
			vlib.Infra("StreamTrace self-test: well-formed trace %d rejected", i)
		}
	}
	for i, s := range bad {
		if acc[s] {
			vlib.Infra("StreamTrace self-test: corrupted trace %d accepted - the trace specification is too weak", i)
		}
	}
}

func replayScenarios(path string) []*Scenario {
	b, err := os.ReadFile(path)
	if err != nil {
		vlib.Infra("replay: %v", err)
	}
	var rec struct {
		Scenario Scenario `json:"scenario"`
	}
	if err := json.Unmarshal(b, &rec); err != nil || rec.Scenario.Kind == "" {
		vlib.Infra("replay: %s holds no scenario (%v)", path, err)
	}
	var out []*Scenario
	for i := 0; i < 25; i++ {
		s := rec.Scenario
		s.ID = fmt.Sprintf("replay-%d", i)
		s.Direct, s.Toks, s.Produced = nil, nil, nil
		s.Crashed, s.Stderr = false, ""
		out = append(out, &s)
	}
	return out
}

// ------------------------------------------------------------------- judging

func decade(ns int64) string {
	switch {
	case ns <= 0:
		return "off"
	case ns < 10_000:
		return "1us"
	case ns < 100_000:
		return "10us"
	case ns < 1_000_000:
		return "100us"
	case ns < 10_000_000:
		return "1ms"
	}
	return "10ms"
}

func shape(s *Scenario) string {
	var parts []string
	pings := 0
	for _, t := range s.Toks {
		switch t.K {
		case "ping":
			pings++
		case "incr":
			parts = append(parts, fmt.Sprint(len(t.IDs)))
		}
	}
	if s.Kind == "sse" {
		return fmt.Sprintf("pingruns=%d", min(pings, 3))
	}
	return "batches=" + strings.Join(parts, "+")
}

func summary(s *Scenario) map[string]any {
	var ks []string
	for _, t := range s.Toks {
		switch t.K {
		case "next":
			ks = append(ks, fmt.Sprintf("next%d", t.ID))
		case "incr", "init":
			ks = append(ks, fmt.Sprintf("%s%v/%s", t.K, t.IDs, t.HN))
		default:
			ks = append(ks, t.K)
		}
	}
	return map[string]any{"id": s.ID, "class": s.Class, "kind": s.Kind, "interval_ns": s.IntervalNs, "n": s.N, "sizes": s.Sizes,
		"delays_ns": s.DelaysNs, "cut_at": s.CutAt, "tokens": strings.Join(ks, " "), "eof": s.EOF}
}

func describe(s *Scenario) string {
	b, _ := json.Marshal(summary(s))
	d := string(b)
	for _, t := range s.Toks {
		if t.K == "bad" {
			d += "\n  unparseable: " + t.Raw
		}
	}
	if s.Detail != "" {
		d += "\n  " + s.Detail
	}
	return d
}

func judge(c *vlib.Check, scs []*Scenario, kids []*child, st *tlcStats) {
	byClass := map[string]int{}
	var live []*Scenario
	var gates []map[string]any
	crashes, handoffs, onePs := 0, 0, 0
	for _, s := range scs {
		c.AddEvals(1)
		byClass[s.Class]++
		c.Class(fmt.Sprintf("%s|%s|n%d|%s|cut=%v|%s", s.Class, s.Kind, s.N, decade(s.IntervalNs), s.CutAt >= 0, shape(s)))
		for _, d := range s.Direct {
			kv := strings.SplitN(d, "|", 2)
			c.Violate(kv[0], kv[1]+"\n"+describe(s), s)
		}
		if g := s.Gate; s.Hold != "" && g != nil {
			gates = append(gates, map[string]any{"hold": s.Hold, "interval_ns": s.IntervalNs, "held": g.Held, "other_write_entered_while_held": g.Met,
				"overlaps": g.Overlaps, "after_return": g.AfterReturn, "after_final": g.AfterFinal, "after_hold": g.AfterHold, "kind": s.Kind, "one_processor": s.OneP})
			var ov []string
			for _, o := range g.Overlaps {
				if strings.Contains(o, "ping") {
					ov = append(ov, o)
				}
			}
			if len(ov) > 0 {
				c.Violate(keyRaceWrite, fmt.Sprintf("gate writer (hold=%s): while one goroutine's call on the ResponseWriter was in progress another one entered (in progress|entering): %v - TLC's counterexample to NoRace / NoSplice replayed deterministically\n%s", s.Hold, ov, describe(s)), s)
			}
			if len(g.AfterFinal) > 0 {
				if s.Kind == "sse" {
					c.Violate(keyLatePing, fmt.Sprintf("gate writer (hold=%s): after the Write of `event: complete` had entered, further Write calls arrived: %v\n%s", s.Hold, g.AfterFinal, describe(s)), s)
				} else {
					c.Violate("mm:write-after-closing-boundary", fmt.Sprintf("gate writer (hold=%s): after the Write of the closing delimiter had entered, further Write calls arrived: %v\n%s", s.Hold, g.AfterFinal, describe(s)), s)
				}
			}
			if len(g.AfterReturn) > 0 && s.Kind == "mm" {
				c.Violate("mm:responsewriter-used-after-handler-returned", fmt.Sprintf("gate writer (hold=%s): after transport.MultipartMixed.Do had returned the ResponseWriter was still used: %v\n%s", s.Hold, g.AfterReturn, describe(s)), s)
			} else if len(g.AfterReturn) > 0 {
				c.Violate(keyRaceFinish, fmt.Sprintf("gate writer (hold=%s): after transport.SSE.Do had returned the ResponseWriter was still used: %v - TLC's counterexample to CompleteLast / NoUseAfterFinish replayed deterministically\n%s", s.Hold, g.AfterReturn, describe(s)), s)
			}
			if s.OneP && !strings.HasSuffix(s.Hold, "flush:complete") && len(g.AfterHold) > 0 && strings.HasPrefix(g.AfterHold[len(g.AfterHold)-1], "ping@") {
				handoffs++ // the parked keepAlive was handed mu the moment the second slow section ended
			}
			if s.OneP {
				onePs++
			}
			if s.Hold != "return" && !g.Held && !s.Crashed {
				vlib.Infra("gate scenario %s never reached the call it was to hold (%s)", s.ID, s.Hold)
			}
		} else if s.Hold != "" && !s.Crashed {
			vlib.Infra("gate scenario %s returned no gate observation", s.ID)
		}
		if s.Crashed {
			crashes++
			se := s.Stderr
			if strings.Contains(se, "panic:") && strings.Contains(se, "(*sseConnection).keepAlive") && s.ka() {
				c.Violate(keyCrash, "the server process died: panic on the sseConnection.keepAlive goroutine, which used the ResponseWriter after net/http had finished the request\n"+describe(s)+"\n"+tailStr(se, 1800), s)
			} else {
				c.Violate("server-crash{"+s.Kind+"}", "the server process died while serving\n"+describe(s)+"\n"+tailStr(se, 1800), s)
			}
		}
		if s.EOF == "" {
			continue // never got to the wire (server was already dead)
		}
		live = append(live, s)
	}
	c.Set("streams_by_class", byClass)
	c.Set("server_crashes", crashes)
	c.Set("gate_replays", gates)
	c.Set("one_processor_handoffs_demonstrated", handoffs)
	if onePs > 0 && handoffs == 0 && c.Violations() == 0 {
		vlib.Infra("vacuous: in none of the one-processor slow-flush pairs was the parked keepAlive goroutine handed the mutex at the end of the second section (after_hold shows no immediate ping) - the forced schedule did not happen")
	}

	// TLC: strict first, then the deviation-tolerant configurations
	strict := accepted(live, true, true, true, "strict", st)
	var rej []*Scenario
	okByClass := map[string]int{}
	pings, batches, cuts := 0, 0, 0
	for _, s := range live {
		if strict[s] {
			okByClass[s.Class]++
			s.Verdict = "strict"
			for _, t := range s.Toks {
				if t.K == "ping" {
					pings++
				}
				if t.K == "incr" && len(t.IDs) >= 2 {
					batches++
				}
			}
			if s.CutAt >= 0 {
				cuts++
			}
			if okByClass[s.Class] == 2 {
				c.Sample(summary(s))
			}
		} else {
			rej = append(rej, s)
		}
	}
	c.AddTraces(int64(len(live) - len(rej)))
	c.Set("strictly_accepted_by_class", okByClass)
	c.Set("strict_rejected", len(rej))
	c.Set("nonvacuity", map[string]int{"ping_runs_in_accepted_streams": pings, "incremental_batches_of_2_or_more": batches, "cut_streams_accepted": cuts})

	stage := func(in []*Scenario, lock, stop, atomic bool, tag string, keys ...string) []*Scenario {
		acc := accepted(in, lock, stop, atomic, tag, st)
		var rest []*Scenario
		n := 0
		for _, s := range in {
			if acc[s] {
				n++
				s.Verdict = tag
				for _, k := range keys {
					c.Violate(k, "the token sequence is a behaviour of a DEVIATING design of Stream.tla only (LockWrites="+fmt.Sprint(lock)+", StopKA="+fmt.Sprint(stop)+", CloseAtomic="+fmt.Sprint(atomic)+"), not of the property\n"+describe(s), s)
				}
			} else {
				rest = append(rest, s)
			}
		}
		c.AddTraces(int64(n))
		c.Set("explained_only_by_"+tag, n)
		return rest
	}
	// (locked, stopped, but `complete` and `closed` in two critical sections) - a ping parked on mu lands after `complete`
	rest := stage(rej, true, true, false, "late-ping-before-close", keyLatePing)
	rest = stage(rest, true, false, true, "late-ping", keyLatePing)
	rest = stage(rest, false, true, true, "splice", keySplice)
	rest = stage(rest, false, false, true, "late-ping+splice", keyLatePing, keySplice)
	sort.Slice(rest, func(i, j int) bool { return len(rest[i].Toks) < len(rest[j].Toks) })
	for i, s := range rest {
		s.Verdict = "unexplained"
		where := ""
		tk := "?"
		if i < maxDiagnosed {
			ln, txt := rejectedAt(s, fmt.Sprint(i), st)
			where = fmt.Sprintf("first unexplained trace line %d: %s\n", ln, txt)
			var l struct {
				E, K, Eof string
			}
			_ = json.Unmarshal([]byte(txt), &l)
			tk = l.E
			if l.K != "" {
				tk = l.K
			}
			if l.Eof != "" {
				tk = "End:" + l.Eof
			}
		}
		c.Violate(fmt.Sprintf("%s:stream-not-a-behaviour-of-spec{at=%s}", s.Kind, tk),
			"StreamTrace admits the observed byte stream under no configuration (not even with the known deviations)\n"+where+describe(s), s)
	}

	// everything observed, for the notes and for debugging
	if f, err := os.Create(vlib.Work("C12", "streams.ndjson")); err == nil {
		for _, s := range scs {
			b, _ := json.Marshal(s)
			f.Write(append(b, '\n'))
		}
		f.Close()
	}

	// the race detector
	seen := map[string]bool{}
	nrace := 0
	for _, k := range kids {
		for _, rpt := range k.raceReports() {
			nrace++
			key, what := classifyRace(rpt)
			if seen[key+what] {
				continue
			}
			seen[key+what] = true
			c.Violate(key, "race detector: "+what+"\n"+tailHead(rpt, 2600), map[string]any{"race_report": rpt})
		}
	}
	c.Set("race_reports", nrace)

	// non-vacuity of the run itself
	if os.Getenv("VERIF_REPLAY") == "" && c.Violations() == 0 {
		if okByClass["sse-plain"] == 0 || okByClass["mm"] == 0 {
			vlib.Infra("vacuous run: no sse-plain / mm stream was accepted strictly (%v)", okByClass)
		}
		if batches == 0 || cuts == 0 {
			vlib.Infra("vacuous run: batches=%d cut streams=%d", batches, cuts)
		}
	}
}

func tailHead(s string, n int) string {
	if len(s) > n {
		return s[:n] + "\n..."
	}
	return s
}

// classifyRace names the two accesses of a race report by the gqlgen /
// net/http functions on their stacks (the "created at" stacks are ignored).
func classifyRace(rpt string) (key, what string) {
	secs := strings.Split(rpt, "\n\n")
	var stacks []string
	for _, sec := range secs {
		t := strings.TrimSpace(sec)
		if strings.HasPrefix(t, "WARNING: DATA RACE") {
			t = strings.TrimSpace(strings.TrimPrefix(t, "WARNING: DATA RACE"))
		}
		if strings.HasPrefix(t, "Read at") || strings.HasPrefix(t, "Write at") || strings.HasPrefix(t, "Previous read at") || strings.HasPrefix(t, "Previous write at") ||
			strings.HasPrefix(t, "Atomic") || strings.HasPrefix(t, "Previous atomic") {
			stacks = append(stacks, t)
		}
	}
	side := func(st string) string {
		switch {
		case strings.Contains(st, "(*sseConnection).keepAlive"):
			return "sse.keepAlive"
		case strings.Contains(st, "transport.SSE.Do"):
			return "SSE.Do"
		case strings.Contains(st, "newMultipartResponseAggregator.func1"):
			return "mm.ticker"
		case strings.Contains(st, "transport.MultipartMixed.Do"):
			return "MultipartMixed.Do"
		case strings.Contains(st, "net/http.(*conn).serve"):
			return "net/http.conn.serve"
		}
		for _, ln := range strings.Split(st, "\n")[1:] {
			if f := strings.TrimSpace(ln); f != "" && !strings.HasPrefix(f, "/") {
				return f
			}
		}
		return "?"
	}
	var sides []string
	for _, s := range stacks {
		sides = append(sides, side(s))
	}
	sort.Strings(sides)
	what = strings.Join(sides, " vs ")
	ka, do := false, false
	for _, s := range sides {
		ka = ka || s == "sse.keepAlive"
		do = do || s == "SSE.Do"
	}
	switch {
	case ka && do:
		return keyRaceWrite, what
	case ka:
		// the other side is net/http finishing the request, or whoever got the recycled bufio.Writer
		return keyRaceFinish, what
	}
	return "race{" + what + "}", what
}

// ------------------------------------------------------- (A) targeted replay

// targeted aims the real code at the schedules of TLC's counterexamples for
// the pinned sse.go. Without a hook inside sse.go the overlap can only be
// approached by timing: the in-process source returns the next payload (or
// ends the stream) one keep-alive interval after the previous return, minus a
// swept offset, so that the ticker fires while the event / `complete` is being
// written. Counts how many streams it takes until each symptom first shows.
func targeted(c *vlib.Check, bin string, cex cexSet, thorough bool) ([]*Scenario, []*child) {
	iters := 12
	if thorough {
		iters = 120
	}
	T := int64(2_000_000) // a keep-alive interval of 2 ms
	var all []*Scenario
	var kids []*child
	result := map[string]any{}
	type tally struct{ First, Streams int }
	note := func(m map[string]*tally, k string, it int) {
		if m[k] == nil {
			m[k] = &tally{First: it}
		}
		m[k].Streams++
	}

	// schedule 1 (NoRace / NoSplice): ... MRecv, MWriteBegin(next), Tick, KPingBegin
	k1 := newChild("a-splice", bin)
	kids = append(kids, k1)
	m1 := map[string]*tally{}
	nrep := 0
	for it := 1; it <= iters; it++ {
		eps := int64(-300_000 + (it*37)%900*1000) // the payload is released -300us .. +600us around the tick
		s := &Scenario{ID: fmt.Sprintf("a1-%d-%d", vlib.Seed(), it), Class: "replay-tick-during-event", Kind: "sse", IntervalNs: T, N: 3,
			Sizes: []int{70000, 70000, 70000}, DelaysNs: []int64{T - eps, T - eps, T - eps}, EndDelayNs: 10_000, CutAt: -1}
		k1.run(s)
		all = append(all, s)
		if reps := k1.raceReports(); len(reps) > nrep {
			for _, rpt := range reps[nrep:] {
				if key, _ := classifyRace(rpt); key == keyRaceWrite {
					note(m1, "race-report(keepAlive vs SSE.Do)", it)
					break
				}
			}
			nrep = len(reps)
		}
		if s.EOF == "broken" {
			note(m1, "stream-corrupt-or-truncated", it)
		} else {
			for _, t := range s.Toks {
				if t.K == "bad" {
					note(m1, "stream-corrupt-or-truncated", it)
					break
				}
			}
		}
	}
	k1.stop()
	result["tick-during-event"] = map[string]any{"tlc_schedule": cex["NoSplice"], "interval_ns": T, "payload_bytes": 70000, "streams": iters, "observed": m1}

	// schedule 2 (CompleteLast / NoUseAfterFinish): ... MWriteEnd(complete), flush, return, Tick, ServerCancel, FinBegin, KPingBegin
	k2 := newChild("a-late", bin)
	kids = append(kids, k2)
	m2 := map[string]*tally{}
	nrep = 0
	for it := 1; it <= iters; it++ {
		eps := int64(-200_000 + (it*53)%600*1000)
		s := &Scenario{ID: fmt.Sprintf("a2-%d-%d", vlib.Seed(), it), Class: "replay-tick-at-return", Kind: "sse", IntervalNs: T, N: 1,
			Sizes: []int{40}, DelaysNs: []int64{100_000}, EndDelayNs: T - eps, CutAt: -1}
		k2.run(s)
		all = append(all, s)
		seenC := false
		for _, t := range s.Toks {
			if t.K == "ping" && seenC {
				note(m2, "ping-after-complete", it)
				break
			}
			if t.K == "complete" {
				seenC = true
			}
		}
		if s.Crashed {
			note(m2, "server-crash", it)
		}
		if reps := k2.raceReports(); len(reps) > nrep {
			for _, rpt := range reps[nrep:] {
				if key, _ := classifyRace(rpt); key == keyRaceFinish {
					note(m2, "race-report(keepAlive vs net/http after return)", it)
					break
				}
			}
			nrep = len(reps)
		}
	}
	k2.stop()
	result["tick-at-return"] = map[string]any{"tlc_schedule": cex["NoUseAfterFinish"], "interval_ns": T, "streams": iters, "observed": m2}
	c.Set("targeted_replay", result)
	return all, kids
}
