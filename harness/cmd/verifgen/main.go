package main

import (
	"fmt"
	"os"

	"github.com/99designs/gqlgen/api"
	"github.com/99designs/gqlgen/codegen/config"
	"github.com/99designs/gqlgen/plugin/stubgen"
)

func main() {
	cfgFile := "gqlgen.yml"
	if len(os.Args) > 1 {
		cfgFile = os.Args[1]
	}
	cfg, err := config.LoadConfig(cfgFile)
	if err != nil {
		fmt.Fprintln(os.Stderr, "verifgen: config:", err)
		os.Exit(3)
	}
	opts := []api.Option{}
	if len(os.Args) > 2 && os.Args[2] != "" {
		opts = append(opts, api.AddPlugin(stubgen.New(os.Args[2], "Stub")))
	}
	if err := api.Generate(cfg, opts...); err != nil {
		fmt.Fprintln(os.Stderr, "verifgen: generate:", err)
		os.Exit(1)
	}
}
