// C13: @defer changes delivery, not content.
package main

import (
	"math/rand"

	"verifharness/vlib"
)

func main() {
	c := vlib.NewCheck("C13", "model_checking")
	thorough := vlib.Tier() == "thorough"
	vs := vlib.ExecVariants(thorough)
	bins, err := vlib.BuildProbes("exec", vs)
	if err != nil {
		vlib.Infra("build probes: %v", err)
	}
	n := 80
	if thorough {
		n = 800
	}
	// hand-written corpus: nested / list / shared-label deferral, incl. the scripted
	// schedule in which an inner group completes before the group delivering its object
	nested := vlib.CorpusScenario("C13-nested-inner-first",
		`{ a { id ... @defer(label: "outer") { s kid { id ... @defer(label: "inner") { s } } } } }`, nil)
	nested.Sched = "order"
	nested.Order = []string{"a", "a.kid", "a.kid.s", "~30", "a.s"}
	corpus := []*vlib.Scenario{
		nested,
		vlib.CorpusScenario("C13-c1", `{ a { id ... @defer(label: "outer") { s kid { id ... @defer(label: "inner") { s } } } } }`, nil),
		vlib.CorpusScenario("C13-c2", `{ as { id ... @defer { s sn } ... @defer(label: "x") { kid { id } } } }`, nil),
		vlib.CorpusScenario("C13-c3", `{ a { ... @defer(label: "l") { s } ... @defer(label: "l") { sn } ... @defer { s2: s } } an { ...F @defer(if: true) } } fragment F on A { kidn { sn ... @defer { s } } }`, nil),
		vlib.CorpusScenario("C13-c4", `query($d: Boolean!) { a { id ... @defer(if: $d) { s } ... @defer(if: false) { sn } } }`, map[string]any{"d": true}),
		vlib.CorpusScenario("C13-c5", `{ annsn { kidsnn { ... @defer { sn kidn { ... @defer { s } } } } } }`, nil),
	}
	vlib.ExecConformance(c, "C13", bins, vs, rand.New(rand.NewSource(vlib.Seed()+1300)), n,
		vlib.ExecMode{Faults: true, Defer: true, Scheds: true, PlansPer: 3,
			Module: "GqlDeferTrace", Config: "GqlDeferTrace.cfg", Lines: vlib.DeferTraceLines,
			Corpus: corpus, Classify: vlib.DeferRejectKey, DevConfig: "GqlDeferTraceDev.cfg"})
	c.Finish()
}
