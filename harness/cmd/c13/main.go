// C13: @defer changes delivery, not content.
package main

import (
	"math/rand"

	"verifharness/ur"
	"verifharness/vlib"
)

func main() {
	c := vlib.NewCheck("C13", "model_checking")
	thorough := vlib.Tier() == "thorough"
	vs := vlib.ExecVariants(thorough)
	bins, err := vlib.BuildProbes("exec", vs)
	if err != nil {
		vlib.Infra("build probes: %v", err)
	}
	n := 80
	if thorough {
		n = 800
	}
	// hand-written corpus: nested / list / shared-label deferral, incl. the scripted
	// schedule in which an inner group completes before the group delivering its object
	nested := vlib.CorpusScenario("C13-nested-inner-first",
		`{ a { id ... @defer(label: "outer") { s kid { id ... @defer(label: "inner") { s } } } } }`, nil)
	nested.Sched = "order"
	nested.Order = []string{"a", "a.kid", "a.kid.s", "~30", "a.s"}
	corpus := []*vlib.Scenario{
		nested,
		vlib.CorpusScenario("C13-c1", `{ a { id ... @defer(label: "outer") { s kid { id ... @defer(label: "inner") { s } } } } }`, nil),
		vlib.CorpusScenario("C13-c2", `{ as { id ... @defer { s sn } ... @defer(label: "x") { kid { id } } } }`, nil),
		vlib.CorpusScenario("C13-c3", `{ a { ... @defer(label: "l") { s } ... @defer(label: "l") { sn } ... @defer { s2: s } } an { ...F @defer(if: true) } } fragment F on A { kidn { sn ... @defer { s } } }`, nil),
		vlib.CorpusScenario("C13-c4", `query($d: Boolean!) { a { id ... @defer(if: $d) { s } ... @defer(if: false) { sn } } }`, map[string]any{"d": true}),
		// a composite field selected outside AND inside a deferred fragment with different sub-selections
		vlib.CorpusScenario("C13-c6", `{ a { id kid { id } ... @defer { kid { name s } } } }`, nil),
		vlib.CorpusScenario("C13-c7", `{ as { b { id } ... @defer(label: "x") { b { bs name } id } } an { ... @defer { kidn { sn } } kidn { id } } }`, nil),
		vlib.CorpusScenario("C13-c8", `{ a { node { id } ... on A @defer(label: "n") { node { name ... on A { s } } kid { id } } kid { name } } }`, nil),
		vlib.CorpusScenario("C13-c9", `{ a { ...F @defer kids { id } } } fragment F on A { kids { s name } kidsnn { id } }`, nil),
		// several deferred fragments on one object sharing a label / unlabelled, with fields in between
		vlib.CorpusScenario("C13-c10", `{ a { id ... @defer { s } name ... @defer { kid { name } } tag ... @defer { sn } } }`, nil),
		vlib.CorpusScenario("C13-c11", `{ as { ... @defer(label: "l") { s } id ... @defer(label: "l") { sn } plainn ... @defer(label: "m") { kid { id } } num } }`, nil),
		vlib.CorpusScenario("C13-c5", `{ annsn { kidsnn { ... @defer { sn kidn { ... @defer { s } } } } } }`, nil),
	}
	// an object with a deferred fragment that is nulled by its OWN non-null field (no group may
	// start, none may stay pending), in a single object, in list elements, under a non-null
	// parent, and next to a failure inside the deferred group itself
	own := func(id, q string, plan map[string]ur.Outcome) {
		for _, sch := range []string{"", "lifo"} {
			sc := vlib.CorpusScenario(id+sch, q, nil)
			sc.Plan, sc.Sched = plan, sch
			corpus = append(corpus, sc)
		}
	}
	own("C13-own1", `{ a { id sn ... @defer { s } } s }`, map[string]ur.Outcome{"a.sn": {K: "err"}})
	own("C13-own2", `{ as { sn ... @defer(label: "x") { s kid { id } } } }`, map[string]ur.Outcome{"as": {K: "list", N: 3}, "as.1.sn": {K: "err"}})
	own("C13-own3", `{ a { kidn { sn ... @defer(label: "k") { s } } id } sn }`, map[string]ur.Outcome{"a.kidn.sn": {K: "null"}})
	own("C13-own4", `{ asn { id ... @defer { sn kid { sn ... @defer { s } } } } }`, map[string]ur.Outcome{"asn": {K: "list", N: 2}, "asn.0.sn": {K: "err"}, "asn.1.kid.sn": {K: "panic"}})
	vlib.ExecConformance(c, "C13", bins, vs, rand.New(rand.NewSource(vlib.Seed()+1300)), n,
		vlib.ExecMode{Faults: true, Panics: true, Rogue: true, Sentinel: true, Defer: true, Scheds: true, PlansPer: 3,
			Module: "GqlDeferTrace", Config: "GqlDeferTrace.cfg", Lines: vlib.DeferTraceLines,
			Corpus: corpus, Classify: vlib.DeferRejectKey, Devs: []vlib.DevStep{{Config: "GqlDeferTraceLeaf.cfg", Key: vlib.LeafElemKey}, {Config: "GqlDeferTraceDev.cfg"}},
			// the same payload sequences as delivered on the wire by the streaming transports
			// (multipart/mixed batches the payloads of one flush interval into one part)
			Transports: []string{"tp:mixed", "tp:sse"}, TransportEvery: 3})
	c.Finish()
}
