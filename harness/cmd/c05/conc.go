package main

import (
	"encoding/json"
	"fmt"
	"os"
	"strings"
	"time"

	"verifharness/ur"
	"verifharness/vlib"
)

// concCfg is one constant configuration of spec/ExecConc.tla.
type concCfg struct {
	N, WL, G  int
	Transport string
}

func (k concCfg) edit(cfg string) string {
	cfg = strings.Replace(cfg, "N = 3", fmt.Sprintf("N = %d", k.N), 1)
	cfg = strings.Replace(cfg, "WL = 1", fmt.Sprintf("WL = %d", k.WL), 1)
	cfg = strings.Replace(cfg, "G = 1", fmt.Sprintf("G = %d", k.G), 1)
	cfg = strings.Replace(cfg, `"drain"`, `"`+k.Transport+`"`, 1)
	return cfg
}

func (k concCfg) String() string { return fmt.Sprintf("N%d-WL%d-G%d-%s", k.N, k.WL, k.G, k.Transport) }

// query realising the model's shape: a list of N objects each with one
// resolver-backed field, and G deferred groups (one per separate object).
func (k concCfg) query() string {
	q := "{ as { s }"
	if k.G >= 1 {
		q += ` a { id ... @defer(label: "g1") { s } }`
	}
	if k.G >= 2 {
		q += ` an { id ... @defer(label: "g2") { s } }`
	}
	return q + " }"
}

var groupRoot = []string{"", "a", "an"}

// script turns a model path into the gate script of the probe.
func (k concCfg) script(path []vlib.Edge) []string {
	out := []string{"as"} // the list's own resolver returns at once: the fan-out begins
	for _, e := range path {
		var a struct {
			Name string `json:"name"`
			I    int    `json:"i"`
		}
		_ = json.Unmarshal(e.A, &a)
		switch a.Name {
		case "ResolverStarts":
			out = append(out, fmt.Sprintf("?as.%d.s", a.I-1))
		case "ResolverReturns":
			out = append(out, fmt.Sprintf("as.%d.s", a.I-1))
		case "StartGroup":
			out = append(out, groupRoot[a.I])
		case "GroupDone":
			out = append(out, groupRoot[a.I]+".s")
		case "Cancel":
			out = append(out, "!cancel")
		}
	}
	return out
}

// traceOf maps the recorded events of one replay to ExecConcTrace lines.
func (k concCfg) traceOf(s *vlib.Scenario) [][]byte {
	var out [][]byte
	add := func(v any) { b, _ := json.Marshal(v); out = append(out, b) }
	add(map[string]any{"e": "Reset", "id": s.ID})
	for _, ev := range s.Result.Events {
		switch {
		case ev.E == "Cancel":
			add(map[string]any{"e": "Cancel"})
		case strings.HasPrefix(ev.P, "as.") && strings.HasSuffix(ev.P, ".s"):
			var i int
			fmt.Sscanf(ev.P, "as.%d.s", &i)
			if ev.E == "Start" {
				add(map[string]any{"e": "Start", "i": i + 1})
			} else if ev.E == "End" {
				add(map[string]any{"e": "Ret", "i": i + 1})
			}
		case ev.P == "a.s" || ev.P == "an.s":
			g := 1
			if ev.P == "an.s" {
				g = 2
			}
			if ev.E == "Start" {
				add(map[string]any{"e": "GStart", "g": g})
			} else if ev.E == "End" {
				add(map[string]any{"e": "GDone", "g": g})
			}
		}
	}
	add(map[string]any{"e": "Final", "payloads": len(s.Result.Resps)})
	return out
}

// concPart: TLC decides Termination / NoLeak / Ends on ExecConc for each
// constant configuration; every edge of each state graph is then replayed
// into the real generated code (gates + cancellation), termination and
// goroutine leaks are observed directly, and the recorded events are
// validated against ExecConcTrace.
func concPart(c *vlib.Check, bins map[string]string, byWL map[int]string, thorough bool) {
	modelDrift := 0
	var cfgs []concCfg
	ns := []int{2, 3}
	gs := []int{0, 1}
	if thorough {
		gs = []int{0, 1, 2}
	}
	for _, n := range ns {
		for _, wl := range []int{0, 1, 2} {
			for _, g := range gs {
				for _, tr := range []string{"drain", "one"} {
					if g == 0 && tr == "one" && n == 3 && !thorough {
						continue
					}
					cfgs = append(cfgs, concCfg{n, wl, g, tr})
				}
			}
		}
	}
	for _, k := range cfgs {
		if c.Violations() >= 6 {
			return
		}
		// 1. model checking incl. liveness
		mc, err := vlib.RunTLC(vlib.TLCOpts{Module: "ExecConc", Config: "MC_ExecConc.cfg", Workers: 4, CfgEdit: k.edit,
			Scratch: vlib.Work("C05", "mc-"+k.String()), Timeout: 10 * time.Minute})
		if err != nil {
			vlib.Infra("tlc: %v", err)
		}
		if !mc.OK {
			vlib.Infra("ExecConc model check failed for %s (specification error, not a verdict on the code):\n%s", k, mc.Violation)
		}
		c.AddStates(mc.Distinct, mc.Generated)
		// 2. labelled edges
		eg, err := vlib.RunTLC(vlib.TLCOpts{Module: "ExecConc", Config: "MC_ExecConc_edges.cfg", Workers: 1, CfgEdit: k.edit,
			Scratch: vlib.Work("C05", "edges-"+k.String()), Timeout: 10 * time.Minute})
		if err != nil || !eg.OK {
			vlib.Infra("edge export failed for %s: %v %s", k, err, eg.Violation)
		}
		edges, err := vlib.ParseEdges(eg.Printed)
		if err != nil {
			vlib.Infra("edges %s: %v", k, err)
		}
		// initial state = the source that is no edge's target
		isT := map[string]bool{}
		for _, e := range edges {
			isT[e.T] = true
		}
		init := ""
		for _, e := range edges {
			if !isT[e.S] {
				init = e.S
				break
			}
		}
		if init == "" {
			vlib.Infra("no initial state found for %s", k)
		}
		paths := vlib.CoverPaths(edges, init, 200)
		// 3. replay
		var scs []*vlib.Scenario
		for i, p := range paths {
			plan := map[string]ur.Outcome{"as": {K: "list", N: k.N}}
			scs = append(scs, &vlib.Scenario{ID: fmt.Sprintf("C05-%s-p%d", k, i), Query: k.query(), Plan: plan,
				Sched: "order", Order: k.script(p), Mode: map[string]string{"drain": "", "one": "one"}[k.Transport], Leak: true,
				Variant: byWL[k.WL]})
		}
		if err := vlib.RunScenarios(bins[byWL[k.WL]], scs, 12, nil); err != nil {
			vlib.Infra("replay: %v", err)
		}
		var ok []*vlib.Scenario
		drift := 0
		for _, s := range scs {
			c.AddEvals(1)
			c.Class("replay|" + k.String())
			if c.Violations() >= 6 {
				break
			}
			if s.Result != nil && (s.Result.Hung || s.Result.Leaked > 0) {
				s = vlib.Confirm(bins[byWL[k.WL]], s, nil)
			}
			feat := fmt.Sprintf("wl%d|defer=%v|mode=%s", k.WL, k.G > 0, s.Mode)
			switch {
			case s.Crashed || s.Result == nil:
				c.Violate("process-crash", fmt.Sprintf("probe died replaying %s script=%v\n%s", k, s.Order, s.Stderr), s)
			case s.Result.Hung:
				c.Violate("hang|"+feat, fmt.Sprintf("model behaviour %s: response function did not return; script=%v\n%s", k, s.Order, s.Result.LeakStack), s)
			case s.Result.Leaked > 0:
				c.Violate("goroutine-leak|"+feat, fmt.Sprintf("model behaviour %s: %d goroutine(s) alive after the request ended; script=%v\n%s", k, s.Result.Leaked, s.Order, s.Result.LeakStack), s)
			default:
				if len(s.Result.Notes) > 0 {
					drift++
				}
				ok = append(ok, s)
			}
		}
		c.Set("replay_drift_notes_"+k.String(), drift)
		// 4. trace validation of what was observed
		rej, err := vlib.ValidateBatchWith(c, vlib.TLCOpts{Module: "ExecConcTrace", Config: "ExecConcTrace.cfg", CfgEdit: k.edit}, nil, ok, k.traceOf,
			vlib.Work("C05", "tv-"+k.String()))
		if err != nil {
			vlib.Infra("trace validation %s: %v", k, err)
		}
		// ExecConc is implementation-shaped (it knows the semaphore and the spawn order), and C05
		// itself only demands termination and no surviving goroutine - both observed directly
		// above. An execution the model does not admit therefore is MODEL DRIFT (the liveness
		// result no longer transfers to this code and the module must be brought up to date),
		// recorded in the evidence and on stderr, never a violation by itself.
		for _, rj := range rej {
			modelDrift++
			fmt.Fprintf(os.Stderr, "MODEL-DRIFT C05: ExecConc (%s) does not admit the observed execution; script=%v\n%s\n", k, rj.Scenario.Order, rj.Describe())
		}
		c.Set("model_drift_traces", modelDrift)
		if len(ok) > 0 {
			c.Sample(map[string]any{"model": k.String(), "query": k.query(), "script": ok[len(ok)/2].Order, "paths": len(paths), "edges": len(edges)})
		}
	}
}
