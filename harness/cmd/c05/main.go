// C05: operations terminate and leave nothing running, even when cancelled mid-flight.
package main

import (
	"fmt"
	"math/rand"
	"strings"

	"verifharness/vlib"
)

func main() {
	c := vlib.NewCheck("C05", "model_checking")
	c.Set("rule", "part 1: TLC checks ExecConc (Termination, NoLeak, Ends under fairness) for N in {2,3} resolvers x worker_limit in {0,1,2} x deferred groups x {drain, one payload}; every edge of every state graph is covered by a path that is replayed into the generated server through resolver gates and cancellation (a class = one (configuration, edge-covering path)). part 2: sweeps on generated servers - each corpus / random operation cancelled after its k-th resolver event for every k, unscheduled and with gated fifo / lifo completion, executor-direct (all payloads / first payload only) and over the real POST, GET, SSE, multipart/mixed and websocket (graphql-transport-ws, gorilla client, abrupt TCP close; plus a client that never sends connection_init against the init timeout) transports with a disconnecting client, plus the @defer operations with failing / null resolvers drained without cancellation (a class = (worker_limit, defer?, mode, faults?, k, schedule)). A hang = the response function or handler did not return within 5 s after the last resolver returned; a leak = goroutines with gqlgen or probe frames alive 1.5 s after the request ended; both are confirmed by a rerun with 10x the waits before they count")
	c.Set("trusted_base", []string{"TLC", "the in-probe scheduler (gates at resolver entry)", "goroutine-dump filtering (frames of gqlgen and of the generated package)", "wall-clock bounds for 'did not return' (confirmed by reruns)"})
	thorough := vlib.Tier() == "thorough"
	vs := []vlib.Variant{
		{Name: "w0"},
		{Name: "w1", WorkerLimit: 1, FollowSchema: true},
		{Name: "w2", WorkerLimit: 2, FuncSyntax: true},
	}
	if thorough {
		vs = append(vs, vlib.Variant{Name: "w8", WorkerLimit: 8, FollowSchema: true, FuncSyntax: true})
	}
	bins, err := vlib.BuildProbes("exec", vs)
	if err != nil {
		vlib.Infra("build probes: %v", err)
	}
	byWL := map[int]string{}
	for _, v := range vs {
		byWL[v.WorkerLimit] = v.ID()
	}
	concPart(c, bins, byWL, thorough)
	r := rand.New(rand.NewSource(vlib.Seed() + 500))
	schema, _, err := vlib.FetchSchema(bins[vs[0].ID()])
	if err != nil {
		vlib.Infra("schema: %v", err)
	}
	nOps := 10
	maxK := 10
	if thorough {
		nOps, maxK = 60, 40
	}
	// operations: list fan-out corpus + random ones (with @defer)
	var ops []*vlib.Scenario
	corpus := []string{
		"{ as { id s } }",
		"{ as { kids { sn } } annsn { s kids { id } } }",
		"{ a { kids { s kids { s } } } as { id } }",
		"{ as { id ... @defer { s } } }",
		"{ a { id ... @defer(label: \"x\") { s kid { id ... @defer { sn } } } } }",
		"{ as { ... @defer { kids { s } } } sn }",
		"{ mat { s } us { __typename ... on A { s } } }",
	}
	for i, q := range corpus {
		ops = append(ops, &vlib.Scenario{ID: fmt.Sprintf("C05-c%d", i), Query: q})
	}
	for i := 0; i < nOps; i++ {
		op := vlib.GenOp(schema, r, vlib.GenOpts{Depth: 2 + r.Intn(2), MaxFields: 3, Skip: false, Frags: true, Defer: i%2 == 0,
			Avoid: []string{"withArgs", "argd", "arg"}})
		ops = append(ops, &vlib.Scenario{ID: fmt.Sprintf("C05-r%d", i), Op: op, Query: op.Render(), Vars: op.Vars})
	}
	// baseline to learn the number of resolver events
	if err := vlib.RunScenarios(bins[vs[0].ID()], ops, 8, nil); err != nil {
		vlib.Infra("baseline: %v", err)
	}
	var all []*vlib.Scenario
	for _, o := range ops {
		if o.Result == nil || len(o.Result.GateErrs) > 0 {
			vlib.Infra("baseline failed for %s: %+v", o.Query, o.Result)
		}
		n := 0
		for _, ev := range o.Result.Events {
			if ev.E == "Start" || ev.E == "End" {
				n++
			}
		}
		ks := []int{0}
		for k := 1; k <= n && k <= maxK; k++ {
			ks = append(ks, k)
		}
		hasDefer := strings.Contains(o.Query, "@defer")
		for _, k := range ks {
			for _, sched := range []string{"", "fifo", "lifo"} {
				modes := []string{""}
				if hasDefer {
					modes = append(modes, "one")
				}
				for _, mode := range modes {
					if !thorough && sched == "lifo" && k%2 == 1 {
						continue
					}
					s := &vlib.Scenario{ID: fmt.Sprintf("%s-k%d-%s-%s", o.ID, k, sched, mode), Op: o.Op, Query: o.Query, Vars: o.Vars,
						Cancel: k, Sched: sched, Mode: mode, Leak: true}
					all = append(all, s)
				}
			}
		}
	}
	// the same operations over the REAL transports (net/http server, client disconnect as
	// cancellation): single-response POST / GET, SSE with keep-alive, multipart/mixed
	for _, o := range ops {
		n := 0
		for _, ev := range o.Result.Events {
			if ev.E == "Start" || ev.E == "End" {
				n++
			}
		}
		tk := []int{0, 1, 2, n / 2, n}
		if thorough {
			tk = nil
			for k := 0; k <= n && k <= maxK; k++ {
				tk = append(tk, k)
			}
		}
		seen := map[int]bool{}
		for _, k := range tk {
			if k > n || seen[k] {
				continue
			}
			seen[k] = true
			for _, tp := range []string{"tp:post", "tp:get", "tp:sse", "tp:mixed", "tp:ws"} {
				for _, sched := range []string{"", "fifo"} {
					if !thorough && sched == "fifo" && k%2 == 1 {
						continue
					}
					all = append(all, &vlib.Scenario{ID: fmt.Sprintf("%s-k%d-%s-%s", o.ID, k, sched, tp), Op: o.Op, Query: o.Query, Vars: o.Vars,
						Cancel: k, Sched: sched, Mode: tp, Leak: true})
				}
			}
		}
	}
	// a websocket client that upgrades and never sends connection_init: the server's init
	// timeout ends the connection; nothing may stay behind
	for i := 0; i < 3 && i < len(ops); i++ {
		all = append(all, &vlib.Scenario{ID: fmt.Sprintf("%s-noinit-tp:ws", ops[i].ID), Op: ops[i].Op, Query: ops[i].Query, Vars: ops[i].Vars,
			Mode: "tp:ws-noinit", Leak: true})
	}
	// termination must not depend on the outcome: the @defer operations again with failing
	// / null resolvers (an object nulled by its own non-null field next to a deferred
	// fragment, a nulled ancestor, failures inside groups), drained to the last payload,
	// executor-direct and over the streaming transports, no cancellation
	faultQs := []string{
		"{ a { id sn ... @defer { s } } }",
		"{ as { sn ... @defer { s kid { id } } } }",
		"{ a { kidn { sn ... @defer(label: \"k\") { s } } id } sn }",
		"{ asn { id ... @defer { sn kid { sn ... @defer { s } } } } }",
	}
	for i, q := range faultQs {
		ops = append(ops, &vlib.Scenario{ID: fmt.Sprintf("C05-f%d", i), Query: q})
	}
	if err := vlib.RunScenarios(bins[vs[0].ID()], ops[len(ops)-len(faultQs):], 4, nil); err != nil {
		vlib.Infra("baseline (fault corpus): %v", err)
	}
	nf := 0
	for _, o := range ops {
		if !strings.Contains(o.Query, "@defer") || o.Result == nil {
			continue
		}
		for k := 0; k < 4; k++ {
			plan := vlib.C07DerivePlan(schema, o.Result, r, []int{25, 50, 75, 40}[k])
			if len(plan) == 0 {
				continue
			}
			for _, mode := range []string{"", "tp:sse", "tp:mixed"} {
				for _, sched := range []string{"", "lifo"} {
					if !thorough && sched == "lifo" && (k+nf)%2 == 1 {
						continue
					}
					nf++
					all = append(all, &vlib.Scenario{ID: fmt.Sprintf("%s-fault%d-%s-%s", o.ID, k, sched, mode), Op: o.Op, Query: o.Query, Vars: o.Vars,
						Plan: plan, Sched: sched, Mode: mode, Leak: true})
				}
			}
		}
	}
	byMode := map[string]int{}
	wsEnds := map[string]int{}
	for _, v := range vs {
		var scs []*vlib.Scenario
		for _, t := range all {
			cp := *t
			cp.Variant = v.ID()
			scs = append(scs, &cp)
		}
		if err := vlib.RunScenarios(bins[v.ID()], scs, 12, nil); err != nil {
			vlib.Infra("run: %v", err)
		}
		for _, s := range scs {
			c.AddEvals(1)
			m := s.Mode
			if m == "" {
				m = "executor-direct"
			}
			byMode[m]++
			if s.Result != nil && strings.HasPrefix(s.Mode, "tp:ws") {
				for _, n := range s.Result.Notes {
					if i := strings.Index(n, "end="); strings.HasPrefix(n, "transport tp:ws") && i >= 0 {
						wsEnds[s.Mode+" "+n[i:]]++
					} else if strings.HasPrefix(n, "transport tp:ws dial failed") {
						wsEnds["dial-failed"]++
					}
				}
			}
			if c.Violations() >= 6 {
				break // enough evidence; confirmation reruns of hangs are slow
			}
			if s.Result != nil && (s.Result.Hung || s.Result.Leaked > 0) {
				s = vlib.Confirm(bins[v.ID()], s, nil) // absence verdicts need a generous second look
			}
			feat := fmt.Sprintf("wl%d|defer=%v|mode=%s", v.WorkerLimit, strings.Contains(s.Query, "@defer"), s.Mode)
			if len(s.Plan) > 0 {
				feat += "|faults"
			}
			c.Class(fmt.Sprintf("%s|k=%d|%s", feat, s.Cancel, s.Sched))
			switch {
			case s.Crashed || s.Result == nil:
				c.Violate("process-crash", fmt.Sprintf("probe %s died: %s cancel_at=%d\n%s", v.ID(), s.Query, s.Cancel, s.Stderr), s)
			case s.Result.Hung:
				c.Violate("hang|"+feat, fmt.Sprintf("response function did not return within 5s after all resolvers returned (variant %s worker_limit=%d) query=%s cancel_at=%d sched=%s\n%s",
					v.ID(), v.WorkerLimit, s.Query, s.Cancel, s.Sched, s.Result.LeakStack), s)
			case s.Result.Leaked > 0:
				c.Violate("goroutine-leak|"+feat, fmt.Sprintf("%d gqlgen goroutine(s) still alive 1.5s after the request ended and its context was cancelled (variant %s) query=%s cancel_at=%d sched=%s mode=%s\n%s",
					s.Result.Leaked, v.ID(), s.Query, s.Cancel, s.Sched, s.Mode, s.Result.LeakStack), s)
			}
		}
		if len(scs) > 0 {
			s := scs[len(scs)/2]
			c.Sample(map[string]any{"variant": v.ID(), "query": s.Query, "cancel_at": s.Cancel, "sched": s.Sched, "mode": s.Mode})
		}
	}
	c.Set("scenarios_by_mode", byMode)
	c.Set("websocket_sessions_by_end", wsEnds)
	if c.Violations() == 0 && (wsEnds["tp:ws end=complete"] == 0 || wsEnds["tp:ws-noinit end=closed-by-server"] == 0) {
		vlib.Infra("vacuous websocket pass: sessions by end = %v", wsEnds)
	}
	c.Finish()
}
