// C20: federation `_entities` answers each representation at its own index.
//
// spec/Entities.tla states the property on (representation list, resolver
// outcomes, response) and models plugin/federation/federation.gotpl action by
// action. The driver
//  1. lets TLC check the model: the pinned algorithm deviates from the property
//     in the named situations only (MC_Entities.cfg), the repaired design
//     satisfies it (MC_Entities_fixed.cfg), the pinned algorithm checked against
//     the property itself yields a counterexample (MC_Entities_cex.cfg);
//  2. generates federation probe servers from /repo's templates (probes/fed2:
//     federation options x layouts, one -race build);
//  3. (A) replays every (list, outcomes, completion order) TLC enumerates
//     (MC_Entities_emit.cfg) as a concrete `_entities` query with gated entity
//     resolvers released in that order, and compares the response element by
//     element with what the property prescribes (and with the model's answer);
//  4. (B) has TLC validate the recorded resolver events + response against
//     EntitiesTrace.
package main

import (
	"encoding/json"
	"fmt"
	"math/rand"
	"os"
	"sort"
	"strconv"
	"strings"
	"sync"
	"sync/atomic"
	"time"

	"verifharness/ur"
	"verifharness/vlib"
)

const fedBase = "federation:\n  filename: graph/federation.go\n  package: graph\n"

type fvariant struct {
	V      vlib.Variant
	Inline bool // @requires populated inline by resolveEntity (no explicit_requires / computed_requires)
	NoNil  bool // individual resolvers return values: outcome "nil" does not exist
	Desc   string
}

func fedVariants(thorough bool) []fvariant {
	vs := []fvariant{
		{V: vlib.Variant{Name: "f0", Extra: fedBase + "  version: 2\n"}, Inline: true, Desc: "v2, default requires, single-file"},
		{V: vlib.Variant{Name: "f1", FollowSchema: true, FuncSyntax: true, Extra: fedBase + "  version: 2\n  options:\n    explicit_requires: true\n"},
			Desc: "v2, explicit_requires, follow-schema, function syntax"},
		{V: vlib.Variant{Name: "f2", WorkerLimit: 2, Opts: map[string]bool{"call_argument_directives_with_null": true},
			Extra: fedBase + "  version: 2\n  options:\n    computed_requires: true\n"}, Desc: "v2, computed_requires, worker_limit 2"},
		{V: vlib.Variant{Name: "f3", Opts: map[string]bool{"resolvers_always_return_pointers": false},
			Extra: fedBase + "  version: 1\n  options:\n    explicit_requires: true\n"}, NoNil: true, Desc: "v1, explicit_requires, value-returning resolvers"},
	}
	if thorough {
		vs = append(vs,
			fvariant{V: vlib.Variant{Name: "f4", FollowSchema: true, WorkerLimit: 1, Extra: fedBase + "  version: 1\n"}, Inline: true, Desc: "v1, default requires, follow-schema, worker_limit 1"},
			fvariant{V: vlib.Variant{Name: "f5", FuncSyntax: true, Opts: map[string]bool{"call_argument_directives_with_null": true, "omit_slice_element_pointers": true},
				Extra: fedBase + "  version: 2\n  options:\n    computed_requires: true\n"}, Desc: "v2, computed_requires, function syntax"},
		)
	}
	return vs
}

// ---- TLC configurations -------------------------------------------------------------------

type mcfg struct {
	Name      string
	Alphabet  []string
	MaxLen    int
	MaxFaults int
	Cover     bool // run with -coverage 1 and require every action of the model to have been taken
}

func (m mcfg) hasReq() bool {
	for _, k := range m.Alphabet {
		if strings.HasPrefix(k, "R") || strings.HasPrefix(k, "P") {
			return true
		}
	}
	return false
}

// fixFlag[constant] = TRUE when every finding that names the deviation is recorded as fixed in
// known_findings.d/C20.json: the "current tree" configurations (model check, export, trace
// validation, explanation of observations) model repaired deviations as repaired and open ones as
// they are.
var devKey = map[string]string{
	"other-key":     "multi-resolver-from-first-rep",
	"first-invalid": "multi-invalid-first-rep-fails-group",
	"short":         "multi-short-result-null-without-error",
	"nil-requires":  "multi-nil-entity-requires-panic-loses-rest",
	"bad-requires":  "multi-malformed-requires-loses-rest",
	"bad-key":       "multi-malformed-key-fails-group",
}

var devConst = map[string]string{"other-key": "FixFirstRep", "first-invalid": "FixFirstRep", "short": "FixShort",
	"nil-requires": "FixNilReq", "bad-requires": "FixBadReq", "bad-key": "FixBadKey"}

var fixFlag = map[string]bool{}

func loadFixFlags() {
	status := map[string]string{}
	for _, k := range vlib.LoadKnown("C20") {
		status[k.Key] = k.Status
	}
	// C20_ASSUME_FIXED=key,key (not used by the registered commands): model these findings as
	// repaired without editing known_findings.d - for checking a candidate patch in a scratch tree.
	for _, k := range strings.Split(os.Getenv("C20_ASSUME_FIXED"), ",") {
		if k != "" {
			status[k] = "fixed"
		}
	}
	for _, c := range devConst {
		fixFlag[c] = true
	}
	for dev, key := range devKey {
		if status[key] != "fixed" {
			fixFlag[devConst[dev]] = false // open (or unlisted): the deviation is modelled as present
		}
	}
}

func fixDesc() string {
	var out []string
	for _, c := range []string{"FixFirstRep", "FixShort", "FixNilReq", "FixBadReq", "FixBadKey"} {
		out = append(out, fmt.Sprintf("%s=%v", c, fixFlag[c]))
	}
	return strings.Join(out, " ")
}

// currentFix rewrites the Fix* constants of a "current tree" configuration.
func currentFix(cfg string) string {
	for c, v := range fixFlag {
		if v {
			cfg = strings.Replace(cfg, c+" = FALSE", c+" = TRUE", 1)
		}
	}
	return cfg
}

// bothModes: export the configuration for ReqInline = TRUE and FALSE. The two models differ only
// where an individually resolved @requires type's resolver returns nil; in the quick tier only the
// configurations made for that are exported twice - behaviours of the others that do not contain
// such an outcome are the same in both models and are replayed on every variant.
func (m mcfg) bothModes(thorough bool) bool {
	return m.hasReq() && (thorough || m.Name == "req" || m.Name == "rq1" || m.Name == "rp1")
}

func (m mcfg) edit(inline bool) func(string) string {
	return func(cfg string) string {
		cfg = currentFix(cfg) // no-op for the all-repaired configuration; the others follow the findings' status
		q := make([]string, len(m.Alphabet))
		for i, k := range m.Alphabet {
			q[i] = strconv.Quote(k)
		}
		cfg = strings.Replace(cfg, `Alphabet = {"S", "Mid", "Malt", "T0"}`, "Alphabet = {"+strings.Join(q, ", ")+"}", 1)
		cfg = strings.Replace(cfg, `Alphabet = {"S"}`, "Alphabet = {"+strings.Join(q, ", ")+"}", 1)
		cfg = strings.Replace(cfg, "MaxLen = 3", fmt.Sprintf("MaxLen = %d", m.MaxLen), 1)
		cfg = strings.Replace(cfg, "MaxFaults = 1", fmt.Sprintf("MaxFaults = %d", m.MaxFaults), 1)
		cfg = strings.Replace(cfg, "ReqInline = TRUE", "ReqInline = "+map[bool]string{true: "TRUE", false: "FALSE"}[inline], 1)
		return cfg
	}
}

var allKinds = []string{"S", "Smiss", "Snull", "Ka", "Kbc", "Kboth", "Kanull", "Kb", "N", "Nbad", "Nmiss",
	"Mid", "Malt", "Mmiss", "R", "Rm", "Rmnull", "U", "T0"}

// kinds that give every leaf of a composite key a status (value / explicit null / absent)
var compositeKinds = []string{"C", "C:vn", "C:nv", "C:nn", "C:va", "C:av", "C:na", "Cm", "Cm:vn", "Cm:nv", "Cm:nn", "Cm:va", "Cm:av", "Cm:na",
	"N2", "N2:vn", "N2:nv", "N2:nn", "N2:va", "N2:av", "N2:na", "N2:bad", "Kbc", "Kbcn", "Kbnc", "Kbncn", "Kanbcn", "Kanull",
	"K2", "K2:cn", "K2:cn-", "K2:bncn", "K2:ca"}

// the fields the @requires field of each probe type needs, in SDL order
// (= the slots of the entity: P / Pm require dims.vol twice, through two @requires directives)
var reqFields = map[string][]string{"R": {"w"}, "Rm": {"w"}, "R2": {"w", "n"}, "Rm2": {"w", "n"}, "R3": {"w", "n", "l"}, "Rm3": {"w", "n", "l"},
	"P": pPaths, "Pm": pPaths}

// round 4: the required paths of P / Pm. Slot s of representation j (1-based) carries the Int
// 1000*s + (j-1): a value names the representation AND the path it was sent for.
var pPaths = []string{"dimsVol", "dims.vol", "dims.wt", "box.vol"}

// the shapes the paths of P / Pm realise, as pairs of slots (1-based) that must BOTH hold their own
// value; dup: the slot that is required twice
var pathShapes = []struct {
	Name string
	A, B int
}{
	{"flat-vs-nested-same-go-name(dimsVol~dims{vol})", 1, 2},
	{"nested-shared-prefix(dims{vol}~dims{wt})", 2, 3},
	{"same-leaf-different-parent(dims{vol}~box{vol})", 2, 4},
	{"duplicated-path(dims{vol} x2)", 2, 2},
}

// reqKinds("R3", "Rm3") = the kinds "<T>" and "<T>:<j><b|n|a>" (j-th required value bad / null / absent)
func reqKinds(bases ...string) []string {
	var out []string
	for _, b := range bases {
		out = append(out, b)
		for j := range reqFields[b] {
			for _, c := range []string{"b", "n", "a"} {
				out = append(out, fmt.Sprintf("%s:%d%s", b, j+1, c))
			}
		}
	}
	return out
}

// round 4b: "<T>:2p" = the parent object of the nested path of slot 2 (dims.vol) is null in the
// representation (`"dims": null`): dims.vol and dims.wt are both unavailable
var parentNullKinds = []string{"P:2p", "Pm:2p"}

// splitKind("Rm3:2n") = ("Rm3", 2, "n"); ("S", 0, "") for kinds without a modifier
func splitKind(k string) (string, int, string) {
	if i := strings.Index(k, ":"); i > 0 && len(k) == i+3 {
		return k[:i], int(k[i+1] - '0'), k[i+2:]
	}
	return k, 0, ""
}

func modelConfigs(thorough bool) []mcfg {
	if !thorough {
		return []mcfg{
			{"mix", []string{"S", "Mid", "Malt", "T0"}, 3, 1, false},
			{"req", []string{"R", "Rm", "Rmnull", "U"}, 3, 1, false},
			{"keys", []string{"Kboth", "Kanull", "N", "Mmiss", "Mid"}, 2, 1, false},
			{"wide", allKinds, 2, 1, false},
			{"rq1", reqKinds("R", "Rm", "R2", "Rm2", "R3", "Rm3"), 1, 1, false},
			{"rq2", append(reqKinds("R2"), "Rm2", "Rm2:1b", "Rm2:2n", "Rm2:2a"), 2, 1, false},
			{"rq3", []string{"R3:1b", "Rm3", "Rm3:2b", "Rm3:3a"}, 3, 1, false},
			{"rp1", append(reqKinds("P", "Pm"), parentNullKinds...), 1, 1, false},
			{"rp2", []string{"P", "P:2n", "P:3b", "P:2p", "Pm", "Pm:1b", "Pm:2a", "Pm:4n"}, 2, 1, false},
			{"rp3", []string{"Pm", "Pm:3a", "Pm:2n"}, 3, 1, false},
			{"rp4", []string{"Pm", "Pm:2p"}, 3, 1, false},
			{"ck1", compositeKinds, 1, 1, false},
			{"ck2", []string{"C:vn", "Cm:vn", "Cm:nv", "Cm:nn", "Cm", "K2:cn", "N2:vn"}, 2, 1, false},
			{"bk", []string{"S:kb", "Mid", "Mid:kb", "C:vb", "Cm", "Cm:vb", "Cm:bv"}, 2, 1, false},
		}
	}
	return []mcfg{
		{"mix", []string{"S", "Mid", "Malt", "T0"}, 4, 1, false},
		{"mix2", []string{"S", "Mid", "Malt", "T0"}, 3, 2, false},
		{"req", []string{"R", "Rm", "Rmnull", "U"}, 4, 1, false},
		{"req2", []string{"R", "Rm", "S"}, 3, 2, false},
		{"keys", []string{"Ka", "Kbc", "Kboth", "Kanull", "Kb", "N", "Nbad"}, 3, 1, false},
		{"batch", []string{"Mid", "Malt", "Mmiss", "Rm", "N"}, 3, 1, false},
		{"batch2", []string{"Mid", "Malt", "Rm"}, 3, 2, false},
		{"wide", allKinds, 2, 2, false},
		{"wide3", []string{"S", "Snull", "Kbc", "N", "Mid", "Malt", "U", "T0"}, 3, 1, false},
		{"rq1", reqKinds("R", "Rm", "R2", "Rm2", "R3", "Rm3"), 1, 1, false},
		{"rq2", reqKinds("R2", "Rm2"), 2, 1, false},
		{"rq2b", append(reqKinds("R3"), "Rm3", "Rm3:1b", "Rm3:2b", "Rm3:2n", "Rm3:3b", "Rm", "Rm:1b"), 2, 1, false},
		{"rq3", []string{"R3:1b", "Rm3", "Rm3:1b", "Rm3:2n", "Rm3:3b"}, 3, 1, false},
		{"rp1", append(reqKinds("P", "Pm"), parentNullKinds...), 1, 1, false},
		{"rp4", []string{"P", "P:2p", "Pm", "Pm:2p", "Pm:3a"}, 3, 1, false},
		{"rp2", append(reqKinds("P"), "Pm", "Pm:1b", "Pm:2n", "Pm:2a", "Pm:3a", "Pm:4b"), 2, 1, false},
		{"rp3", []string{"P", "P:2a", "Pm", "Pm:1b", "Pm:3a", "Pm:4n"}, 3, 1, false},
		{"ck1", compositeKinds, 1, 1, false},
		{"ck2", compositeKinds, 2, 1, false},
		{"ck3", []string{"Cm", "Cm:vn", "Cm:nv", "Cm:nn", "Cm:va", "C:vn"}, 3, 1, false},
		{"bk", []string{"S:kb", "Mid", "Mid:kb", "Cm", "Cm:vb"}, 3, 1, false},
		{"bk2", []string{"S:kb", "Mid", "Mid:kb", "Malt", "C:vb", "Cm", "Cm:vb", "Cm:bv"}, 2, 1, false},
	}
}

// bigConfigs are checked exhaustively without export (VIEW without the completion order).
func bigConfigs(thorough bool) []mcfg {
	if !thorough {
		return nil
	}
	return []mcfg{
		{"mix44", []string{"S", "Mid", "Malt", "T0"}, 4, 2, false},
		{"req43", []string{"R", "Rm", "Rmnull"}, 4, 2, false},
		{"all3", []string{"S", "Smiss", "Ka", "Kbc", "Kanull", "N", "Nbad", "Mid", "Malt", "Mmiss", "Rm", "T0"}, 3, 1, false},
		{"cover", []string{"S", "Smiss", "Mid", "Malt", "Rm", "R", "U", "T0"}, 2, 1, true},
	}
}

// ---- the scenario TLC printed ----------------------------------------------------------------

// psT: what every slot (distinct required path) of an element holds, "i:p,i:p,..." - slot s holds
// the value representation i carried for path p (0:0 = null, -2:s = a zero / foreign value).
// A string keeps elem comparable; on the wire (TLC's export, the trace) it is [{"i":..,"p":..},..].
type psT string

type pval struct {
	I int `json:"i"`
	P int `json:"p"`
}

func mkPs(vs []pval) psT {
	out := make([]string, len(vs))
	for i, v := range vs {
		out[i] = fmt.Sprintf("%d:%d", v.I, v.P)
	}
	return psT(strings.Join(out, ","))
}

func (p psT) vals() []pval {
	out := []pval{}
	if p == "" {
		return out
	}
	for _, f := range strings.Split(string(p), ",") {
		var v pval
		fmt.Sscanf(f, "%d:%d", &v.I, &v.P)
		out = append(out, v)
	}
	return out
}

func (p psT) MarshalJSON() ([]byte, error) { return json.Marshal(p.vals()) }

func (p *psT) UnmarshalJSON(b []byte) error {
	if strings.TrimSpace(string(b)) == "{}" {
		*p = ""
		return nil
	}
	var vs []pval
	if err := json.Unmarshal(b, &vs); err != nil {
		return err
	}
	*p = mkPs(vs)
	return nil
}

// mapI renames the representation indices (dup suite)
func (p psT) mapI(f func(int) int) psT {
	vs := p.vals()
	for i := range vs {
		if vs[i].I > 0 {
			vs[i].I = f(vs[i].I)
		}
	}
	return mkPs(vs)
}

type elem struct {
	R  string `json:"r"`
	I  int    `json:"i"`
	W  int    `json:"w"`
	Ps psT    `json:"ps"`
}

type ideal struct {
	Null bool     `json:"null"`
	Fail bool     `json:"fail"`
	Rs   []string `json:"rs"`
	I    int      `json:"i"`
	W    int      `json:"w"`
	Ps   psT      `json:"ps"`
}

type call struct {
	R string `json:"r"`
	I int    `json:"i"`
}

type emitted struct {
	Reps   []string          `json:"reps"`
	Out    []string          `json:"out"`
	Bout   map[string]string `json:"bout"`
	Order  []call            `json:"order"`
	List   []elem            `json:"list"`
	Errs   int               `json:"errs"`
	Recs   int               `json:"recs"`
	Ideal  []ideal           `json:"ideal"`
	Units  int               `json:"units"`
	MayErr bool              `json:"mayerr"`
	Devs   []string          `json:"devs"`
	Cls    []string          `json:"cls"`
	Inline bool              `json:"inline"`
	Cfg    string            `json:"cfg"`
	Both   bool              `json:"both"` // the configuration was exported for both ReqInline values
}

// inlineSensitive: does the behaviour depend on ReqInline (nil from an individually resolved
// @requires type)?
func (e *emitted) inlineSensitive() bool {
	for i, o := range e.Out {
		if o == "nil" && ((strings.HasPrefix(e.Reps[i], "R") && !strings.HasPrefix(e.Reps[i], "Rm")) || (strings.HasPrefix(e.Reps[i], "P") && !strings.HasPrefix(e.Reps[i], "Pm"))) {
			return true
		}
		// round 4b: a null parent of a nested path is a recovered panic only in the inline code
		if e.Reps[i] == "P:2p" && o == "ent" {
			return true
		}
	}
	return false
}

func (e *emitted) scenarioKey() string {
	b, _ := json.Marshal([]any{e.Reps, e.Out, e.Bout})
	return string(b)
}

func (e *emitted) hasIndividualNil() bool {
	for i, o := range e.Out {
		if o == "nil" && !isBatchKind(e.Reps[i]) {
			return true
		}
	}
	return false
}

func isBatchKind(k string) bool {
	return strings.HasPrefix(k, "M") || strings.HasPrefix(k, "Rm") || strings.HasPrefix(k, "Cm") || strings.HasPrefix(k, "Pm")
}

var batchRes = map[string]bool{"findManyMByIDs": true, "findManyMByAlts": true, "findManyRmByIDs": true, "findManyRm2ByIDs": true, "findManyRm3ByIDs": true, "findManyCmByPAndQs": true, "findManyPmByIDs": true}

var resType = map[string]string{"findSByID": "S", "findKByA": "K", "findKByBAndC": "K", "findNByOid": "N",
	"findManyMByIDs": "M", "findManyMByAlts": "M", "findRByID": "R", "findManyRmByIDs": "Rm",
	"findR2ByID": "R2", "findManyRm2ByIDs": "Rm2", "findR3ByID": "R3", "findManyRm3ByIDs": "Rm3",
	"findCByPAndQ": "C", "findManyCmByPAndQs": "Cm", "findN2ByOAAndOb": "N2", "findK2ByBAndC": "K2", "findK2ByA": "K2", "findPByID": "P", "findManyPmByIDs": "Pm"}

// the key leaves of the resolvers with a composite key, in argument order; the driver gives the
// first leaf of representation j the value "i<j-1>" and the second "c<j-1>"
var keyLeaves = map[string][]string{
	"findKByBAndC": {"b", "c"}, "findK2ByBAndC": {"b", "c"}, "findCByPAndQ": {"p", "q"},
	"findManyCmByPAndQs": {"p", "q"}, "findN2ByOAAndOb": {"o.a", "o.b"},
}

// kindLeaves: status ("v" | "null"; absent = not in the map) of every key leaf a kind carries.
func kindLeaves(k string) map[string]string {
	st := map[byte]string{'v': "v", 'n': "null", 'b': "badv"}
	switch k {
	case "S:kb":
		return map[string]string{"id": "badv"}
	case "Mid:kb":
		return map[string]string{"id": "badv"}
	}
	two := func(f1, f2 string, c string) map[string]string {
		m := map[string]string{}
		if s, ok := st[c[0]]; ok {
			m[f1] = s
		}
		if s, ok := st[c[1]]; ok {
			m[f2] = s
		}
		return m
	}
	base, mod := k, "vv"
	if i := strings.Index(k, ":"); i > 0 {
		base, mod = k[:i], k[i+1:]
	}
	switch base {
	case "C", "Cm":
		return two("p", "q", mod)
	case "N2":
		if mod == "bad" {
			return map[string]string{}
		}
		return two("o.a", "o.b", mod)
	case "K2":
		switch mod {
		case "vv":
			return map[string]string{"a": "v", "b": "v", "c": "v"}
		case "cn":
			return map[string]string{"a": "v", "b": "v", "c": "null"}
		case "cn-":
			return map[string]string{"b": "v", "c": "null"}
		case "bncn":
			return map[string]string{"a": "v", "b": "null", "c": "null"}
		case "ca":
			return map[string]string{"a": "v", "b": "v"}
		}
	}
	switch k {
	case "Kbc":
		return map[string]string{"b": "v", "c": "v"}
	case "Kboth":
		return map[string]string{"a": "v", "b": "v", "c": "v"}
	case "Kanull":
		return map[string]string{"a": "null", "b": "v", "c": "v"}
	case "Kbcn":
		return map[string]string{"b": "v", "c": "null"}
	case "Kbnc":
		return map[string]string{"b": "null", "c": "v"}
	case "Kbncn":
		return map[string]string{"b": "null", "c": "null"}
	case "Kanbcn":
		return map[string]string{"a": "null", "b": "v", "c": "null"}
	case "Kb":
		return map[string]string{"b": "v"}
	}
	return nil
}

// argsIndex maps the arguments of a resolver call key to the 1-based index they name (the first
// leaf is "i<k>", the second "c<k>", a null leaf "null"): 0 = no value at all, -2 = values of
// different representations / unparsable.
func argsIndex(args []string) int {
	idx := 0
	for j, a := range args {
		if a == "null" {
			continue
		}
		k := parseIdx(a, []string{"i", "c"}[j%2])
		if k <= 0 {
			if j == 0 {
				return k
			}
			return -2
		}
		if idx != 0 && k != idx {
			return -2
		}
		idx = k
	}
	return idx
}

// nullPatternOK: are exactly those arguments of a composite-key call null whose leaf the kind
// carries as an explicit null?
func nullPatternOK(r string, args []string, kind string) bool {
	ls := keyLeaves[r]
	if ls == nil || len(args) != len(ls) {
		return true
	}
	kl := kindLeaves(kind)
	for j, a := range args {
		if (a == "null") != (kl[ls[j]] != "v") {
			return false
		}
	}
	return true
}

// callKey renders the concrete gate / plan / event key of a resolver call for key index idx
// (1-based; the driver gives representation j the key value "i<j-1>").
func callKey(r string, idx int, kind string) string {
	id := fmt.Sprintf("i%d", idx-1)
	if ls := keyLeaves[r]; ls != nil {
		kl := kindLeaves(kind)
		args := []string{id, fmt.Sprintf("c%d", idx-1)}
		for j, l := range ls {
			if kl[l] != "v" {
				args[j] = "null"
			}
		}
		return ur.C20Key(r, args)
	}
	return ur.C20Key(r, []string{id})
}

// concretise builds the representation JSON for kind k at 1-based index i; id maps an index to
// the index whose key values it carries (identity, or the first duplicate for the dup suite).
func concretise(k string, i int, rnd *rand.Rand) map[string]any {
	id := fmt.Sprintf("i%d", i-1)
	c := fmt.Sprintf("c%d", i-1)
	w := fmt.Sprintf("w%d", i-1)
	var m map[string]any
	if base, j, st := splitKind(k); reqFields[base] != nil {
		// well-formed required values name the index: w "w<i>", n 1000+i, l ["l<i>"]
		m = map[string]any{"__typename": base, "id": id}
		nullParent := ""
		defer func() {
			if nullParent != "" {
				m[nullParent] = nil
			}
		}()
		for fi, f := range reqFields[base] {
			var good, bad any
			if strings.HasPrefix(base, "P") {
				// slot fi+1 of representation i carries 1000*(fi+1) + (i-1); nested paths live in their
				// parent object, which is always present (a missing leaf is left out of it)
				good, bad = float64(1000*(fi+1)+i-1), []any{"abc", map[string]any{"x": 1.0}, 1.5, []any{7.0}}[rnd.Intn(4)]
				tgt := m
				leaf := f
				if d := strings.Index(f, "."); d > 0 {
					par, _ := m[f[:d]].(map[string]any)
					if par == nil {
						par = map[string]any{}
						m[f[:d]] = par
					}
					tgt, leaf = par, f[d+1:]
				}
				switch {
				case fi+1 != j:
					tgt[leaf] = good
				case st == "b":
					tgt[leaf] = bad
				case st == "n":
					tgt[leaf] = nil
				case st == "p" && strings.Contains(f, "."):
					// round 4b: the PARENT object of the nested path is null (`"dims": null`); set
					// after the loop, so the sibling paths under it are unavailable as well
					nullParent = f[:strings.Index(f, ".")]
				}
				continue
			}
			switch f {
			case "w":
				good, bad = w, []any{map[string]any{"x": 1.0}, []any{map[string]any{"y": "z"}}}[rnd.Intn(2)]
			case "n":
				good, bad = float64(1000+i-1), []any{"abc", map[string]any{"x": 1.0}, 1.5}[rnd.Intn(3)]
			case "l":
				good, bad = []any{"l" + id[1:]}, []any{[]any{map[string]any{"x": 1.0}}, []any{"l" + id[1:], nil}, map[string]any{"x": 1.0}}[rnd.Intn(3)]
			}
			switch {
			case fi+1 != j:
				m[f] = good
			case st == "b":
				m[f] = bad
			case st == "n":
				m[f] = nil
			}
		}
		if rnd.Intn(3) == 0 {
			m["zq"] = "noise"
		}
		return m
	}
	if kl := kindLeaves(k); kl != nil {
		tn := k
		if j := strings.Index(k, ":"); j > 0 {
			tn = k[:j]
		}
		if strings.HasPrefix(tn, "K") && tn != "K2" {
			tn = "K"
		}
		m = map[string]any{"__typename": tn}
		val := func(leaf, good string) (any, bool) {
			switch kl[leaf] {
			case "v":
				return good, true
			case "null":
				return nil, true
			case "badv": // present, not null, of the wrong JSON type
				return []any{map[string]any{"x": 1.0}, []any{"a", map[string]any{"y": 2.0}}}[rnd.Intn(2)], true
			}
			return nil, false
		}
		if k == "S:kb" || k == "Mid:kb" {
			m["__typename"] = map[string]string{"S:kb": "S", "Mid:kb": "M"}[k]
			m["id"], _ = val("id", id)
			return m
		}
		switch tn {
		case "N2":
			if k == "N2:bad" {
				m["o"] = []any{"x", 5.0}[rnd.Intn(2)]
				break
			}
			o := map[string]any{}
			if v, ok := val("o.a", id); ok {
				o["a"] = v
			}
			if v, ok := val("o.b", c); ok {
				o["b"] = v
			}
			m["o"] = o
		case "C", "Cm":
			if v, ok := val("p", id); ok {
				m["p"] = v
			}
			if v, ok := val("q", c); ok {
				m["q"] = v
			}
		default: // K, K2
			if v, ok := val("a", id); ok {
				m["a"] = v
			}
			if v, ok := val("b", id); ok {
				m["b"] = v
			}
			if v, ok := val("c", c); ok {
				m["c"] = v
			}
		}
		if rnd.Intn(3) == 0 {
			m["zq"] = "noise"
		}
		return m
	}
	switch k {
	case "S":
		m = map[string]any{"__typename": "S", "id": id}
	case "Smiss":
		m = map[string]any{"__typename": "S"}
	case "Snull":
		m = map[string]any{"__typename": "S", "id": nil}
	case "Ka":
		m = map[string]any{"__typename": "K", "a": id}
	case "N":
		m = map[string]any{"__typename": "N", "o": map[string]any{"id": id}}
	case "Nbad":
		m = map[string]any{"__typename": "N", "o": []any{"x", 5.0, []any{id}}[rnd.Intn(3)]}
	case "Nmiss":
		if rnd.Intn(2) == 0 {
			m = map[string]any{"__typename": "N"}
		} else {
			m = map[string]any{"__typename": "N", "o": map[string]any{}}
		}
	case "Mid":
		m = map[string]any{"__typename": "M", "id": id}
	case "Malt":
		m = map[string]any{"__typename": "M", "alt": id}
	case "Mmiss":
		m = map[string]any{"__typename": "M"}
	case "Rmnull":
		m = map[string]any{"__typename": "Rm", "id": nil, "w": w}
	case "U":
		m = map[string]any{"__typename": "Zz", "id": id}
	case "T0":
		switch rnd.Intn(3) {
		case 0:
			m = map[string]any{"id": id}
		case 1:
			m = map[string]any{"__typename": 7.0, "id": id}
		default:
			m = map[string]any{"__typename": nil, "id": id}
		}
	default:
		vlib.Infra("unknown kind %s", k)
	}
	if rnd.Intn(3) == 0 {
		m["zq"] = "noise" // a field no key mentions
	}
	return m
}

const entQuery = `query($reps:[_Any!]!){_entities(representations:$reps){__typename ... on S{v} ... on K{v} ... on N{v} ... on M{v} ... on R{v z} ... on Rm{v z} ... on R2{v z} ... on Rm2{v z} ... on R3{v z} ... on Rm3{v z} ... on P{v z} ... on Pm{v z} ... on C{v} ... on Cm{v} ... on N2{v} ... on K2{v}}}`

type job struct {
	E       *emitted       `json:"emitted"`
	S       *vlib.Scenario `json:"scenario"`
	Variant string         `json:"variant"`
	Dup     []int          `json:"dup"` // dup suite: index -> index whose keys it repeats (1-based), nil otherwise
}

func (e *emitted) scenario(id string, rnd *rand.Rand, dup []int) *vlib.Scenario {
	reps := make([]any, len(e.Reps))
	for i, k := range e.Reps {
		src := i + 1
		if dup != nil {
			src = dup[i]
		}
		reps[i] = concretise(k, src, rand.New(rand.NewSource(rnd.Int63()+int64(src)*7919)))
	}
	if dup != nil {
		// identical duplicates: same noise / same concretisation by construction (seeded by src)
		for i := range reps {
			if dup[i] != i+1 {
				reps[i] = reps[dup[i]-1]
			}
		}
	}
	plan := map[string]ur.Outcome{}
	for i, o := range e.Out {
		if o == "ent" || o == "-" {
			continue
		}
		k := map[string]string{"nil": "null", "err": "err", "panic": "panic"}[o]
		if len(e.Ideal[i].Rs) == 0 {
			continue
		}
		// individual: the call for representation i; batch: the element answering input i
		plan[callKey(e.Ideal[i].Rs[0], i+1, e.Reps[i])] = ur.Outcome{K: k}
	}
	for r, o := range e.Bout {
		if o != "ok" {
			plan[r] = ur.Outcome{K: o}
		}
	}
	// through handler.Server + the POST transport: variables are decoded as a router's request is
	// (json.Number for numbers), which the Int-typed required field needs
	s := &vlib.Scenario{ID: id, Query: entQuery, Vars: map[string]any{"reps": reps}, Plan: plan, Mode: "http"}
	if dup == nil {
		s.Sched = "order"
		var keys []string
		for _, c := range e.Order {
			if batchRes[c.R] {
				keys = append(keys, c.R)
			} else {
				kind := ""
				if c.I >= 1 && c.I <= len(e.Reps) {
					kind = e.Reps[c.I-1]
				}
				keys = append(keys, callKey(c.R, c.I, kind))
			}
		}
		// all calls are in flight together - except that the batch calls of ONE type group run one
		// after the other (a type whose representations select different resolvers, repaired design)
		typeSeen := map[string]bool{}
		for i, k := range keys {
			if c := e.Order[i]; batchRes[c.R] {
				if typeSeen[resType[c.R]] {
					continue
				}
				typeSeen[resType[c.R]] = true
			}
			s.Order = append(s.Order, "?"+k)
		}
		for _, k := range keys {
			s.Order = append(s.Order, k, k+"#ret") // the call has returned before the next one is released
		}
		plan["c20:ret"] = ur.Outcome{K: "on"}
	}
	return s
}

// ---- observation ---------------------------------------------------------------------------

type observed struct {
	List    []elem
	Errs    int
	Recs    int
	Panics  int
	BadPath []string
	Raw     string
}

func untag(t map[string]any) any {
	switch t["t"] {
	case "n", nil:
		return nil
	case "o":
		m := map[string]any{}
		fs, _ := t["f"].([]any)
		for _, f := range fs {
			fm := f.(map[string]any)
			v, _ := fm["v"].(map[string]any)
			m[fm["k"].(string)] = untag(v)
		}
		return m
	case "l":
		es, _ := t["e"].([]any)
		out := make([]any, len(es))
		for i, e := range es {
			em, _ := e.(map[string]any)
			out[i] = untag(em)
		}
		return out
	}
	return t["v"]
}

func parseIdx(s, prefix string) int {
	if strings.HasPrefix(s, prefix) {
		if n, err := strconv.Atoi(s[len(prefix):]); err == nil {
			return n + 1
		}
	}
	switch s {
	case "", "null":
		return 0
	case "extra":
		return -1
	}
	return -2
}

// reqIndex maps the echo of the required values ("w3|1003|l3", "null" for a null one) to the
// 1-based index they name: 0 = none carried, -2 = zero values / values of different
// representations, -1 = the null pattern is not that of the representation they name.
func reqIndex(tn, z string, kinds []string, mapIdx func(int) int) int {
	fs := reqFields[tn]
	parts := strings.Split(z, "|")
	if len(parts) != len(fs) {
		return -2
	}
	idx := 0
	for j, p := range parts {
		k := 0
		switch {
		case p == "null":
			continue
		case fs[j] == "w":
			k = parseIdx(p, "w")
		case fs[j] == "l":
			k = parseIdx(p, "l")
		case fs[j] == "n":
			n, err := strconv.Atoi(p)
			if err != nil || n < 1000 {
				return -2 // a zero value
			}
			k = n - 1000 + 1
		}
		if k <= 0 || (idx != 0 && k != idx) {
			return -2
		}
		idx = k
	}
	if idx == 0 {
		return 0
	}
	// the fields that are null must be exactly the nullable ones representation idx leaves out
	for ri, kn := range kinds {
		if mapIdx(ri+1) != idx {
			continue
		}
		base, j, st := splitKind(kn)
		if base != tn {
			continue
		}
		ok := true
		for fi, p := range parts {
			wantNull := fi+1 == j && (st == "n" || st == "a")
			ok = ok && (p == "null") == wantNull
		}
		if ok {
			return idx
		}
	}
	return -1
}

// pathVals decodes the echo of the slots of a P / Pm entity ("1003|2003|null|4003"): slot s holds
// the value representation i carried for path p when it reads 1000*p + (i-1); null -> 0:0; anything
// else (a zero value, not a number) -> -2:s. The second result is the index all values name (0 none,
// -2 values of different representations / a zero value).
func pathVals(z string) (psT, int) {
	parts := strings.Split(z, "|")
	vs := make([]pval, len(parts))
	w := 0
	for s, p := range parts {
		if p == "null" {
			continue
		}
		n, err := strconv.Atoi(p)
		if err != nil || n < 1000 {
			vs[s] = pval{I: -2, P: s + 1}
			w = -2
			continue
		}
		vs[s] = pval{I: n%1000 + 1, P: n / 1000}
		if w == 0 {
			w = vs[s].I
		} else if w != vs[s].I {
			w = -2
		}
	}
	return mkPs(vs), w
}

// slotVals: the same for the older @requires types (w "w<i>", n 1000+i, l ["l<i>"]): their slots
// have pairwise different Go types, so the path a value names is its own slot.
func slotVals(tn, z string) psT {
	fs := reqFields[tn]
	parts := strings.Split(z, "|")
	vs := make([]pval, len(parts))
	for s, p := range parts {
		if p == "null" {
			continue
		}
		k := -2
		if s < len(fs) {
			switch fs[s] {
			case "w":
				k = parseIdx(p, "w")
			case "l":
				k = parseIdx(p, "l")
			case "n":
				if n, err := strconv.Atoi(p); err == nil && n >= 1000 {
					k = n - 1000 + 1
				}
			}
		}
		if k <= 0 {
			k = -2
		}
		vs[s] = pval{I: k, P: s + 1}
	}
	return mkPs(vs)
}

// abstractElem maps one element of the `_entities` list to (resolver, key index, requires index).
func abstractElem(v any, kinds []string, mapIdx func(int) int) elem {
	m, ok := v.(map[string]any)
	if !ok || v == nil {
		return elem{}
	}
	tn, _ := m["__typename"].(string)
	vs, _ := m["v"].(string)
	op := strings.Index(vs, "(")
	if op < 0 || !strings.HasSuffix(vs, ")") {
		return elem{R: "unparsable:" + vs, I: -2}
	}
	r := vs[:op]
	args := strings.Split(vs[op+1:len(vs)-1], ",")
	e := elem{R: r, I: argsIndex(args)}
	if e.I > 0 {
		// the leaves handed over as null must be exactly the ones the representation carries as null
		for ri, kn := range kinds {
			if mapIdx(ri+1) == e.I && !nullPatternOK(r, args, kn) {
				e.I = -2
				break
			}
		}
	}
	if resType[r] != tn {
		e.R = "typename-mismatch:" + tn + "/" + r
	}
	if reqFields[tn] != nil {
		z, _ := m["z"].(string)
		if strings.HasPrefix(tn, "P") {
			e.Ps, e.W = pathVals(z)
		} else {
			e.W = reqIndex(tn, z, kinds, mapIdx)
			e.Ps = slotVals(tn, z)
		}
	}
	return e
}

func observe(s *vlib.Scenario, kinds []string, dup []int) (*observed, string) {
	n := len(kinds)
	mapIdx := func(i int) int {
		if dup != nil && i >= 1 && i <= len(dup) {
			return dup[i-1]
		}
		return i
	}
	r := s.Result
	if len(r.Resps) != 1 {
		return nil, fmt.Sprintf("%d responses", len(r.Resps))
	}
	o := &observed{}
	b, _ := json.Marshal(r.Resps[0].Data)
	o.Raw = string(b)
	data, _ := untag(r.Resps[0].Data).(map[string]any)
	lst, _ := data["_entities"].([]any)
	if data == nil || data["_entities"] == nil {
		return nil, "no _entities list in data: " + o.Raw
	}
	if len(lst) != n {
		return nil, fmt.Sprintf("_entities has %d elements for %d representations", len(lst), n)
	}
	for _, v := range lst {
		o.List = append(o.List, abstractElem(v, kinds, mapIdx))
	}
	o.Errs = len(r.Resps[0].Errs)
	for _, e := range r.Resps[0].Errs {
		if e.P != "_entities" && !strings.HasPrefix(e.P, "_entities.") {
			o.BadPath = append(o.BadPath, e.P)
		}
	}
	for _, ev := range r.Events {
		if ev.E == "Recover" {
			o.Recs++
		}
		if ev.E == "End" && ev.T == "panic" {
			o.Panics++
		}
	}
	return o, ""
}

// judge compares the observation with the property's prescription (ideal) and with the model of
// the pinned tree; returns (violation key, detail) or "".
func judge(j *job, o *observed) (string, string) {
	e := j.E
	mapIdx := func(i int) int {
		if j.Dup != nil && i >= 1 && i <= len(j.Dup) {
			return j.Dup[i-1]
		}
		return i
	}
	var bad []string
	cls := ""
	note := func(c, d string) {
		if cls == "" {
			cls = c
		}
		bad = append(bad, d)
	}
	for i, id := range e.Ideal {
		ob := o.List[i]
		switch {
		case id.Null && ob != (elem{}):
			note("unexpected-entity", fmt.Sprintf("element %d must be null (representation %s, outcome %s) but is %+v", i, e.Reps[i], e.Out[i], ob))
		case id.Null:
		case ob == (elem{}):
			note("lost-entity", fmt.Sprintf("element %d is null although representation %d (%s) resolves", i, i, e.Reps[i]))
		default:
			okR := false
			for _, r := range id.Rs {
				okR = okR || r == ob.R
			}
			switch {
			case ob.I > 0 && ob.I != mapIdx(id.I):
				note("wrong-index", fmt.Sprintf("element %d holds the entity resolved from representation %d", i, ob.I-1))
			case ob.I <= 0:
				note("empty-key", fmt.Sprintf("element %d was resolved by %s from an empty / foreign key (%d)", i, ob.R, ob.I))
			case !okR:
				note("wrong-resolver", fmt.Sprintf("element %d was resolved by %s, representation carries the keys of %v", i, ob.R, id.Rs))
			case ob.W != mapIdx(id.W) && !strings.HasPrefix(e.Reps[i], "P"):
				note("requires-from-other", fmt.Sprintf("element %d: @requires field populated from representation %d (w index %d), expected its own", i, ob.W-1, ob.W))
			case ob.Ps != id.Ps.mapI(mapIdx):
				note("requires-path-value", fmt.Sprintf("element %d (%s): %s", i, e.Reps[i], describePs(e.Reps[i], ob.Ps, id.Ps.mapI(mapIdx))))
			}
			if id.Ps != "" && strings.HasPrefix(e.Reps[i], "P") {
				countShapes(j.Variant, e.Reps[i], id.Ps)
			}
		}
	}
	if o.Errs < e.Units {
		note("missing-error", fmt.Sprintf("%d error(s) for %d failed unit(s)", o.Errs, e.Units))
	}
	if e.Units == 0 && !e.MayErr && o.Errs > 0 {
		note("spurious-error", fmt.Sprintf("%d error(s) although nothing failed", o.Errs))
	}
	if o.Recs < o.Panics {
		note("panic-without-recover-hook", fmt.Sprintf("%d resolver panic(s), recover hook ran %d time(s)", o.Panics, o.Recs))
	}
	if len(o.BadPath) > 0 {
		note("error-path", fmt.Sprintf("errors outside _entities: %v", o.BadPath))
	}
	same := o.Errs == e.Errs && o.Recs == e.Recs && len(o.List) == len(e.List)
	if same {
		for i := range o.List {
			ml := e.List[i]
			ml.I, ml.W, ml.Ps = mapIdx(ml.I), mapIdx(ml.W), ml.Ps.mapI(mapIdx)
			same = same && o.List[i] == ml
		}
	}
	desc := func() string {
		rb, _ := json.Marshal(j.S.Vars["reps"])
		pb, _ := json.Marshal(j.S.Plan)
		return fmt.Sprintf("variant=%s representations=%s plan=%s release order=%v\nobserved list=%+v errors=%d recovers=%d\nmodel of the current tree ("+fixDesc()+"): list=%+v errors=%d recovers=%d; property: %s",
			j.Variant, rb, pb, j.S.Order, o.List, o.Errs, o.Recs, e.List, e.Errs, e.Recs, strings.Join(bad, "; "))
	}
	if len(bad) > 0 {
		if len(e.Devs) > 0 && same {
			// open deviation(s) of the current tree, reproduced exactly as modelled
			ds := append([]string{}, e.Devs...)
			sort.Strings(ds)
			keys := []string{}
			for _, d := range ds {
				keys = append(keys, devKey[d])
			}
			return strings.Join(keys, "+"), desc()
		}
		// not what the model of the current tree does. If the scenario lies in a deviation class
		// that is recorded as fixed, this is that deviation again: report it under its old key.
		open := map[string]bool{}
		for _, d := range e.Devs {
			open[d] = true
		}
		var back []string
		for _, d := range e.Cls {
			if !open[d] && fixFlag[devConst[d]] {
				back = append(back, devKey[d])
			}
		}
		if len(back) > 0 {
			sort.Strings(back)
			return back[0], "REGRESSION of a deviation recorded as fixed. " + desc()
		}
		kinds := append([]string{}, e.Reps...)
		return "entities|" + cls + "|" + strings.Join(kinds, ","), desc()
	}
	if !same && len(e.Devs) == 0 {
		// the property holds but the code does not do what the model of the algorithm does
		// (error / recover counts): reported, since the model is the specification of the template
		return "entities|diverges-from-model|" + strings.Join(e.Reps, ","), desc() + "(property satisfied; counts differ from the model)"
	}
	return "", ""
}

// describePs names the required paths whose slot does not hold what representation i carried for it.
func describePs(kind string, got, want psT) string {
	g, w := got.vals(), want.vals()
	base, _, _ := splitKind(kind)
	var out []string
	for s := range w {
		name := fmt.Sprintf("slot %d", s+1)
		if fs := reqFields[base]; s < len(fs) {
			name = fs[s]
		}
		switch {
		case s >= len(g):
			out = append(out, name+": missing from the echo")
		case g[s] == w[s]:
		case g[s].I == 0:
			out = append(out, fmt.Sprintf("required path %s is null, the representation carries a value for it", name))
		case g[s].I == -2:
			out = append(out, fmt.Sprintf("required path %s holds a zero / foreign value (never assigned from the representation?)", name))
		case w[s].I == 0:
			out = append(out, fmt.Sprintf("required path %s holds a value although the representation carries none", name))
		case g[s].P != w[s].P:
			out = append(out, fmt.Sprintf("required path %s holds the value sent for path %d of representation %d", name, g[s].P, g[s].I-1))
		default:
			out = append(out, fmt.Sprintf("required path %s holds the value of representation %d, expected its own (%d)", name, g[s].I-1, w[s].I-1))
		}
	}
	return strings.Join(out, "; ")
}

// counted dimensions of round 4: per (resolution path single / batch, probe variant, shape) the
// number of non-null elements whose two slots of that shape were both compared with a prescribed
// VALUE, and per (type, slot, status) the number of replays of a kind that deviates in that slot.
var (
	shapeMu    sync.Mutex
	shapeCount = map[string]int{}
	slotCount  = map[string]int{}
)

func countShapes(variant, kind string, want psT) {
	w := want.vals()
	mode := "single"
	if isBatchKind(kind) {
		mode = "batch"
	}
	shapeMu.Lock()
	defer shapeMu.Unlock()
	for _, sh := range pathShapes {
		if sh.A <= len(w) && sh.B <= len(w) && w[sh.A-1].I > 0 && w[sh.B-1].I > 0 {
			shapeCount[mode+"|"+variant+"|"+sh.Name]++
		}
	}
}

// ---- trace lines (B) -----------------------------------------------------------------------

func linesOf(jobs map[string]*job) func(*vlib.Scenario) [][]byte {
	return func(s *vlib.Scenario) [][]byte {
		j := jobs[s.ID]
		e := j.E
		var out [][]byte
		add := func(v any) { b, _ := json.Marshal(v); out = append(out, b) }
		reps := append([]string{}, e.Reps...)
		outs := append([]string{}, e.Out...)
		add(map[string]any{"e": "Scenario", "id": s.ID, "reps": reps, "out": outs, "bout": e.Bout})
		for _, ev := range s.Result.Events {
			switch ev.E {
			case "Start", "End":
				if batchRes[ev.P] {
					if ev.E == "Start" {
						ks := []int{}
						for _, k := range strings.Fields(ev.A) {
							op := strings.Index(k, "(")
							ks = append(ks, argsIndex(strings.Split(k[op+1:len(k)-1], ",")))
						}
						add(map[string]any{"e": "BStart", "r": ev.P, "ks": ks})
					} else {
						add(map[string]any{"e": "BEnd", "r": ev.P, "o": ev.T})
					}
					continue
				}
				op := strings.Index(ev.P, "(")
				if op < 0 {
					continue
				}
				idx := argsIndex(strings.Split(ev.P[op+1:len(ev.P)-1], ","))
				if ev.E == "Start" {
					add(map[string]any{"e": "Start", "r": ev.P[:op], "i": idx})
				} else {
					o := ev.T
					if o == "null" {
						o = "nil"
					}
					add(map[string]any{"e": "End", "r": ev.P[:op], "i": idx, "o": o})
				}
			case "Err":
				add(map[string]any{"e": "Err"})
			case "Recover":
				add(map[string]any{"e": "Recover"})
			}
		}
		ob, _ := observe(s, e.Reps, nil)
		lst := []elem{}
		if ob != nil {
			lst = append(lst, ob.List...)
		}
		errs := 0
		if ob != nil {
			errs = ob.Errs
		}
		add(map[string]any{"e": "Respond", "list": lst, "errs": errs})
		return out
	}
}

// ---- main ----------------------------------------------------------------------------------

var modelActions = []string{"Build", "Finish", "GroupStart", "BatchNext", "BatchCall", "BatchReturn", "ZipStep", "GroupDone",
	"EntityFail", "EntityCall", "EntityReturn"}

func runMC(c *vlib.Check, m mcfg, cfg string, inline bool, workers int, wantOK bool) *vlib.TLCResult {
	res, err := vlib.RunTLC(vlib.TLCOpts{Module: "Entities", Config: cfg, Workers: workers, CfgEdit: m.edit(inline), Coverage: m.Cover,
		Scratch: vlib.Work("C20", fmt.Sprintf("mc-%s-%s-%v", strings.TrimSuffix(cfg, ".cfg"), m.Name, inline)), Timeout: 15 * time.Minute})
	if err != nil {
		vlib.Infra("tlc %s: %v", cfg, err)
	}
	if wantOK && !res.OK {
		vlib.Infra("model check %s (%s) failed - a specification error, not a verdict on the code:\n%s", cfg, m.Name, res.Violation)
	}
	return res
}

func main() {
	c := vlib.NewCheck("C20", "model_checking")
	loadFixFlags()
	c.Set("model_of_current_tree", fixDesc()+" (from the status of the findings in known_findings.d/C20.json)")
	thorough := vlib.Tier() == "thorough"
	seed := vlib.Seed()

	// 1. probes generated from the current templates
	fvs := fedVariants(thorough)
	var vs []vlib.Variant
	for _, f := range fvs {
		vs = append(vs, f.V)
	}
	race := vlib.Variant{Name: "f0r", Race: true, Extra: fedBase + "  version: 2\n"}
	vs = append(vs, race)
	t0 := time.Now()
	bins, err := vlib.BuildProbes("fed2", vs)
	if err != nil {
		vlib.Infra("build federation probes (do /repo's federation templates still generate compilable code?): %v", err)
	}
	fmt.Fprintf(os.Stderr, "[c20] %d probe variants generated and compiled in %.0fs\n", len(vs), time.Since(t0).Seconds())
	if rp := os.Getenv("VERIF_REPLAY"); rp != "" {
		replayOne(c, rp, bins)
		return
	}

	// 2. model checking + export. Per alphabet: the export run (pinned model with the completion
	// order in the state; it checks TypeOK / OwnIndexOnly / CorrectModuloKnown on a superset of the
	// states of MC_Entities.cfg) and the repaired design against the property itself; the bigger
	// MC-only configurations follow. At most 4 TLC workers at any time.
	mcs := modelConfigs(thorough)
	allFixed := true
	for _, v := range fixFlag {
		allFixed = allFixed && v
	}
	type mcJob struct {
		m      mcfg
		cfg    string
		inline bool
		res    *vlib.TLCResult
	}
	var mjobs []*mcJob
	for _, m := range mcs {
		mjobs = append(mjobs, &mcJob{m: m, cfg: "MC_Entities_emit.cfg", inline: true})
		if m.bothModes(thorough) {
			mjobs = append(mjobs, &mcJob{m: m, cfg: "MC_Entities_emit.cfg", inline: false})
		}
	}
	{
		sem := make(chan struct{}, 4)
		var wg sync.WaitGroup
		for _, mj := range mjobs {
			wg.Add(1)
			go func(mj *mcJob) {
				defer wg.Done()
				sem <- struct{}{}
				defer func() { <-sem }()
				mj.res = runMC(c, mj.m, mj.cfg, mj.inline, 1, true)
			}(mj)
		}
		wg.Wait()
	}
	runJobs := func(js []*mcJob) {
		sem := make(chan struct{}, 4)
		var wg sync.WaitGroup
		for _, mj := range js {
			wg.Add(1)
			go func(mj *mcJob) {
				defer wg.Done()
				sem <- struct{}{}
				defer func() { <-sem }()
				mj.res = runMC(c, mj.m, mj.cfg, mj.inline, 1, true)
			}(mj)
		}
		wg.Wait()
	}
	// the all-repaired design (Correct itself) is checked separately wherever the model of the
	// current tree deviates from it (an export with a non-empty deviation set); elsewhere the export
	// run IS the repaired model judged by Correct
	{
		var fixedJobs []*mcJob
		seen := map[string]bool{}
		for _, mj := range mjobs {
			if seen[mj.m.Name] || !strings.Contains(strings.Join(mj.res.Printed, ""), `\"devs\":[\"`) {
				continue
			}
			seen[mj.m.Name] = true
			fixedJobs = append(fixedJobs, &mcJob{m: mj.m, cfg: "MC_Entities_fixed.cfg", inline: true})
		}
		runJobs(fixedJobs)
		mjobs = append(mjobs, fixedJobs...)
	}
	var ems []*emitted
	for _, mj := range mjobs {
		c.AddStates(mj.res.Distinct, mj.res.Generated)
		if mj.cfg != "MC_Entities_emit.cfg" {
			fmt.Fprintf(os.Stderr, "[c20] model %-6s repaired design: Correct holds on %d states (%.0fs)\n", mj.m.Name, mj.res.Distinct, mj.res.WallS)
			continue
		}
		n := 0
		for _, ln := range mj.res.Printed {
			if len(ln) < 2 || ln[0] != '"' {
				continue
			}
			inner, err := strconv.Unquote(ln)
			if err != nil {
				continue
			}
			var e emitted
			if err := json.Unmarshal([]byte(inner), &e); err != nil || e.Bout == nil {
				continue
			}
			e.Cfg = mj.m.Name
			e.Both = mj.m.bothModes(thorough)
			ems = append(ems, &e)
			n++
		}
		if n == 0 {
			vlib.Infra("TLC exported no behaviours for %s", mj.m.Name)
		}
		fmt.Fprintf(os.Stderr, "[c20] model %-6s inline=%-5v current tree: CorrectModuloKnown holds on %d states, %d (scenario, order) behaviours exported (%.0fs)\n",
			mj.m.Name, mj.inline, mj.res.Distinct, n, mj.res.WallS)
	}
	for _, m := range bigConfigs(thorough) {
		p := runMC(c, m, "MC_Entities.cfg", true, 4, true)
		c.AddStates(p.Distinct, p.Generated)
		f := p
		if !allFixed {
			f = runMC(c, m, "MC_Entities_fixed.cfg", true, 4, true)
			c.AddStates(f.Distinct, f.Generated)
		}
		fmt.Fprintf(os.Stderr, "[c20] model %-6s (exhaustive only) pinned %d states, repaired %d states (%.0fs)\n", m.Name, p.Distinct, f.Distinct, p.WallS+f.WallS)
		if m.Cover {
			for _, r := range []*vlib.TLCResult{p, f} {
				for _, a := range modelActions {
					if r.ActionCount[a] == 0 {
						vlib.Infra("vacuous: action %s of Entities was never taken in configuration %s", a, m.Name)
					}
				}
			}
			c.Set("tlc_coverage", "every action of Entities taken in configuration "+m.Name+" (pinned and repaired)")
		}
	}
	// the pinned algorithm against the property itself must fail (regression of the specification)
	if !fixFlag["FixFirstRep"] {
		cex := runMC(c, mcfg{"cex", []string{"Mid", "Malt"}, 2, 1, false}, "MC_Entities_cex.cfg", true, 1, false)
		if cex.OK || !strings.Contains(cex.Output, "Invariant Correct is violated") {
			vlib.Infra("MC_Entities_cex: the model of the current tree no longer violates Correct although findings are open (specification changed?)\n%s", cex.Violation)
		}
		c.Set("tlc_counterexample_on_current_model", "Invariant Correct violated for reps <<Mid, Malt>> (resolver of reps[0] used for the whole batch group)")
	}

	// 3. (A) replay on every variant
	jobsByID := map[string]*job{}
	dupSeen := map[string]bool{}
	nScen := map[string]bool{}
	var allOK []*job
	drift := 0
	for vi, f := range fvs {
		if c.Violations() >= 20 {
			break // reporting cap reached
		}
		var jobs []*job
		for k, e := range ems {
			if e.Inline != f.Inline && (e.Both || e.inlineSensitive()) {
				continue // the other export of this configuration / a behaviour of the other model
			}
			if f.NoNil && e.hasIndividualNil() {
				continue
			}
			id := fmt.Sprintf("C20-%s-%s-%d", f.V.Name, e.Cfg, k)
			j := &job{E: e, Variant: f.V.Name}
			j.S = e.scenario(id, rand.New(rand.NewSource(seed*1000003+int64(k))), nil)
			j.S.Variant = f.V.Name
			jobs = append(jobs, j)
			nScen[e.scenarioKey()] = true
			// dup suite: the same list with identical duplicates (same key values), ungated
			if dup := e.dupMap(); dup != nil && !dupSeen[f.V.Name+e.scenarioKey()] {
				dupSeen[f.V.Name+e.scenarioKey()] = true
				dj := &job{E: e, Variant: f.V.Name, Dup: dup}
				dj.S = e.scenario(id+"-dup", rand.New(rand.NewSource(seed*1000003+int64(k))), dup)
				dj.S.Variant = f.V.Name
				jobs = append(jobs, dj)
			}
		}
		var scs []*vlib.Scenario
		for _, j := range jobs {
			scs = append(scs, j.S)
			jobsByID[j.S.ID] = j
		}
		t1 := time.Now()
		if err := vlib.RunScenarios(bins[f.V.ID()], scs, 5, nil); err != nil {
			vlib.Infra("replay on %s: %v", f.V.Name, err)
		}
		fmt.Fprintf(os.Stderr, "[c20] variant %s (%s): %d behaviours replayed in %.0fs\n", f.V.Name, f.Desc, len(scs), time.Since(t1).Seconds())
		for _, j := range jobs {
			if ok := evaluate(c, j, bins[f.V.ID()], &drift); ok && j.Dup == nil {
				allOK = append(allOK, j)
			}
		}
		if len(jobs) > 0 {
			j := jobs[(len(jobs)/3+vi)%len(jobs)]
			c.Sample(map[string]any{"variant": f.V.Name, "options": f.Desc, "kinds": j.E.Reps, "outcomes": j.E.Out, "batch_outcomes": j.E.Bout,
				"representations": j.S.Vars["reps"], "release_order": j.S.Order, "prescribed": j.E.Ideal, "model": j.E.List})
		}
	}
	c.Set("scenarios_distinct", len(nScen))
	c.Set("behaviours_exported", len(ems))
	c.Set("replay_schedule_drift_notes", drift)
	c.Set("completion_order_realised", realised.Load())
	c.Set("completion_order_not_realised", notRealised.Load())
	if r, n := realised.Load(), notRealised.Load(); r < 9*(r+n)/10 && c.Violations() == 0 {
		vlib.Infra("vacuous: only %d of %d replays realised the prescribed completion order", r, r+n)
	}

	// 3b. -race build: a sample of the behaviours, any race report is a violation
	if c.Violations() < 20 {
		var jobs []*job
		step := 7
		if thorough {
			step = 3
		}
		for k, e := range ems {
			if !e.Inline || k%step != int(seed)%step {
				continue
			}
			j := &job{E: e, Variant: "f0r"}
			j.S = e.scenario(fmt.Sprintf("C20-race-%d", k), rand.New(rand.NewSource(seed*1000003+int64(k))), nil)
			j.S.Variant = "f0r"
			jobs = append(jobs, j)
		}
		var scs []*vlib.Scenario
		for _, j := range jobs {
			scs = append(scs, j.S)
		}
		t1 := time.Now()
		if err := vlib.RunScenarios(bins[race.ID()], scs, 4, []string{"GORACE=halt_on_error=1 exitcode=66"}); err != nil {
			vlib.Infra("race replay: %v", err)
		}
		fmt.Fprintf(os.Stderr, "[c20] -race variant: %d behaviours replayed in %.0fs\n", len(scs), time.Since(t1).Seconds())
		for _, j := range jobs {
			evaluate(c, j, bins[race.ID()], &drift)
		}
		c.Set("race_behaviours", len(jobs))
	}

	// 3c. counted dimensions of the @requires paths (round 4): every shape on the individual and on
	// the batch path of every variant, every (type, path, status) - a dimension nobody exercised is a
	// vacuous run, not a pass
	{
		shapeMu.Lock()
		c.Set("requires_path_shapes_compared", shapeCount)
		c.Set("requires_path_status_replays", slotCount)
		var missing []string
		names := []string{"f0r"}
		for _, f := range fvs {
			names = append(names, f.V.Name)
		}
		for _, vn := range names {
			for _, mode := range []string{"single", "batch"} {
				for _, sh := range pathShapes {
					if shapeCount[mode+"|"+vn+"|"+sh.Name] == 0 {
						missing = append(missing, mode+"|"+vn+"|"+sh.Name)
					}
				}
			}
		}
		for _, base := range []string{"P", "Pm"} {
			for _, pth := range pPaths {
				for _, st := range []string{"wrong-type", "null", "absent"} {
					if slotCount[base+"|"+pth+"|"+st] == 0 {
						missing = append(missing, base+"|"+pth+"|"+st)
					}
				}
				if strings.HasPrefix(pth, "dims.") && slotCount[base+"|"+pth+"|parent-null"] == 0 {
					missing = append(missing, base+"|"+pth+"|parent-null")
				}
			}
		}
		shapeMu.Unlock()
		if len(missing) > 0 && c.Violations() == 0 {
			vlib.Infra("vacuous: @requires path dimensions never exercised: %v", missing)
		}
	}

	// 4. (B) trace validation, per variant (ReqInline differs). Each behaviour's trace is validated
	// on one variant (rotating). Traces are packed (packSize behaviours per unit handed to
	// vlib.ValidateBatchWith, whose TLC runs take 160 units) - a rejected pack is re-validated
	// trace by trace.
	lines := linesOf(jobsByID)
	var tvWG sync.WaitGroup
	tvPar := 4 // quick: one TLC process (1 worker) per variant, at most 4 at a time
	if thorough {
		tvPar = 1 // many chunks per variant: ValidateBatchWith already runs up to 6 TLC processes
	}
	tvSem := make(chan struct{}, tvPar)
	for _, f := range fvs {
		if c.Violations() >= 20 {
			fmt.Fprintf(os.Stderr, "[c20] trace validation skipped: the replay already reported the maximum number of violations\n")
			break
		}
		f := f
		tvWG.Add(1)
		go func() {
			defer tvWG.Done()
			tvSem <- struct{}{}
			defer func() { <-tvSem }()
			var scs []*vlib.Scenario
			for i, j := range allOK {
				stride := len(fvs)
				if !thorough {
					stride *= 2 // quick tier: every second behaviour
				}
				if j.Variant != f.V.Name || i%stride != indexOf(fvs, f.V.Name) {
					continue
				}
				scs = append(scs, j.S)
			}
			if len(scs) == 0 {
				return
			}
			m := mcfg{"trace", []string{"S"}, 4, 2, false}
			pinEdit := m.edit(f.Inline)
			fixEdit := func(cfg string) string {
				cfg = pinEdit(cfg)
				for _, k := range []string{"FixFirstRep", "FixShort", "FixNilReq", "FixBadReq", "FixBadKey"} {
					cfg = strings.Replace(cfg, k+" = FALSE", k+" = TRUE", 1)
				}
				return cfg
			}
			t1 := time.Now()
			const packSize = 10
			packs := map[string][]*vlib.Scenario{}
			var units []*vlib.Scenario
			for i := 0; i < len(scs); i += packSize {
				hi := i + packSize
				if hi > len(scs) {
					hi = len(scs)
				}
				u := &vlib.Scenario{ID: fmt.Sprintf("pack-%s-%d", f.V.Name, i), Variant: f.V.Name}
				packs[u.ID] = scs[i:hi]
				units = append(units, u)
			}
			packLines := func(u *vlib.Scenario) [][]byte {
				var out [][]byte
				for _, s := range packs[u.ID] {
					out = append(out, lines(s)...)
				}
				return out
			}
			quiet := vlib.NewCheck("C20", "model_checking") // counts of the packed runs are re-attributed below
			rejP, err := vlib.ValidateBatchWith(quiet, vlib.TLCOpts{Module: "EntitiesTrace", Config: "EntitiesTrace.cfg", CfgEdit: pinEdit}, nil, units, packLines,
				vlib.Work("C20", "tv-"+f.V.Name))
			if err != nil {
				vlib.Infra("trace validation %s: %v", f.V.Name, err)
			}
			accepted := len(scs)
			var suspects []*vlib.Scenario
			for _, r := range rejP {
				accepted -= len(packs[r.Scenario.ID])
				suspects = append(suspects, packs[r.Scenario.ID]...)
			}
			c.AddTraces(int64(accepted))
			var rej, still []vlib.Rejection
			if len(suspects) > 0 {
				rej, err = vlib.ValidateBatchWith(c, vlib.TLCOpts{Module: "EntitiesTrace", Config: "EntitiesTrace.cfg", CfgEdit: pinEdit}, nil, suspects, lines,
					vlib.Work("C20", "tvs-"+f.V.Name))
				if err != nil {
					vlib.Infra("trace validation %s: %v", f.V.Name, err)
				}
			}
			// a trace the pinned model rejects may be the repaired behaviour: ask the repaired model
			if len(rej) > 0 {
				var again []*vlib.Scenario
				for _, r := range rej {
					again = append(again, r.Scenario)
				}
				still, err = vlib.ValidateBatchWith(c, vlib.TLCOpts{Module: "EntitiesTrace", Config: "EntitiesTrace.cfg", CfgEdit: fixEdit}, nil, again, lines,
					vlib.Work("C20", "tvfix-"+f.V.Name))
				if err != nil {
					vlib.Infra("trace validation (repaired model) %s: %v", f.V.Name, err)
				}
			}
			fmt.Fprintf(os.Stderr, "[c20] variant %s: %d traces validated by TLC in %.0fs (%d rejected by the pinned model, %d by both)\n", f.V.Name, len(scs), time.Since(t1).Seconds(), len(rej), len(still))
			for _, r := range still {
				j := jobsByID[r.Scenario.ID]
				rb, _ := json.Marshal(j.S.Vars["reps"])
				c.Violate("entities|trace-rejected|"+strings.Join(j.E.Reps, ","),
					fmt.Sprintf("Entities (pinned and repaired) does not admit the observed execution on %s\nrepresentations=%s outcomes=%v batch=%v\n%s", f.V.Name, rb, j.E.Out, j.E.Bout, r.Describe()), jobsByID[r.Scenario.ID])
			}
		}()
	}
	tvWG.Wait()

	// 5. self-test of the binding: corrupted copies of accepted traces must be rejected
	{
		var pick []*job
		for _, j := range allOK {
			if len(j.E.Devs) == 0 && len(j.E.Reps) >= 2 && len(j.E.Order) >= 2 && j.E.Reps[0] != j.E.Reps[1] && j.E.Errs > 0 {
				pick = append(pick, j)
				if len(pick) == 3 {
					break
				}
			}
		}
		if len(pick) < 3 {
			if c.Violations() > 0 {
				c.Finish()
			}
			vlib.Infra("self-test: no suitable traces")
		}
		base := linesOf(jobsByID)
		corrupt := func(s *vlib.Scenario) [][]byte {
			orig := jobsByID[strings.TrimSuffix(strings.TrimSuffix(strings.TrimSuffix(s.ID, "#swap"), "#drop"), "#idx")]
			ls := base(orig.S)
			var out [][]byte
			switch {
			case strings.HasSuffix(s.ID, "#swap"): // the response list with its first two elements exchanged
				var r map[string]any
				_ = json.Unmarshal(ls[len(ls)-1], &r)
				l := r["list"].([]any)
				l[0], l[1] = l[1], l[0]
				b, _ := json.Marshal(r)
				out = append(append(out, ls[:len(ls)-1]...), b)
			case strings.HasSuffix(s.ID, "#drop"): // one Err event dropped
				done := false
				for _, ln := range ls {
					if !done && strings.Contains(string(ln), `"e":"Err"`) {
						done = true
						continue
					}
					out = append(out, ln)
				}
			default: // a resolver call with the key of another representation
				done := false
				for _, ln := range ls {
					if !done && (strings.Contains(string(ln), `"e":"Start"`) || strings.Contains(string(ln), `"e":"BStart"`)) {
						var r map[string]any
						_ = json.Unmarshal(ln, &r)
						if _, ok := r["i"]; ok {
							r["i"] = r["i"].(float64) + 1
						} else {
							ks := r["ks"].([]any)
							ks[0] = ks[0].(float64) + 1
						}
						ln, _ = json.Marshal(r)
						done = true
					}
					out = append(out, ln)
				}
			}
			return out
		}
		var bad []*vlib.Scenario
		for i, sfx := range []string{"#swap", "#drop", "#idx"} {
			bad = append(bad, &vlib.Scenario{ID: pick[i].S.ID + sfx, Variant: pick[i].Variant})
		}
		quiet := vlib.NewCheck("C20", "model_checking")
		inl := map[string]bool{}
		for _, f := range fvs {
			inl[f.V.Name] = f.Inline
		}
		nrej := 0
		for _, b := range bad {
			m := mcfg{"trace", []string{"S"}, 4, 2, false}
			rej, err := vlib.ValidateBatchWith(quiet, vlib.TLCOpts{Module: "EntitiesTrace", Config: "EntitiesTrace.cfg", CfgEdit: m.edit(inl[b.Variant])}, nil,
				[]*vlib.Scenario{b}, corrupt, vlib.Work("C20", "selftest"+b.ID[strings.Index(b.ID, "#")+1:]))
			if err != nil {
				vlib.Infra("self-test: %v", err)
			}
			nrej += len(rej)
		}
		if nrej != len(bad) {
			vlib.Infra("self-test: TLC accepted %d of %d corrupted traces - the trace specification does not bind", len(bad)-nrej, len(bad))
		}
		c.Set("trace_selftest", "3 corrupted traces (response elements swapped, error event dropped, call key of another representation) rejected")
	}

	c.Set("rule", "TLC enumerates (MC_Entities_emit.cfg) every representation list of length 0..MaxLen over an alphabet of representation kinds "+
		"(typename x status of each key field: single / alternative / composite / nested key, batch types, @requires types, unknown type, missing __typename, missing / null / malformed key; "+
		"x status value / wrong type / null / absent of each required PATH - P / Pm require a flat field and a nested path with the same concatenated Go name, two nested paths with a shared prefix, one leaf name under two parents and one path twice, every leaf value naming its representation and its path) "+
		"x resolver outcomes (entity, nil, error, panic; batch: right / short / long result, error, panic; <= MaxFaults faults) x completion orders of the resolver calls; "+
		"each behaviour is replayed on every generated federation variant as a concrete `_entities` query with gated resolvers released in that order and compared element-wise with the property's prescription and the model's answer; "+
		"the recorded events and response are validated by TLC against EntitiesTrace. A class is (model configuration, multiset of kinds, fault kinds, deviation class) per variant")
	c.Set("exhaustive", true)
	c.Set("variants", len(fvs)+1)
	c.Assume("representations are abstracted to kinds; key / @requires values are index-naming strings (concrete JSON chosen by the seeded concretiser: noise fields, three forms of a missing __typename, three forms of a malformed nested key)")
	c.Assume("entity resolvers return when released (gates); the completion order is controlled, the start order is left to the Go scheduler")
	c.Assume("error paths are only required to lie under `_entities` (the generated code reports every entity error at path [_entities] without an index)")
	c.Finish()
}

// replayOne re-executes the behaviour recorded in a replay file (./check C20 --replay f).
func replayOne(c *vlib.Check, path string, bins map[string]string) {
	b, err := os.ReadFile(path)
	if err != nil {
		vlib.Infra("replay: %v", err)
	}
	var f struct {
		Key      string `json:"key"`
		Scenario *job   `json:"scenario"`
	}
	if err := json.Unmarshal(b, &f); err != nil || f.Scenario == nil || f.Scenario.S == nil || f.Scenario.E == nil {
		vlib.Infra("replay: %s is not a C20 replay file (%v)", path, err)
	}
	j := f.Scenario
	bin := bins[j.Variant]
	if j.Variant == "f0r" {
		bin = bins["f0r_race"]
	}
	if bin == "" {
		vlib.Infra("replay: variant %s is not built in this tier (use --tier thorough)", j.Variant)
	}
	j.S.Result, j.S.Crashed, j.S.Stderr = nil, false, ""
	var env []string
	if j.Variant == "f0r" {
		env = []string{"GORACE=halt_on_error=1 exitcode=66"}
	}
	if err := vlib.RunScenarios(bin, []*vlib.Scenario{j.S}, 1, env); err != nil {
		vlib.Infra("replay: %v", err)
	}
	drift := 0
	evaluate(c, j, bin, &drift)
	c.Set("rule", "replay of one recorded behaviour: "+f.Key)
	c.Sample(map[string]any{"replayed": path, "variant": j.Variant, "representations": j.S.Vars["reps"]})
	c.Finish()
}

func indexOf(fvs []fvariant, name string) int {
	for i, f := range fvs {
		if f.V.Name == name {
			return i
		}
	}
	return 0
}

func (e *emitted) hasReqKinds() bool {
	for _, k := range e.Reps {
		if strings.HasPrefix(k, "R") {
			return true
		}
	}
	return false
}

// dupMap: for a fault-free scenario outside the deviation classes with a repeated kind, the map
// index -> first index of that kind (identical duplicate representations); nil otherwise.
func (e *emitted) dupMap() []int {
	if len(e.Devs) > 0 {
		return nil
	}
	for _, o := range e.Out {
		if o != "ent" && o != "-" {
			return nil
		}
	}
	for _, o := range e.Bout {
		if o != "ok" {
			return nil
		}
	}
	first := map[string]int{}
	dup := make([]int, len(e.Reps))
	any := false
	for i, k := range e.Reps {
		if f, ok := first[k]; ok {
			dup[i] = f
			any = true
		} else {
			first[k] = i + 1
			dup[i] = i + 1
		}
	}
	if !any {
		return nil
	}
	return dup
}

// evaluate judges one executed behaviour; returns true when it ran to a response (usable for B).
func evaluate(c *vlib.Check, j *job, bin string, drift *int) bool {
	s := j.S
	e := j.E
	if c.Violations() >= 20 {
		return false // the reporting cap is reached; nothing further can be reported
	}
	c.AddEvals(1)
	faults := []string{}
	for _, o := range e.Out {
		if o != "ent" && o != "-" {
			faults = append(faults, o)
		}
	}
	for _, o := range e.Bout {
		if o != "ok" {
			faults = append(faults, "b:"+o)
		}
	}
	sort.Strings(faults)
	kinds := append([]string{}, e.Reps...)
	sort.Strings(kinds)
	c.Class(fmt.Sprintf("%s|%s|%s|%s|%v|dup=%v", j.Variant, e.Cfg, strings.Join(kinds, ","), strings.Join(faults, ","), e.Devs, j.Dup != nil))
	shapeMu.Lock()
	for _, k := range e.Reps {
		if base, sl, st := splitKind(k); strings.HasPrefix(base, "P") && sl > 0 {
			if st == "p" {
				// the null parent makes every path under it unavailable: counted for each of them
				par := pPaths[sl-1][:strings.Index(pPaths[sl-1], ".")+1]
				for _, pth := range pPaths {
					if strings.HasPrefix(pth, par) {
						slotCount[fmt.Sprintf("%s|%s|parent-null", base, pth)]++
					}
				}
				continue
			}
			slotCount[fmt.Sprintf("%s|%s|%s", base, pPaths[sl-1], map[string]string{"b": "wrong-type", "n": "null", "a": "absent"}[st])]++
		}
	}
	shapeMu.Unlock()
	rb, _ := json.Marshal(s.Vars["reps"])
	pb, _ := json.Marshal(s.Plan)
	where := fmt.Sprintf("variant=%s representations=%s plan=%s release order=%v", j.Variant, rb, pb, s.Order)
	if s.Result != nil && s.Result.Hung && confirms.Add(1) > 12 {
		return false // a dozen confirmation reruns are enough to decide whether hangs are real
	}
	if s.Result != nil && s.Result.Hung {
		s2 := vlib.Confirm(bin, s, nil)
		if s2.Result != nil && !s2.Result.Hung && !s2.Crashed {
			s.Result = s2.Result // slow machine, not a hang
		} else if s2.Crashed {
			s.Crashed, s.Stderr, s.Result = true, s2.Stderr, nil
		}
	}
	switch {
	case s.Crashed || s.Result == nil:
		if strings.Contains(s.Stderr, "DATA RACE") {
			c.Violate("entities|data-race", fmt.Sprintf("race detector report while resolving _entities\n%s\n%s", where, tailStr(s.Stderr, 2500)), j)
		} else {
			c.Violate("entities|process-death", fmt.Sprintf("the server process died while resolving _entities (a panic on a spawned goroutine that no recover site covers?)\n%s\n%s", where, tailStr(s.Stderr, 2500)), j)
		}
		return false
	case s.Result.Hung:
		c.Violate("entities|no-response", fmt.Sprintf("_entities did not answer within 50 s although every resolver returned\n%s\n%s", where, s.Result.LeakStack), j)
		return false
	case s.Result.Dirty:
		c.Violate("entities|panic-escaped", fmt.Sprintf("a panic escaped the response function\n%s\nnotes=%v", where, s.Result.Notes), j)
		return false
	case len(s.Result.GateErrs) > 0:
		vlib.Infra("the _entities query was rejected: %v", s.Result.GateErrs)
	}
	for _, n := range s.Result.Notes {
		if strings.HasPrefix(n, "inapplicable") {
			return false
		}
		if strings.HasPrefix(n, "order:") {
			*drift++
		}
	}
	o, problem := observe(s, e.Reps, j.Dup)
	if o == nil {
		c.Violate("entities|malformed-response", fmt.Sprintf("%s\n%s", problem, where), j)
		return false
	}
	if key, detail := judge(j, o); key != "" {
		for _, k := range strings.Split(key, "+") {
			if strings.Contains(","+os.Getenv("C20_ASSUME_FIXED")+",", ","+k+",") {
				k += "|regression" // the findings file still lists it as open: do not let that entry swallow it
			}
			c.Violate(k, detail, j)
		}
	}
	if j.Dup == nil {
		// non-vacuity of the schedule: did the calls return in the prescribed order?
		var got []string
		for _, ev := range s.Result.Events {
			if ev.E == "End" {
				got = append(got, ev.P)
			}
		}
		var want []string
		for _, k := range s.Order {
			if !strings.HasPrefix(k, "?") && !strings.HasSuffix(k, "#ret") {
				want = append(want, k)
			}
		}
		if strings.Join(got, " ") == strings.Join(want, " ") {
			realised.Add(1)
		} else {
			notRealised.Add(1)
		}
	}
	return true
}

var realised, notRealised, confirms atomic.Int64

func tailStr(s string, n int) string {
	if len(s) > n {
		return s[len(s)-n:]
	}
	return s
}
