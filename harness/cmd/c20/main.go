package main

import (
	"fmt"

	"verifharness/vlib"
)

func main() {
	vs := fedVariants(true)
	bins, err := vlib.BuildProbes("fed2", vs)
	fmt.Println(bins, err)
}

const fedBase = "federation:\n  filename: graph/federation.go\n  package: graph\n"

func fedVariants(thorough bool) []vlib.Variant {
	return []vlib.Variant{
		{Name: "f0", Extra: fedBase + "  version: 2\n"},
		{Name: "f1", FollowSchema: true, FuncSyntax: true, Extra: fedBase + "  version: 2\n  options:\n    explicit_requires: true\n"},
		{Name: "f2", WorkerLimit: 2, Opts: map[string]bool{"call_argument_directives_with_null": true}, Extra: fedBase + "  version: 2\n  options:\n    computed_requires: true\n"},
		{Name: "f3", Opts: map[string]bool{"resolvers_always_return_pointers": false}, Extra: fedBase + "  version: 1\n  options:\n    explicit_requires: true\n"},
	}
}
