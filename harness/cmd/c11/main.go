// C11: WebSocket sessions follow the subscription protocol for every message sequence.
//
// spec/Ws.tla      property level: what the statement demands of the observable events
// spec/WsImpl.tla  implementation level, shaped like websocket.go; TLC checks that it refines Ws
//
//	(invariant Refines), WriteExclusion, CloseOnce, StopCancels and the liveness
//	properties; with the Fix* constants FALSE it is the pinned tree and TLC produces
//	the counterexamples of the known findings
//
// spec/WsTrace.tla trace validation of recorded sessions against Ws
//
// This driver (A) replays TLC-generated scripts - every quiescent state of the Sync graph of WsImpl,
// with the observation predicted after every environment decision - into the REAL handler.Server +
// transport.Websocket over a real socket, synchronised and with races (same script, waits removed),
// (B) plays seeded random sessions (both subprotocols, InitFunc/InitTimeout/ticker variants, gated
// Source resolvers, abrupt closes, server-side cancellation), and validates EVERY recorded session with
// TLC against Ws.  Sessions run in a child process built with -race (this same program, C11_CHILD=1).
package main

import (
	"bufio"
	"bytes"
	"encoding/json"
	"fmt"
	"io"
	"math/rand"
	"os"
	"os/exec"
	"path/filepath"
	"regexp"
	"sort"
	"strconv"
	"strings"
	"sync"
	"syscall"
	"time"

	"verifharness/vlib"
)

func main() {
	if os.Getenv("C11_CHILD") == "1" {
		childMain()
		return
	}
	c := vlib.NewCheck("C11", "model_checking")
	thorough := vlib.Tier() == "thorough"
	seed := vlib.Seed()
	c.Set("rule", "replay: one script per maximal environment history of the quiescent (Sync) state graph of WsImpl (distinct = distinct sequence of client messages / Source decisions / cancel), each also run with its waits removed; random: seeded sessions over (subprotocol, InitFunc mode, InitTimeout, tickers) x client script x Source decisions x sync pattern; a class = (mode, subprotocol, InitFunc mode, multiset of message/decision classes)")
	c.Set("exhaustive", false)
	c.Assume("the Source (user resolver) returns promptly once its context is cancelled; the context InitFunc returns descends from the context it was given, except in the 'detached' mode (then only from a server-side cancellable context)")
	c.Assume("client and server run in one child process; all events go through one mutex-protected log, a client message is logged before it is written and a frame after it was read (spec/WsTrace.tla)")
	c.Assume("frames written after the server's close frame, and what ErrorFunc is called with, are not constrained by the statement")

	for _, d := range []string{"tv", "tv-dev", "tv-strict", "tv-confirm", "tv-selftest", "race"} { // scratch of earlier runs
		_ = os.RemoveAll(vlib.Work("C11", d))
	}
	bin := buildChild(c)

	if os.Getenv("C11_ONLY") != "" { // development aid: play the scenarios whose id contains the given text, no model checking
		rng := rand.New(rand.NewSource(seed*7919 + 11))
		var scs []*Scenario
		for _, fam := range replayFamilies(thorough) {
			scs = append(scs, exportScripts(c, fam, rng, thorough)...)
		}
		scs = append(scs, specialScenarios(thorough)...)
		var sel []*Scenario
		for _, sc := range scs {
			if strings.Contains(sc.ID, os.Getenv("C11_ONLY")) {
				sel = append(sel, sc)
			}
		}
		results := runAll(bin, sel, 4)
		for i, sc := range sel {
			b, _ := json.Marshal(map[string]any{"scenario": sc, "played": results[i].res, "stderr": trunc(results[i].stderr, 3000)})
			fmt.Println(string(b))
		}
		judge(c, bin, sel, results)
		c.Finish()
	}
	if f := os.Getenv("VERIF_REPLAY"); f != "" {
		replayOne(c, bin, f)
		return
	}

	// ---- 1. replay scripts: one TLC run (-workers 1) per family, side by side
	var scs []*Scenario
	nReplay := 0
	fams := replayFamilies(thorough)
	famScs := make([][]*Scenario, len(fams))
	var ewg sync.WaitGroup
	for i, fam := range fams {
		ewg.Add(1)
		go func(i int, fam family) {
			defer ewg.Done()
			famScs[i] = exportScripts(c, fam, rand.New(rand.NewSource(seed*7919+int64(i))), thorough)
		}(i, fam)
	}
	ewg.Wait()
	for _, fs := range famScs {
		nReplay += len(fs)
		scs = append(scs, fs...)
	}
	// ---- 2. model checking runs in the background while the sessions are played
	mcDone := make(chan []mcResult, 1)
	go func() { mcDone <- runModelChecks(thorough) }()
	rng := rand.New(rand.NewSource(seed*7919 + 11))
	nRandom := 160
	if thorough {
		nRandom = 1200
	}
	for i := 0; i < nRandom; i++ {
		scs = append(scs, randomScenario(rng, fmt.Sprintf("rnd-%d-%d", seed, i)))
	}
	scs = append(scs, specialScenarios(thorough)...)
	// the slow ones (expected stalls) first, so that they overlap with the rest
	sort.SliceStable(scs, func(i, j int) bool { return slowRank(scs[i]) > slowRank(scs[j]) })

	// ---- 3. play them
	t0 := time.Now()
	fmt.Fprintf(os.Stderr, "[c11] %d scenarios (%d replay scripts incl. racy variants, %d random)\n", len(scs), nReplay, nRandom)
	results := runAll(bin, scs, 4)
	fmt.Fprintf(os.Stderr, "[c11] sessions played in %.0fs\n", time.Since(t0).Seconds())
	if f, err := os.Create(vlib.Work("C11", "sessions.ndjson")); err == nil { // for diagnosis only
		for i, sc := range scs {
			b, _ := json.Marshal(map[string]any{"scenario": sc, "played": results[i].res, "crashed": results[i].crashed, "stderr": trunc(results[i].stderr, 2000)})
			f.Write(append(b, '\n'))
		}
		f.Close()
	}

	// ---- 4. verdicts
	judge(c, bin, scs, results)

	fmt.Fprintf(os.Stderr, "[c11] traces judged after %.0fs\n", time.Since(t0).Seconds())
	// ---- 5. model checking results
	for _, r := range <-mcDone {
		fmt.Fprintf(os.Stderr, "[c11] mc %s: %d distinct / %d generated %.0fs %s\n", r.name, r.distinct, r.generated, r.wall, trunc(r.err, 300))
		if r.err != "" {
			vlib.Infra("TLC on %s: %s", r.name, r.err)
		}
		c.AddStates(r.distinct, r.generated)
		c.Set("mc_"+r.name, fmt.Sprintf("%d distinct / %d generated, %.0fs", r.distinct, r.generated, r.wall))
	}
	c.Set("replay_scripts", nReplay)
	c.Set("random_sessions", nRandom)
	c.Finish()
}

// ------------------------------------------------------------------ build

func buildChild(c *vlib.Check) string {
	out := vlib.Work("C11", "bin", "c11race")
	_ = os.MkdirAll(filepath.Dir(out), 0o755)
	env := append(vlib.GoEnv(), "CGO_ENABLED=1")
	o, err := vlib.RunCmd(vlib.Harness(), env, 15*time.Minute, "go", "build", "-race", "-tags", "verif", "-o", out, "./cmd/c11")
	if err != nil {
		// without the race detector the check would silently lose WriteExclusion: refuse
		vlib.Infra("cannot build the -race session binary: %v\n%s", err, tailStr(o, 3000))
	}
	c.Set("race_detector", true)
	return out
}

func tailStr(s string, n int) string {
	if len(s) > n {
		return s[len(s)-n:]
	}
	return s
}

// ---------------------------------------------------------- model checking

type mcVariant struct {
	name     string
	cfg      string // template
	set      map[string]string
	liveness bool
	expect   string // "" = must pass; otherwise a substring of the expected error (pinned model)
	thorough bool   // only in the thorough tier
}

type mcResult struct {
	name                string
	distinct, generated int64
	wall                float64
	err                 string
}

var reCfgLine = regexp.MustCompile(`(?m)^(\s*)([A-Za-z]+) (=|<-) .*$`)

func cfgEdit(set map[string]string) func(string) string {
	return func(cfg string) string {
		return reCfgLine.ReplaceAllStringFunc(cfg, func(line string) string {
			m := reCfgLine.FindStringSubmatch(line)
			if v, ok := set[m[2]]; ok {
				if strings.HasPrefix(v, "<-") {
					return m[1] + m[2] + " " + v
				}
				return m[1] + m[2] + " = " + v
			}
			return line
		})
	}
}

func merge(ms ...map[string]string) map[string]string {
	out := map[string]string{}
	for _, m := range ms {
		for k, v := range m {
			out[k] = v
		}
	}
	return out
}

var (
	twoIds    = map[string]string{"AllInsts": "<- MCInsts", "Ids": "<- MCIds", "IdOfInst": "<- MCIdOf", "InstOrder": "<- MCOrder"}
	oneInst   = map[string]string{"AllInsts": "<- MCInsts0", "IdOfInst": "<- MCIdOf0", "InstOrder": "<- MCOrder0"}
	tws       = map[string]string{"MCProto": `"tws"`}
	hsGws     = map[string]string{"PreAcked": "FALSE", "Alphabet": "<- AlphaGwsFull", "MCInitFn": "TRUE", "MCInitTimeout": "TRUE", "MCCancel": "TRUE", "BadStarts": "TRUE"}
	hsTws     = map[string]string{"PreAcked": "FALSE", "Alphabet": "<- AlphaTwsFull", "MCInitFn": "TRUE", "MCInitTimeout": "TRUE", "MCCancel": "TRUE", "BadStarts": "TRUE", "MCProto": `"tws"`}
	pinned    = map[string]string{"FixDup": "FALSE", "FixDel": "FALSE"}
	detached  = map[string]string{"MCDetached": "TRUE", "MCInitFn": "TRUE"}
	lateStart = map[string]string{"Alphabet": "<- AlphaStart", "K": "0", "SrcKinds": "<- KindsEnd"}
)

func mcVariants() []mcVariant {
	S, L := "MC_WsImpl_safety.cfg", "MC_WsImpl.cfg"
	return []mcVariant{
		// operations after an accepted handshake: one id started twice / two ids, stop, terminate, abrupt close
		{name: "ops-gws+L", cfg: L, liveness: true, set: map[string]string{}},
		{name: "ops-tws", cfg: S, set: merge(tws, map[string]string{"Alphabet": "<- AlphaTwsOps"})},
		{name: "ops-gws-cancel-ka", cfg: S, set: map[string]string{"MCCancel": "TRUE", "MCInitFn": "TRUE", "MCKA": "TRUE", "MaxTicks": "1", "SrcKinds": "<- KindsEnd", "MaxMsgs": "2"}},
		{name: "ops-gws-cancel-ka-3msgs", cfg: S, thorough: true, set: map[string]string{"MCCancel": "TRUE", "MCInitFn": "TRUE", "MCKA": "TRUE", "MaxTicks": "1", "SrcKinds": "<- KindsEnd"}},
		// the handshake: every first message, InitFunc accept/reject, InitTimeout, cancel
		{name: "handshake-gws+L", cfg: L, liveness: true, set: merge(hsGws, oneInst, map[string]string{"MaxMsgs": "3"})},
		{name: "handshake-tws", cfg: S, set: merge(hsTws, oneInst, map[string]string{"MaxMsgs": "3"})},
		{name: "handshake-tws+L", cfg: L, liveness: true, thorough: true, set: merge(hsTws, oneInst, map[string]string{"MaxMsgs": "3"})},
		{name: "detached-gws+L", cfg: L, liveness: true, set: merge(detached, map[string]string{"SrcKinds": "<- KindsEnd"})},
		// a start buffered behind a refused duplicate start (8c78f49 closes but the run loop reads on):
		// with FixLate (registration refused once `closed`) everything ends; without it - the tree as it is -
		// TLC reproduces the finding start-after-close (repaired in /repo since)
		{name: "late-start-detached+L", cfg: L, liveness: true, set: merge(detached, twoIds, lateStart)},
		{name: "old-late-start-detached+L", cfg: L, liveness: true, expect: "Temporal property EndsAll was violated",
			set: merge(detached, twoIds, lateStart, map[string]string{"FixLate": "FALSE", "INVARIANTS": "TypeOK Refines", "PROPERTIES": "EndsAll"})},
		// two closers and a stalled writer (close path in single steps, the writer sits in Send holding mu)
		{name: "stall-two-closers+L", cfg: L, liveness: true, set: merge(oneInst, map[string]string{"Stalls": "TRUE", "MCInitFn": "TRUE", "MCCancel": "TRUE",
			"MaxMsgs": "2", "K": "1", "SrcKinds": "<- KindsEnd", "Alphabet": "<- AlphaStall"})},
		// the seeded designs must be refuted by the model:
		//  C11b-1 `closed` tested outside mu, set inside -> second close frame / CloseFunc twice
		{name: "seed-close-check-outside", cfg: S, expect: "Invariant Refines is violated", set: merge(oneInst, map[string]string{"CloseCheckOutside": "TRUE",
			"MCInitFn": "TRUE", "MCCancel": "TRUE", "MaxMsgs": "2", "K": "1", "SrcKinds": "<- KindsEnd", "Alphabet": "<- AlphaStall"})},
		//  C11b-2 the stop handler deletes active[id] -> the id is reused while its operation still runs,
		//  the old operation's deferred delete removes the NEW registration, stop no longer cancels it
		{name: "seed-stop-deletes", cfg: S, expect: "Invariant Refines is violated", set: map[string]string{"StopDeletes": "TRUE", "K": "0", "SrcKinds": "<- KindsEnd", "Alphabet": "<- AlphaOpsS", "MaxMsgs": "4"}},
		{name: "seed-stop-deletes-stop-not-cancelling", cfg: S, expect: "Invariant StopCancelsI is violated", set: map[string]string{"StopDeletes": "TRUE", "AllowDupStart": "TRUE",
			"K": "0", "SrcKinds": "<- KindsEnd", "Alphabet": "<- AlphaOpsS", "MaxMsgs": "4", "INVARIANTS": "TypeOK Refines StopCancelsI"}},
		// the pinned tree: TLC must reproduce the known findings
		{name: "pinned-dup-start", cfg: "MC_WsImpl_pinned.cfg", expect: "Invariant Refines is violated", set: map[string]string{}},
		{name: "pinned-stop-not-cancelling", cfg: "MC_WsImpl_pinned.cfg", expect: "Invariant StopCancelsI is violated",
			set: map[string]string{"AllowDupStart": "TRUE", "INVARIANTS": "TypeOK Refines StopCancelsI"}},
		{name: "pinned-restart-race", cfg: "MC_WsImpl_pinned.cfg", expect: "Invariant StopCancelsNoDup is violated",
			set: map[string]string{"AllowDupStart": "TRUE", "INVARIANTS": "TypeOK Refines StopCancelsNoDup"}},
		// (repaired in /repo by 930d13f; FixInit = FALSE is the old behaviour, which the model must still flag)
		{name: "old-init-bad-payload", cfg: "MC_WsImpl_pinned.cfg", expect: "Invariant CloseOnceI is violated",
			set: merge(hsGws, oneInst, map[string]string{"MaxMsgs": "2", "INVARIANTS": "TypeOK Refines CloseOnceI"})},
		// thorough: longer scripts, two ids, two values per Source, tickers, ping/pong deadline
		{name: "ops-gws-2ids-4msgs", cfg: S, thorough: true, set: merge(twoIds, map[string]string{"MaxMsgs": "4", "SrcKinds": "<- KindsEnd"})},
		{name: "ops-tws-2ids-4msgs", cfg: S, thorough: true, set: merge(twoIds, tws, map[string]string{"MaxMsgs": "4", "SrcKinds": "<- KindsEnd", "Alphabet": "<- AlphaTwsOps"})},
		{name: "ops-gws-K2-cancel", cfg: S, thorough: true, set: map[string]string{"K": "2", "MCCancel": "TRUE", "MCInitFn": "TRUE", "MaxMsgs": "2"}},
		{name: "ops-gws-K2", cfg: S, thorough: true, set: map[string]string{"K": "2", "SrcKinds": "<- KindsEnd"}},
		{name: "ops-tws-pingpong-deadline", cfg: S, thorough: true, set: merge(tws, map[string]string{"Alphabet": "<- AlphaTwsOps", "MCPP": "TRUE", "MCPO": "TRUE", "MaxTicks": "2", "MaxMsgs": "2"})},
		{name: "ops-tws-pingpong-mpo+L", cfg: L, liveness: true, thorough: true, set: merge(tws, oneInst, map[string]string{"Alphabet": "<- AlphaTwsOps", "MCPP": "TRUE", "MCMissingPongOk": "TRUE", "MaxTicks": "2", "MaxMsgs": "2", "SrcKinds": "<- KindsEnd"})},
		{name: "handshake-gws-4msgs", cfg: S, thorough: true, set: merge(hsGws, map[string]string{"MaxMsgs": "4", "SrcKinds": "<- KindsEnd"})},
		{name: "handshake-tws-4msgs", cfg: S, thorough: true, set: merge(hsTws, map[string]string{"MaxMsgs": "4", "SrcKinds": "<- KindsEnd"})},
		{name: "pinned-detached-leak+L", cfg: "MC_WsImpl.cfg", liveness: true, thorough: true, expect: "Temporal property EndsAll was violated",
			set: merge(pinned, detached, map[string]string{"AllowDupStart": "TRUE", "SrcKinds": "<- KindsEnd", "INVARIANTS": "TypeOK Refines", "PROPERTIES": "EndsAll"})},
	}
}

func runModelChecks(thorough bool) []mcResult {
	var out []mcResult
	for _, v := range mcVariants() {
		if v.thorough && !thorough {
			continue
		}
		set := v.set
		edit := func(cfg string) string {
			cfg = cfgEdit(set)(cfg)
			if inv, ok := set["INVARIANTS"]; ok {
				cfg = regexp.MustCompile(`(?m)^INVARIANTS .*$`).ReplaceAllString(cfg, "INVARIANTS "+inv)
			}
			if p, ok := set["PROPERTIES"]; ok {
				cfg = regexp.MustCompile(`(?m)^PROPERTIES .*$`).ReplaceAllString(cfg, "PROPERTIES "+p)
			}
			return cfg
		}
		o := vlib.TLCOpts{Module: "MC_WsImpl", Config: v.cfg, Workers: 3, CfgEdit: edit,
			Scratch: vlib.Work("C11", "mc-"+v.name), Timeout: 25 * time.Minute}
		if v.liveness {
			o.Extra = []string{"-lncheck", "final"}
		}
		res, err := vlib.RunTLC(o)
		r := mcResult{name: v.name}
		switch {
		case err != nil:
			r.err = err.Error()
		case v.expect == "" && !res.OK:
			r.err = "model check failed (specification error, not a verdict on the code):\n" + res.Violation
		case v.expect != "" && !strings.Contains(res.Output, v.expect):
			r.err = "the model of the pinned tree no longer exhibits the known defect (expected '" + v.expect + "'):\n" + tailStr(res.Output, 1500)
		default:
			r.distinct, r.generated, r.wall = res.Distinct, res.Generated, res.WallS
		}
		out = append(out, r)
		_ = os.RemoveAll(filepath.Join(vlib.Work("C11", "mc-"+v.name), "meta"))
	}
	if thorough {
		res, err := vlib.RunTLC(vlib.TLCOpts{Module: "MC_Ws", Config: "MC_Ws.cfg", Workers: 3, Scratch: vlib.Work("C11", "mc-ws"), Timeout: 15 * time.Minute})
		r := mcResult{name: "Ws-standalone"}
		if err != nil {
			r.err = err.Error()
		} else if !res.OK {
			r.err = res.Violation
		} else {
			r.distinct, r.generated, r.wall = res.Distinct, res.Generated, res.WallS
		}
		out = append(out, r)
		_ = os.RemoveAll(filepath.Join(vlib.Work("C11", "mc-ws"), "meta"))
	}
	return out
}

// ------------------------------------------------------------ replay scripts

type family struct {
	name  string
	set   map[string]string
	proto string
	pre   bool // PreAcked: the driver prepends the handshake
	limit int
}

func replayFamilies(thorough bool) []family {
	lim := 70
	if thorough {
		lim = 500
	}
	opsG := merge(twoIds, map[string]string{"PreAcked": "TRUE", "Alphabet": "<- AlphaOps", "BadStarts": "FALSE", "MCInitTimeout": "FALSE", "MaxMsgs": "3"})
	opsT := merge(opsG, tws, map[string]string{"Alphabet": "<- AlphaTwsOps"})
	fs := []family{
		{name: "handshake-gws", set: merge(twoIds), proto: "gws", limit: lim},
		{name: "handshake-tws", set: merge(twoIds, tws, map[string]string{"Alphabet": "<- AlphaTwsFull"}), proto: "tws", limit: lim},
		{name: "ops-gws", set: opsG, proto: "gws", pre: true, limit: lim},
		{name: "ops-tws", set: opsT, proto: "tws", pre: true, limit: lim},
	}
	// a stalled socket (the writer of a data frame holds mu) x the closers: terminate / duplicate id /
	// second init on the read loop, the server-side cancel on closeOnCancel - replayed through the gate
	stallG := merge(oneInst, map[string]string{"PreAcked": "TRUE", "Stalls": "TRUE", "Bursts": "FALSE", "Alphabet": "<- AlphaStall", "BadStarts": "FALSE",
		"MCInitTimeout": "FALSE", "MaxMsgs": "2", "K": "2", "SrcKinds": "<- KindsEnd"})
	stallT := merge(tws, map[string]string{"PreAcked": "TRUE", "Stalls": "TRUE", "Bursts": "FALSE", "Alphabet": "<- AlphaStallT", "BadStarts": "FALSE",
		"MCInitTimeout": "FALSE", "MaxMsgs": "3", "K": "1", "SrcKinds": "<- KindsEnd"})
	// a Source that lingers after its cancellation x reuse of its id (start, stop, start again, ...)
	reuseG := map[string]string{"PreAcked": "TRUE", "Linger": "TRUE", "Bursts": "FALSE", "Alphabet": "<- AlphaStall", "BadStarts": "FALSE",
		"MCInitTimeout": "FALSE", "MCCancel": "FALSE", "MaxMsgs": "4", "K": "0", "SrcKinds": "<- KindsEnd"}
	reuseT := merge(reuseG, tws, map[string]string{"Alphabet": "<- AlphaStallT"})
	small := lim * 4 / 7
	fs = append(fs,
		family{name: "stall-gws", set: stallG, proto: "gws", pre: true, limit: small},
		family{name: "stall-tws", set: stallT, proto: "tws", pre: true, limit: small},
		family{name: "reuse-gws", set: reuseG, proto: "gws", pre: true, limit: small},
		family{name: "reuse-tws", set: reuseT, proto: "tws", pre: true, limit: small})
	if thorough {
		fs = append(fs,
			family{name: "ops-gws-K2", set: merge(opsG, map[string]string{"K": "2", "AllInsts": "<- MCInsts1", "Ids": "<- MCIds1", "IdOfInst": "<- MCIdOf1", "InstOrder": "<- MCOrder1", "MaxMsgs": "4"}), proto: "gws", pre: true, limit: lim},
			family{name: "ops-gws-detached", set: merge(opsG, detached, map[string]string{"SrcKinds": "<- KindsEnd"}), proto: "gws", pre: true, limit: lim / 2})
	}
	return fs
}

type histLine struct {
	H []struct {
		A struct {
			Name string `json:"name"`
			ID   string `json:"id"`
			I    string `json:"i"`
			K    int    `json:"k"`
		} `json:"a"`
		O json.RawMessage `json:"o"`
		B bool            `json:"b"`
	} `json:"h"`
	O      json.RawMessage `json:"o"`
	Fnres  string          `json:"fnres"`
	Reason bool            `json:"reason"`
	Done   bool            `json:"done"`
}

func parseObs(raw json.RawMessage) *Obs {
	var t struct {
		I          json.RawMessage `json:"I"`
		Acks       int             `json:"acks"`
		CloseCalls int             `json:"closeCalls"`
		Cend       bool            `json:"cend"`
		InitFn     string          `json:"initFn"`
	}
	if err := json.Unmarshal(raw, &t); err != nil {
		vlib.Infra("observation: %v in %s", err, string(raw))
	}
	o := &Obs{I: map[string]InstObs{}, Acks: t.Acks, CloseCalls: t.CloseCalls, Cend: t.Cend, InitFn: t.InitFn}
	if len(t.I) > 0 && t.I[0] == '{' {
		if err := json.Unmarshal(t.I, &o.I); err != nil {
			vlib.Infra("observation instances: %v", err)
		}
	}
	return o
}

func exportScripts(c *vlib.Check, fam family, rng *rand.Rand, thorough bool) []*Scenario {
	res, err := vlib.RunTLC(vlib.TLCOpts{Module: "MC_WsImpl", Config: "MC_WsImpl_script.cfg", Workers: 1, CfgEdit: cfgEdit(fam.set),
		Scratch: vlib.Work("C11", "script-"+fam.name), Timeout: 15 * time.Minute})
	if err != nil || !res.OK {
		v := ""
		if res != nil {
			v = res.Violation
		}
		vlib.Infra("script export %s failed: %v %s", fam.name, err, v)
	}
	c.AddStates(res.Distinct, res.Generated)
	fmt.Fprintf(os.Stderr, "[c11] script export %s: %d states, %.0fs\n", fam.name, res.Distinct, res.WallS)
	var lines []histLine
	keys := map[string]bool{}
	keyOf := func(h histLine, n int) string {
		var sb strings.Builder
		fmt.Fprintf(&sb, "%s|%v|", h.Fnres, h.Reason)
		for _, e := range h.H[:n] {
			fmt.Fprintf(&sb, "%s,%s,%s,%d;", e.A.Name, e.A.ID, e.A.I, e.A.K)
		}
		return sb.String()
	}
	for _, ln := range res.Printed {
		if len(ln) < 2 || ln[0] != '"' {
			continue
		}
		inner, err := strconv.Unquote(ln)
		if err != nil {
			continue
		}
		var h histLine
		if err := json.Unmarshal([]byte(inner), &h); err != nil || h.O == nil {
			continue
		}
		lines = append(lines, h)
	}
	if len(lines) == 0 {
		vlib.Infra("script export %s printed nothing", fam.name)
	}
	// keep the maximal histories (not a proper prefix of another one)
	for _, h := range lines {
		for n := 0; n < len(h.H); n++ {
			keys[keyOf(h, n)] = true
		}
	}
	var maxl []histLine
	for _, h := range lines {
		if len(h.H) > 0 && !keys[keyOf(h, len(h.H))] {
			maxl = append(maxl, h)
		}
	}
	c.Set("script_states_"+fam.name, fmt.Sprintf("%d quiescent states, %d maximal histories", len(lines), len(maxl)))
	// seeded sample, but always with the histories that exhibit the known deviations
	rng.Shuffle(len(maxl), func(i, j int) { maxl[i], maxl[j] = maxl[j], maxl[i] })
	sort.SliceStable(maxl, func(i, j int) bool { return special(maxl[i]) > special(maxl[j]) })
	nDupStop := 0
	var out []*Scenario
	for _, h := range maxl {
		if len(out) >= fam.limit {
			break
		}
		if dupThenStop(h) {
			nDupStop++
			if nDupStop > 1 {
				continue // the open finding dup-start:stop-does-not-cancel-first-operation: each costs the two absence waits
			}
		}
		sc := scriptScenario(fam, h, fmt.Sprintf("%s-%d", fam.name, len(out)))
		out = append(out, sc)
		// the same script with its waits removed: the order of the environment's decisions
		// is kept, the reactions race (stop vs completion, close during send, ...)
		if len(out) < fam.limit && rng.Intn(2) == 0 {
			racy := *sc
			racy.ID += "-racy"
			racy.Mode = "racy"
			racy.Steps = nil
			for i, st := range sc.Steps {
				st.Expect = nil
				st.Sync = rng.Intn(3) == 0
				if fam.pre && i == 0 {
					st.Sync = true
				}
				racy.Steps = append(racy.Steps, st)
			}
			out = append(out, &racy)
		}
	}
	return out
}

// dupThenStop: a stop of an id that was started twice without the first operation having ended
func dupThenStop(h histLine) bool {
	starts := map[string]int{}
	for _, e := range h.H {
		if e.A.Name == "CSend" && e.A.ID == "start" && e.A.K == 0 {
			starts[strings.TrimRight(e.A.I, "0123456789")]++
		}
		if e.A.Name == "CSend" && e.A.ID == "stop" && starts[e.A.I] >= 2 {
			return true
		}
	}
	return false
}

// special ranks histories so that the ones showing the known deviations are always replayed
func special(h histLine) int {
	r := 0
	starts := map[string]int{}
	for _, e := range h.H {
		if e.A.Name == "CSend" && e.A.ID == "start" && e.A.K == 0 {
			id := strings.TrimRight(e.A.I, "0123456789")
			starts[id]++
			if starts[id] == 2 {
				r += 2
			}
		}
		if e.A.Name == "CSend" && e.A.ID == "stop" && starts[e.A.I] >= 2 {
			r += 2
		}
	}
	if len(h.H) > 0 && h.H[0].A.ID == "initbad" {
		r += 5
	}
	// a stalled socket with a data frame in it and closers arriving meanwhile
	stalled, data, closers := false, false, 0
	for _, e := range h.H {
		switch {
		case e.A.Name == "StallOn":
			stalled = true
		case e.A.Name == "StallOff":
			stalled = false
		case stalled && e.A.Name == "SrcEmit":
			data = true
		case stalled && data && (e.A.Name == "SrvCancel" || e.A.Name == "CSend" && (e.A.ID == "term" || e.A.ID == "start" || e.A.ID == "init")):
			closers++
		}
	}
	if closers >= 2 {
		r += 6
	} else if closers == 1 {
		r += 1
	}
	// an id started again while its stopped operation still lingers
	stopped := map[string]bool{}
	for _, e := range h.H {
		if e.A.Name == "CSend" && e.A.ID == "stop" {
			stopped[e.A.I] = true
		}
		if e.A.Name == "SrcRelease" {
			delete(stopped, strings.TrimRight(e.A.I, "0123456789"))
		}
		if e.A.Name == "CSend" && e.A.ID == "start" && stopped[strings.TrimRight(e.A.I, "0123456789")] {
			r += 4
		}
	}
	return r
}

func scriptScenario(fam family, h histLine, id string) *Scenario {
	sc := &Scenario{ID: id, Mode: "replay", End: "abort"}
	sc.Cfg = Cfg{Proto: fam.proto, InitFn: "none", LingerGate: fam.set["Linger"] == "TRUE"}
	if fam.set["MCInitFn"] != "FALSE" { // the script template configures an InitFunc
		sc.Cfg.InitFn = "accept"
		if h.Fnres == "reject" {
			sc.Cfg.InitFn = "reject"
		}
		if fam.set["MCDetached"] == "TRUE" {
			sc.Cfg.InitFn = "detached"
		}
		sc.Cfg.Reason = h.Reason
	}
	if fam.pre {
		want := &Obs{I: map[string]InstObs{}, Acks: 1, InitFn: "none"}
		if sc.Cfg.InitFn != "none" {
			want.InitFn = "accept"
		}
		sc.Steps = append(sc.Steps, Step{Op: "send", M: "init", Expect: want})
	}
	afterStall := false
	for j, e := range h.H {
		var next json.RawMessage
		if j+1 < len(h.H) {
			next = h.H[j+1].O
		} else {
			next = h.O
		}
		st := Step{Expect: parseObs(next)}
		if fam.pre { // the model started after the handshake: acks = 1 there too
			st.Expect.Acks = 1
		}
		switch e.A.Name {
		case "CSend":
			st.Op, st.M = "send", e.A.ID
			switch e.A.ID {
			case "start":
				st.Inst = e.A.I
				st.ID = strings.TrimRight(e.A.I, "0123456789")
				st.Kind = "ok"
				if e.A.K == 1 {
					st.Kind = "bad"
					st.Flavor = j + len(h.H)
				}
			case "stop":
				st.ID = e.A.I
			}
		case "SrcEmit":
			st.Op, st.M, st.Inst = "src", "emit", e.A.I
		case "SrcEnd":
			st.Op, st.M, st.Inst = "src", e.A.ID, e.A.I
		case "SrvCancel":
			st.Op = "cancel"
		case "InitTimeout":
			st.Op = "sleep"
			sc.Cfg.InitTimeout = 120
		case "StallOn":
			st.Op = "stall"
		case "StallOff":
			st.Op = "unstall"
			afterStall = true
		case "SrcRelease":
			st.Op, st.M, st.Inst = "src", "release", e.A.I
			sc.Cfg.LingerGate = true
		default:
			vlib.Infra("script %s: unknown environment action %s", id, e.A.Name)
		}
		if afterStall {
			// when the stall ends everything that queued up behind the stalled writer (reader, closers,
			// workers) races for mu: the model's canonical order is ONE of the legal outcomes, so from
			// here on the prediction is not compared (the property-level verdict is unaffected)
			st.Expect, st.Sync = nil, true
		}
		if e.B && len(sc.Steps) > 0 && sc.Steps[len(sc.Steps)-1].Op == "send" && st.Op == "send" {
			// second frame of one client write: merged with the previous step, expectation of the second
			prev := sc.Steps[len(sc.Steps)-1]
			second := st
			second.Expect = nil
			prev.Op, prev.Second, prev.Expect = "send2", &second, st.Expect
			sc.Steps[len(sc.Steps)-1] = prev
			continue
		}
		sc.Steps = append(sc.Steps, st)
	}
	return sc
}

// ---------------------------------------------------------- random sessions

func randomScenario(rng *rand.Rand, id string) *Scenario {
	sc := &Scenario{ID: id, Mode: "random"}
	pick := func(xs ...string) string { return xs[rng.Intn(len(xs))] }
	sc.Cfg.Proto = pick("gws", "gws", "tws", "tws", "none")
	sc.Cfg.InitFn = pick("none", "accept", "accept", "payload", "detached", "reject")
	if sc.Cfg.InitFn == "reject" && rng.Intn(3) != 0 {
		sc.Cfg.InitFn = "accept"
	}
	sc.Cfg.Reason = sc.Cfg.InitFn != "none" && rng.Intn(4) == 0
	sc.Cfg.InitTimeout = []int{0, 0, 0, 4000, 40}[rng.Intn(5)]
	tw := sc.Cfg.proto() == "tws"
	if tw {
		sc.Cfg.PO = []int{0, 0, 1, 3}[rng.Intn(4)]
		sc.Cfg.PP = []int{0, 0, 2, 25}[rng.Intn(4)]
		sc.Cfg.MPO = rng.Intn(3) != 0
	} else {
		sc.Cfg.KA = []int{0, 1, 1, 4}[rng.Intn(4)]
	}
	sc.Cfg.LingerMs = []int{0, 0, 3, 15}[rng.Intn(4)]
	sc.Cfg.LingerGate = rng.Intn(8) == 0 // lingering Sources return when the session ends (or on "release")
	sc.End = pick("abort", "abort", "closef", "term", "cancel")
	sync := func() bool { return rng.Intn(10) < 6 }
	// the first message
	switch r := rng.Intn(20); {
	case r < 16:
		sc.Steps = append(sc.Steps, Step{Op: "send", M: "init", Sync: rng.Intn(10) < 8})
	case r == 16:
		sc.Steps = append(sc.Steps, Step{Op: "sleep", Ms: 60})
	case r == 17:
		sc.Steps = append(sc.Steps, Step{Op: "send", M: pick("term", "invalid", "s2c", "ping", "stop"), ID: "1", Sync: sync()})
	case r == 18: // init and the first start in one TCP write
		sc.Steps = append(sc.Steps, Step{Op: "send2", M: "init", Sync: sync(), Second: &Step{Op: "send", M: "start", ID: "1", Inst: "1x1", Kind: "ok"}})
	default: // start before init
		sc.Steps = append(sc.Steps, Step{Op: "send", M: "start", ID: "1", Inst: "1x1", Kind: "ok", Sync: sync()}, Step{Op: "send", M: "init", Sync: sync()})
	}
	count := map[string]int{"1": 0, "2": 0}
	if len(sc.Steps) == 2 || sc.Steps[0].Op == "send2" {
		count["1"] = 1
	}
	stalledNow := false
	var live []string // instances started and not yet told to end
	n := 2 + rng.Intn(8)
	for k := 0; k < n; k++ {
		r := rng.Intn(100)
		switch {
		case r < 26 || len(live) == 0 && r < 50:
			id := pick("1", "1", "2")
			// mostly a fresh or finished id; sometimes the id of a running operation (duplicate start)
			running := false
			for _, i := range live {
				if strings.HasPrefix(i, id+"x") {
					running = true
				}
			}
			if running && rng.Intn(10) < 8 {
				id = map[string]string{"1": "2", "2": "1"}[id]
				running = false
				for _, i := range live {
					if strings.HasPrefix(i, id+"x") {
						running = true
					}
				}
				if running && rng.Intn(10) < 8 {
					continue
				}
			}
			count[id]++
			inst := fmt.Sprintf("%sx%d", id, count[id])
			kind := "ok"
			if rng.Intn(10) == 0 {
				kind = "bad"
			} else {
				live = append(live, inst)
			}
			st := Step{Op: "send", M: "start", ID: id, Inst: inst, Kind: kind, Flavor: rng.Intn(4), Sync: sync()}
			if kind == "ok" && rng.Intn(4) == 0 {
				// a second frame in the same TCP write: its stop, a terminate, or a start of the other id
				st.Op = "send2"
				switch rng.Intn(4) {
				case 0, 1:
					st.Second = &Step{Op: "send", M: "stop", ID: id}
					live = live[:len(live)-1]
				case 2:
					st.Second = &Step{Op: "send", M: "term"}
					k = n
				default:
					o := map[string]string{"1": "2", "2": "1"}[id]
					count[o]++
					st.Second = &Step{Op: "send", M: "start", ID: o, Inst: fmt.Sprintf("%sx%d", o, count[o]), Kind: "ok"}
					live = append(live, st.Second.Inst)
				}
			}
			sc.Steps = append(sc.Steps, st)
		case r < 56 && len(live) > 0:
			i := rng.Intn(len(live))
			cmd := pick("emit", "emit", "emit", "end", "end", "suberr", "panic")
			sc.Steps = append(sc.Steps, Step{Op: "src", Inst: live[i], M: cmd, Sync: sync()})
			if cmd != "emit" {
				live = append(live[:i], live[i+1:]...)
			}
		case r < 72:
			id := pick("1", "2")
			sc.Steps = append(sc.Steps, Step{Op: "send", M: "stop", ID: id, Sync: sync()})
			var l2 []string
			for _, i := range live {
				if !strings.HasPrefix(i, id+"x") {
					l2 = append(l2, i)
				}
			}
			if rng.Intn(2) == 0 {
				live = l2 // (otherwise later commands race with the cancellation)
			}
		case r < 77:
			sc.Steps = append(sc.Steps, Step{Op: "sleep", Ms: 1 + rng.Intn(12)})
		case r < 80: // the peer stops reading for a while / reads again
			if stalledNow {
				sc.Steps = append(sc.Steps, Step{Op: "unstall", Sync: sync()})
			} else {
				sc.Steps = append(sc.Steps, Step{Op: "stall"})
			}
			stalledNow = !stalledNow
		case r < 86 && tw:
			sc.Steps = append(sc.Steps, Step{Op: "send", M: pick("ping", "pong", "pong"), Sync: sync()})
		case r < 90:
			sc.Steps = append(sc.Steps, Step{Op: "cancel", Sync: sync()})
			k = n
		case r < 97:
			m := pick("term", "invalid", "s2c", "abort", "closef", "init", "abort")
			sc.Steps = append(sc.Steps, Step{Op: "send", M: m, Sync: sync()})
			if m == "abort" || m == "closef" {
				k = n
			}
		}
	}
	return sc
}

// specialScenarios: fixed sessions that every run plays - the reproducers of the (repaired) findings
// as regressions, the restart hammer, two frames in one TCP write, a Source that lingers a little
// after its cancellation while the connection is being ended, a silent client with InitTimeout.
func specialScenarios(thorough bool) []*Scenario {
	init := Step{Op: "send", M: "init", Sync: true}
	start := func(id, inst string) Step {
		return Step{Op: "send", M: "start", ID: id, Inst: inst, Kind: "ok", Sync: true}
	}
	var out []*Scenario
	for _, p := range []string{"gws", "tws"} {
		endMsg := "term"
		if p == "tws" {
			endMsg = "closef"
		}
		out = append(out,
			&Scenario{ID: "dup-start-stop-" + p, Mode: "special", Cfg: Cfg{Proto: p, InitFn: "accept"}, End: "abort", Steps: []Step{init,
				start("1", "1x1"), start("1", "1x2"),
				{Op: "src", Inst: "1x1", M: "emit", Sync: true},
				{Op: "src", Inst: "1x2", M: "emit", Sync: true},
				{Op: "src", Inst: "1x1", M: "end", Sync: true},
				{Op: "src", Inst: "1x2", M: "emit", Sync: true},
				{Op: "send", M: "stop", ID: "1", Sync: true}}},
			&Scenario{ID: "dup-start-detached-" + p, Mode: "special", Cfg: Cfg{Proto: p, InitFn: "detached"}, End: "abort", Steps: []Step{init,
				start("1", "1x1"), start("1", "1x2"),
				{Op: "send", M: "stop", ID: "1", Sync: true}}},
			&Scenario{ID: "suberr-then-panic-" + p, Mode: "special", Cfg: Cfg{Proto: p, InitFn: "none"}, End: "closef", Steps: []Step{init,
				start("1", "1x1"),
				{Op: "src", Inst: "1x1", M: "sp", Sync: true}}},
			// two frames in ONE TCP write
			&Scenario{ID: "one-write-start-stop-" + p, Mode: "special", Cfg: Cfg{Proto: p, InitFn: "accept", KA: 2, PO: 2}, End: "abort", Steps: []Step{init,
				{Op: "send2", M: "start", ID: "1", Inst: "1x1", Kind: "ok", Sync: true, Second: &Step{Op: "send", M: "stop", ID: "1"}},
				{Op: "send2", M: "start", ID: "2", Inst: "2x1", Kind: "ok", Sync: true, Second: &Step{Op: "send", M: "stop", ID: "2"}},
				{Op: "send2", M: "start", ID: "1", Inst: "1x2", Kind: "ok", Sync: true, Second: &Step{Op: "send", M: "stop", ID: "1"}}}},
			&Scenario{ID: "one-write-start-stop-detached-" + p, Mode: "special", Cfg: Cfg{Proto: p, InitFn: "detached"}, End: "closef", Steps: []Step{init,
				{Op: "send2", M: "start", ID: "1", Inst: "1x1", Kind: "ok", Sync: true, Second: &Step{Op: "send", M: "stop", ID: "1"}}}},
			&Scenario{ID: "one-write-init-start-" + p, Mode: "special", Cfg: Cfg{Proto: p, InitFn: "accept"}, End: "closef", Steps: []Step{
				{Op: "send2", M: "init", Sync: true, Second: &Step{Op: "send", M: "start", ID: "1", Inst: "1x1", Kind: "ok"}},
				{Op: "src", Inst: "1x1", M: "emit", Sync: true},
				{Op: "src", Inst: "1x1", M: "end", Sync: true}}},
			&Scenario{ID: "one-write-start-start-" + p, Mode: "special", Cfg: Cfg{Proto: p, InitFn: "none"}, End: "abort", Steps: []Step{init,
				{Op: "send2", M: "start", ID: "1", Inst: "1x1", Kind: "ok", Sync: true, Second: &Step{Op: "send", M: "start", ID: "2", Inst: "2x1", Kind: "ok"}},
				{Op: "src", Inst: "2x1", M: "emit", Sync: true},
				{Op: "send", M: "stop", ID: "1", Sync: true},
				{Op: "send", M: "stop", ID: "2", Sync: true}}},
			&Scenario{ID: "one-write-start-end-" + p, Mode: "special", Cfg: Cfg{Proto: p, InitFn: "detached"}, End: "abort", Steps: []Step{init,
				{Op: "send2", M: "start", ID: "1", Inst: "1x1", Kind: "ok", Sync: true, Second: &Step{Op: "send", M: endMsg}}}},
			// a start buffered behind a refused duplicate start (the open finding start-after-close; with a
			// context that descends from the request context the late operation is cancelled when the handler returns)
			&Scenario{ID: "dup-refused-buffered-start-detached-" + p, Mode: "special", Cfg: Cfg{Proto: p, InitFn: "detached"}, End: "abort", Steps: []Step{init,
				start("1", "1x1"),
				{Op: "send2", M: "start", ID: "1", Inst: "1x2", Kind: "ok", Sync: true, Second: &Step{Op: "send", M: "start", ID: "2", Inst: "2x1", Kind: "ok"}}}},
			&Scenario{ID: "dup-refused-buffered-start-" + p, Mode: "special", Cfg: Cfg{Proto: p, InitFn: "accept"}, End: "abort", Steps: []Step{init,
				start("1", "1x1"),
				{Op: "send2", M: "start", ID: "1", Inst: "1x2", Kind: "ok", Sync: true, Second: &Step{Op: "send", M: "start", ID: "2", Inst: "2x1", Kind: "ok"}}}},
			// a stopped operation is still winding down (40 ms) when the connection is ended
			&Scenario{ID: "linger-stop-then-end-" + p, Mode: "special", Cfg: Cfg{Proto: p, InitFn: "accept", LingerMs: 40}, End: "abort", Steps: []Step{init,
				start("1", "1x1"), start("2", "2x1"),
				{Op: "send", M: "stop", ID: "1"},
				{Op: "sleep", Ms: 5},
				{Op: "send", M: endMsg, Sync: true}}},
			&Scenario{ID: "linger-stop-then-abort-" + p, Mode: "special", Cfg: Cfg{Proto: p, InitFn: "detached", LingerMs: 40}, End: "abort", Steps: []Step{init,
				start("1", "1x1"),
				{Op: "send", M: "stop", ID: "1"},
				{Op: "sleep", Ms: 5},
				{Op: "send", M: "abort", Sync: true}}},
			&Scenario{ID: "linger-stop-then-cancel-" + p, Mode: "special", Cfg: Cfg{Proto: p, InitFn: "accept", LingerMs: 40}, End: "abort", Steps: []Step{init,
				start("1", "1x1"),
				{Op: "send", M: "stop", ID: "1"},
				{Op: "sleep", Ms: 5},
				{Op: "cancel", Sync: true}}},
			// two closers in flight behind a writer that is stalled on a slow peer (holding mu): the client
			// terminates / repeats an id / repeats init on the read loop, the server cancels the InitFunc context
			&Scenario{ID: "two-closers-stalled-writer-" + p, Mode: "special", Cfg: Cfg{Proto: p, InitFn: "accept"}, End: "abort", Steps: []Step{init,
				start("1", "1x1"),
				{Op: "src", Inst: "1x1", M: "emit", Sync: true},
				{Op: "stall"},
				{Op: "src", Inst: "1x1", M: "emit"},
				{Op: "send", M: map[string]string{"gws": "term", "tws": "init"}[p]},
				{Op: "cancel"},
				{Op: "unstall", Sync: true}}},
			&Scenario{ID: "two-closers-stalled-writer-cancel-first-" + p, Mode: "special", Cfg: Cfg{Proto: p, InitFn: "accept", Reason: true}, End: "abort", Steps: []Step{init,
				start("1", "1x1"),
				{Op: "stall"},
				{Op: "src", Inst: "1x1", M: "emit"},
				{Op: "cancel"},
				{Op: "send", M: map[string]string{"gws": "term", "tws": "init"}[p]},
				{Op: "unstall", Sync: true}}},
			&Scenario{ID: "two-closers-stalled-writer-dup-id-" + p, Mode: "special", Cfg: Cfg{Proto: p, InitFn: "detached"}, End: "abort", Steps: []Step{init,
				start("1", "1x1"), start("2", "2x1"),
				{Op: "stall"},
				{Op: "src", Inst: "2x1", M: "emit"},
				{Op: "send", M: "start", ID: "1", Inst: "1x2", Kind: "ok"},
				{Op: "cancel"},
				{Op: "unstall", Sync: true}}},
			// an id is used again while its stopped operation still lingers (gate), then the old operation
			// ends, then stop(id) - or the connection ends - : the operation that runs under the id must be cancelled
			&Scenario{ID: "reuse-id-after-stop-then-stop-" + p, Mode: "special", Cfg: Cfg{Proto: p, InitFn: "accept", LingerGate: true}, End: "abort", Steps: []Step{init,
				start("1", "1x1"),
				{Op: "send", M: "stop", ID: "1", Sync: true},
				start("1", "1x2"),
				{Op: "src", Inst: "1x1", M: "release", Sync: true},
				{Op: "src", Inst: "1x2", M: "emit", Sync: true},
				{Op: "send", M: "stop", ID: "1", Sync: true}}},
			&Scenario{ID: "reuse-id-after-stop-then-close-" + p, Mode: "special", Cfg: Cfg{Proto: p, InitFn: "detached", LingerGate: true}, End: endMsg, NoEpilogue: true, Steps: []Step{init,
				start("1", "1x1"),
				{Op: "send", M: "stop", ID: "1", Sync: true},
				start("1", "1x2"),
				{Op: "src", Inst: "1x1", M: "release", Sync: true}}},
			&Scenario{ID: "reuse-id-after-stop-third-start-" + p, Mode: "special", Cfg: Cfg{Proto: p, InitFn: "none", LingerGate: true}, End: "abort", Steps: []Step{init,
				start("1", "1x1"),
				{Op: "send", M: "stop", ID: "1", Sync: true},
				start("1", "1x2"),
				{Op: "src", Inst: "1x1", M: "release", Sync: true},
				start("1", "1x3"),
				{Op: "send", M: "stop", ID: "1", Sync: true}}},
			// a client that never says anything, InitTimeout configured: close 1002, CloseFunc once, nothing left
			&Scenario{ID: "silent-client-init-timeout-" + p, Mode: "special", Cfg: Cfg{Proto: p, InitFn: "accept", InitTimeout: 80}, End: "abort", Steps: []Step{
				{Op: "sleep", Ms: 400, Sync: true}}},
		)
		// the restart hammer, bounded by rounds AND by time (quick: 150 rounds or 3 s, whichever comes
		// first - a round takes ~10 ms; thorough: 4 sessions of 150 rounds or 30 s)
		nh, rounds, msec := 1, 150, 3000
		if thorough {
			nh, rounds, msec = 4, 150, 30000
		}
		for k := 0; k < nh; k++ {
			out = append(out, &Scenario{ID: fmt.Sprintf("restart-hammer-%s-%d", p, k), Mode: "hammer", Cfg: Cfg{Proto: p, InitFn: "none", KA: 1, PO: 1}, End: "abort", Iters: rounds,
				Steps: []Step{init, {Op: "hammer", ID: "1", Ms: msec}}})
		}
	}
	out = append(out, &Scenario{ID: "init-bad-payload-gws-timeout", Mode: "special", Cfg: Cfg{Proto: "gws", InitFn: "accept", InitTimeout: 3000}, End: "abort",
		Steps: []Step{{Op: "send", M: "initbad", Sync: true}}})
	return out
}

func slowRank(sc *Scenario) int {
	if strings.HasPrefix(sc.ID, "dup-refused-buffered-start-detached") {
		return 3
	}
	if len(sc.Steps) > 0 && sc.Steps[0].M == "initbad" {
		return 3
	}
	if sc.Mode == "hammer" {
		return 2
	}
	if sc.Mode == "special" {
		return 1
	}
	return 0
}

// ------------------------------------------------------------ child processes

type child struct {
	cmd    *exec.Cmd
	in     io.WriteCloser
	out    *bufio.Reader
	stderr *bytes.Buffer
	race   string
}

func startChild(bin string, n int) (*child, error) {
	race := vlib.Work("C11", "race", fmt.Sprintf("r%d-%d", n, time.Now().UnixNano()))
	_ = os.MkdirAll(filepath.Dir(race), 0o755)
	cmd := exec.Command(bin)
	cmd.Env = append(os.Environ(), "C11_CHILD=1", "C11_RACELOG="+race, "GORACE=log_path="+race+" halt_on_error=0 history_size=3")
	in, _ := cmd.StdinPipe()
	out, _ := cmd.StdoutPipe()
	eb := &bytes.Buffer{}
	cmd.Stderr = eb
	if err := cmd.Start(); err != nil {
		return nil, err
	}
	return &child{cmd: cmd, in: in, out: bufio.NewReaderSize(out, 1<<20), stderr: eb, race: race}, nil
}

func (ch *child) kill() {
	_ = ch.in.Close()
	if ch.cmd.Process != nil {
		_ = ch.cmd.Process.Kill()
	}
	_ = ch.cmd.Wait()
}

type played struct {
	res     *Result
	crashed bool
	stderr  string
	hung    bool
}

func (ch *child) play(sc *Scenario) (*played, bool) {
	b, _ := json.Marshal(sc)
	if _, err := ch.in.Write(append(b, '\n')); err != nil {
		return &played{crashed: true, stderr: ch.stderr.String()}, false
	}
	type rd struct {
		line []byte
		err  error
	}
	got := make(chan rd, 1)
	go func() { l, err := ch.out.ReadBytes('\n'); got <- rd{l, err} }()
	to := 300 * time.Second
	if sc.Long {
		to = 15 * time.Minute
	}
	select {
	case r := <-got:
		if r.err != nil {
			_ = ch.cmd.Wait()
			return &played{crashed: true, stderr: ch.stderr.String()}, false
		}
		var res Result
		if err := json.Unmarshal(r.line, &res); err != nil {
			return &played{crashed: true, stderr: "bad result line: " + err.Error()}, false
		}
		return &played{res: &res}, true
	case <-time.After(to):
		// ask the runtime for a goroutine dump before the process is killed
		if ch.cmd.Process != nil {
			_ = ch.cmd.Process.Signal(syscall.SIGQUIT)
			time.Sleep(3 * time.Second)
		}
		return &played{hung: true, stderr: ch.stderr.String()}, false
	}
}

func runAll(bin string, scs []*Scenario, procs int) []*played {
	out := make([]*played, len(scs))
	idx := make(chan int, len(scs))
	for i := range scs {
		idx <- i
	}
	close(idx)
	var wg sync.WaitGroup
	for p := 0; p < procs; p++ {
		wg.Add(1)
		go func(p int) {
			defer wg.Done()
			var ch *child
			for i := range idx {
				if ch == nil {
					var err error
					if ch, err = startChild(bin, p); err != nil {
						vlib.Infra("cannot start the session process: %v", err)
					}
				}
				pl, alive := ch.play(scs[i])
				if pl.hung {
					// the session RUNNER did not come back (overloaded machine?): once more in a fresh process
					fmt.Fprintf(os.Stderr, "[c11] scenario %s did not come back, retrying in a fresh process\n%s\n", scs[i].ID, tailStr(pl.stderr, 6000))
					ch.kill()
					var err error
					if ch, err = startChild(bin, p); err != nil {
						vlib.Infra("cannot start the session process: %v", err)
					}
					pl, alive = ch.play(scs[i])
				}
				out[i] = pl
				if !alive {
					ch.kill()
					ch = nil
				}
			}
			if ch != nil {
				ch.kill()
			}
		}(p)
	}
	wg.Wait()
	return out
}

// ------------------------------------------------------------------ verdicts

type tracedScenario struct {
	sc  *Scenario
	res *Result
}

func traceLines(t *tracedScenario) [][]byte {
	var out [][]byte
	for _, ev := range t.res.Events {
		b, _ := json.Marshal(ev)
		out = append(out, b)
	}
	return out
}

type rejection struct {
	t      *tracedScenario
	lineNo int
	line   Event
}

var reDevs = regexp.MustCompile(`^<<"DEVS", (\d+), \{(.*)\}>>`)

// validate runs TLC (WsTrace) over the concatenated traces; a rejected trace is removed and the
// rest re-validated, so every trace is examined.  devs: named deviations a trace used (Dev config).
func validate(c *vlib.Check, cfgName string, edit func(string) string, ts []*tracedScenario, scratch string, count bool) ([]rejection, map[*tracedScenario][]string, error) {
	var rej []rejection
	devs := map[*tracedScenario][]string{}
	const chunk = 150
	for lo := 0; lo < len(ts); lo += chunk {
		hi := lo + chunk
		if hi > len(ts) {
			hi = len(ts)
		}
		remaining := ts[lo:hi]
		for round := 0; len(remaining) > 0 && round < 200; round++ {
			var buf bytes.Buffer
			var owner []int
			var evs []Event
			for i, t := range remaining {
				for k, ln := range traceLines(t) {
					buf.Write(ln)
					buf.WriteByte('\n')
					owner = append(owner, i)
					evs = append(evs, t.res.Events[k])
				}
			}
			res, err := vlib.RunTLC(vlib.TLCOpts{Module: "WsTrace", Config: cfgName, Workers: 1, DFS: true, CfgEdit: edit,
				Data: map[string][]byte{"trace.ndjson": buf.Bytes()}, Scratch: filepath.Join(scratch, fmt.Sprintf("c%d-r%d", lo, round)), Timeout: 20 * time.Minute})
			if err != nil {
				return rej, devs, err
			}
			if count {
				c.AddStates(res.Distinct, res.Generated)
			}
			limit := len(owner)
			if !res.OK {
				if res.RejectedAt == 0 || res.RejectedAt > len(owner) {
					return rej, devs, fmt.Errorf("TLC failed without a trace rejection:\n%s", tailStr(res.Output, 3000))
				}
				limit = res.RejectedAt - 1
			}
			for _, ln := range res.Printed {
				if m := reDevs.FindStringSubmatch(ln); m != nil {
					n, _ := strconv.Atoi(m[1])
					if n >= 1 && n <= limit {
						var names []string
						for _, x := range strings.Split(m[2], ",") {
							if x = strings.Trim(strings.TrimSpace(x), `"`); x != "" {
								names = append(names, x)
							}
						}
						devs[remaining[owner[n-1]]] = names
					}
				}
			}
			if res.OK {
				if count {
					c.AddTraces(int64(len(remaining)))
				}
				break
			}
			idx := owner[res.RejectedAt-1]
			first := res.RejectedAt - 1
			for first > 0 && owner[first-1] == idx {
				first--
			}
			rej = append(rej, rejection{t: remaining[idx], lineNo: res.RejectedAt - first, line: evs[res.RejectedAt-1]})
			if count {
				c.AddTraces(int64(idx + 1))
			}
			remaining = remaining[idx+1:]
		}
	}
	return rej, devs, nil
}

var reRaceOurs = regexp.MustCompile(`gqlgen/graphql/handler/transport|gorilla/websocket`)

func classOf(sc *Scenario) string {
	cnt := map[string]int{}
	for _, st := range sc.Steps {
		k := st.Op + ":" + st.M
		if st.Second != nil {
			k += "+" + st.Second.M
		}
		if st.Op == "send" && st.M == "start" {
			k += ":" + st.Kind
		}
		cnt[k]++
	}
	var ks []string
	for k, n := range cnt {
		ks = append(ks, fmt.Sprintf("%s*%d", k, n))
	}
	sort.Strings(ks)
	mode := sc.Mode
	return mode + "|" + sc.Cfg.Proto + "|" + sc.Cfg.InitFn + "|" + strings.Join(ks, ",")
}

func describe(t *tracedScenario, upto int) string {
	var sb strings.Builder
	cb, _ := json.Marshal(t.sc.Cfg)
	fmt.Fprintf(&sb, "scenario %s (%s) cfg=%s\nscript:", t.sc.ID, t.sc.Mode, cb)
	for _, st := range t.sc.Steps {
		s := st.Op + " " + st.M
		if st.Inst != "" {
			s += " " + st.Inst
		} else if st.ID != "" {
			s += " " + st.ID
		}
		if st.Kind == "bad" {
			s += " (bad)"
		}
		if st.Second != nil {
			s += " + " + st.Second.M + " " + st.Second.Inst + st.Second.ID + " in one write"
		}
		if !st.Sync && st.Expect == nil {
			s += " ~"
		}
		fmt.Fprintf(&sb, " [%s]", strings.TrimSpace(s))
	}
	sb.WriteString("\nevents:")
	lo := 0
	if upto > 40 {
		lo = upto - 40
	}
	for i := lo; i < upto && i < len(t.res.Events); i++ {
		ev := t.res.Events[i]
		fmt.Fprintf(&sb, " %s", evStr(ev))
	}
	return sb.String()
}

func evStr(ev Event) string {
	s := ev.E
	if ev.M != "" {
		s += ":" + ev.M
	}
	if ev.I != "" {
		s += ":" + ev.I
	} else if ev.ID != "" && ev.E != "Reset" {
		s += ":" + ev.ID
	}
	if ev.K != 0 {
		s += fmt.Sprintf(":%d", ev.K)
	}
	return s
}

// finalWhy explains a rejected Final line from the events.
func finalWhy(evs []Event) string {
	src := map[string]string{}
	closeFn := 0
	leaked := 0
	for _, ev := range evs {
		switch ev.E {
		case "SStart":
			src[ev.I] = "run"
		case "SExit":
			src[ev.I] = "exited"
		case "CloseFn":
			closeFn++
		case "Final":
			leaked = ev.K
		}
	}
	var why []string
	for i, s := range src {
		if s == "run" {
			why = append(why, "source-not-cancelled:"+i)
		}
	}
	sort.Strings(why)
	if closeFn != 1 {
		why = append(why, fmt.Sprintf("closefunc-calls=%d", closeFn))
	}
	if leaked > 0 {
		why = append(why, fmt.Sprintf("goroutines-of-transport-alive=%d", leaked))
	}
	return strings.Join(why, ",")
}

func judge(c *vlib.Check, bin string, scs []*Scenario, results []*played) {
	var ts []*tracedScenario
	diverged := 0
	for i, sc := range scs {
		pl := results[i]
		c.AddEvals(1)
		c.Class(classOf(sc))
		switch {
		case pl == nil:
			vlib.Infra("scenario %s was not played", sc.ID)
		case pl.hung:
			// the session runner itself did not come back: a harness problem, not an observation of the transport
			vlib.Infra("session process hung on scenario %s\n%s", sc.ID, tailStr(pl.stderr, 2000))
		case pl.crashed:
			// a crash of the process that runs the real server: gorilla's "concurrent write to
			// websocket connection" panic in a ticker goroutine, a nil dereference in a handler goroutine, ...
			if strings.Contains(pl.stderr, "panic") || strings.Contains(pl.stderr, "fatal error") {
				c.Violate("process-crash", fmt.Sprintf("the server process died during scenario %s\n%s", sc.ID, tailStr(pl.stderr, 2500)), sc)
			} else {
				vlib.Infra("session process died without a panic on scenario %s: %s", sc.ID, tailStr(pl.stderr, 2000))
			}
		default:
			res := pl.res
			if len(res.Events) == 0 {
				vlib.Infra("scenario %s recorded nothing: %v", sc.ID, res.Notes)
			}
			if res.Race != "" {
				if reRaceOurs.MatchString(res.Race) {
					c.Violate("data-race", fmt.Sprintf("race detector report during scenario %s (frames / connection state accessed concurrently)\n%s", sc.ID, trunc(res.Race, 2500)), sc)
				} else {
					vlib.Infra("race report outside the transport (harness bug?) in %s:\n%s", sc.ID, trunc(res.Race, 2500))
				}
			}
			ts = append(ts, &tracedScenario{sc: sc, res: res})
			if len(res.Diverge) > 0 {
				diverged++
			}
		}
	}
	if len(ts) == 0 {
		vlib.Infra("no session was recorded")
	}
	slow := append([]*tracedScenario{}, ts...)
	sort.Slice(slow, func(i, j int) bool { return slow[i].res.WallMs > slow[j].res.WallMs })
	var tot int64
	for _, t := range ts {
		tot += t.res.WallMs
	}
	fmt.Fprintf(os.Stderr, "[c11] %d sessions, %.1fs of session time; slowest:", len(ts), float64(tot)/1000)
	for i := 0; i < 8 && i < len(slow); i++ {
		fmt.Fprintf(os.Stderr, " %s=%dms", slow[i].sc.ID, slow[i].res.WallMs)
	}
	fmt.Fprintln(os.Stderr)
	// Every trace is validated against Ws with the named deviations of the OPEN findings admitted
	// (WsTraceDev.cfg) - a trace that used one reports which (w.devs); a trace that used none has
	// satisfied the strict guards at every step, i.e. it is a behaviour of the property (WsTrace.cfg).
	rej, devs, err := validate(c, "WsTraceDev.cfg", nil, ts, vlib.Work("C11", "tv"), true)
	if err != nil {
		vlib.Infra("trace validation: %v", err)
	}
	fmt.Fprintf(os.Stderr, "[c11] %d traces validated: %d used named deviations, %d rejected\n", len(ts), len(devs), len(rej))
	rejected := map[string]bool{}
	devCount := map[string]int{}
	strictChecked := 0
	for _, t := range ts {
		names := devs[t]
		if len(names) == 0 {
			continue
		}
		rejected[t.sc.ID] = true
		has := map[string]bool{}
		for _, n := range names {
			has[n] = true
		}
		// binding check: the strict configuration (the property) must reject such a trace
		if strictChecked < 3 {
			strictChecked++
			r2, _, err := validate(c, "WsTrace.cfg", nil, []*tracedScenario{t}, vlib.Work("C11", "tv-strict", t.sc.ID), false)
			if err != nil {
				vlib.Infra("trace validation (strict): %v", err)
			}
			if len(r2) == 0 {
				vlib.Infra("WsTrace.cfg accepts trace %s although it used the deviations %v", t.sc.ID, names)
			}
		}
		for _, n := range names {
			key, what := devKey(n, has)
			devCount[key]++
			c.Violate(key, what+"\n"+describe(t, len(t.res.Events)), t.sc)
		}
	}
	// an absence already listed as an open finding is re-observed as such; anything else resting on an
	// absence is confirmed by a second run of the whole scenario with longer waits
	confirmed := map[string]bool{}  // absence keys reproduced by a confirmation run
	unconfirmed := map[string]int{} // ... and not reproduced
	for _, r := range rej {
		rejected[r.t.sc.ID] = true
		if c.Violations() >= 20 {
			break
		}
		key, detail := classify(c, r)
		if strings.HasPrefix(key, "absent:") && unconfirmed[key] >= 3 {
			continue
		}
		if strings.HasPrefix(key, "absent:") && !r.t.sc.Long && !confirmed[key] {
			again := *r.t.sc
			again.Long = true
			again.ID += "-confirm"
			pls := runAll(bin, []*Scenario{&again}, 1)
			if pls[0] == nil || pls[0].res == nil {
				c.Set("unconfirmed_"+r.t.sc.ID, "confirmation run failed")
				continue
			}
			t2 := &tracedScenario{sc: &again, res: pls[0].res}
			rej2, _, err := validate(c, "WsTraceDev.cfg", nil, []*tracedScenario{t2}, vlib.Work("C11", "tv-confirm", r.t.sc.ID), false)
			if err != nil {
				vlib.Infra("trace validation (confirmation): %v", err)
			}
			if len(rej2) == 0 {
				unconfirmed[key]++
				c.Set("unconfirmed_"+r.t.sc.ID, key+" not reproduced on the second run with longer waits (slow machine, no verdict)")
				continue
			}
			key2, detail2 := classify(c, rej2[0])
			key, detail = key2, detail2+"\n(confirmed by a second run of the scenario with longer waits)"
			confirmed[key] = true
		}
		key = strings.TrimPrefix(key, "absent:")
		devCount[key]++
		c.Violate(key, detail, r.t.sc)
	}
	c.Set("findings_by_key", devCount)
	selfTest(c, ts, devs, rejected)
	// Replay divergences: the implementation-level model (WsImpl as the tree is) predicted an observation
	// that did not come within the confirmed wait.  What the PROPERTY demands is judged by Ws (trace
	// validation, Stall events, Final); a divergence alone is model drift (DESIGN A.1): recorded, not a verdict -
	// a repair of an open finding necessarily diverges from the model of the unrepaired tree.
	drift := 0
	var driftSamples []string
	for _, t := range ts {
		if len(t.res.Diverge) == 0 {
			continue
		}
		drift++
		if len(driftSamples) < 5 {
			driftSamples = append(driftSamples, t.sc.ID+": "+strings.Join(t.res.Diverge, "; "))
		}
	}
	c.Set("replay_divergences_model_drift", drift)
	if drift > 0 {
		c.Set("replay_divergence_samples", driftSamples)
		fmt.Fprintf(os.Stderr, "[c11] model drift: %d replayed scripts diverged from WsImpl's prediction, e.g. %s\n", drift, driftSamples[0])
	}
	// samples
	n := 0
	for _, t := range ts {
		if n >= 4 {
			break
		}
		if t.sc.Mode == "replay" && len(t.sc.Steps) >= 4 || t.sc.Mode == "random" && len(t.res.Events) > 25 {
			var evs []string
			for _, ev := range t.res.Events {
				evs = append(evs, evStr(ev))
			}
			c.Sample(map[string]any{"scenario": t.sc.ID, "cfg": t.sc.Cfg, "events": evs})
			n++
		}
	}
	events := 0
	for _, t := range ts {
		events += len(t.res.Events)
	}
	c.Set("events_validated", events)
}

// selfTest: binding is demonstrated, not assumed - accepted traces with one event dropped, doubled
// or moved must be rejected by Ws.
func selfTest(c *vlib.Check, ts []*tracedScenario, devs map[*tracedScenario][]string, rejected map[string]bool) {
	var corrupt []*tracedScenario
	mk := func(t *tracedScenario, name string, evs []Event) {
		sc := *t.sc
		sc.ID = t.sc.ID + "-selftest-" + name
		corrupt = append(corrupt, &tracedScenario{sc: &sc, res: &Result{ID: sc.ID, Events: evs}})
	}
	done := map[string]bool{}
	for _, t := range ts {
		if len(devs[t]) > 0 || rejected[t.sc.ID] {
			continue
		}
		evs := t.res.Events
		idx := func(e, m string) int {
			for i, ev := range evs {
				if ev.E == e && (m == "" || ev.M == m) {
					return i
				}
			}
			return -1
		}
		without := func(i int) []Event { return append(append([]Event{}, evs[:i]...), evs[i+1:]...) }
		if i := idx("CloseFn", ""); i >= 0 && !done["no-closefn"] {
			done["no-closefn"] = true
			mk(t, "no-closefn", without(i))
		}
		if i := idx("CloseFn", ""); i >= 0 && !done["closefn-twice"] {
			done["closefn-twice"] = true
			mk(t, "closefn-twice", append(append(append([]Event{}, evs[:i+1]...), evs[i]), evs[i+1:]...))
		}
		startsOf := func(id string) int {
			n := 0
			for _, ev := range evs {
				if ev.E == "CSend" && ev.M == "start" && ev.ID == id {
					n++
				}
			}
			return n
		}
		// (only where the id was started once: otherwise the second completion may belong to the other instance)
		if i := idx("CRecv", "complete"); i >= 0 && startsOf(evs[i].ID) == 1 && !done["complete-twice"] {
			done["complete-twice"] = true
			mk(t, "complete-twice", append(append(append([]Event{}, evs[:i+1]...), evs[i]), evs[i+1:]...))
		}
		if i := idx("SEmit", ""); i >= 0 && idx("CRecv", "next") > i && !done["next-without-emit"] {
			done["next-without-emit"] = true
			mk(t, "next-without-emit", without(i))
		}
		if i, j := idx("InitFn", "accept"), idx("SStart", ""); i >= 0 && j > i && !done["start-before-accept"] {
			done["start-before-accept"] = true
			e2 := append([]Event{}, evs[:i]...)
			e2 = append(e2, evs[j])
			e2 = append(e2, evs[i:j]...)
			e2 = append(e2, evs[j+1:]...)
			mk(t, "start-before-accept", e2)
		}
		if len(done) == 5 {
			break
		}
	}
	if len(corrupt) == 0 {
		return
	}
	rej, _, err := validate(c, "WsTraceDev.cfg", nil, corrupt, vlib.Work("C11", "tv-selftest"), false)
	if err != nil {
		vlib.Infra("trace validation (self-test): %v", err)
	}
	if len(rej) != len(corrupt) {
		got := map[string]bool{}
		for _, r := range rej {
			got[r.t.sc.ID] = true
		}
		for _, t := range corrupt {
			if !got[t.sc.ID] {
				vlib.Infra("self-test: Ws accepts the corrupted trace %s - the trace specification does not bind", t.sc.ID)
			}
		}
	}
	c.Set("selftest_corrupted_traces_rejected", len(rej))
}

// devKey maps a named deviation (w.devs) to the key of the finding it belongs to.
func devKey(n string, has map[string]bool) (string, string) {
	switch n {
	case "dup":
		return "dup-start:second-operation-of-running-id", "a start with the id of an operation that is still executing was accepted: two operations execute under one id"
	case "dup-stop":
		return "dup-start:stop-does-not-cancel-first-operation", "stop(id) was sent while two operations of the id were executing; the first one never saw its context cancelled"
	case "outlives":
		if has["restart"] && !has["dup"] {
			return "restart-race:operation-outlives-connection", "after the connection ended a restarted operation is still executing, its context never cancelled"
		}
		return "dup-start:operation-outlives-connection", "after the connection ended an operation started under a duplicate id is still executing, its context never cancelled"
	case "dblerr":
		return "double-error-frame:subscription-error-then-panic", "a resolver that called AddSubscriptionError and then panicked: two error frames for one operation"
	case "restart":
		return "restart-race:stop-does-not-cancel-restarted-operation", "the id was started again right after its completion had been received; the finished operation's deferred delete(active, id) removed the NEW operation's registration, so stop(id) found nothing to cancel"
	case "late-outlives":
		return "start-after-close:operation-outlives-connection", "a start that was buffered behind a refused duplicate start was registered and executed AFTER close(4409) had cancelled the active operations: nothing cancels it, it is still executing after the connection ended"
	case "silentinit":
		return "init-bad-payload:no-close-no-closefunc", "connection_init with a non-object payload: no close frame, socket left open, CloseFunc never called"
	}
	return "deviation:" + n, "named deviation " + n
}

var absentDevs = map[string]bool{"dup-stop": true, "outlives": true, "restart": true, "silentinit": true, "late-outlives": true}

// classify a trace that Ws rejects.  If one of the named deviations (all of them repaired in /repo by
// now: the constants are FALSE in the registered configurations) explains it, the violation gets the
// key of that finding - the old behaviour is back; otherwise a key from the rejected event.  Keys
// starting with "absent:" rest on the absence of an event.
func classify(c *vlib.Check, r rejection) (string, string) {
	t := r.t
	base := describe(t, r.lineNo) + fmt.Sprintf("\nWs rejects event %d: %s", r.lineNo, evStr(r.line))
	all := map[string]string{"AllowDupStart": "TRUE", "AllowSilentInit": "TRUE", "AllowDoubleError": "TRUE", "AllowRestartRace": "TRUE", "AllowLateStart": "TRUE"}
	rej, devs, err := validate(c, "WsTraceDev.cfg", cfgEdit(all), []*tracedScenario{t}, vlib.Work("C11", "tv-dev", t.sc.ID), false)
	if err != nil {
		vlib.Infra("trace validation (deviation classification): %v", err)
	}
	if names := devs[t]; len(rej) == 0 && len(names) > 0 {
		has := map[string]bool{}
		for _, n := range names {
			has[n] = true
		}
		// the most specific symptom names the violation
		best := names[0]
		for _, n := range names {
			if absentDevs[n] {
				best = n
			}
		}
		key, what := devKey(best, has)
		if absentDevs[best] {
			key = "absent:" + key
		}
		return key, base + "\n" + what + fmt.Sprintf(" (the trace is accepted only with the named deviations %v, i.e. a repaired behaviour is back)", names)
	}
	key := "trace:" + r.line.E
	if r.line.M != "" && r.line.E != "Panic" && r.line.E != "Garbled" {
		key += ":" + r.line.M
	}
	switch r.line.E {
	case "Final":
		why := finalWhy(t.res.Events)
		key = "absent:final:" + regexp.MustCompile(`:[A-Za-z0-9]+|=\d+`).ReplaceAllString(why, "")
		base += "\nat the end of the session: " + why
		if t.res.Stack != "" {
			base += "\n" + trunc(t.res.Stack, 2000)
		}
	case "Stall":
		key = "absent:" + r.line.M
	case "CEnd":
		if r.line.K == 4409 {
			key = "spurious-4409:restart-refused-after-completion"
			base += "\nthe server closed with 4409 (subscriber already exists) although the client had read the termination of every earlier operation of the id before it started the id again"
		}
	case "Panic":
		base += "\nthe recover hook ran although no Source was scripted to panic: " + r.line.M
	}
	return key, base
}

func finalHas(evs []Event, what string) bool { return strings.Contains(finalWhy(evs), what) }

// replayOne re-runs one recorded scenario (./check C11 --replay file).
func replayOne(c *vlib.Check, bin, file string) {
	b, err := os.ReadFile(file)
	if err != nil {
		vlib.Infra("replay: %v", err)
	}
	var rec struct {
		Scenario Scenario `json:"scenario"`
	}
	if err := json.Unmarshal(b, &rec); err != nil || rec.Scenario.ID == "" {
		vlib.Infra("replay: not a C11 scenario file: %v", err)
	}
	scs := []*Scenario{&rec.Scenario}
	results := runAll(bin, scs, 1)
	judge(c, bin, scs, results)
	c.Finish()
}
