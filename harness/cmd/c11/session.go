package main

// The child side: one REAL handler.Server with transport.Websocket behind a
// real net/http server, a scripted gorilla client on a real socket, gated
// Source resolvers, and ONE mutex-protected event log (spec/WsTrace.tla
// states the logging conventions).  The child is built with -race; the
// parent feeds scenarios on stdin and reads one result line per scenario.

import (
	"bufio"
	"bytes"
	"context"
	"encoding/json"
	"errors"
	"fmt"
	"io"
	"log"
	"net"
	"net/http"
	"net/http/httptest"
	"os"
	"regexp"
	"runtime"
	"sort"
	"strings"
	"sync"
	"time"

	"github.com/gorilla/websocket"
	"github.com/vektah/gqlparser/v2"
	"github.com/vektah/gqlparser/v2/ast"
	"github.com/vektah/gqlparser/v2/gqlerror"

	"github.com/99designs/gqlgen/graphql"
	"github.com/99designs/gqlgen/graphql/handler"
	"github.com/99designs/gqlgen/graphql/handler/transport"
)

// Event is one line of the trace (all keys always present: TLC records).
type Event struct {
	E  string `json:"e"`
	M  string `json:"m"`
	ID string `json:"id"`
	I  string `json:"i"`
	K  int    `json:"k"`
	S  string `json:"s"`
}

// Cfg is the transport configuration of one session.
type Cfg struct {
	Proto       string `json:"proto"`   // "gws" | "tws" | "none" (no Sec-WebSocket-Protocol header: graphql-ws)
	InitFn      string `json:"initfn"`  // "none" | "accept" | "payload" | "reject"
	Reason      bool   `json:"reason"`  // the context InitFunc returns carries a close reason
	InitTimeout int    `json:"init_ms"` // InitTimeout in ms, 0 = none
	KA          int    `json:"ka_ms"`   // KeepAlivePingInterval
	PP          int    `json:"pp_ms"`   // PingPongInterval
	PO          int    `json:"po_ms"`   // PongOnlyInterval
	MPO         bool   `json:"mpo"`     // MissingPongOk
	NoCloseFn   bool   `json:"noclosefn"`
	LingerMs    int    `json:"linger_ms"`   // a Source returns this long after it saw ctx.Done (promptly: a few ms)
	LingerGate  bool   `json:"linger_gate"` // ... or when the script releases it (src "release"); at the latest when the session ends
}

func (c Cfg) proto() string {
	if c.Proto == "tws" {
		return "tws"
	}
	return "gws"
}

// Obs is the observable projection shared with WsImpl's Proj.
type InstObs struct {
	Src string `json:"src"`
	Xk  string `json:"xk"`
	Em  int    `json:"em"`
	Nx  int    `json:"nx"`
	Er  int    `json:"er"`
	Cp  int    `json:"cp"`
}
type Obs struct {
	I          map[string]InstObs `json:"I"`
	Acks       int                `json:"acks"`
	CloseCalls int                `json:"closeCalls"`
	Cend       bool               `json:"cend"`
	InitFn     string             `json:"initFn"`
}

// Step of a scenario.
type Step struct {
	Op     string `json:"op"`             // send | src | cancel | sleep | wait
	M      string `json:"m,omitempty"`    // message class / source command / what to wait for
	ID     string `json:"id,omitempty"`   // operation id
	Inst   string `json:"inst,omitempty"` // instance name
	Kind   string `json:"kind,omitempty"` // ok | bad (start)
	Ms     int    `json:"ms,omitempty"`
	Flavor int    `json:"flavor,omitempty"` // which kind of bad start
	Sync   bool   `json:"sync,omitempty"`   // settle after the step
	Expect *Obs   `json:"expect,omitempty"` // replay: the observation WsImpl predicts once the connection is quiescent
	Second *Step  `json:"second,omitempty"` // op "send2": a second frame in the SAME TCP write
}

type Scenario struct {
	ID         string `json:"id"`
	Mode       string `json:"mode"` // replay | random | hammer
	Cfg        Cfg    `json:"cfg"`
	Steps      []Step `json:"steps"`
	End        string `json:"end"`            // how the driver ends a still-open connection: abort | closef | term | cancel
	Long       bool   `json:"long,omitempty"` // confirmation rerun: longer waits
	Iters      int    `json:"iters,omitempty"`
	NoEpilogue bool   `json:"no_epilogue,omitempty"` // do not stop the still-running operations before the connection is ended
}

type Result struct {
	ID      string   `json:"id"`
	Events  []Event  `json:"events"`
	Diverge []string `json:"diverge"` // replay: predicted observation not reached (per step)
	Notes   []string `json:"notes"`
	Race    string   `json:"race"`
	Stack   string   `json:"stack"`
	WallMs  int64    `json:"wall_ms"`
}

// ---------------------------------------------------------------- event log

type source struct {
	inst    string
	id      string
	cmds    chan string
	exited  chan struct{}
	k       int
	started bool
}

type instState struct {
	id, kind     string
	src, xk      string
	em, nx, er   int
	cp           int
	startedAtLog int
	exitSeq      int
	csn          bool // the Source saw ctx.Done
}

type session struct {
	sc      *Scenario
	mu      sync.Mutex
	events  []Event
	order   []string // instances in the order their start was sent
	inst    map[string]*instState
	sources map[string]*source
	srcCond *sync.Cond
	acks    int
	exits   int
	closeFn int
	cend    bool
	cendCh  chan struct{}
	initFn  string
	changed chan struct{} // poked on every event
	notes   []string
	diverge []string

	ts        *httptest.Server
	conn      *websocket.Conn
	wmu       sync.Mutex // client-side writes
	srvCancel context.CancelFunc
	cancelled bool
	gate      *stallGate
	lingerEnd chan struct{}   // closed when the session ends: every lingering Source returns
	stalledOn bool            // the script has shut the gate
	parkWant  int             // goroutines the schedule expects to be parked on mu behind the stalled writer
	before    map[string]bool // transport goroutines that existed before this session
	baseCtx   context.Context
	unit      time.Duration // base wait
}

func (s *session) poke() {
	select {
	case s.changed <- struct{}{}:
	default:
	}
}

// logf appends an event; f (optional) runs under the log mutex BEFORE the append and may edit the event.
func (s *session) logEv(ev Event, f func(ev *Event)) {
	s.mu.Lock()
	if f != nil {
		f(&ev)
	}
	// a run of identical ticker frames (ka / ping / pong every millisecond) is logged once: the
	// frames change no state, and Ws checks the same guard for each of them
	if n := len(s.events); ev.E == "CRecv" && (ev.M == "ka" || ev.M == "ping" || ev.M == "pong") && n > 0 && s.events[n-1] == ev {
		s.mu.Unlock()
		return
	}
	s.apply(&ev)
	s.events = append(s.events, ev)
	s.mu.Unlock()
	s.poke()
}

// apply maintains the client-side view used for attribution and for Obs.
func (s *session) apply(ev *Event) {
	switch ev.E {
	case "CSend":
		if ev.M == "start" {
			s.inst[ev.I] = &instState{id: ev.ID, kind: ev.S, src: "none", xk: "-"}
			s.order = append(s.order, ev.I)
		}
	case "SStart":
		if st := s.inst[ev.I]; st != nil {
			st.src = "run"
			st.startedAtLog = len(s.events)
		}
	case "SEmit":
		if st := s.inst[ev.I]; st != nil {
			st.em++
		}
	case "SCancel":
		if st := s.inst[ev.I]; st != nil {
			st.csn = true
		}
	case "SExit":
		if st := s.inst[ev.I]; st != nil {
			st.src, st.xk = "exited", ev.M
			s.exits++
			st.exitSeq = s.exits
		}
	case "CRecv":
		switch ev.M {
		case "ack":
			s.acks++
		case "next":
			if st := s.inst[ev.I]; st != nil {
				st.nx++
			}
		case "error":
			if st := s.inst[ev.I]; st != nil {
				st.er++
			}
		case "complete":
			if st := s.inst[ev.I]; st != nil {
				st.cp++
			}
		}
	case "CloseFn":
		s.closeFn++
	case "InitFn":
		s.initFn = ev.M
	case "CEnd":
		if !s.cend {
			s.cend = true
			close(s.cendCh)
		}
	}
}

func (s *session) obs() Obs {
	s.mu.Lock()
	defer s.mu.Unlock()
	o := Obs{I: map[string]InstObs{}, Acks: s.acks, CloseCalls: s.closeFn, Cend: s.cend, InitFn: s.initFn}
	for k, st := range s.inst {
		o.I[k] = InstObs{Src: st.src, Xk: st.xk, Em: st.em, Nx: st.nx, Er: st.er, Cp: st.cp}
	}
	return o
}

// ------------------------------------------------------------------ server

var schemaAST = gqlparser.MustLoadSchema(&ast.Source{Input: `
type Query { q: String! }
type Subscription { s: String! }
`})

var reInst = regexp.MustCompile(`^S_([A-Za-z0-9]+)$`)

func (s *session) executableSchema() graphql.ExecutableSchema {
	return &graphql.ExecutableSchemaMock{
		SchemaFunc: func() *ast.Schema { return schemaAST },
		ComplexityFunc: func(ctx context.Context, typeName, fieldName string, childComplexity int, args map[string]any) (int, bool) {
			return 1, true
		},
		ExecFunc: func(ctx context.Context) graphql.ResponseHandler {
			opCtx := graphql.GetOperationContext(ctx)
			m := reInst.FindStringSubmatch(opCtx.Operation.Name)
			if opCtx.Operation.Operation != ast.Subscription || m == nil {
				return graphql.OneShot(&graphql.Response{Data: []byte(`{"q":"ok"}`)})
			}
			inst := m[1]
			// the user's subscription resolver is called here (as in generated code)
			src := &source{inst: inst, cmds: make(chan string), exited: make(chan struct{})}
			s.mu.Lock()
			if old := s.sources[inst]; old != nil {
				s.notes = append(s.notes, "source "+inst+" started twice")
			}
			s.sources[inst] = src
			s.mu.Unlock()
			s.logEv(Event{E: "SStart", I: inst}, nil)
			return func(ctx context.Context) *graphql.Response {
				select {
				case <-ctx.Done():
					s.logEv(Event{E: "SCancel", I: inst}, nil)
					if s.sc.Cfg.LingerGate { // winding down until the script says so (still promptly: the session's end at the latest)
						select {
						case <-src.cmds:
						case <-s.lingerEnd:
						case <-time.After(20 * time.Second):
						}
					} else if s.sc.Cfg.LingerMs > 0 { // winding down: still prompt, but not instantaneous
						time.Sleep(ms(s.sc.Cfg.LingerMs))
					}
					s.logEv(Event{E: "SExit", I: inst, M: "cancel"}, nil)
					close(src.exited)
					return nil
				case cmd := <-src.cmds:
					switch cmd {
					case "emit":
						src.k++
						s.logEv(Event{E: "SEmit", I: inst, K: src.k}, nil)
						return &graphql.Response{Data: json.RawMessage(fmt.Sprintf(`{"s":"%s#%d"}`, inst, src.k))}
					case "suberr":
						transport.AddSubscriptionError(ctx, &gqlerror.Error{Message: "suberr " + inst})
						s.logEv(Event{E: "SExit", I: inst, M: "suberr"}, nil)
						close(src.exited)
						return nil
					case "panic":
						s.logEv(Event{E: "SExit", I: inst, M: "panic"}, nil)
						close(src.exited)
						panic(scriptedPanic("panic " + inst))
					case "sp":
						transport.AddSubscriptionError(ctx, &gqlerror.Error{Message: "suberr " + inst})
						s.logEv(Event{E: "SExit", I: inst, M: "sp"}, nil)
						close(src.exited)
						panic(scriptedPanic("panic " + inst))
					default: // end
						s.logEv(Event{E: "SExit", I: inst, M: "end"}, nil)
						close(src.exited)
						return nil
					}
				}
			}
		},
	}
}

type scriptedPanic string

// stallGate is the scheduler gate on the server's side of the socket: while it is shut, Write on the
// server's net.Conn does not return (a slow peer) - the goroutine that writes a frame then sits in Send
// HOLDING wsConnection.mu.  hits counts the writes that ran into the shut gate.
type stallGate struct {
	mu   sync.Mutex
	ch   chan struct{}
	hits int
	poke func()
}

func (g *stallGate) shut() {
	g.mu.Lock()
	if g.ch == nil {
		g.ch = make(chan struct{})
	}
	g.mu.Unlock()
}

func (g *stallGate) open() {
	g.mu.Lock()
	if g.ch != nil {
		close(g.ch)
		g.ch = nil
	}
	g.mu.Unlock()
}

func (g *stallGate) nhits() int { g.mu.Lock(); defer g.mu.Unlock(); return g.hits }

type gatedConn struct {
	net.Conn
	g *stallGate
}

func (c gatedConn) Write(p []byte) (int, error) {
	c.g.mu.Lock()
	ch := c.g.ch
	if ch != nil {
		c.g.hits++
	}
	c.g.mu.Unlock()
	if ch != nil {
		c.g.poke()
		<-ch
	}
	return c.Conn.Write(p)
}

type gatedListener struct {
	net.Listener
	g *stallGate
}

func (l gatedListener) Accept() (net.Conn, error) {
	c, err := l.Listener.Accept()
	if err != nil {
		return nil, err
	}
	return gatedConn{Conn: c, g: l.g}, nil
}

var reParked = regexp.MustCompile(`(?s)sync\.\(\*Mutex\)\.Lock.*transport\.\(\*wsConnection\)\.`)

// parkedOnMu: goroutines of the transport that are blocked in wsConnection.mu.Lock (the "is parked at
// the gate" assertion of a replayed schedule: a closer / writer that arrived while mu is held).
func parkedOnMu() int {
	buf := make([]byte, 1<<20)
	n := runtime.Stack(buf, true)
	cnt := 0
	for _, g := range strings.Split(string(buf[:n]), "\n\n") {
		if reParked.MatchString(g) {
			cnt++
		}
	}
	return cnt
}

func ms(n int) time.Duration { return time.Duration(n) * time.Millisecond }

func (s *session) startServer() {
	cfg := s.sc.Cfg
	base, cancelBase := context.WithCancel(context.Background())
	s.baseCtx = base
	s.srvCancel = cancelBase
	ws := transport.Websocket{
		KeepAlivePingInterval: ms(cfg.KA),
		PingPongInterval:      ms(cfg.PP),
		PongOnlyInterval:      ms(cfg.PO),
		MissingPongOk:         cfg.MPO,
		InitTimeout:           ms(cfg.InitTimeout),
		Upgrader:              websocket.Upgrader{CheckOrigin: func(*http.Request) bool { return true }},
		ErrorFunc: func(ctx context.Context, err error) {
			m := "wr"
			var we transport.WebsocketError
			if errors.As(err, &we) && we.IsReadError {
				m = "rd"
			}
			s.logEv(Event{E: "ErrFn", M: m}, nil)
		},
	}
	if !cfg.NoCloseFn {
		ws.CloseFunc = func(ctx context.Context, code int) {
			s.logEv(Event{E: "CloseFn", K: code}, nil)
		}
	}
	switch cfg.InitFn {
	case "accept", "payload":
		ws.InitFunc = func(ctx context.Context, p transport.InitPayload) (context.Context, *transport.InitPayload, error) {
			s.logEv(Event{E: "InitFn", M: "accept"}, nil)
			if cfg.Reason {
				ctx = transport.AppendCloseReason(ctx, "server says bye")
			}
			ctx2, cancel := context.WithCancel(ctx)
			s.mu.Lock()
			s.srvCancel = cancel
			s.mu.Unlock()
			if cfg.InitFn == "payload" {
				return ctx2, &transport.InitPayload{"hello": "client"}, nil
			}
			return ctx2, nil, nil
		}
	case "detached":
		// a context that does NOT descend from the request context: only close() / stop cancel the operations
		ws.InitFunc = func(ctx context.Context, p transport.InitPayload) (context.Context, *transport.InitPayload, error) {
			s.logEv(Event{E: "InitFn", M: "accept"}, nil)
			det := context.Background()
			if cfg.Reason {
				det = transport.AppendCloseReason(det, "server says bye")
			}
			ctx2, cancel := context.WithCancel(det)
			s.mu.Lock()
			s.srvCancel = cancel
			was := s.cancelled
			s.mu.Unlock()
			if was { // the server-side cancel came before InitFunc ran: it is this context that it means
				cancel()
			}
			return ctx2, nil, nil
		}
	case "reject":
		ws.InitFunc = func(ctx context.Context, p transport.InitPayload) (context.Context, *transport.InitPayload, error) {
			s.logEv(Event{E: "InitFn", M: "reject"}, nil)
			return ctx, nil, errors.New("no entry")
		}
	}
	h := handler.New(s.executableSchema())
	h.AddTransport(ws)
	h.SetRecoverFunc(func(ctx context.Context, err any) error {
		if sp, ok := err.(scriptedPanic); ok {
			return &gqlerror.Error{Message: string(sp)}
		}
		// a panic nobody scripted (e.g. gorilla's "concurrent write to websocket connection")
		s.logEv(Event{E: "Panic", M: trunc(fmt.Sprint(err), 200)}, nil)
		return &gqlerror.Error{Message: "unexpected panic"}
	})
	s.ts = httptest.NewUnstartedServer(h)
	s.gate = &stallGate{poke: s.poke}
	s.ts.Listener = gatedListener{Listener: s.ts.Listener, g: s.gate}
	s.ts.Config.ErrorLog = log.New(io.Discard, "", 0)
	s.ts.Config.BaseContext = func(net.Listener) context.Context { return base }
	s.ts.Start()
}

func trunc(s string, n int) string {
	if len(s) > n {
		return s[:n]
	}
	return s
}

// ------------------------------------------------------------------ client

func (s *session) dial() error {
	h := http.Header{}
	switch s.sc.Cfg.Proto {
	case "gws":
		h.Set("Sec-WebSocket-Protocol", "graphql-ws")
	case "tws":
		h.Set("Sec-WebSocket-Protocol", "graphql-transport-ws")
	}
	d := websocket.Dialer{HandshakeTimeout: 30 * time.Second}
	c, resp, err := d.Dial(strings.Replace(s.ts.URL, "http://", "ws://", 1), h)
	if err != nil {
		return err
	}
	_ = resp.Body.Close()
	s.conn = c
	go s.readLoop()
	return nil
}

var (
	reNext = regexp.MustCompile(`"s":"([A-Za-z0-9]+)#(\d+)"`)
	reTag  = regexp.MustCompile(`(?:suberr|panic) ([A-Za-z0-9]+)`)
)

func (s *session) readLoop() {
	for {
		_, data, err := s.conn.ReadMessage()
		if err != nil {
			code := 1006
			var ce *websocket.CloseError
			if errors.As(err, &ce) {
				code = ce.Code
			}
			s.logEv(Event{E: "CEnd", K: code}, nil)
			return
		}
		var msg struct {
			Type    string          `json:"type"`
			ID      string          `json:"id"`
			Payload json.RawMessage `json:"payload"`
		}
		dec := json.NewDecoder(bytes.NewReader(data))
		if err := dec.Decode(&msg); err != nil || dec.More() || msg.Type == "" {
			// frames are never written concurrently: every frame must be one JSON message
			s.logEv(Event{E: "Garbled", M: trunc(string(data), 120)}, nil)
			continue
		}
		f := frameClass(s.sc.Cfg.proto(), msg.Type)
		ev := Event{E: "CRecv", M: f, ID: msg.ID}
		switch f {
		case "next":
			if m := reNext.FindSubmatch(msg.Payload); m != nil {
				ev.I = string(m[1])
				fmt.Sscanf(string(m[2]), "%d", &ev.K)
			} else {
				ev.I = "?"
			}
			s.logEv(ev, nil)
		case "error":
			if m := reTag.FindSubmatch(msg.Payload); m != nil {
				ev.I = string(m[1])
				s.logEv(ev, nil)
			} else {
				s.logEv(ev, func(ev *Event) { // untagged: a start that failed before execution
					ev.I = "?"
					for _, i := range s.order {
						if st := s.inst[i]; st.id == ev.ID && st.kind == "bad" && st.er == 0 && st.cp == 0 {
							ev.I = i
							break
						}
					}
				})
			}
		case "complete":
			// a completion carries only the id; with two operations under one id (duplicate start) the
			// attribution is a guess - WsTrace therefore lets TLC choose the instance, and the harness
			// only uses it for per-id counts.  Preference: an operation for which a completion is due.
			s.logEv(ev, func(ev *Event) {
				ev.I = "?"
				best, bestRank, bestSeq := "", 9, 0
				for _, i := range s.order {
					st := s.inst[i]
					if st.id != ev.ID || st.cp != 0 {
						continue
					}
					rank := 3
					switch {
					case st.kind == "bad" && st.er > 0:
						rank = 0
					case st.kind == "ok" && st.src == "exited" && (st.xk == "end" || st.xk == "cancel") && st.er == 0:
						rank = 0
					case st.kind == "ok" && st.src == "exited" && (st.xk == "panic" || st.xk == "sp") && st.er > 0:
						rank = 0
					case st.kind == "ok" && st.src == "exited":
						rank = 1
					case st.kind == "bad":
						rank = 2
					}
					if rank < bestRank || (rank == bestRank && st.exitSeq < bestSeq) {
						best, bestRank, bestSeq = i, rank, st.exitSeq
					}
				}
				if best != "" {
					ev.I = best
				}
			})
		default:
			s.logEv(ev, nil)
		}
	}
}

func frameClass(proto, t string) string {
	if proto == "gws" {
		switch t {
		case "connection_ack":
			return "ack"
		case "ka":
			return "ka"
		case "connection_error":
			return "cerr"
		case "data":
			return "next"
		case "error":
			return "error"
		case "complete":
			return "complete"
		}
		return "other:" + t
	}
	switch t {
	case "connection_ack":
		return "ack"
	case "next":
		return "next"
	case "error":
		return "error"
	case "complete":
		return "complete"
	case "ping":
		return "ping"
	case "pong":
		return "pong"
	}
	return "other:" + t
}

// wire renders a message class for the subprotocol.
func wire(proto string, st Step) (mt int, data []byte) {
	q := func(inst string) string {
		return fmt.Sprintf(`{"query":"subscription S_%s { s }"}`, inst)
	}
	startT, stopT := "start", "stop"
	if proto == "tws" {
		startT, stopT = "subscribe", "complete"
	}
	switch st.M {
	case "init":
		return websocket.TextMessage, []byte(`{"type":"connection_init","payload":{"Authorization":"Bearer x"}}`)
	case "initbad":
		return websocket.TextMessage, []byte(`{"type":"connection_init","payload":"not an object"}`)
	case "start":
		if st.Kind == "bad" { // fails before execution: error frame(s) + complete, no Source
			pl := fmt.Sprintf(`{"query":"subscription S_%s { nosuchfield }"}`, st.Inst) // validation error
			switch st.Flavor % 4 {
			case 1:
				pl = `null` // an empty request (repaired in 427ed87: used to dereference nil)
			case 2:
				pl = `5` // not an object: "invalid json"
			case 3:
				pl = `{"query":"subscription S_x {"}` // parse error
			}
			return websocket.TextMessage, []byte(fmt.Sprintf(`{"type":"%s","id":"%s","payload":%s}`, startT, st.ID, pl))
		}
		return websocket.TextMessage, []byte(fmt.Sprintf(`{"type":"%s","id":"%s","payload":%s}`, startT, st.ID, q(st.Inst)))
	case "stop":
		return websocket.TextMessage, []byte(fmt.Sprintf(`{"type":"%s","id":"%s"}`, stopT, st.ID))
	case "term":
		return websocket.TextMessage, []byte(`{"type":"connection_terminate"}`)
	case "ping":
		return websocket.TextMessage, []byte(`{"type":"ping"}`)
	case "pong":
		return websocket.TextMessage, []byte(`{"type":"pong"}`)
	case "invalid":
		return websocket.TextMessage, []byte(`this is not json`)
	case "s2c": // a well-formed message of a server->client type
		if proto == "tws" {
			return websocket.TextMessage, []byte(`{"type":"next","id":"zz","payload":{}}`)
		}
		return websocket.TextMessage, []byte(`{"type":"data","id":"zz","payload":{}}`)
	}
	return websocket.TextMessage, []byte(`{"type":"` + st.M + `"}`)
}

func (s *session) send(st Step) {
	proto := s.sc.Cfg.proto()
	ev := Event{E: "CSend", M: st.M, ID: st.ID, I: st.Inst, S: st.Kind}
	if st.M != "start" {
		ev.I, ev.S = "", ""
	}
	s.logEv(ev, nil) // BEFORE the write
	s.wmu.Lock()
	defer s.wmu.Unlock()
	switch st.M {
	case "abort":
		_ = s.conn.UnderlyingConn().Close()
	case "closef":
		_ = s.conn.WriteControl(websocket.CloseMessage, websocket.FormatCloseMessage(websocket.CloseNormalClosure, "bye"), time.Now().Add(5*time.Second))
	default:
		mt, data := wire(proto, st)
		_ = s.conn.SetWriteDeadline(time.Now().Add(10 * time.Second))
		if err := s.conn.WriteMessage(mt, data); err != nil {
			s.note("client write failed: " + err.Error())
		}
	}
}

// rawFrame: one masked client text frame (mask key 0 leaves the payload as it is)
func rawFrame(payload []byte) []byte {
	b := []byte{0x81}
	n := len(payload)
	switch {
	case n < 126:
		b = append(b, 0x80|byte(n))
	case n < 65536:
		b = append(b, 0x80|126, byte(n>>8), byte(n))
	default:
		panic("frame too long")
	}
	b = append(b, 0, 0, 0, 0)
	return append(b, payload...)
}

// send2 writes two messages as two websocket frames in ONE write on the socket: the server's
// reader finds the second frame in its buffer as soon as it has dispatched the first.
func (s *session) send2(a, b Step) {
	proto := s.sc.Cfg.proto()
	for _, st := range []Step{a, b} {
		ev := Event{E: "CSend", M: st.M, ID: st.ID, I: st.Inst, S: st.Kind}
		if st.M != "start" {
			ev.I, ev.S = "", ""
		}
		s.logEv(ev, nil)
	}
	_, da := wire(proto, a)
	_, db := wire(proto, b)
	s.wmu.Lock()
	defer s.wmu.Unlock()
	nc := s.conn.UnderlyingConn()
	_ = nc.SetWriteDeadline(time.Now().Add(10 * time.Second))
	if _, err := nc.Write(append(rawFrame(da), rawFrame(db)...)); err != nil {
		s.note("client write failed: " + err.Error())
	}
}

func (s *session) note(n string) {
	s.mu.Lock()
	s.notes = append(s.notes, n)
	s.mu.Unlock()
}

// ------------------------------------------------------------------ waits

// waitFor polls cond (re-evaluated on every event) up to d.
func (s *session) waitFor(d time.Duration, cond func() bool) bool {
	deadline := time.Now().Add(d)
	for {
		if cond() {
			return true
		}
		rem := time.Until(deadline)
		if rem <= 0 {
			return false
		}
		if rem > 50*time.Millisecond {
			rem = 50 * time.Millisecond
		}
		select {
		case <-s.changed:
		case <-time.After(rem):
		}
	}
}

// settle: no new event for `quiet`, at most `max` (scheduling aid only, never a verdict)
func (s *session) settle(quiet, max time.Duration) {
	end := time.Now().Add(max)
	s.mu.Lock()
	n := len(s.events)
	s.mu.Unlock()
	last := time.Now()
	for time.Now().Before(end) {
		time.Sleep(quiet / 4)
		s.mu.Lock()
		m := len(s.events)
		s.mu.Unlock()
		if m != n {
			n, last = m, time.Now()
		} else if time.Since(last) >= quiet {
			return
		}
	}
}

func (s *session) srcCmd(inst, cmd string, wait time.Duration) bool {
	var src *source
	s.waitFor(wait, func() bool {
		s.mu.Lock()
		src = s.sources[inst]
		c := s.cend
		if cmd == "release" && src != nil && !s.inst[inst].csn && s.inst[inst].src == "run" {
			src = nil // "release" is for a Source that has seen its cancellation and lingers
		}
		s.mu.Unlock()
		return src != nil || c
	})
	if src == nil {
		s.note("source " + inst + " not started: command " + cmd + " dropped")
		return false
	}
	select {
	case src.cmds <- cmd:
		return true
	case <-src.exited:
		s.note("source " + inst + " already exited: command " + cmd + " dropped")
	case <-time.After(wait):
		s.note("source " + inst + " did not take command " + cmd)
	}
	return false
}

func (s *session) cancelServer() {
	s.logEv(Event{E: "Cancel"}, nil)
	s.mu.Lock()
	s.cancelled = true // (a context InitFunc creates later is cancelled at once: see startServer)
	c := s.srvCancel
	s.mu.Unlock()
	c()
}

func obsReached(got Obs, want *Obs) (bool, string) {
	if got.Cend != want.Cend {
		return false, fmt.Sprintf("cend=%v want %v", got.Cend, want.Cend)
	}
	if got.CloseCalls != want.CloseCalls {
		return false, fmt.Sprintf("closeCalls=%d want %d", got.CloseCalls, want.CloseCalls)
	}
	if got.InitFn != want.InitFn {
		return false, fmt.Sprintf("initFn=%s want %s", got.InitFn, want.InitFn)
	}
	if !want.Cend && got.Acks != want.Acks {
		return false, fmt.Sprintf("acks=%d want %d", got.Acks, want.Acks)
	}
	for i, wi := range want.I {
		gi, ok := got.I[i]
		if !ok {
			return false, "instance " + i + " unknown"
		}
		if gi.Src != wi.Src || gi.Xk != wi.Xk || gi.Em != wi.Em {
			return false, fmt.Sprintf("%s: source %s/%s/%d want %s/%s/%d", i, gi.Src, gi.Xk, gi.Em, wi.Src, wi.Xk, wi.Em)
		}
		// frames written around the close frame may or may not be seen by the client
		if !want.Cend && (gi.Nx != wi.Nx || gi.Er != wi.Er) {
			return false, fmt.Sprintf("%s: frames next=%d error=%d want %d/%d", i, gi.Nx, gi.Er, wi.Nx, wi.Er)
		}
	}
	// completions carry only the id: compared per id (instance names are <id><n>)
	if !want.Cend {
		gc, wc := map[string]int{}, map[string]int{}
		for i, wi := range want.I {
			id := strings.TrimRight(i, "0123456789")
			wc[id] += wi.Cp
			gc[id] += got.I[i].Cp
		}
		for id := range wc {
			if gc[id] != wc[id] {
				return false, fmt.Sprintf("id %s: frames complete=%d want %d", id, gc[id], wc[id])
			}
		}
	}
	return true, ""
}

// ------------------------------------------------------------------ running

var reTransportFrame = regexp.MustCompile(`gqlgen/graphql/handler/transport\.`)

var reGoID = regexp.MustCompile(`^goroutine (\d+) `)

// transportGoroutines: goroutines with a frame of gqlgen's transport package that did not exist
// when the session began (ignore: ids present at the start - reported by the session that left them).
func transportGoroutines(ignore map[string]bool) (int, string, map[string]bool) {
	buf := make([]byte, 1<<20)
	n := runtime.Stack(buf, true)
	cnt := 0
	ids := map[string]bool{}
	var sb strings.Builder
	for _, g := range strings.Split(string(buf[:n]), "\n\n") {
		if reTransportFrame.MatchString(g) {
			id := ""
			if m := reGoID.FindStringSubmatch(g); m != nil {
				id = m[1]
			}
			ids[id] = true
			if ignore[id] {
				continue
			}
			cnt++
			if sb.Len() < 6000 {
				sb.WriteString(g)
				sb.WriteString("\n\n")
			}
		}
	}
	return cnt, sb.String(), ids
}

func runScenario(sc *Scenario) *Result {
	t0 := time.Now()
	s := &session{sc: sc, inst: map[string]*instState{}, sources: map[string]*source{}, cendCh: make(chan struct{}),
		changed: make(chan struct{}, 1), unit: time.Second, initFn: "none", lingerEnd: make(chan struct{})}
	if sc.Long { // confirmation rerun of a whole scenario: 3x on top (first look 6 s, second look 60 s)
		s.unit = 3 * time.Second
	}
	res := &Result{ID: sc.ID, Diverge: []string{}, Notes: []string{}, Events: []Event{}}
	_, _, s.before = transportGoroutines(nil)
	s.startServer()
	defer s.ts.Close()
	if err := s.dial(); err != nil {
		res.Notes = append(res.Notes, "dial: "+err.Error())
		return res
	}
	cfg := sc.Cfg
	flags := func(b bool) string {
		if b {
			return "t"
		}
		return "f"
	}
	tmo := cfg.InitTimeout > 0 || (cfg.proto() == "tws" && cfg.PP > 0 && !cfg.MPO)
	s.logEv(Event{E: "Reset", M: cfg.proto(), S: flags(cfg.InitFn != "none") + flags(tmo), ID: sc.ID}, nil)

	gen := 2 * s.unit      // first look of an absence verdict
	confirm := 20 * s.unit // second look: 10x
	for si, st := range sc.Steps {
		switch st.Op {
		case "send":
			s.send(st)
		case "send2":
			s.send2(st, *st.Second)
		case "src":
			s.srcCmd(st.Inst, st.M, 2*s.unit)
		case "cancel":
			s.cancelServer()
		case "sleep":
			time.Sleep(ms(st.Ms))
		case "stall":
			s.gate.shut()
			s.stalledOn = true
		case "unstall":
			s.gate.open()
			s.stalledOn = false
		case "hammer":
			s.hammer(st, sc.Iters)
		}
		if s.stalledOn && st.Op != "stall" {
			// The schedule of a stalled socket is imposed through gates, not sleeps: a frame the step
			// causes must have run into the shut gate (its writer now holds mu), a closer the step
			// sets off (terminate, duplicate id, ..., server-side cancel) must be parked on mu behind it.
			// (Scheduling aid with a bounded wait; the verdict comes from the recorded events.)
			switch {
			case st.Op == "src" && st.M == "emit":
				h0 := 1
				if !s.waitFor(5*s.unit, func() bool { return s.gate.nhits() >= h0 }) {
					s.note("stalled socket: the data frame did not reach the socket")
				}
			case st.Op == "cancel", st.Op == "send" && st.M != "stop" && st.M != "ping" && st.M != "pong":
				if s.gate.nhits() > 0 {
					s.parkWant++
					want := s.parkWant
					if !s.waitFor(3*s.unit, func() bool { return parkedOnMu() >= want }) {
						s.parkWant = parkedOnMu()
						s.note(fmt.Sprintf("stalled socket: step %d did not park a goroutine on mu (%d parked)", si, s.parkWant))
					}
				}
			}
		}
		if st.Expect != nil {
			why := ""
			ok := s.waitFor(gen, func() bool { var r bool; r, why = obsReached(s.obs(), st.Expect); return r })
			if !ok {
				ok = s.waitFor(confirm, func() bool { var r bool; r, why = obsReached(s.obs(), st.Expect); return r })
			}
			if !ok {
				s.diverge = append(s.diverge, fmt.Sprintf("step %d (%s %s %s%s): %s", si, st.Op, st.M, st.ID, st.Inst, why))
				break
			}
		} else if st.Sync {
			s.settle(25*time.Millisecond, 2*time.Second)
		}
		if st.Op == "send" && st.M == "stop" && (st.Sync || st.Expect != nil) {
			s.checkStop(st.ID, gen, confirm)
		}
		if st.Op == "send2" && st.Second.M == "stop" && (st.Sync || st.Expect != nil) {
			s.checkStop(st.Second.ID, gen, confirm)
		}
	}
	s.finish(gen, confirm, res)
	s.mu.Lock()
	res.Events = append(res.Events, s.events...)
	res.Notes = append(res.Notes, s.notes...)
	res.Diverge = append(res.Diverge, s.diverge...)
	s.mu.Unlock()
	res.WallMs = time.Since(t0).Milliseconds()
	return res
}

// checkStop: StopCancels.  Every operation of the id whose start was SENT before the stop (the reader
// takes the frames in order and subscribe() registers the operation before it returns, so the stop
// must reach it even when it arrives in the same TCP write) must have its context cancelled: its
// Source sees ctx.Done or ends by itself.  Absence is reported only after the confirmation wait, and
// only while the connection is open.  (The completion that must follow is checked by finish.)
func (s *session) checkStop(id string, gen, confirm time.Duration) {
	if s.stalledOn {
		return // a worker may sit in a stalled write: its Source is not listening; the epilogue stops again once the gate is open
	}
	s.mu.Lock()
	var obliged []string
	stopSeen := false
	for i := len(s.events) - 1; i >= 0; i-- {
		ev := s.events[i]
		if !stopSeen {
			if ev.E == "CSend" && ev.M == "stop" && ev.ID == id {
				stopSeen = true
			}
			continue
		}
		if ev.E == "CSend" && ev.M == "start" && ev.ID == id && ev.S == "ok" {
			obliged = append(obliged, ev.I)
		}
	}
	s.mu.Unlock()
	if len(obliged) == 0 {
		return
	}
	still := func() []string {
		s.mu.Lock()
		defer s.mu.Unlock()
		var out []string
		for _, i := range obliged {
			if st := s.inst[i]; st.src != "exited" && !st.csn {
				out = append(out, i)
			}
		}
		return out
	}
	done := func() bool {
		s.mu.Lock()
		c := s.cend
		s.mu.Unlock()
		return c || len(still()) == 0
	}
	if s.waitFor(gen, done) || s.waitFor(confirm, done) {
		return
	}
	for _, i := range still() {
		s.logEv(Event{E: "Stall", M: "stop-cancel", I: i, ID: id}, nil)
	}
}

// finish: drain, end the connection, and take the final observations.
func (s *session) finish(gen, confirm time.Duration, res *Result) {
	ended := func() bool { s.mu.Lock(); defer s.mu.Unlock(); return s.cend }
	// 0. the gates of the schedule are opened: a stalled socket flows again, lingering Sources return
	s.gate.open()
	s.stalledOn = false
	close(s.lingerEnd)
	lingering := func() bool {
		s.mu.Lock()
		defer s.mu.Unlock()
		for _, st := range s.inst {
			if st.src == "run" && st.csn {
				return true
			}
		}
		return false
	}
	s.waitFor(gen, func() bool { return !lingering() })
	// 0b. epilogue (StopCancels once more): every operation that is still executing while the
	//     connection is open is stopped by its id - each must see its context cancelled
	if !s.sc.NoEpilogue && !ended() {
		s.mu.Lock()
		var ids []string
		seen := map[string]bool{}
		for _, i := range s.order {
			if st := s.inst[i]; st.src == "run" && !st.csn && !seen[st.id] {
				seen[st.id] = true
				ids = append(ids, st.id)
			}
		}
		s.mu.Unlock()
		for _, id := range ids {
			if ended() {
				break
			}
			s.send(Step{M: "stop", ID: id})
			s.checkStop(id, gen, confirm)
		}
	}
	// 1. every operation whose Source ended by itself gets its terminating frame
	//    (only decidable while the connection stays open)
	// (conservative because a completion cannot be attributed with certainty when an id was started
	//  twice: per id, fewer completions than self-ended operations without an error frame)
	unterminated := func() []string {
		s.mu.Lock()
		defer s.mu.Unlock()
		need, have := map[string][]string{}, map[string]int{}
		for _, i := range s.order {
			st := s.inst[i]
			have[st.id] += st.cp
			// (also an operation that was cancelled - stop - is completed towards the client)
			if st.src == "exited" && st.er == 0 {
				need[st.id] = append(need[st.id], i)
			}
		}
		var out []string
		for id, is := range need {
			if have[id] < len(is) {
				out = append(out, is[have[id]:]...)
			}
		}
		sort.Strings(out)
		return out
	}
	// ... and every value a Source returned is delivered (next frames carry the instance: exact)
	undelivered := func() []string {
		s.mu.Lock()
		defer s.mu.Unlock()
		var out []string
		for _, i := range s.order {
			if st := s.inst[i]; st.nx < st.em {
				out = append(out, i)
			}
		}
		return out
	}
	drained := func() bool { return ended() || (len(unterminated()) == 0 && len(undelivered()) == 0) }
	if !s.waitFor(gen, drained) && !s.waitFor(confirm, drained) {
		for _, i := range undelivered() {
			s.logEv(Event{E: "Stall", M: "delivery", I: i}, nil)
		}
		for _, i := range unterminated() {
			s.logEv(Event{E: "Stall", M: "termination", I: i}, nil)
		}
	}
	// 2. end the connection if it is still open
	closing := func() bool {
		s.mu.Lock()
		defer s.mu.Unlock()
		for _, ev := range s.events {
			if ev.E == "CSend" && (ev.M == "abort" || ev.M == "closef") {
				return true
			}
		}
		return false
	}
	if !ended() && !closing() {
		// a connection the client (or the server) has doomed must end by itself
		doomed := func() bool {
			s.mu.Lock()
			defer s.mu.Unlock()
			first := ""
			for _, ev := range s.events {
				switch ev.E {
				case "CSend":
					if first == "" {
						first = ev.M
						if ev.M != "init" {
							return true
						}
					} else if ev.M == "init" {
						return true
					}
					switch ev.M {
					case "term", "invalid", "s2c", "initbad":
						return true
					case "ping", "pong":
						if s.sc.Cfg.proto() == "gws" {
							return true
						}
					}
				case "Cancel":
					// (a server-side cancel while the reader still waits for the FIRST message is only acted
					//  upon when that message - or InitTimeout - arrives: not decided by this check)
					for _, e2 := range s.events {
						if e2.E == "CSend" {
							return true
						}
					}
				case "InitFn":
					if ev.M == "reject" {
						return true
					}
				}
			}
			return false
		}
		if doomed() {
			g, c := gen, confirm
			if !s.waitFor(g, ended) && !s.waitFor(c, ended) {
				s.logEv(Event{E: "Stall", M: "end"}, nil)
			}
		}
		if !ended() {
			switch s.sc.End {
			case "cancel":
				s.cancelServer()
			case "closef":
				s.send(Step{M: "closef"})
			case "term":
				if s.sc.Cfg.proto() == "gws" {
					s.send(Step{M: "term"})
				} else {
					s.send(Step{M: "abort"})
				}
			default:
				s.send(Step{M: "abort"})
			}
			if !s.waitFor(gen, ended) && !s.waitFor(confirm, ended) {
				// (the client's own reader did not even see its own close: harness trouble, not a verdict)
				s.note("client reader did not end")
				_ = s.conn.UnderlyingConn().Close()
				s.waitFor(gen, ended)
			}
		}
	}
	_ = s.conn.UnderlyingConn().Close()
	// 3. CloseCancels / CloseOnce / nothing left: absence verdicts, generous wait + second look
	quiet := func() bool {
		s.mu.Lock()
		for _, st := range s.inst {
			if st.src == "run" {
				s.mu.Unlock()
				return false
			}
		}
		cf := s.closeFn
		s.mu.Unlock()
		if cf < 1 && !s.sc.Cfg.NoCloseFn {
			return false
		}
		n, _, _ := transportGoroutines(s.before)
		return n == 0
	}
	if !s.waitFor(gen, quiet) {
		s.waitFor(confirm, quiet)
	}
	// a moment for a second CloseFunc call / late events to show up
	time.Sleep(20 * time.Millisecond)
	n, stack, _ := transportGoroutines(s.before)
	if n > 0 {
		res.Stack = stack
	}
	s.srvCancel()
	s.logEv(Event{E: "Final", K: n}, nil)
}

// hammer: the restart race.  start(id) ... Source ends ... complete received, restart the same id
// at once, then stop(id): the restarted operation must be cancelled.
func (s *session) hammer(st Step, iters int) {
	if iters <= 0 {
		iters = 20
	}
	limit := time.Now().Add(ms(st.Ms)) // bounded by rounds AND by time
	for n := 1; n <= iters; n++ {
		if st.Ms > 0 && time.Now().After(limit) {
			return
		}
		s.mu.Lock()
		c := s.cend
		s.mu.Unlock()
		if c {
			return
		}
		i1 := fmt.Sprintf("%sh%da", st.ID, n)
		i2 := fmt.Sprintf("%sh%db", st.ID, n)
		s.send(Step{M: "start", ID: st.ID, Inst: i1, Kind: "ok"})
		if !s.srcCmd(i1, "end", 5*s.unit) {
			return
		}
		// restart as soon as the completion has been read
		s.waitFor(5*s.unit, func() bool { s.mu.Lock(); defer s.mu.Unlock(); return s.inst[i1].cp > 0 || s.cend })
		s.send(Step{M: "start", ID: st.ID, Inst: i2, Kind: "ok"})
		if !s.waitFor(5*s.unit, func() bool { s.mu.Lock(); defer s.mu.Unlock(); return s.inst[i2].src != "none" || s.cend }) {
			return
		}
		s.send(Step{M: "stop", ID: st.ID})
		ok := s.waitFor(2*s.unit, func() bool { s.mu.Lock(); defer s.mu.Unlock(); return s.inst[i2].src == "exited" || s.cend })
		if !ok {
			ok = s.waitFor(20*s.unit, func() bool { s.mu.Lock(); defer s.mu.Unlock(); return s.inst[i2].src == "exited" || s.cend })
		}
		if !ok {
			s.logEv(Event{E: "Stall", M: "stop-cancel", I: i2, ID: st.ID}, nil)
			return
		}
		s.waitFor(5*s.unit, func() bool { s.mu.Lock(); defer s.mu.Unlock(); return s.inst[i2].cp > 0 || s.cend })
	}
}

// childMain: scenarios on stdin, results on stdout (one JSON line each).
func childMain() {
	racePath := os.Getenv("C11_RACELOG")
	in := bufio.NewReaderSize(os.Stdin, 1<<20)
	out := bufio.NewWriter(os.Stdout)
	var raceOff int64
	for {
		line, err := in.ReadBytes('\n')
		if len(bytes.TrimSpace(line)) > 0 {
			var sc Scenario
			if jerr := json.Unmarshal(line, &sc); jerr != nil {
				fmt.Fprintf(os.Stderr, "bad scenario: %v\n", jerr)
				os.Exit(3)
			}
			res := runScenario(&sc)
			// new race reports since the last scenario (GORACE log_path=<racePath>, file <racePath>.<pid>)
			if racePath != "" {
				if b, rerr := os.ReadFile(fmt.Sprintf("%s.%d", racePath, os.Getpid())); rerr == nil && int64(len(b)) > raceOff {
					res.Race = trunc(string(b[raceOff:]), 6000)
					raceOff = int64(len(b))
				}
			}
			b, _ := json.Marshal(res)
			out.Write(b)
			out.WriteByte('\n')
			out.Flush()
		}
		if err != nil {
			return
		}
	}
}
