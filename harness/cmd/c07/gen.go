package main

// Concurrent requests against GENERATED code (the "exec" probe, regenerated
// from the tree's templates, built with -race): the command "c07" of the probe
// (harness/ur/c07_cmd.go) serves the generated executable schema through real
// handler.Servers and compares every answer with the answer to the same request
// served alone by a fresh server.
//
//   - gated: three requests in flight, driven through EVERY order of their
//     Execute / Write steps that TLC prints for MC_HttpStateHeld (a response is
//     held between its execution and its write while the others execute), with
//     GOMAXPROCS(1) so that a sync.Pool hands an object put back by one request
//     to the next request that asks;
//   - free: 8 clients, no gates, every third response held for a few yields;
//   - sentinel: a deterministic field function that returns one and the same
//     *gqlerror.Error value (a package-level sentinel) at different response
//     paths in successive / simultaneous requests.

import (
	"encoding/json"
	"fmt"
	"math/rand"
	"os"
	"sort"
	"strings"
	"sync"
	"time"

	"verifharness/ur"
	"verifharness/vlib"
)

type genStats struct {
	Variants        []string       `json:"variants"`
	Schedules       int            `json:"schedules_three_in_flight"`
	Requests        int64          `json:"requests"`
	Runs            int64          `json:"runs"`
	Gated           int64          `json:"gated_requests"`
	Held            int64          `json:"executions_while_another_response_was_held"`
	Free            int64          `json:"free_running_requests"`
	Yields          int64          `json:"free_running_responses_held_by_yielding"`
	Sentinel        int64          `json:"sentinel_requests"`
	Operations      int            `json:"operations"`
	RequestsPerVar  int            `json:"distinct_requests"`
	DistinctAnswers int            `json:"distinct_alone_answers"`
	AnswerBytes     [2]int         `json:"alone_answer_bytes_min_max"`
	Diffs           map[string]int `json:"answers_differing_from_alone"`
	RaceReports     int            `json:"race_reports"`
	WallS           float64        `json:"wall_s"`
	Classes         []string       `json:"-"`
	Sample          any            `json:"-"`
}

func genVariants(thorough bool) []vlib.Variant {
	vs := vlib.ExecVariants(false)[:2] // v0: single file (generated!.gotpl); v1: follow-schema (root_.gotpl), custom root names
	if thorough {
		vs = vlib.ExecVariants(false)
	}
	out := make([]vlib.Variant, len(vs))
	for i, v := range vs {
		v.Race = true
		out[i] = v
	}
	return out
}

// schedules: every maximal path of the schedule graph TLC printed (state =
// phase per slot, edge = Execute / Write of one slot) from "nothing executed"
// to "everything written".
func schedules(edges []vlib.Edge) [][]ur.C07Ev {
	out := map[string][]vlib.Edge{}
	for _, e := range edges {
		out[e.S] = append(out[e.S], e)
	}
	init := `["pre","pre","pre"]`
	if len(out[init]) == 0 {
		vlib.Infra("schedule graph: no edge leaves %s", init)
	}
	var res [][]ur.C07Ev
	var walk func(s string, acc []ur.C07Ev)
	walk = func(s string, acc []ur.C07Ev) {
		es := out[s]
		if len(es) == 0 {
			res = append(res, append([]ur.C07Ev{}, acc...))
			return
		}
		sort.Slice(es, func(i, j int) bool { return string(es[i].A) < string(es[j].A) })
		for _, e := range es {
			var l ur.C07Ev
			if err := json.Unmarshal(e.A, &l); err != nil || l.Slot < 1 {
				vlib.Infra("schedule edge label %s: %v", e.A, err)
			}
			walk(e.T, append(acc, l))
		}
	}
	walk(init, nil)
	for _, s := range res {
		if len(s) != 6 {
			vlib.Infra("schedule graph: a maximal path has %d steps, expected 6 (three requests, Execute and Write each): %v", len(s), s)
		}
	}
	if len(res) != 90 {
		vlib.Infra("schedule graph: %d maximal paths, expected 90 (6!/2^3)", len(res))
	}
	return res
}

// overlaps: does some request execute while another one's response is held?
func overlaps(s []ur.C07Ev) bool {
	ex, wr := map[int]bool{}, map[int]bool{}
	for _, e := range s {
		if e.Ev == "Execute" {
			for k := range ex {
				if !wr[k] {
					return true
				}
			}
			ex[e.Slot] = true
		} else {
			wr[e.Slot] = true
		}
	}
	return false
}

func schedName(s []ur.C07Ev) string {
	var sb strings.Builder
	for _, e := range s {
		sb.WriteString(e.Ev[:1])
		fmt.Fprint(&sb, e.Slot)
	}
	return sb.String()
}

// sentinelReqs: the same sentinel error at different response paths (alias,
// list index) in successive requests.
func sentinelReqs() ([]ur.C07Req, [][]int, [][]int) {
	reqs := []ur.C07Req{
		{Method: "POST", Query: `{ x1: s }`, Sentinel: []string{"x1"}},
		{Method: "POST", Query: `{ x2: s }`, Sentinel: []string{"x2"}},
		{Method: "POST", Query: `{ as { s } }`, Sentinel: []string{"as.0.s"}},
		{Method: "GET", Query: `{ as { s } }`, Sentinel: []string{"as.1.s"}},
		{Method: "POST", Query: `{ x1: s x3: i }`, Sentinel: []string{"x1"}},
	}
	seq := [][]int{{0, 1}, {1, 0}, {2, 3}, {3, 2}, {0, 2, 1}, {0, 0}, {0, 4}}
	burst := [][]int{{0, 1, 2, 3}, {1, 0, 3, 2}, {3, 2, 1, 0}, {2, 1, 0, 3}}
	return reqs, seq, burst
}

func runGenerated(c *vlib.Check, bins map[string]string, vs []vlib.Variant, scheds [][]ur.C07Ev, rng *rand.Rand, thorough bool) genStats {
	t0 := time.Now()
	gs := genStats{Diffs: map[string]int{}, Schedules: len(scheds)}
	first := bins[vs[0].ID()]
	schema, _, err := vlib.FetchSchema(first)
	if err != nil {
		vlib.Infra("schema of the exec probe: %v", err)
	}
	// operations + fault-free baseline (positions and Go types for the plans)
	nOps := 18
	if thorough {
		nOps = 40
	}
	var base []*vlib.Scenario
	for i := 0; i < nOps; i++ {
		kind := "query"
		if i%4 == 3 {
			kind = "mutation"
		}
		op := vlib.GenOp(schema, rng, vlib.GenOpts{Depth: 1 + rng.Intn(3), MaxFields: 2 + rng.Intn(4), Skip: true, Frags: true, Kind: kind,
			Avoid: []string{"withArgs", "argd", "arg", "mat", "boomArg", "boomOut", "boom"}})
		base = append(base, &vlib.Scenario{ID: fmt.Sprintf("C07-op%d", i), Op: op, Query: op.Render(), Vars: op.Vars, Variant: vs[0].ID()})
	}
	if err := vlib.RunScenarios(first, base, 2, []string{"GORACE=halt_on_error=0 exitcode=0"}); err != nil {
		vlib.Infra("baseline run of the generated operations: %v", err)
	}
	var reqs []ur.C07Req
	for i, b := range base {
		if b.Result == nil {
			vlib.Infra("probe died on fault-free operation %s\n%s", b.Query, tail(b.Stderr, 1500))
		}
		if len(b.Result.GateErrs) > 0 {
			vlib.Infra("generated operation rejected by validation: %s: %v", b.Query, b.Result.GateErrs)
		}
		method := "POST"
		if b.Op.Kind == "query" && i%3 == 1 {
			method = "GET"
		}
		accept := []string{"", "application/graphql-response+json", "application/json"}[i%3]
		reqs = append(reqs, ur.C07Req{Method: method, Query: b.Query, Vars: b.Vars, Accept: accept})
		reqs = append(reqs, ur.C07Req{Method: "POST", Query: b.Query, Vars: b.Vars, Plan: vlib.C07DerivePlan(schema, b.Result, rng, 30)})
	}
	gs.Operations = nOps
	gs.RequestsPerVar = len(reqs)
	// schedules x request triples: every order of Execute / Write twice, with different requests
	var cs []ur.C07Sched
	rounds := 3
	if thorough {
		rounds = 8
	}
	for r := 0; r < rounds; r++ {
		for _, s := range scheds {
			p := rng.Perm(len(reqs))
			cs = append(cs, ur.C07Sched{Reqs: []int{p[0], p[1], p[2]}, Evs: s})
		}
	}
	nOverlap := 0
	for _, s := range scheds {
		if overlaps(s) {
			nOverlap++
		}
	}
	if nOverlap == 0 {
		vlib.Infra("vacuous: no schedule executes a request while another response is held")
	}
	sreqs, sseq, sburst := sentinelReqs()
	freeRounds := 120
	if thorough {
		freeRounds = 600
	}

	var mu sync.Mutex
	var wg sync.WaitGroup
	for _, v := range vs {
		wg.Add(1)
		go func(v vlib.Variant) {
			defer wg.Done()
			id := v.ID()
			p, err := vlib.StartProc(bins[id], []string{"GORACE=halt_on_error=0 exitcode=0"})
			if err != nil {
				vlib.Infra("start probe %s: %v", id, err)
			}
			call := func(cmd ur.C07Cmd) *ur.C07Res {
				cmd.Cmd = "c07"
				if err := p.Send(cmd); err != nil {
					vlib.Infra("probe %s (%s): %v\n%s", id, cmd.Mode, err, tail(p.Stderr, 1500))
				}
				var res ur.C07Res
				if err := p.Recv(&res, 5*time.Minute); err != nil {
					if strings.Contains(p.Stderr, "fatal error: concurrent map") {
						c.Violate("gen:server-crash:concurrent-map-access", fmt.Sprintf("probe %s died serving concurrent requests (%s):\n%s", id, cmd.Mode, tail(p.Stderr, 1500)), map[string]any{"variant": id, "mode": cmd.Mode})
						return nil
					}
					vlib.Infra("probe %s (%s): %v\n%s", id, cmd.Mode, err, tail(p.Stderr, 1500))
				}
				if res.Err != "" {
					// a harness-level stop; if answers already differed, that is the finding
					if res.NDiffs == 0 {
						vlib.Infra("probe %s (%s): %s", id, cmd.Mode, res.Err)
					}
					fmt.Fprintf(os.Stderr, "probe %s (%s) stopped early: %s\n", id, cmd.Mode, res.Err)
				}
				return &res
			}
			report := func(mode string, rq []ur.C07Req, res *ur.C07Res) {
				if res == nil {
					return
				}
				mu.Lock()
				defer mu.Unlock()
				gs.Requests += int64(res.Requests)
				gs.Runs += int64(res.Runs)
				for _, i := range res.Disagree {
					c.Violate("gen:fresh-servers-disagree", fmt.Sprintf("%s: two freshly constructed servers answer %s differently", id, rq[i].Query),
						map[string]any{"variant": id, "request": rq[i]})
				}
				if res.NDiffs > 0 {
					gs.Diffs[id+":"+mode] += res.NDiffs
				}
				for _, d := range res.Diffs {
					key := "gen:isolation{" + d.Where + "}"
					if len(rq[d.Req].Sentinel) > 0 {
						key = "gen:sentinel-error-path"
					}
					var how string
					switch {
					case d.Sched != nil:
						var qs []string
						for k, ri := range d.Sched.Reqs {
							qs = append(qs, fmt.Sprintf("slot %d: %s %s", k+1, rq[ri].Method, trunc(rq[ri].Query, 100)))
						}
						how = fmt.Sprintf("as the request of slot %d of three requests in flight, steps %s (E = execute, W = write; a response is held in between)\n  %s",
							d.Pos+1, schedName(d.Sched.Evs), strings.Join(qs, "\n  "))
					case d.Hist != nil:
						var qs []string
						for _, ri := range d.Hist {
							qs = append(qs, fmt.Sprintf("%s %s failing with the sentinel at %v", rq[ri].Method, trunc(rq[ri].Query, 100), rq[ri].Sentinel))
						}
						how = fmt.Sprintf("at position %d of a history on one server (%s)\n  %s", d.Pos, d.Where, strings.Join(qs, "\n  "))
					default:
						how = fmt.Sprintf("among 8 concurrent clients, round %d", d.Pos)
					}
					c.Violate(key, fmt.Sprintf("generated server %s: %s %s\nis answered\n  %d %s %s\nalone on a fresh server it is answered\n  %d %s %s\n%s",
						id, rq[d.Req].Method, trunc(rq[d.Req].Query, 200), d.Got.Status, d.Got.CType, trunc(d.Got.Body, 400), d.Want.Status, d.Want.CType, trunc(d.Want.Body, 400), how),
						map[string]any{"variant": id, "mode": mode, "request": rq[d.Req], "diff": d, "requests": rq})
				}
			}
			// race detector reports of the current probe process, one finding class per function. In the
			// process that serves only the sentinel requests a report whose other stack could not be
			// restored is attributed to the one write there is (graphql.ErrorOnPath).
			races := func(sentinelProc bool) {
				p.Close()
				p.Kill() // collects stderr
				for _, blk := range strings.Split(p.Stderr, "==================") {
					if !strings.Contains(blk, "WARNING: DATA RACE") {
						continue
					}
					mu.Lock()
					gs.RaceReports++
					mu.Unlock()
					key := "gen:data-race"
					for _, fn := range [][2]string{{"graphql.ErrorOnPath", "graphql.ErrorOnPath"}, {"CollectFields", "CollectFields"}, {"collectFields", "CollectFields"},
						{"executableSchema).Exec", "generated.Exec"}, {"bytes.(*Buffer)", "bytes.Buffer"}, {"transport.writeJson", "transport.writeJson"},
						{"mergeHeaders", "mergeHeaders"}, {"transport.POST", "transport.POST"}, {"transport.GET", "transport.GET"}, {"executor.", "executor"}} {
						if strings.Contains(blk, fn[0]) {
							key = "gen:data-race:" + fn[1]
							break
						}
					}
					if sentinelProc && key != "gen:data-race:graphql.ErrorOnPath" && strings.Contains(blk, "failed to restore the stack") {
						key = "gen:data-race:graphql.ErrorOnPath"
					}
					c.Violate(key, fmt.Sprintf("the race detector reported a data race in generated server %s serving concurrent requests:\n%s", id, trunc(strings.TrimSpace(blk), 1400)),
						map[string]any{"variant": id, "race_report": trunc(blk, 6000)})
				}
			}
			// 1. gated: every order of Execute / Write of three requests in flight
			res := call(ur.C07Cmd{ID: id + "-gated", Mode: "gated", Procs: 1, Reqs: reqs, Scheds: cs, ServerPer: 30})
			report("gated", reqs, res)
			if res != nil {
				mu.Lock()
				gs.Gated += int64(res.Requests)
				gs.Held += int64(res.Held)
				if id == vs[0].ID() {
					seen := map[string]bool{}
					lo, hi := 1<<30, 0
					for _, a := range res.Alone {
						seen[a.Body] = true
						if len(a.Body) < lo {
							lo = len(a.Body)
						}
						if len(a.Body) > hi {
							hi = len(a.Body)
						}
					}
					gs.DistinctAnswers, gs.AnswerBytes = len(seen), [2]int{lo, hi}
					if len(cs) > 0 {
						k := len(cs) / 3
						gs.Sample = map[string]any{"generated_variant": id, "steps": schedName(cs[k].Evs),
							"requests": []string{reqs[cs[k].Reqs[0]].Query, reqs[cs[k].Reqs[1]].Query, reqs[cs[k].Reqs[2]].Query}}
					}
				}
				mu.Unlock()
				if res.Err == "" && res.Held == 0 {
					vlib.Infra("vacuous: probe %s never executed a request while another response was held", id)
				}
			}
			// 2. free-running
			if !p.Died {
				early := res
				res = call(ur.C07Cmd{ID: id + "-free", Mode: "free", Procs: 4, Reqs: reqs, Clients: 8, Rounds: freeRounds, HoldEvery: 3})
				report("free", reqs, res)
				// the alone-oracle is asked again by every command: a fresh server's answer must not
				// depend on what OTHER servers of the process served in between (package-level memory)
				if res != nil && early != nil && len(res.Alone) == len(early.Alone) {
					for i := range res.Alone {
						if res.Alone[i] != early.Alone[i] {
							c.Violate("gen:fresh-servers-disagree", fmt.Sprintf("generated server %s: %s %s\nalone on a fresh server before the process served the concurrent schedules:\n  %d %s %s\nalone on a fresh server afterwards:\n  %d %s %s",
								id, reqs[i].Method, trunc(reqs[i].Query, 200), early.Alone[i].Status, early.Alone[i].CType, trunc(early.Alone[i].Body, 400), res.Alone[i].Status, res.Alone[i].CType, trunc(res.Alone[i].Body, 400)),
								map[string]any{"variant": id, "request": reqs[i]})
							break
						}
					}
				}
				if res != nil {
					mu.Lock()
					gs.Free += int64(res.Requests)
					gs.Yields += int64(res.Yields)
					mu.Unlock()
				}
			}
			// 3. one sentinel error value at different paths: successive requests, then simultaneous ones -
			// in a process of its own, so that its race reports cannot be confused with others
			races(false)
			if p, err = vlib.StartProc(bins[id], []string{"GORACE=halt_on_error=0 exitcode=0"}); err != nil {
				vlib.Infra("start probe %s: %v", id, err)
			}
			if !p.Died {
				res = call(ur.C07Cmd{ID: id + "-sentinel", Mode: "seq", Procs: 1, Reqs: sreqs, Hists: sseq})
				report("sentinel-seq", sreqs, res)
				if res != nil {
					for i, a := range res.Alone { // non-vacuity: the sentinel really is the error of the answer, at the named path
						if !strings.Contains(a.Body, `"message":"E:sentinel"`) || !strings.Contains(a.Body, `"code":"NOT_FOUND"`) {
							vlib.Infra("vacuous: probe %s answers the sentinel request %s without the sentinel error: %s", id, sreqs[i].Query, trunc(a.Body, 300))
						}
					}
				}
				n := 0
				if res != nil {
					n += res.Requests
				}
				if !p.Died {
					res = call(ur.C07Cmd{ID: id + "-sentinel-burst", Mode: "burst", Procs: 4, Reqs: sreqs, Hists: sburst})
					report("sentinel-burst", sreqs, res)
					if res != nil {
						n += res.Requests
					}
				}
				mu.Lock()
				gs.Sentinel += int64(n)
				mu.Unlock()
			}
			races(true)
		}(v)
		gs.Variants = append(gs.Variants, v.ID())
	}
	wg.Wait()
	for _, v := range vs {
		for _, s := range scheds {
			gs.Classes = append(gs.Classes, "gen|"+v.ID()+"|"+schedName(s))
		}
	}
	gs.WallS = time.Since(t0).Seconds()
	return gs
}

func trunc(s string, n int) string {
	if len(s) > n {
		return s[:n] + "..."
	}
	return s
}

// replayGenerated re-runs one recorded finding of the generated-code phase:
// the schedule (20 times: a sync.Pool drops objects at random under -race) or
// the history of the recorded difference, on the recorded generator variant.
func replayGenerated(c *vlib.Check, b []byte) {
	var f struct {
		Scenario struct {
			Variant  string      `json:"variant"`
			Mode     string      `json:"mode"`
			Requests []ur.C07Req `json:"requests"`
			Diff     *ur.C07Diff `json:"diff"`
			Request  *ur.C07Req  `json:"request"`
		} `json:"scenario"`
	}
	if err := json.Unmarshal(b, &f); err != nil || f.Scenario.Diff == nil || len(f.Scenario.Requests) == 0 {
		vlib.Infra("replay: the file does not hold a scenario of the generated-code phase (%v)", err)
	}
	var v *vlib.Variant
	for _, cand := range genVariants(true) {
		if cand.ID() == f.Scenario.Variant {
			cc := cand
			v = &cc
		}
	}
	if v == nil {
		vlib.Infra("replay: unknown generator variant %q", f.Scenario.Variant)
	}
	bin, err := vlib.BuildProbe("exec", *v)
	if err != nil {
		vlib.Infra("replay: %v", err)
	}
	p, err := vlib.StartProc(bin, []string{"GORACE=halt_on_error=0 exitcode=0"})
	if err != nil {
		vlib.Infra("replay: %v", err)
	}
	defer p.Close()
	d := f.Scenario.Diff
	cmd := ur.C07Cmd{Cmd: "c07", ID: "replay", Reqs: f.Scenario.Requests}
	switch {
	case d.Sched != nil:
		cmd.Mode, cmd.Procs = "gated", 1
		for i := 0; i < 20; i++ {
			cmd.Scheds = append(cmd.Scheds, *d.Sched)
		}
	case d.Hist != nil:
		cmd.Mode, cmd.Procs, cmd.Hists = d.Where, 1, [][]int{d.Hist}
		if d.Where == "burst" {
			cmd.Procs = 4
			for i := 0; i < 20; i++ {
				cmd.Hists = append(cmd.Hists, d.Hist)
			}
		}
	default:
		cmd.Mode, cmd.Procs, cmd.Clients, cmd.Rounds, cmd.HoldEvery = "free", 4, 8, 300, 3
	}
	if err := p.Send(cmd); err != nil {
		vlib.Infra("replay: %v", err)
	}
	var res ur.C07Res
	if err := p.Recv(&res, 5*time.Minute); err != nil {
		vlib.Infra("replay: %v\n%s", err, tail(p.Stderr, 1500))
	}
	if res.Err != "" && res.NDiffs == 0 {
		vlib.Infra("replay: %s", res.Err)
	}
	fmt.Printf("replayed on %s (%s): %d requests, %d answers differ from the fresh-server answer\n", v.ID(), cmd.Mode, res.Requests, res.NDiffs)
	for _, x := range res.Diffs {
		key := "gen:isolation{" + x.Where + "}"
		if len(cmd.Reqs[x.Req].Sentinel) > 0 {
			key = "gen:sentinel-error-path"
		}
		c.Violate(key, fmt.Sprintf("generated server %s: %s %s\nis answered\n  %d %s %s\nalone on a fresh server it is answered\n  %d %s %s", v.ID(), cmd.Reqs[x.Req].Method,
			trunc(cmd.Reqs[x.Req].Query, 200), x.Got.Status, x.Got.CType, trunc(x.Got.Body, 400), x.Want.Status, x.Want.CType, trunc(x.Want.Body, 400)), nil)
	}
	c.AddTraces(int64(res.Runs))
	c.AddEvals(int64(res.Requests))
	c.Class("replay")
	c.Sample(map[string]any{"replay": "generated", "variant": v.ID(), "mode": cmd.Mode})
	c.Finish()
}
