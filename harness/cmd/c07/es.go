package main

import (
	"bytes"
	"context"
	"encoding/json"
	"fmt"
	"sort"

	"github.com/vektah/gqlparser/v2"
	"github.com/vektah/gqlparser/v2/ast"

	"github.com/99designs/gqlgen/graphql"
)

const schemaSDL = `
type Query {
	opName: String
	vars: String
	exts: String
	hdr(name: String!): String
	echo(s: String, n: Int): String
	node: Node
}
type Node { id: ID! name: String child: Node }
type Mutation { set(s: String): String }
type Subscription { tick(s: String, n: Int): String ticks(s: String, n: Int): String }
`

// The two valid query texts and the invalid one of the model (Q1, Q2, QX).
// They use fragments, @skip/@include driven by variables, aliases and
// default values, so that a cached document that was mutated by one request
// or a variable that leaked from another shows in the response.
const (
	textQ1 = `query A($s: String = "dflt", $f: Boolean = false) { opName vars exts h: hdr(name: "X-Req") e1: echo(s: $s) node { id ...N @include(if: $f) child { id } } ...F @skip(if: $f) } query B($s: String) { opName b: echo(s: $s, n: 2) ...F } fragment F on Query { fe: echo(s: "frag") e1: echo(s: $s) node { name child { name } } } fragment N on Node { name }`
	textQ2 = `query A($s: String, $f: Boolean = false) { opName vars exts h: hdr(name: "X-Req") z: echo(s: $s) ... @include(if: $f) { inc: echo(s: "included") } node { ...N i2: id x: name } node { child { id } } } fragment N on Node { id nm: name }`
	textQX = `query A { opName nosuchfield }`
)

var schema = gqlparser.MustLoadSchema(&ast.Source{Input: schemaSDL})

func canon(v any) string {
	b, err := json.Marshal(v) // map keys are sorted
	if err != nil {
		return "!" + err.Error()
	}
	return string(b)
}

// executableSchema is a deterministic hand-written ExecutableSchema that goes
// through the runtime's own graphql.CollectFields and ast.Field.ArgumentMap
// (like generated code) and whose resolvers echo everything a request
// carries: operation name, coerced variables, extensions, a request header,
// field arguments.
func executableSchema() graphql.ExecutableSchema {
	return &graphql.ExecutableSchemaMock{
		SchemaFunc: func() *ast.Schema { return schema },
		ComplexityFunc: func(ctx context.Context, typeName, fieldName string, childComplexity int, args map[string]any) (int, bool) {
			return 1, true
		},
		ExecFunc: func(ctx context.Context) graphql.ResponseHandler {
			opCtx := graphql.GetOperationContext(ctx)
			op := opCtx.Operation
			root := map[ast.Operation]string{ast.Query: "Query", ast.Mutation: "Mutation", ast.Subscription: "Subscription"}[op.Operation]
			if op.Operation == ast.Subscription {
				if fs := graphql.CollectFields(opCtx, op.SelectionSet, []string{root}); len(fs) == 1 && fs[0].Name == "ticks" {
					return ticks(ctx, opCtx, fs[0])
				}
			}
			done := false
			return func(ctx context.Context) *graphql.Response {
				if done {
					return nil
				}
				done = true
				var buf bytes.Buffer
				execObject(&buf, opCtx, root, op.SelectionSet, 0)
				return &graphql.Response{Data: buf.Bytes()}
			}
		},
	}
}

func execObject(buf *bytes.Buffer, opCtx *graphql.OperationContext, typeName string, sel ast.SelectionSet, depth int) {
	fields := graphql.CollectFields(opCtx, sel, []string{typeName})
	buf.WriteByte('{')
	for i, f := range fields {
		if i > 0 {
			buf.WriteByte(',')
		}
		k, _ := json.Marshal(f.Alias)
		buf.Write(k)
		buf.WriteByte(':')
		args := f.ArgumentMap(opCtx.Variables)
		str := func(s string) { b, _ := json.Marshal(s); buf.Write(b) }
		switch typeName + "." + f.Name {
		case "Query.__typename", "Node.__typename", "Mutation.__typename", "Subscription.__typename":
			str(typeName)
		case "Query.opName":
			str(opCtx.OperationName + "/" + opCtx.Operation.Name)
		case "Query.vars":
			str(canon(opCtx.Variables))
		case "Query.exts":
			str(canon(opCtx.Extensions))
		case "Query.hdr":
			name, _ := args["name"].(string)
			str(canon(opCtx.Headers.Values(name)))
		case "Query.echo", "Mutation.set", "Subscription.tick":
			keys := make([]string, 0, len(args))
			for k := range args {
				keys = append(keys, k)
			}
			sort.Strings(keys)
			s := ""
			for _, k := range keys {
				s += fmt.Sprintf("%s=%v;", k, args[k])
			}
			str(s)
		case "Query.node", "Node.child":
			if depth > 3 {
				buf.WriteString("null")
			} else {
				execObject(buf, opCtx, "Node", f.Selections, depth+1)
			}
		case "Node.id":
			str(fmt.Sprintf("n%d", depth))
		case "Node.name":
			str(fmt.Sprintf("node-%d", depth))
		default:
			buf.WriteString("null")
		}
	}
	buf.WriteByte('}')
}

// ticks is a subscription source with n events: `ticks(s: tag, n: n)` answers
// {"<alias>":"s=<tag>;n=<n>;#<k>"} for k = 1..n and then ends. What it answers
// is a function of the request alone; WHEN it answers is up to the test: on a
// connection that carries a gate set (ws.go) event k waits for the gate
// (tag, "e<k>") and the end of the stream for (tag, "close").
func ticks(ctx context.Context, opCtx *graphql.OperationContext, f graphql.CollectedField) graphql.ResponseHandler {
	args := f.ArgumentMap(opCtx.Variables)
	tag, _ := args["s"].(string)
	n := 0
	switch v := args["n"].(type) {
	case int64:
		n = int(v)
	case int:
		n = v
	}
	var g *gateSet
	if rec, _ := ctx.Value(recKey{}).(*reqRec); rec != nil {
		g = rec.gateSet()
	}
	g.open(tag, "started")
	k := 0
	return func(ctx context.Context) *graphql.Response {
		if k >= n {
			g.wait(ctx, tag, "close")
			return nil
		}
		k++
		if !g.wait(ctx, tag, fmt.Sprintf("e%d", k)) {
			return nil // the connection is gone
		}
		key, _ := json.Marshal(f.Alias)
		val, _ := json.Marshal(fmt.Sprintf("s=%s;n=%d;#%d", tag, n, k))
		return &graphql.Response{Data: []byte("{" + string(key) + ":" + string(val) + "}")}
	}
}
