package main

import (
	"context"
	"fmt"
	"io"
	"log"
	"net/http"
	"net/http/httptest"
	"sync"

	"github.com/vektah/gqlparser/v2/ast"
	"github.com/vektah/gqlparser/v2/gqlerror"

	"github.com/99designs/gqlgen/graphql"
	"github.com/99designs/gqlgen/graphql/handler"
	"github.com/99designs/gqlgen/graphql/handler/extension"
	"github.com/99designs/gqlgen/graphql/handler/lru"
	"github.com/99designs/gqlgen/graphql/handler/transport"
)

// Seen is what the logging OperationParameterMutator saw: the parameter
// object handed to CreateOperationContext, before any other extension.
type Seen struct {
	Ptr   string `json:"ptr"` // address of the *RawParams (pool reuse shows as equal addresses)
	Query string `json:"query"`
	Opn   string `json:"operationName"`
	Vars  string `json:"variables"`  // canonical JSON
	Ext   string `json:"extensions"` // canonical JSON
	XReq  string `json:"x_req"`      // canonical JSON of Headers["X-Req"]
}

// reqRec collects the mutator entries of one HTTP request (or of one
// websocket connection: its operations run in the handshake's context).
type reqRec struct {
	mu    sync.Mutex
	seen  []Seen
	done  chan struct{}
	gates *gateSet // websocket connections of ws.go: test-released subscription events
}

func (r *reqRec) gateSet() *gateSet {
	r.mu.Lock()
	defer r.mu.Unlock()
	return r.gates
}

// gateSet: named one-shot gates. A nil set has every gate open.
type gateSet struct {
	mu sync.Mutex
	ch map[string]chan struct{}
}

func (g *gateSet) get(tag, name string) chan struct{} {
	g.mu.Lock()
	defer g.mu.Unlock()
	if g.ch == nil {
		g.ch = map[string]chan struct{}{}
	}
	k := tag + "/" + name
	if g.ch[k] == nil {
		g.ch[k] = make(chan struct{})
	}
	return g.ch[k]
}

func (g *gateSet) open(tag, name string) {
	if g == nil {
		return
	}
	ch := g.get(tag, name)
	select {
	case <-ch:
	default:
		close(ch)
	}
}

// wait returns false when ctx ended first.
func (g *gateSet) wait(ctx context.Context, tag, name string) bool {
	if g == nil {
		return true
	}
	select {
	case <-g.get(tag, name):
		return true
	case <-ctx.Done():
		return false
	}
}

type recKey struct{}

// paramLogger is the first extension of every server under test.
type paramLogger struct{}

var _ interface {
	graphql.HandlerExtension
	graphql.OperationParameterMutator
} = paramLogger{}

func (paramLogger) ExtensionName() string                          { return "VerifParamLogger" }
func (paramLogger) Validate(schema graphql.ExecutableSchema) error { return nil }
func (paramLogger) MutateOperationParameters(ctx context.Context, p *graphql.RawParams) *gqlerror.Error {
	rec, _ := ctx.Value(recKey{}).(*reqRec)
	if rec == nil {
		return nil
	}
	s := Seen{Ptr: fmt.Sprintf("%p", p), Query: p.Query, Opn: p.OperationName, Vars: canon(p.Variables), Ext: canon(p.Extensions),
		XReq: canon(p.Headers.Values("X-Req"))}
	rec.mu.Lock()
	rec.seen = append(rec.seen, s)
	rec.mu.Unlock()
	return nil
}

// liveServer is one REAL handler.Server with every transport, an LRU query
// cache and the APQ extension, behind a real net/http server.
type liveServer struct {
	ts    *httptest.Server
	store sync.Map // X-Verif-Id -> *reqRec
	cfg   string
	// the ResponseHeaders map each configurable transport was constructed with
	// (the harness' own objects: it may look at them afterwards)
	cfgMaps map[string]map[string][]string
}

// cfgHeaders are the server configurations of the model (CfgMap in
// spec/HttpState.tla): no ResponseHeaders, headers that do not name a
// Content-Type, headers with an explicit Content-Type.
func cfgHeaders(name string) map[string][]string {
	switch name {
	case "xsb":
		return map[string][]string{"X-Served-By": {"c07"}, "Vary": {"Accept"}}
	case "ct":
		return map[string][]string{"Content-Type": {"application/json; charset=utf-8"}, "X-Served-By": {"c07"}}
	}
	return nil
}

var confTr = []string{"GET", "POST", "GRAPHQL", "FORM", "MULTIPART"}

func newHandler(ls *liveServer) *handler.Server {
	ls.cfgMaps = map[string]map[string][]string{}
	for _, t := range confTr {
		ls.cfgMaps[t] = cfgHeaders(ls.cfg) // one map object per transport
	}
	srv := handler.New(executableSchema())
	srv.AddTransport(transport.Websocket{})
	srv.AddTransport(transport.Options{})
	srv.AddTransport(transport.SSE{})
	srv.AddTransport(transport.MultipartMixed{})
	srv.AddTransport(transport.GET{ResponseHeaders: ls.cfgMaps["GET"]})
	srv.AddTransport(transport.POST{ResponseHeaders: ls.cfgMaps["POST"]})
	srv.AddTransport(transport.GRAPHQL{ResponseHeaders: ls.cfgMaps["GRAPHQL"]})
	srv.AddTransport(transport.UrlEncodedForm{ResponseHeaders: ls.cfgMaps["FORM"]})
	srv.AddTransport(transport.MultipartForm{ResponseHeaders: ls.cfgMaps["MULTIPART"]})
	switch ls.cfg { // the query cache is part of the configuration (HasCache in the model)
	case "map":
		srv.SetQueryCache(graphql.MapCache[*ast.QueryDocument]{})
	case "nocache":
	default:
		srv.SetQueryCache(lru.New[*ast.QueryDocument](100))
	}
	srv.Use(paramLogger{})
	srv.Use(extension.AutomaticPersistedQuery{Cache: lru.New[string](100)})
	return srv
}

func startServer() *liveServer { return startServerCfg("") }

// configWritten names the transports whose configured ResponseHeaders map no
// longer holds what the server was constructed with.
func (ls *liveServer) configWritten() []string {
	var out []string
	for _, t := range confTr {
		if canon(ls.cfgMaps[t]) != canon(cfgHeaders(ls.cfg)) {
			out = append(out, t+": "+canon(ls.cfgMaps[t]))
		}
	}
	return out
}

func startServerCfg(cfg string) *liveServer {
	if cfg == "none" {
		cfg = ""
	}
	ls := &liveServer{cfg: cfg}
	srv := newHandler(ls)
	h := http.HandlerFunc(func(w http.ResponseWriter, r *http.Request) {
		rec := &reqRec{done: make(chan struct{})}
		if id := r.Header.Get("X-Verif-Id"); id != "" {
			ls.store.Store(id, rec)
		}
		defer close(rec.done)
		srv.ServeHTTP(w, r.WithContext(context.WithValue(r.Context(), recKey{}, rec)))
	})
	ls.ts = httptest.NewUnstartedServer(h)
	ls.ts.Config.ErrorLog = log.New(io.Discard, "", 0)
	ls.ts.Start()
	return ls
}

func (ls *liveServer) close() { ls.ts.Close() }
